"""Generation of system-call level cases (C03 footprint, C08, C09, C15 faults):
scenarios are set up with harness/storeop, each operation under test runs in a
fresh process under strace, optionally with one injected fault."""
import base64
import os
import random
import time
import shutil

import tracelib as tl
import vlib


def first_line_fields(content):
    line = content.split(b"\n", 1)[0]
    parts = line.split(b":")
    if len(parts) != 5:
        return None
    try:
        return {"fmt": parts[0], "ts": int(parts[1]), "pid": int(parts[2]),
                "salt": base64.urlsafe_b64decode(parts[3]), "dig": base64.urlsafe_b64decode(parts[4])}
    except Exception:
        return None


def coq_op(op):
    k = op[0]
    b = lambda s: tl.coq_bytes(s if isinstance(s, bytes) else s.encode("utf-8", "surrogateescape"))
    if k == "add":
        return "(OpAdd %s %s %s)" % (b(op[1]), b(op[2]), "true" if op[3] else "false")
    if k == "update":
        return "(OpUpdate %s %s)" % (b(op[1]), b(op[2]))
    if k == "setadmin":
        return "(OpSetAdmin %s %s)" % (b(op[1]), "true" if op[2] else "false")
    if k == "remove":
        return "(OpRemove %s)" % b(op[1])
    if k == "init":
        return "(OpInit %s %s)" % (b(op[1]), b(op[2]))
    if k == "auth":
        return "(OpAuth %s %s)" % (b(op[1]), b(op[2]))
    if k == "exists":
        return "(OpExists %s)" % b(op[1])
    return {"list": "OpList", "listfull": "OpListFull", "check": "OpCheck"}[k]


def op_args(op):
    k = op[0]
    if k == "add":
        return ["add", op[1], op[2], "true" if op[3] else "false"]
    if k == "update":
        return ["update", op[1], op[2]]
    if k == "setadmin":
        return ["setadmin", op[1], "x", "true" if op[2] else "false"]
    if k == "remove":
        return ["remove", op[1]]
    if k == "init":
        return ["init", op[1], op[2]]
    if k == "auth":
        return ["auth", op[1], op[2]]
    if k == "exists":
        return ["exists", op[1]]
    return [k, "-"]


def target_file(snap, user):
    for ext in (".admin", ".user"):
        if user + ext in snap and isinstance(snap[user + ext], bytes):
            return user + ext
    return None


class Scenario:
    """a prepared store that can be cloned for each traced run"""

    def __init__(self, rng, kind):
        self.st = tl.Store("trace")
        st = self.st
        self.kind = kind
        if kind != "empty":
            st.op("init", "root", "rootpw")
            st.op("add", "alice", "alicepw", "false")
            st.op("add", "bob", "bobpw", "true")
            st.op("add", "carol", "carolpw", "false")
            aux = {"small": b"totp: QUJDREVG\n", "nolf": b"u2f: " + b"x" * 5000,
                   # one line longer than any line-oriented reader's limit (64 KiB), followed by more lines
                   "longline": b"u2f: " + b"k" * 70000 + b"\ntotp: after-the-long-line\nlast: 1\n",
                   "big": b"".join(b"aux%05d: %s\n" % (i, b"y" * 90) for i in range(2000)),
                   "binary": bytes(range(256)) * 3, "none": b""}[kind if kind in ("small", "nolf", "big", "binary", "longline") else "none"]
            if aux:
                with open(os.path.join(st.base, "carol.user"), "ab") as f:
                    f.write(aux)
                with open(os.path.join(st.base, "bob.admin"), "ab") as f:
                    f.write(b"totp: Ym9i\n")
            if kind == "tmp-residue":
                open(os.path.join(st.base, ".tmp", "leftover"), "wb").write(b"residue")
                open(os.path.join(st.base, ".tmp", "ancient"), "wb").write(b"left by a writer killed long ago")
                os.utime(os.path.join(st.base, ".tmp", "ancient"), (time.time() - 40 * 86400, time.time() - 40 * 86400))
                # left-overs under names an implementation might derive from the user name, longer than
                # anything an update writes: they must neither be read nor shine through
                stale = b"".join(b"stale%03d: %s\n" % (i, b"z" * 50) for i in range(60))
                for u in ("alice", "dave"):
                    for nm in (u + ".new", u, u + ".user", u + ".tmp", u + ".user.tmp", "." + u, u + ".user.new"):
                        open(os.path.join(st.base, ".tmp", nm), "wb").write(stale)
            if kind == "dangling":
                # dangling symbolic links under the names of users that do not exist, pointing at places
                # outside the base directory whose parent exists (a sibling store, a decoy): stat says
                # "absent", an exclusive create says "exists"
                os.symlink("../other/ghost.user", os.path.join(st.base, "ghost.user"))
                os.symlink("../other/phantom.admin", os.path.join(st.base, "phantom.admin"))
            if kind == "no-tmp":
                shutil.rmtree(os.path.join(st.base, ".tmp"), ignore_errors=True)

    def clone(self):
        c = tl.Store.__new__(tl.Store)
        c.root = self.st.root + "-c%d" % random.getrandbits(40)
        shutil.copytree(self.st.root, c.root, symlinks=True)
        # the base path must stay identical to the one in the YAML: rewrite the config
        c.base = os.path.join(c.root, "base")
        c.cfg = os.path.join(c.root, "store.yaml")
        c.default = self.st.default
        c.write_cfg()
        return c

    def cleanup(self):
        self.st.cleanup()


def make_case(prop, st, op, before, after, res, fault, cls, outside_changed=None, sig=None):
    user = op[1] if len(op) > 1 else ""
    tf = target_file(after, user)
    if res["result"] != "ok" and tf is not None and before.get(tf) == after.get(tf):
        tf = None     # nothing was written: no time stamp / salt to hand to the model
    ts, salt, tab = 0, b"", []
    if tf and op[0] in ("add", "update", "init"):
        f = first_line_fields(after[tf])
        if f:
            ts, salt = f["ts"], f["salt"]
            h = st.hasher(f["pid"])
            if h:
                tab.append("(%s, %s, %s, Some %s)" % (h, tl.coq_bytes(salt), tl.coq_bytes(op[2].encode()), tl.coq_bytes(f["dig"])))
    tmpname = b""
    for e in res["events"]:
        if e[0] == "ECreate" and e[1][0] == "tmpfile":
            tmpname = e[1][1].encode()
    if not tmpname:
        for a in res["accesses"]:
            if a[0] == "KOpen" and a[1][0] == "tmpfile":
                tmpname = a[1][1].encode()
    orc = "{| o_ts := %d%%Z; o_salt := %s; o_tmp := %s; o_order := [] |}" % (ts, tl.coq_bytes(salt), tl.coq_bytes(tmpname))
    ft = "None"
    if fault:
        ft = "(Some {| f_kind := %s; f_occ := %d; f_errno := %s |})" % fault
    tables = "{| t_fails := []; t_kdf := [%s]; t_sha := []; t_known := [] |}" % "; ".join(tab)
    r = "ROk" if res["result"] == "ok" else "RErr"
    coq = "TraceCase %s %s %s %s %s %s %s %s %s" % (
        st.coq_cfg(), tables, tl.coq_dir(before), coq_op(op), orc, ft, r, tl.coq_dir(after), tl.coq_events(res["events"]))
    case = {"prop": prop, "kind": "trace", "class": cls, "nontrivial": len(res["events"]) > 0 or fault is not None or "invalid-name" in cls,
            "coq": coq,
            "human": {"op": [str(x) for x in op], "fault": fault, "result": res["result"], "detail": res["detail"][:200],
                      "events": [list(map(str, e)) for e in res["events"]],
                      "before": sorted(before.keys()), "after": sorted(after.keys())}}
    if sig:
        case["sig"] = sig
    viol = []
    if res["result"] in ("crash", "timeout"):
        viol.append("the operation crashed or hung: " + res["detail"][:300])
    if prop in ("C08", "C01") and op[0] in ("add", "update", "init"):
        # the theorems assume a FRESH temp file (tmp_fresh): it must be created exclusively, otherwise two
        # writers of one user (agent and command line, two agents) write into the same file and one of
        # them installs the other's record under its own acknowledgement
        for a in res["accesses"]:
            if a[0] == "KOpen" and a[1][0] == "tmpfile" and a[2] and "O_CREAT" in a[5] and "O_EXCL" not in a[5]:
                viol.append("the temp file %s is opened with O_CREAT but without O_EXCL (%s): concurrent writers of the same user share it"
                            % (a[1][1], a[5][:120]))
                break
    if op[0] in ("add", "init"):
        # the reservation of the final name is an EXCLUSIVE create (the event ECreate (LFile f) of the model):
        # without O_EXCL a dangling symbolic link under that name is followed - an object outside the base
        # directory is created - and two adds of one name are no longer mutually exclusive
        for a in res["accesses"]:
            if a[0] == "KOpen" and a[1][0] == "file" and "O_CREAT" in a[5] and "O_EXCL" not in a[5]:
                viol.append("the hash file %s is opened with O_CREAT but without O_EXCL (%s): the reservation is not exclusive "
                            "(a dangling symbolic link is followed; concurrent adds of one name both proceed)" % (a[1][1], a[5][:120]))
                break
    if prop == "C08" and op[0] in ("auth", "exists", "list", "listfull", "check"):
        # a reader in another process sees each record in ONE state (old or new) only if it reads the
        # file through one open: a second open of the same name may already be the writer's new file
        opens = {}
        for a in res["accesses"]:
            if a[0] == "KOpen" and a[1][0] == "file" and a[2]:
                opens[a[1][1]] = opens.get(a[1][1], 0) + 1
        twice = sorted(k for k, v in opens.items() if v > 1)
        if twice:
            viol.append("%s opens the hash file(s) %s more than once: a concurrent update's rename between the two opens "
                        "makes the reader combine fields of the old and of the new record" % (op[0], twice))
    if res["outside"]:
        viol.append("system calls on paths outside <base>: %s" % (res["outside"][:5],))
    if outside_changed:
        viol.append("objects outside the base directory were modified: %s" % (outside_changed,))
    if viol:
        case["violation"] = "; ".join(viol)
    return case


def traced(prop, scen, op, cls, fault=None, inject=None):
    st = scen.clone()
    try:
        before = st.snapshot()
        out0 = st.outside_digest()
        res = tl.run_traced(st, op_args(op), inject=inject)
        after = st.snapshot()
        out1 = st.outside_digest()
        changed = sorted(k for k in set(out0) | set(out1) if out0.get(k) != out1.get(k))
        return st, before, after, res, changed
    except Exception:
        st.cleanup()
        raise


BAD_NAMES = ["", "../other/eve", "x/../bob", "/etc/passwd", "-x", ".hidden", "_u", "@u", "a b", "bob\n", "a/b", "..", ".",
             "n" * 300, "ü"]


def gen_cases(prop, seed, tier, want_faults=False, want_bad_names=False, fault_ops_filter=None):
    tl.build_storeop()
    rng = random.Random(seed)
    random.seed(seed)
    cases = []
    kinds = ["plain", "small", "nolf", "binary", "longline", "tmp-residue", "no-tmp", "empty", "dangling"]
    if tier == "thorough":
        kinds.append("big")
    scens = {k: Scenario(rng, k) for k in kinds}
    try:
        ops_by_scen = {
            "plain": [("add", "dave", "davepw", False), ("add", "erin", "erinpw", True), ("update", "alice", "newpw"),
                      ("update", "bob", "newpw2"), ("setadmin", "alice", True), ("setadmin", "bob", False),
                      ("setadmin", "bob", True), ("remove", "alice"), ("remove", "bob"), ("remove", "nobody"),
                      ("add", "alice", "again", False), ("update", "nobody", "x"), ("setadmin", "nobody", True),
                      ("init", "second", "pw"), ("auth", "alice", "alicepw"), ("auth", "alice", "wrong"),
                      ("exists", "alice"), ("list",), ("listfull",), ("check",)],
            "small": [("update", "carol", "pw2"), ("update", "bob", "pw3"), ("setadmin", "carol", True), ("remove", "carol")],
            "nolf": [("update", "carol", "pw2"), ("setadmin", "carol", True)],
            "binary": [("update", "carol", "pw2")],
            "longline": [("update", "carol", "pw2"), ("auth", "carol", "carolpw")],
            "big": [("update", "carol", "pw2")],
            "tmp-residue": [("add", "dave", "davepw", False), ("update", "alice", "pw9"), ("check",), ("list",), ("listfull",),
                            ("auth", "alice", "alicepw"), ("exists", "alice")],
            "no-tmp": [("add", "dave", "davepw", False), ("update", "alice", "pw9")],
            # (exists / set-admin are left out: stat follows the link, the model's directory does not)
            "dangling": [("add", "ghost", "ghostpw", False), ("add", "phantom", "phantompw", True), ("update", "ghost", "pw2"),
                         ("auth", "ghost", "ghostpw"), ("add", "dave", "davepw", False)],
            "empty": [("init", "root", "rootpw"), ("add", "first", "pw", False), ("check",)],
        }
        for k, ops in ops_by_scen.items():
            if k not in scens:
                continue
            for op in ops:
                st, before, after, res, changed = traced(prop, scens[k], op, k)
                cases.append(make_case(prop, st, op, before, after, res, None, "trace/%s/%s" % (k, op[0]), changed))
                st.cleanup()
        if want_bad_names:
            names = BAD_NAMES if tier == "thorough" else BAD_NAMES[:11]
            for nm in names:
                for op in [("add", nm, "pw", False), ("update", nm, "pw"), ("setadmin", nm, True), ("remove", nm),
                           ("auth", nm, "pw"), ("exists", nm)]:
                    if "\x00" in nm:
                        continue
                    st, before, after, res, changed = traced(prop, scens["plain"], op, "bad")
                    cases.append(make_case(prop, st, op, before, after, res, None, "trace/invalid-name/%s" % op[0], changed))
                    st.cleanup()
        if want_faults:
            fault_ops = [("plain", ("add", "dave", "davepw", False)), ("no-tmp", ("add", "dave", "davepw", True)),
                         ("small", ("update", "carol", "pw2")), ("plain", ("update", "bob", "pw3")),
                         ("plain", ("setadmin", "alice", True)), ("plain", ("remove", "alice"))]
            errnos = tl.ERRNOS
            if fault_ops_filter:
                fault_ops = [fo for fo in fault_ops if fo[1][0] in fault_ops_filter]
            for k, op in fault_ops:
                # calibration: which tracked calls does the operation make?
                st, before, after, res, changed = traced(prop, scens[k], op, k)
                st.cleanup()
                seq = [(a[0], a[1]) for a in res["accesses"]]
                bc = res["before_counts"]
                occ = {}
                renamed_at = None
                plan = []
                for idx, (kind, loc) in enumerate(seq):
                    j = occ.get(kind, 0)
                    occ[kind] = j + 1
                    if kind == "KRename" and renamed_at is None:
                        renamed_at = idx
                    plan.append((idx, kind, j, loc))
                for idx, kind, j, loc in plan:
                    es = errnos if tier == "thorough" else [errnos[(idx + len(op[1])) % 4], errnos[(idx + 1) % 4]]
                    es = list(dict.fromkeys(es + tl.KIND_ERRNOS.get(kind, [])))
                    for e in es:
                        sysc = tl.KIND_SYSCALL[kind]
                        when = bc.get(sysc, 0) + j + 1
                        st, before, after, res2, changed = traced(prop, scens[k], op, k, inject=(sysc, e, when))
                        inj = [a for a in res2["accesses"] if a[3]]
                        if len(inj) != 1 or inj[0][0] != kind:
                            # the fault did not land on a tracked call of this kind (startup noise): skip this one
                            st.cleanup()
                            continue
                        # the number of runtime-internal calls before the operation varies a little between
                        # processes: describe the fault by the call it actually hit
                        same_kind = [a for a in res2["accesses"] if a[0] == kind]
                        j_actual = [i for i, a in enumerate(same_kind) if a[3]][0]
                        j = j_actual
                        sig = None
                        renamed = any(ev[0] == "ERename" and ev[2][0] == "file" for ev in res2["events"])
                        if op[0] in ("update", "setadmin") and renamed and res2["result"] == "err":
                            sig = ("%s: an I/O error in the open/fsync of the base directory that follows the rename is reported as failure "
                                   "although the rename has already taken effect" % op[0])
                        unlinked = any(ev[0] == "EUnlink" and ev[1][0] == "file" for ev in res2["events"])
                        if op[0] == "remove" and unlinked and res2["result"] == "err":
                            sig = ("remove: an I/O error in the open/fsync of the base directory (or in removing the second file) that follows "
                                   "an unlink is reported as failure although that unlink has already taken effect")
                        cases.append(make_case(prop, st, op, before, after, res2, (kind, j, e),
                                               "fault/%s/%s" % (op[0], kind), changed, sig=sig))
                        st.cleanup()
    finally:
        for s in scens.values():
            s.cleanup()
    return cases


def gen_kill_cases(prop, seed, tier):
    """add / update killed (SIGKILL) on entering every tracked system call; the directory left behind, and
    what `check` says about it, go to Run/C08k"""
    tl.build_storeop()
    rng = random.Random(seed)
    random.seed(seed)
    cases = []
    kinds = ["plain", "small", "no-tmp"] + (["nolf", "binary", "tmp-residue"] if tier == "thorough" else [])
    scens = {k: Scenario(rng, k) for k in kinds}
    try:
        kill_ops = [("plain", ("add", "dave", "davepw", False)), ("no-tmp", ("add", "dave", "davepw", True)),
                    ("small", ("update", "carol", "pw2")), ("plain", ("update", "bob", "pw3"))]
        if tier == "thorough":
            kill_ops += [("nolf", ("update", "carol", "pw2")), ("binary", ("update", "carol", "pw2")), ("tmp-residue", ("add", "dave", "davepw", False))]
        for k, op in kill_ops:
            st, before, after, res, changed = traced(prop, scens[k], op, k)
            st.cleanup()
            bc = res["before_counts"]
            occ = {}
            plan = []
            for (kind, loc) in [(a[0], a[1]) for a in res["accesses"]]:
                j = occ.get(kind, 0)
                occ[kind] = j + 1
                plan.append((kind, j))
            for kind, j in plan:
                sysc = tl.KIND_SYSCALL[kind]
                when = bc.get(sysc, 0) + j + 1
                st, before, after, res2, changed = traced(prop, scens[k], op, k, inject=(sysc, "signal=SIGKILL", when))
                if res2["result"] != "crash":
                    st.cleanup()
                    continue      # the kill did not land inside the operation
                # what the consistency check says about the directory the kill left behind
                r = vlib.run([tl.STOREOP, st.cfg, "check", "-"], timeout=60)
                chk = "RESULT ok" in r.stdout
                user = op[1]
                tab = []
                tf = target_file(after, user)
                if tf is not None:
                    f = first_line_fields(after[tf])
                    if f:
                        h = st.hasher(f["pid"])
                        if h:
                            tab.append("(%s, %s, %s, Some %s)" % (h, tl.coq_bytes(f["salt"]), tl.coq_bytes(op[2].encode()), tl.coq_bytes(f["dig"])))
                tables = "{| t_fails := []; t_kdf := [%s]; t_sha := []; t_known := [] |}" % "; ".join(tab)
                coq = "KillCase %s %s %s %s %s %s" % (st.coq_cfg(), tables, tl.coq_dir(before), coq_op(op), tl.coq_dir(after), "true" if chk else "false")
                case = {"prop": prop, "kind": "kill", "class": "kill/%s/%s" % (op[0], kind), "nontrivial": True, "coq": coq,
                        "human": {"op": [str(x) for x in op], "killed_on_entering": "%s #%d" % (sysc, j), "events_before_the_kill": [list(map(str, e)) for e in res2["events"]],
                                  "before": sorted(before.keys()), "after": sorted(after.keys()), "check_ok_after": chk}}
                if changed:
                    case["violation"] = "objects outside the base directory were modified: %s" % (changed,)
                cases.append(case)
                st.cleanup()
    finally:
        for s_ in scens.values():
            s_.cleanup()
    return cases
