"""C08: crash safety of add / update / init - every observed trace must follow
the write discipline proved crash-safe in Crash_proofs.v and equal the model's
own trace."""
import generic
import tracedriver

THDR = "From Whawty Require Import Names Record Store StoreSpec StoreTrace Crash."


def traces(prop, seed, tier):
    # the undisturbed runs plus every single injected I/O error in add / update: the clean-up after a
    # failure belongs to the discipline (nothing may be written, truncated or renamed in place)
    return tracedriver.gen_cases(prop, seed, tier, want_faults=True, fault_ops_filter=("add", "update"))


def kills(prop, seed, tier):
    # add / update killed on entering every tracked system call: the directory left behind
    return tracedriver.gen_kill_cases(prop, seed, tier)


CONFIG = dict(
    rule="add / update / init / set-admin / remove (and the read-only calls) each run in a fresh process under strace on prepared stores "
         "(records without aux data, with 15 B, 5 KB without trailing LF, binary, 200 KB in the thorough tier; .tmp absent, present, with residue; empty directory); "
         "the calls between two marker stats are projected to create/mkdir/write/fsync/rename/unlink events on base, base/.tmp and their files; "
         "compared with the events of the model's program and fed to the verified checker protocol_complete_ok; "
         "non-trivial = at least one mutation-relevant call; distinct = distinct case terms; "
         "kill states: add / update killed with SIGKILL on entering each of their tracked system calls (strace -e inject=...:signal=SIGKILL), the directory left behind "
         "and the verdict of `check` on it judged by Run/C08k (absent / empty reservation / old / complete new record, other files untouched, validity survives)",
    parts=[dict(pydrivers=[traces], run="C08", shard=30, header=THDR, case_type="tcase"),
           dict(pydrivers=[kills], run="C08k", shard=30, header=THDR, case_type="kcase")],
    trusted_extra=["strace 6.1 (system-call observation); lib/tracelib.py projection of strace output",
                   "the persistence model of Crash.v (atomic rename, fsync semantics, adversarial loss) is an assumption about kernel and file system"],
)


def run(rep, tier, seed, replay):
    return generic.run(rep, tier, seed, replay, config=CONFIG)
