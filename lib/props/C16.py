"""C16: the consistency check is exact and the store stays valid (store level), and the agent
refuses to work on a directory that fails the check - on the command line and on reload (agent level;
needs the built binary)."""
import os

import generic
import vlib


def run(rep, tier, seed, replay):
    exe = os.path.join(vlib.BUILD, "whawty-auth")
    r = vlib.run(["go", "build", "-o", exe, "./cmd/whawty-auth"], cwd=vlib.REPO, env=vlib.GOENV)
    if r.returncode != 0:
        rep.violation("build", {"what": "building cmd/whawty-auth failed", "output": r.stdout[-2000:]}, found_input=False)
        return rep.finish()
    base = generic.CONFIG["C16"]
    cfg = dict(
        rule=base["rule"] + "; agent level: the built binary's list / list full / add / update / remove / set-admin / authenticate on 11 directories (valid, both extensions, "
             "no admin, unsupported admin, stray file, extension-less file, sub-directory, 40 fillers with one duplicate pair, empty) with and without --do-check=false: "
             "ran or refused, directory changed or not; six reloads by SIGHUP (same directory: new default / admin's parameter set dropped / directory became inconsistent / stray file; "
             "new directory: empty / valid): accepted or not, against the model's check of the new directory under the new configuration",
        parts=[
            {k: v for k, v in base.items() if k != "rule"},
            dict(drivers=[("cmd/whawty-auth", "main")], run="C16a", shard=40, case_type="acase",
                 header="From Whawty Require Import Names Record Store StoreSpec."),
        ],
    )
    return generic.run(rep, tier, seed, replay, config=cfg)
