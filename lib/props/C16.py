"""C16: the consistency check is exact and the store stays valid (store level), and the agent
refuses to work on a directory that fails the check - on the command line and on reload (agent level;
needs the built binary)."""
import os

import generic
import tracedriver
import vlib


def fault_dirs(prop, seed, tier):
    """set-admin / remove / add / update each with every single injected I/O error: whatever the operation
    reports, afterwards no user has two files (judged here, on the directory the faulted run left)"""
    out = []
    for c in tracedriver.gen_cases(prop, seed, tier, want_faults=True, fault_ops_filter=("setadmin", "remove", "add", "update")):
        if not c["class"].startswith("fault/"):
            continue
        names = c["human"]["after"]
        users = {}
        for n in names:
            for ext in (".user", ".admin"):
                if n.endswith(ext):
                    users.setdefault(n[:-len(ext)], []).append(ext)
        double = sorted(u for u, e in users.items() if len(e) > 1)
        case = {"prop": prop, "kind": "fault-dir", "class": "fault-dir/" + c["class"][6:], "nontrivial": True, "coq": "",
                "human": {"op": c["human"]["op"], "fault": c["human"]["fault"], "result": c["human"]["result"], "after": names}}
        if double:
            case["violation"] = ("after %s with %s injected (result: %s) the user(s) %s have BOTH a .user and an .admin file: the store fails its "
                                 "own consistency check" % (" ".join(c["human"]["op"]), c["human"]["fault"], c["human"]["result"], double))
        out.append(case)
    return out


def run(rep, tier, seed, replay):
    exe = os.path.join(vlib.BUILD, "whawty-auth")
    r = vlib.run(["go", "build", "-o", exe, "./cmd/whawty-auth"], cwd=vlib.REPO, env=vlib.GOENV)
    if r.returncode != 0:
        rep.violation("build", {"what": "building cmd/whawty-auth failed", "output": r.stdout[-2000:]}, found_input=False)
        return rep.finish()
    base = generic.CONFIG["C16"]
    cfg = dict(
        rule=base["rule"] + "; agent level: the built binary's list / list full / add / update / remove / set-admin / authenticate on 11 directories (valid, both extensions, "
             "no admin, unsupported admin, stray file, extension-less file, sub-directory, 40 fillers with one duplicate pair, empty) with and without --do-check=false: "
             "ran or refused, directory changed or not; six reloads by SIGHUP (same directory: new default / admin's parameter set dropped / directory became inconsistent / stray file; "
             "new directory: empty / valid): accepted or not, against the model's check of the new directory under the new configuration; "
             "system-call level: set-admin / remove / add / update under every single injected I/O error - afterwards no user has two files",
        parts=[
            {k: v for k, v in base.items() if k != "rule"},
            dict(drivers=[("cmd/whawty-auth", "main")], run="C16a", shard=40, case_type="acase",
                 header="From Whawty Require Import Names Record Store StoreSpec."),
            dict(pydrivers=[fault_dirs], run="C16", shard=400),
        ],
    )
    return generic.run(rep, tier, seed, replay, config=cfg)
