"""C18: configuration loading and reload.  The Go driver uses harness/storeop
(a separate process) to exercise accepted parameter sets, so it is built first."""
import generic
import tracelib


def run(rep, tier, seed, replay):
    tracelib.build_storeop()
    cfg = dict(
        drivers=[("cmd/whawty-auth", "main")], run="C18", shard=200, timeout=1200, header="From Whawty Require Import Record Config.",
        rule="(a) 500 (thorough 12000) configuration trees generated from the schema's value space with edge values (id 0, both/neither algorithm, key of 31/32/33 bytes or not base64, "
             "cost 0/31/32/33, r/p zero or negative, argon2id time/threads/length 0, default 0 / undefined / defined, empty basedir), printed as YAML by the harness and mutated at YAML level "
             "(unknown top-level and nested keys, type errors, negative numbers, uint8 overflow, garbage); accept/refuse compared with the model and with an independent well-formedness reading; "
             "every parameter set of up to 120 accepted configurations is used for add + authenticate in a child process (a panic is an observable); "
             "(b) 8 (thorough 100) reloads by SIGHUP while 4 clients authenticate and add: valid new directory, new default, broken YAML, directory failing the check, unknown default, missing directory; "
             "a probe write afterwards shows which configuration is live; non-trivial = every case; distinct = distinct case terms",
        trusted_extra=["yaml.v3 text parsing (KnownFields) is outside the model: the harness knows by construction which documents the decoder must refuse"],
    )
    return generic.run(rep, tier, seed, replay, config=cfg)
