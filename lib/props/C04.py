"""C04: every frontend returns the store's verdict.  The command-line frontend
needs the built binary."""
import os

import generic
import vlib


def run(rep, tier, seed, replay):
    exe = os.path.join(vlib.BUILD, "whawty-auth")
    r = vlib.run(["go", "build", "-o", exe, "./cmd/whawty-auth"], cwd=vlib.REPO, env=vlib.GOENV)
    if r.returncode != 0:
        rep.violation("build", {"what": "building cmd/whawty-auth failed", "output": r.stdout[-2000:]}, found_input=False)
        return rep.finish()
    cfg = dict(
        drivers=[("cmd/whawty-auth", "main")], run="C04", shard=300, timeout=1200, header="From Whawty Require Import Frontends.",
        rule="14 accounts whose names and passwords are special in one transport (':' in the password, quotes and backslashes, non-BMP code points, '@' in a name, tabs/newlines/NUL, "
             "255/256/257-byte passwords, a 200-byte name) on three parameter sets; for each account the right password and near-misses (added/stripped whitespace, case, truncation, extension), "
             "case-folded / padded / '@realm'-suffixed names, plus pairs that are special per transport (name with ':', DN-like names, invalid UTF-8, empty fields); every pair through the real "
             "saslauthd socket (sasl.Client), HTTP basic-auth and /api/authenticate (handler mux), an LDAP simple bind over TCP (glauth server and client) and the built binary's authenticate command, "
             "each compared with store.Dir.Authenticate for the name that frontend looks up; non-trivial = every case; distinct = distinct case terms",
        trusted_extra=["HTTP, JSON, BER/LDAP and the command line are identity within the stated limits (pairs outside a transport's limits are skipped or only required to be refused)"],
    )
    return generic.run(rep, tier, seed, replay, config=cfg)
