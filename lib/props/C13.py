"""C13: the saslauthd wire codec.  Go side: the sasl package driver.  C side: the PAM module's
request encoder - the bytes it puts on the wire for (user, password), also when the kernel takes
only a few bytes per send - must be the Go encoder's bytes for the same (clipped) fields."""
import concurrent.futures
import os
import random
import shutil
import subprocess
import tempfile
import time

import generic
from props import C20 as pam


def one(job):
    idx, user, pw, cap = job
    d = tempfile.mkdtemp(prefix="verif-pamenc-")
    path = os.path.join(d, "s")
    srv = pam.Srv(path, [(0, pam.part(b"OK"))])
    srv.start()
    env = dict(os.environ, ASAN_OPTIONS="detect_leaks=1:abort_on_error=0", UBSAN_OPTIONS="print_stacktrace=1:halt_on_error=1")
    if cap:
        env["PAMDRV_SEND_CAP"] = str(cap)
    argv = [pam.PAMDRV, user.hex(), "-", pw.hex(), "0", "sock=" + path]
    viol = ""
    try:
        r = subprocess.run(argv, capture_output=True, timeout=30, env=env)
        err = r.stderr.decode("latin1")
        if "AddressSanitizer" in err or "runtime error" in err:
            viol = "sanitizer report while encoding the request: " + err[:500]
    except subprocess.TimeoutExpired:
        viol = "the module did not return within 30 s"
    srv.join(timeout=5)
    shutil.rmtree(d, ignore_errors=True)
    case = {"prop": "C13", "kind": "pamenc", "class": "pamenc/cap-%d" % cap, "nontrivial": True,
            "coq": "PamEnc %s %s %s" % (pam.cb(user), pam.cb(pw), pam.cb(srv.request)),
            "human": {"user_len": len(user), "pw_len": len(pw), "send_cap": cap, "request_hex": srv.request.hex()[:160]}}
    if viol:
        case["violation"] = viol
    return case


def pamenc(prop, seed, tier):
    pam.build()
    rng = random.Random(seed)
    pairs = [(b"alice", b"secret"), (b"a", b"b"), (b"u" * 255, b"p" * 256), (b"u" * 256, b"p" * 255), (b"u" * 257, b"p" * 300),
             (bytes(range(1, 200)), bytes(range(200, 256)) * 3), (b"\xc3\xbc" * 40, b"pass word\t!"), (b"x", b"y" * 5000)]
    for _ in range(6 if tier != "thorough" else 60):
        pairs.append((bytes(rng.randrange(1, 256) for _ in range(rng.randrange(1, 300))),
                      bytes(rng.randrange(1, 256) for _ in range(rng.randrange(1, 300)))))
    caps = [0, 1, 2, 3, 7, 64, 255, 256, 257]
    jobs = []
    for (u, p) in pairs:
        for cap in (caps if tier == "thorough" or len(jobs) < 60 else [0, 1, 3]):
            jobs.append((len(jobs), u, p, cap))
    with concurrent.futures.ThreadPoolExecutor(max_workers=16) as ex:
        return list(ex.map(one, jobs))


def run(rep, tier, seed, replay):
    base = generic.CONFIG["C13"]
    cfg = dict(
        rule=base["rule"] + "; PAM encoder: the module (ASan/UBSan build, stub libpam) run against a scripted agent for (user, password) pairs of 1..5000 bytes "
             "with the kernel taking 1 / 2 / 3 / 7 / 64 / 255.. bytes per send(): the request received must be the encoding of the clipped fields",
        parts=[{k: v for k, v in base.items() if k != "rule"},
               dict(pydrivers=[pamenc], run="C13", shard=100, header=base.get("header", ""))],
        trusted_extra=["clang 14 ASan/UBSan build of pam/pam_whawty.c against stub PAM headers; send()/write() of the module wrapped at link time (-Wl,--wrap) to produce short writes"],
    )
    return generic.run(rep, tier, seed, replay, config=cfg)
