"""C09: durability of acknowledged changes - every observed successful trace must satisfy
the write discipline proved crash-safe in Crash_proofs.v and equal the model's
own trace."""
import generic
import tracedriver
import histdriver

THDR = "From Whawty Require Import Names Record Store StoreSpec StoreTrace Crash."


def traces(prop, seed, tier):
    # undisturbed runs plus every single injected I/O error: whatever is acknowledged must be durable
    return tracedriver.gen_cases(prop, seed, tier, want_faults=True)


def histories(prop, seed, tier):
    # several operations on one directory, some failing half-way: what the following ones acknowledge must be durable
    return histdriver.gen_hist_cases(prop, seed, tier)


CONFIG = dict(
    rule="add / update / init / set-admin / remove (and the read-only calls) each run in a fresh process under strace on prepared stores "
         "(records without aux data, with 15 B, 5 KB without trailing LF, binary, 200 KB in the thorough tier; .tmp absent, present, with residue; empty directory); "
         "the calls between two marker stats are projected to create/mkdir/write/fsync/rename/unlink events on base, base/.tmp and their files; "
         "compared with the events of the model's program and fed to the verified checker protocol_complete_ok and durability_ok; "
         "non-trivial = at least one mutation-relevant call; distinct = distinct case terms; (b) histories of 2-5 operations on ONE directory, each in a fresh process under strace, "
         "with an I/O error injected into the open / fsync of the base directory, the rename or the last unlink of one or more steps (the caller's retry, the opposite operation, another operation on the same user, "
         "operations on other users in between; random histories): every step against the model from the directory the previous step left, the whole history through DurHist.hist_ok "
         "(dirty names carried from step to step; an acknowledged mutating operation must leave its user's names clean)",
    parts=[dict(pydrivers=[traces], run="C09", shard=30, header=THDR, case_type="tcase"),
           dict(pydrivers=[histories], run="C09h", shard=6, header=THDR + " From Whawty Require Import DurHist.", case_type="hcase")],
    trusted_extra=["strace 6.1 (system-call observation); lib/tracelib.py projection of strace output",
                   "the persistence model of Crash.v (atomic rename, fsync semantics, adversarial loss) is an assumption about kernel and file system"],
)


def run(rep, tier, seed, replay):
    return generic.run(rep, tier, seed, replay, config=CONFIG)
