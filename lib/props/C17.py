"""C17: no password failing the policy is ever stored.  The in-package driver covers the policy
parser, the comparators and every write path of the agent's Store interface and web API; this
module adds the command line - the built binary with --policy-type / --policy-condition (and their
environment variables), with and without the start-up check - which does not depend on any
internal Go signature."""
import hashlib
import os
import shutil
import subprocess
import tempfile

import generic
import vlib

WEAK = ["password1", "alice", "qwerty"]
STRONG = ["Xq7#rT-vT9!m2L884-kRz", "correct-Horse!battery7staple#Zq"]
CONDS = ["score >= 3", "entropy >= 45", "time >= 100000000"]


def _snap(base):
    out = {}
    for dp, dn, fn in os.walk(base):
        for f in fn:
            p = os.path.join(dp, f)
            out[os.path.relpath(p, base)] = hashlib.sha256(open(p, "rb").read()).hexdigest()
    return out


def cli_paths(prop, seed, tier):
    exe = os.path.join(vlib.BUILD, "whawty-auth")
    r = vlib.run(["go", "build", "-o", exe, "./cmd/whawty-auth"], cwd=vlib.REPO, env=vlib.GOENV)
    if r.returncode != 0:
        raise RuntimeError("building cmd/whawty-auth failed:\n" + r.stdout[-2000:])
    cases = []
    root = tempfile.mkdtemp(prefix="verif-c17cli-")
    try:
        tmpl = os.path.join(root, "tmpl")
        os.makedirs(os.path.join(tmpl, "base"))

        def cfg_for(d):
            p = os.path.join(d, "store.yaml")
            open(p, "w").write('basedir: "%s"\ndefault: 1\nparams:\n  - id: 1\n    argon2id:\n      time: 1\n      memory: 8\n      threads: 1\n      length: 32\n'
                               % os.path.join(d, "base"))
            return p

        # a valid store to start from (made without a policy)
        c0 = cfg_for(tmpl)
        for args in (["init", "root", STRONG[0]], ["add", "alice", STRONG[1]]):
            rr = vlib.run([exe, "--store", c0] + args, timeout=60)
            if rr.returncode != 0:
                raise RuntimeError("preparing the C17 command-line store failed: %s" % rr.stdout[-500:])
        n = 0
        for ci, cond in enumerate(CONDS):
            for how in ("flags", "flags+do-check=false", "env", "env+do-check=false"):
                for cmd in ("add", "update", "init"):
                    for strong in (False, True):
                        pw = (STRONG if strong else WEAK)[(n + ci) % 2]
                        n += 1
                        if tier != "thorough" and cmd == "init" and how.startswith("env") and ci > 0:
                            continue
                        d = os.path.join(root, "c%d" % n)
                        if cmd == "init":
                            os.makedirs(os.path.join(d, "base"))
                        else:
                            shutil.copytree(tmpl, d)
                        cfg = cfg_for(d)
                        env = dict(os.environ)
                        argv = [exe, "--store", cfg]
                        if how.startswith("flags"):
                            argv += ["--policy-type", "zxcvbn", "--policy-condition", cond]
                            if how.endswith("do-check=false"):
                                argv += ["--do-check=false"]
                        else:
                            env["WHAWTY_AUTH_POLICY_TYPE"] = "zxcvbn"
                            env["WHAWTY_AUTH_POLICY_CONDITION"] = cond
                            if how.endswith("do-check=false"):
                                env["WHAWTY_AUTH_DO_CHECK"] = "false"
                        user = {"add": "newuser", "update": "alice", "init": "firstadmin"}[cmd]
                        argv += [cmd, user, pw]
                        before = _snap(os.path.join(d, "base"))
                        try:
                            rr = subprocess.run(argv, env=env, stdin=subprocess.DEVNULL, stdout=subprocess.PIPE, stderr=subprocess.STDOUT, timeout=60)
                            ack = rr.returncode == 0
                            out = rr.stdout.decode("utf-8", "replace")[-300:]
                        except subprocess.TimeoutExpired:
                            ack, out = False, "timeout"
                        after = _snap(os.path.join(d, "base"))
                        changed = before != after
                        case = {"prop": prop, "kind": "path", "class": "cli/%s/%s/%s" % (cmd, how, "meets-policy" if strong else "fails-policy"),
                                "nontrivial": True,
                                "coq": "PathCase %s %s %s" % ("true" if strong else "false", "true" if ack else "false", "true" if changed else "false"),
                                "human": {"argv": argv[1:], "env": {k: v for k, v in env.items() if k.startswith("WHAWTY_")}, "policy": cond,
                                          "password": pw, "meets_policy": strong, "exit_ok": ack, "store_changed": changed, "output": out}}
                        if strong and not ack:
                            case["violation"] = ("the command line refused %s with a password that meets the policy %r (%s): %s"
                                                 % (cmd, cond, how, out.strip()[-200:]))
                        cases.append(case)
                        shutil.rmtree(d, ignore_errors=True)
    finally:
        shutil.rmtree(root, ignore_errors=True)
    return cases


def run(rep, tier, seed, replay):
    base = generic.CONFIG["C17"]
    cfg = dict(
        rule=base["rule"] + "; (5) command line: the built binary's init / add / update with a password that clearly fails resp. clearly meets three policies, the policy "
             "given by flags and by environment variables, with and without --do-check=false / WHAWTY_AUTH_DO_CHECK=false: exit status and store digest before/after",
        parts=[
            {k: v for k, v in base.items() if k != "rule"},
            dict(pydrivers=[cli_paths], run="C17", shard=200, header="From Whawty Require Import Policy."),
        ],
    )
    return generic.run(rep, tier, seed, replay, config=cfg)
