"""C20: the PAM module (pam/pam_whawty.c compiled from the working tree with
stub PAM headers and ASan/UBSan) against scripted servers."""
import concurrent.futures
import os
import random
import signal
import socket
import subprocess
import tempfile
import threading
import time

import generic
import vlib

PAMDRV = os.path.join(vlib.BUILD, "pamdrv")
CODES = {0: "PAM_SUCCESS", 7: "PAM_AUTH_ERR", 9: "PAM_AUTHINFO_UNAVAIL", 21: "PAM_AUTHTOK_RECOVERY_ERR"}


def build():
    src = os.path.join(vlib.VERIF, "harness", "pam")
    r = vlib.run(["clang", "-fsanitize=address,undefined", "-fno-omit-frame-pointer", "-g", "-O1", "-Wall", "-Wl,--wrap=send", "-Wl,--wrap=write",
                  "-I", os.path.join(src, "stub"), "-o", PAMDRV, os.path.join(src, "pamdrv.c"),
                  os.path.join(vlib.REPO, "pam", "pam_whawty.c")])
    if r.returncode != 0:
        raise RuntimeError("compiling pam_whawty.c failed:\n" + r.stdout)


def cb(b):
    hx = b.hex()
    if len(hx) <= 4096:
        return '(h "%s")' % hx
    return "(" + " ++ ".join('h "%s"' % hx[i:i + 4096] for i in range(0, len(hx), 4096)) + ")"


def copt(x):
    return "None" if x is None else "(Some %s)" % cb(x)


class Srv(threading.Thread):
    """scripted agent: accept one connection, read the request (best effort),
    send chunks with silences, then close or linger"""

    def __init__(self, path, chunks, read_first=True, close_at_end=True, listen=True, early_close=False):
        super().__init__(daemon=True)
        self.path, self.chunks, self.read_first, self.close_at_end = path, chunks, read_first, close_at_end
        self.early_close = early_close
        self.request = b""
        self.sock = socket.socket(socket.AF_UNIX, socket.SOCK_STREAM)
        if listen:
            self.sock.bind(path)
            self.sock.listen(1)
        self.listen = listen

    def run(self):
        if not self.listen:
            return
        self.sock.settimeout(10)
        try:
            c, _ = self.sock.accept()
        except OSError:
            return
        try:
            if self.early_close:
                c.close()
                return
            c.settimeout(0.3)
            if self.read_first:
                try:
                    while True:
                        d = c.recv(65536)
                        if not d:
                            break
                        self.request += d
                        # a complete request: four length-prefixed parts
                        if complete(self.request):
                            break
                except OSError:
                    pass
            for delay_ms, data in self.chunks:
                if delay_ms:
                    time.sleep(delay_ms / 1000.0)
                try:
                    c.sendall(data)
                except OSError:
                    break
            if not self.close_at_end:
                time.sleep(2.5)
            # collect whatever else the client sent
            c.settimeout(0.05)
            try:
                while True:
                    d = c.recv(65536)
                    if not d:
                        break
                    self.request += d
            except OSError:
                pass
        finally:
            try:
                c.close()
            except OSError:
                pass
            self.sock.close()


def complete(b):
    off = 0
    for _ in range(4):
        if len(b) < off + 2:
            return False
        l = b[off] * 256 + b[off + 1]
        off += 2 + l
        if len(b) < off:
            return False
    return True


def one_case(args):
    (idx, user, stack_pw, conv_pw, opts, chunks, connect, close_at_end, early_close, cls, tmo, extra) = args
    d = tempfile.mkdtemp(prefix="verif-pam-")
    path = os.path.join(d, "s")
    if extra.get("socklen"):
        # a socket path of exactly this many bytes (sun_path holds 108)
        x = extra["socklen"] - len(d) - 3
        if x >= 1:
            mid = ["p"] * x
            for pos in range(200, x - 1, 201):
                mid[pos] = "/"
            sub = os.path.join(d, "".join(mid))
            try:
                os.makedirs(sub, exist_ok=True)
            except OSError:
                pass
            path = os.path.join(sub, "s")
    srv = Srv(path, chunks, listen=connect, close_at_end=close_at_end, early_close=early_close)
    srv.start()
    hx = lambda b: "-" if b is None else (b.hex() or "00"[:0]) or ""
    argv = [PAMDRV, user.hex(), "-" if stack_pw is None else stack_pw.hex(), "-" if conv_pw is None else conv_pw.hex(), "0"]
    argv += [o.decode("latin1") for o in opts] + ["sock=" + path]
    if early_close:
        # make the race deterministic: every write of the module is delayed so that the
        # server's close always comes first
        argv = ["strace", "-f", "-o", "/dev/null", "-e", "trace=write,sendto", "-e", "inject=write,sendto:delay_enter=30000"] + argv
    t0 = time.time()
    # LeakSanitizer cannot run under ptrace (the strace'd early-close case)
    env = dict(os.environ, ASAN_OPTIONS="detect_leaks=%d:abort_on_error=0" % (0 if early_close else 1),
               UBSAN_OPTIONS="print_stacktrace=1:halt_on_error=1")
    if extra.get("send_cap"):
        env["PAMDRV_SEND_CAP"] = str(extra["send_cap"])
    try:
        pr = subprocess.Popen(argv, stdout=subprocess.PIPE, stderr=subprocess.PIPE, env=env)
        if extra.get("signal_ms") is not None:
            # a signal with a handler in the host application, while the module waits for the reply
            def poke():
                for k in range(extra.get("signals", 1)):
                    time.sleep(extra["signal_ms"] / 1000.0)
                    if pr.poll() is None:
                        try:
                            pr.send_signal(signal.SIGUSR1)
                        except OSError:
                            pass
            threading.Thread(target=poke, daemon=True).start()
        o, e = pr.communicate(timeout=30)
        out, err, rc = o.decode("latin1"), e.decode("latin1"), pr.returncode
    except subprocess.TimeoutExpired:
        pr.kill()
        pr.communicate()
        out, err, rc = "", "TIMEOUT", -999
    dt = time.time() - t0
    srv.join(timeout=5)
    import shutil
    shutil.rmtree(d, ignore_errors=True)
    code = None
    for line in out.splitlines():
        if line.startswith("PAMRESULT"):
            code = int(line.split()[1])
    viol = []
    if rc == -999:
        viol.append("the module did not return within 30 s")
    elif rc < 0:
        viol.append("the host process was killed by signal %d while the module ran" % (-rc))
    if "AddressSanitizer" in err or "runtime error" in err or "LeakSanitizer" in err:
        viol.append("sanitizer report: " + err[:600])
    if code is None and not viol:
        viol.append("no result from the module (exit %d): %s" % (rc, err[:300]))
    # bounded time: every wait is bounded by the timeout; allow generous slack
    nwaits = 3 + sum(1 for _ in chunks)
    if dt > tmo * nwaits + 3:
        viol.append("took %.1f s with timeout %d s" % (dt, tmo))
    cname = CODES.get(code, "PAM_AUTH_ERR" if code is None else None)
    if cname is None:
        viol.append("unexpected PAM code %s" % code)
        cname = "PAM_AUTH_ERR"
    sv = "{| sv_connect := %s; sv_chunks := [%s] |}" % ("true" if (connect and not early_close) else "false",
                                                       "; ".join("(%d, %s)" % (dl, cb(data)) for dl, data in chunks))
    # an early close is modelled as an unreachable agent only for the result; the request is not compared then
    cmp_req = connect and not early_close and code in (0, 7, 9) and complete(srv.request)
    coq = "PamCase %s %s %s [%s] %s %s %s %s" % (
        cb(user), copt(stack_pw), copt(conv_pw), "; ".join(cb(o) for o in opts), sv, cname,
        cb(srv.request), "true" if cmp_req else "false")
    case = {"prop": "C20", "kind": "pam", "class": cls, "nontrivial": True, "coq": coq,
            "human": {"user_len": len(user), "stack_pw": None if stack_pw is None else len(stack_pw),
                      "conv_pw": None if conv_pw is None else len(conv_pw), "opts": [o.decode("latin1") for o in opts],
                      "chunks": [(dl, data.hex()[:80]) for dl, data in chunks], "connect": connect, "early_close": early_close,
                      "code": code, "seconds": round(dt, 2), "request_hex": srv.request.hex()[:120]}}
    if extra.get("signal_ms") is not None:
        # signals are outside the model (Pam.v): judged here - a bounded return, and success only after a
        # complete reply that begins with OK
        case["coq"] = ""
        sent = b"".join(data for _, data in chunks)
        full_ok = len(sent) >= 4 and sent[0] * 256 + sent[1] >= 2 and len(sent) >= 2 + sent[0] * 256 + sent[1] and sent[2:4] == b"OK"
        if code == 0 and not full_ok:
            viol.append("PAM_SUCCESS although the agent never sent a complete reply beginning with OK (a signal arrived while waiting)")
    if viol:
        case["violation"] = "; ".join(viol)
    return case


def part(text):
    return bytes([len(text) >> 8, len(text) & 255]) + text


def gen(prop, seed, tier):
    build()
    rng = random.Random(seed)
    jobs = []

    def add(cls, user=b"alice", stack=None, conv=b"secret", opts=(), chunks=(), connect=True, close=True, early=False, tmo=3, **extra):
        jobs.append((len(jobs), user, stack, conv, list(opts), list(chunks), connect, close, early, cls, tmo, extra))

    replies = [b"OK", b"NO", b"OK successfully authenticated", b"NO wrong credentials", b"OKAY", b"ok", b"O", b"", b"K", b"OK\x00",
               b"NOOK", b" OK", b"XOK", b"OK" + b"x" * 254, b"OK" + b"x" * 255, b"NO" + b"y" * 300]
    # (1) every reply in the corpus, whole
    replies += [b"NO" + b"y" * 253, b"NO" + b"y" * 254, b"NO" + b"y" * 255, b"N" * 256, b"N" * 257, b"\xff" * 300]
    for rp in replies:
        # the log lines of the debug option see the reply too
        add("reply/whole+debug", chunks=[(0, part(rp))], opts=[b"debug"])
        add("reply/whole+debug+first-pass", chunks=[(0, part(rp))], opts=[b"debug", b"use_first_pass"], stack=b"stackpw")
        add("reply/whole", chunks=[(0, part(rp))])
        add("reply/two-chunks", chunks=[(0, part(rp)[:1]), (20, part(rp)[1:])])
        add("reply/trailing", chunks=[(0, part(rp) + b"trailing")])
    # (1b) the reply body arrives in several segments (the module reads in between): the verdict is that of
    # the whole reply - in particular when a LATER segment begins with "OK" and the reply does not
    for body in [b"NOOK", b"NO user unknown, OK?", b"XXOK", b"NO OK", b"NOOK successfully authenticated", b"OK", b"OKNO", b"OK fine", b"O" + b"K" * 3]:
        cuts = [k for k in range(1, len(body))]
        if len(cuts) > 6:
            cuts = [k for k in cuts if body[k:k + 2] == b"OK" or k in (1, 2, len(body) - 1)]
        for k in cuts:
            add("reply/body-split", chunks=[(0, part(body)[:2]), (40, body[:k]), (60, body[k:])])
    add("reply/body-split", chunks=[(0, part(b"XXOK")[:2]), (30, b"X"), (40, b"X"), (40, b"OK")])
    add("reply/body-split", chunks=[(0, part(b"NO!OK")[:3]), (40, b"O"), (40, b"!"), (40, b"OK")])
    # (2) replies cut at every byte (server closes after the prefix)
    for rp in [b"OK", b"NO", b"OK successfully authenticated"]:
        w = part(rp)
        for cut in range(len(w)):
            add("reply/cut", chunks=[(0, w[:cut])] if cut else [])
    # (3) over-long / lying length prefixes
    for L, body in [(257, b"OK" + b"z" * 255), (300, b"OK" + b"z" * 298), (65535, b"OK" + b"z" * 300), (2, b"OKxx"), (1, b"OK"), (0, b"OK"),
                    (256, b"OK" + b"z" * 254), (256, b"OK" + b"z" * 100), (5, b"OK")]:
        add("reply/length-%d" % L, chunks=[(0, bytes([L >> 8, L & 255]) + body)])
        add("reply/length-%d+debug" % L, chunks=[(0, bytes([L >> 8, L & 255]) + b"NO" + body[2:])], opts=[b"debug"])
    for L in (257, 300, 4096, 65535):
        add("reply/long-garbage-%d+debug" % L, chunks=[(0, bytes([L >> 8, L & 255]) + b"\x01" * min(L, 4096))], opts=[b"debug"])
    # (4) users and passwords: empty, 255/256/257, several KiB; options
    for ul in [0, 1, 255, 256, 257, 5000]:
        for pl in [0, 1, 255, 256, 257, 5000]:
            # both fields at or beyond the limit at once: always (the request is then at its maximal size)
            if (ul >= 255 and pl >= 255) or rng.random() < (1.0 if tier == "thorough" else 0.45):
                add("fields/%d-%d" % (ul, pl), user=bytes(rng.randrange(1, 256) for _ in range(ul)),
                    conv=bytes(rng.randrange(1, 256) for _ in range(pl)), chunks=[(0, part(b"OK"))])
    for opts, stack, conv in [([b"try_first_pass"], b"stackpw", b"convpw"), ([b"try_first_pass"], None, b"convpw"),
                              ([b"use_first_pass"], b"stackpw", b"convpw"), ([b"use_first_pass"], None, b"convpw"),
                              ([b"use_first_pass", b"try_first_pass"], None, None), ([], None, None), ([b"not_set_pass"], None, b"convpw"),
                              ([b"debug", b"bogus", b"timeout=", b"timeout=0", b"timeout=-4", b"timeout=abc", b"sock="], None, b"convpw"),
                              ([b"timeout=2x"], None, b"convpw")]:
        add("options", stack=stack, conv=conv, opts=opts, chunks=[(0, part(b"OK"))])
        add("options", stack=stack, conv=conv, opts=opts, chunks=[(0, part(b"NO"))])
    # (4b) short writes: the kernel takes only a few bytes of every send / write of the module; the request on
    # the wire is still the encoding of the (clipped) fields
    for cap in (1, 2, 3, 7, 64, 255):
        for (u, pw) in [(b"alice", b"secret"), (b"u" * 255, b"p" * 256), (bytes(range(1, 200)), bytes(range(200, 256)) * 3), (b"", b"x")]:
            add("short-writes/cap-%d" % cap, user=u, conv=pw, chunks=[(0, part(b"OK"))], send_cap=cap)
    # (4c) a signal (handled by the host application) arrives while the module waits for the reply
    for name, chunks, close in [("full-ok", [(400, part(b"OK"))], True), ("full-no", [(400, part(b"NO"))], True), ("close-without-reply", [(400, b"")], True),
                                ("cut-in-header", [(400, part(b"OK")[:1])], True), ("cut-in-body", [(400, part(b"OK success")[:5])], True),
                                ("silence", [], False)]:
        add("signal/" + name, chunks=chunks, close=close, opts=[b"timeout=2"], tmo=2, signal_ms=120, signals=2)
    # (4d) the length of the socket path option: sun_path holds 108 bytes including the terminator
    for L in (90, 106, 107, 108, 109, 110, 200, 4000):
        add("options/sock-length-%d" % L, connect=False, socklen=L)
    for L in (90, 106, 107):
        add("options/sock-length-%d" % L, chunks=[(0, part(b"OK"))], socklen=L)
        add("options/sock-length-%d" % L, chunks=[(0, part(b"NO"))], socklen=L)
    # (5) unreachable socket, early close, silence on either side of the timeout
    add("server/unreachable", connect=False)
    add("server/early-close", early=True)
    add("server/close-without-reply", chunks=[])
    add("server/silent", chunks=[], close=False, opts=[b"timeout=1"], tmo=1)
    add("server/slow-but-in-time", chunks=[(400, part(b"OK"))], opts=[b"timeout=1"], tmo=1)
    add("server/too-slow", chunks=[(1700, part(b"OK"))], opts=[b"timeout=1"], tmo=1)
    add("server/slow-second-part", chunks=[(0, part(b"OK")[:2]), (1700, b"OK")], opts=[b"timeout=1"], tmo=1)
    add("server/in-time-second-part", chunks=[(0, part(b"OK")[:2]), (400, b"OK")], opts=[b"timeout=1"], tmo=1)
    if tier == "thorough":
        for i in range(300):
            body = bytes(rng.randrange(256) for _ in range(rng.randrange(0, 12)))
            add("reply/random", chunks=[(0, body)])
        for d1 in (200, 800, 1200, 2500):
            for d2 in (0, 800, 1200):
                add("server/timing", chunks=[(d1, part(b"OK")[:3]), (d2, part(b"OK")[3:])], opts=[b"timeout=1"], tmo=1)
    with concurrent.futures.ThreadPoolExecutor(max_workers=16) as ex:
        return list(ex.map(one_case, jobs))


CONFIG = dict(
    rule="pam_sm_authenticate (pam_whawty.c from the working tree, stub PAM headers, ASan+UBSan) against a scripted unix-socket server: "
         "a corpus of replies whole / in two chunks / with trailing bytes / cut at every byte, over-long and lying length prefixes, users and passwords of "
         "0/1/255/256/257/5000 bytes, option combinations (try_first_pass, use_first_pass, not_set_pass, timeout variants, unknown), unreachable socket, early close, "
         "close without reply, silence on both sides of the timeout; compared: PAM code and the request bytes the server received; driver-judged: signals, sanitizer reports, run time; "
         "non-trivial = every case; distinct = distinct case terms",
    parts=[dict(pydrivers=[gen], run="C20", shard=60, header="From Whawty Require Import SaslCodec Pam.")],
    trusted_extra=["clang 14 with -fsanitize=address,undefined; stub <security/*.h> headers and harness/pam/pamdrv.c (libpam stand-ins)"],
)


def run(rep, tier, seed, replay):
    return generic.run(rep, tier, seed, replay, config=CONFIG)
