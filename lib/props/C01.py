"""C01: the authentication verdict follows the last acknowledged write.  Two families of cases:
random store histories (functional level) and single add / update operations under strace with one
injected I/O error each: an operation that reports success must have installed the password."""
import generic
import tracedriver

THDR = "From Whawty Require Import Names Record Store StoreSpec StoreTrace Crash."


def faults(prop, seed, tier):
    return tracedriver.gen_cases(prop, seed, tier, want_faults=True, fault_ops_filter=("add", "update"))


CONFIG = dict(generic.CONFIG["C01"])
CONFIG = dict(
    rule=generic.CONFIG["C01"]["rule"] + "; (b) add / update each run in a fresh process under strace, once clean and once per (tracked system call of the "
         "operation x errno) with `strace -e inject`: when the operation reports success the password it set must authenticate against the resulting directory "
         "(model authenticate on the byte-level snapshot)",
    parts=[
        {k: v for k, v in generic.CONFIG["C01"].items() if k != "rule"},
        dict(pydrivers=[faults], run="C01t", shard=30, header=THDR, case_type="tcase"),
    ],
    trusted_extra=["strace 6.1 (system-call observation and -e inject fault injection); lib/tracelib.py projection of strace output"],
)


def run(rep, tier, seed, replay):
    return generic.run(rep, tier, seed, replay, config=CONFIG)
