"""C03: only schema-valid names are usable; all effects stay inside the base
directory.  (a) every store entry point with generated names on a tree with
decoys, (b) traced single operations (footprint)."""
import generic
import tracedriver

THDR = "From Whawty Require Import Names Record Store StoreSpec StoreTrace Crash."


def traces(prop, seed, tier):
    return tracedriver.gen_cases(prop, seed, tier, want_bad_names=True)


CONFIG = dict(
    rule="(a) names: valid ones, every class of invalid name from the property (path separators, '..' segments, absolute, empty, leading '-' '.' '_' '@', "
         "control bytes, NUL, longer than NAME_MAX, aliases such as x/../bob), every 1-byte and a sample (thorough: all) of the 2-byte strings over an 18-symbol alphabet; "
         "each name through authenticate (two passwords), exists, update, set-admin, add, remove, list on a tree root/{base, base.user, base.admin, other/eve.user, x}; "
         "the tree outside base is hashed after every call; (b) add/update/set-admin/remove/auth/exists under strace with valid and invalid names: "
         "the projected footprint must lie inside base; (c) ~75 names outside the grammar (an existing user's name followed by '@', '/' or a blank and a tail that is a path, "
         "white space, a control byte; leading '-' '.' '_' '@'; NUL, newline) with that user's correct password through the agent's saslauthd socket (every service / realm choice, "
         "the realm equal to the tail of the login), basic-auth, the JSON API and an LDAP bind, next to a sibling store: each compared with the store's own verdict; "
         "non-trivial = every case; distinct = distinct case terms",
    parts=[
        dict(drivers=[("store", "store")], run="C03", shard=4, header="From Whawty Require Import Names Record Store StoreSpec."),
        dict(pydrivers=[traces], run="C03t", shard=30, header=THDR, case_type="tcase"),
        # (c) agent level: names outside the grammar through every network frontend, with every choice of the
        # request's other fields (saslauthd service / realm equal to the tail of the login, ...)
        dict(drivers=[("cmd/whawty-auth", "main")], run="C04", shard=300, timeout=900, header="From Whawty Require Import Frontends."),
    ],
    trusted_extra=["strace 6.1 (system-call observation); lib/tracelib.py projection of strace output"],
)


def run(rep, tier, seed, replay):
    return generic.run(rep, tier, seed, replay, config=CONFIG)
