"""C03: only schema-valid names are usable; all effects stay inside the base
directory.  (a) every store entry point with generated names on a tree with
decoys, (b) traced single operations (footprint)."""
import generic
import tracedriver

THDR = "From Whawty Require Import Names Record Store StoreSpec StoreTrace Crash."


def traces(prop, seed, tier):
    return tracedriver.gen_cases(prop, seed, tier, want_bad_names=True)


CONFIG = dict(
    rule="(a) names: valid ones, every class of invalid name from the property (path separators, '..' segments, absolute, empty, leading '-' '.' '_' '@', "
         "control bytes, NUL, longer than NAME_MAX, aliases such as x/../bob), every 1-byte and a sample (thorough: all) of the 2-byte strings over an 18-symbol alphabet; "
         "each name through authenticate (two passwords), exists, update, set-admin, add, remove, list on a tree root/{base, base.user, base.admin, other/eve.user, x}; "
         "the tree outside base is hashed after every call; (b) add/update/set-admin/remove/auth/exists under strace with valid and invalid names: "
         "the projected footprint must lie inside base; non-trivial = every case; distinct = distinct case terms",
    parts=[
        dict(drivers=[("store", "store")], run="C03", shard=4, header="From Whawty Require Import Names Record Store StoreSpec."),
        dict(pydrivers=[traces], run="C03t", shard=30, header=THDR, case_type="tcase"),
    ],
    trusted_extra=["strace 6.1 (system-call observation); lib/tracelib.py projection of strace output"],
)


def run(rep, tier, seed, replay):
    return generic.run(rep, tier, seed, replay, config=CONFIG)
