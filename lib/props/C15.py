"""C15: frame / failure / read-only behaviour.  Two families of cases:
store histories with auxiliary data (functional level) and single operations
under strace with one injected fault each (system-call level)."""
import generic
import tracedriver

THDR = "From Whawty Require Import Names Record Store StoreSpec StoreTrace Crash."


def faults(prop, seed, tier):
    return tracedriver.gen_cases(prop, seed, tier, want_faults=True)


CONFIG = dict(
    rule="(a) random histories on stores whose records carry auxiliary data (text, CRLF, binary, no trailing newline), result and byte-level "
         "snapshot per operation, compared with the model and judged by the frame monitor (other files identical, tail preserved, failure = unchanged, "
         "read-only operations = unchanged); (b) add/update/set-admin/remove each run in a fresh process under strace, once clean and once per "
         "(tracked system call of the operation x errno in ENOSPC/EIO/EACCES/EMFILE; quick: two errnos per call) with `strace -e inject`; "
         "non-trivial = the operation made at least one mutation-relevant call or carried a fault; distinct = distinct case terms",
    parts=[
        dict(drivers=[("store", "store")], run="C15", shard=20, header="From Whawty Require Import Names Record Store StoreSpec."),
        dict(pydrivers=[faults], run="C15t", shard=30, header=THDR, case_type="tcase"),
    ],
    trusted_extra=["strace 6.1 (system-call observation and -e inject fault injection); lib/tracelib.py projection of strace output"],
)


def run(rep, tier, seed, replay):
    return generic.run(rep, tier, seed, replay, config=CONFIG)
