#!/usr/bin/env python3
"""Regenerates MANIFEST.json from the table below (kept in one place so the
manifest is always valid and the not_applicable list is always current)."""
import json, os
VERIF = os.path.dirname(os.path.dirname(os.path.abspath(__file__)))
ALL = ["C%02d" % i for i in range(1, 21)]

CLAIMED = {
 "C13": dict(
    technique="Coq proof (induction over reader events; scanner model refines a plain recursive parser) + differential evaluation of the model inside Coq (vm_compute) against sasl.Request/Response on generated streams and fragmentations",
    text="Theorems over the executable Gallina model of sasl_encoding.go (encoders, split function, bufio.Scanner control flow): exact format, round trip for every field content up to the limit and every well-behaved reader, over-limit refusal, re-encode = consumed bytes, fragment independence, PAM bytes = Go bytes; all closed under the global context. The model is tied to the code on every run by tools/facts (MaxRequestLength, WHAWTY_REQUEST_MAX_PARTLEN) and by evaluating the model on the cases the real decoder/encoder just ran.",
    note="Trusted: Coq kernel; tools/facts; the Go overlay driver and scripted io.Reader; bufio.Scanner is modelled over its pending bytes (buffer growth unreachable by split_decides); Go source modelled, not verified.",
    design="5/C13"),
}

NOT_YET = "claimed by DESIGN.md but its check is not built yet in this snapshot; no claim is made until the check exists"

def main():
    checks = []
    for p in ALL:
        if p not in CLAIMED:
            continue
        c = CLAIMED[p]
        checks.append({
            "property_id": p,
            "quick_cmd": "./check %s --tier quick" % p,
            "thorough_cmd": "./check %s --tier thorough" % p,
            "evidence_file": "/verif/evidence/%s.json" % p,
            "replay_cmd_template": "./check %s --replay {path}" % p,
            "engine": "coq-model+correspondence",
            "level_claimed": {"category": "proof", "text": c["text"], "design_ref": c["design"]},
            "level_note": c["note"],
            "technique": c["technique"],
        })
    m = {
        "version": 1,
        "setup_cmd": "./setup.sh",
        "hooks": {
            "guard": "verif",
            "enable": "no source hooks: harness files are compiled into /repo's packages at check time with `go test -overlay` (see DESIGN.md 3.1); build tag `verif` reserved",
            "baseline_off_cmd": "cd /repo && GOFLAGS=-mod=mod GOPROXY=off GOSUMDB=off GOTOOLCHAIN=local go test -json -vet=off -count=1 -timeout 25m ./...",
            "source_commits": [],
            "add_only": True,
        },
        "engines": [{
            "name": "coq-model+correspondence", "path": "/verif/check",
            "serves_properties": sorted(CLAIMED),
            "kind_free_text": "Coq 8.16 theorems over executable Gallina models (coq/theories, coq/Properties); models tied to /repo by tools/facts (regenerates Extracted.v) and by differential runs evaluated inside Coq (coq/Run, vm_compute)",
        }],
        "checks": checks,
        "not_applicable": [{"property_id": p, "reason": NOT_YET} for p in ALL if p not in CLAIMED],
        "notes": "See DESIGN.md. KNOWN_FINDINGS.txt lists repaired (fixed:) and recorded (known:) defects.",
    }
    json.dump(m, open(os.path.join(VERIF, "MANIFEST.json"), "w"), indent=1)

if __name__ == "__main__":
    main()
