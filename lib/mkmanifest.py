#!/usr/bin/env python3
"""Regenerates MANIFEST.json from the table below (kept in one place so the
manifest is always valid and the not_applicable list is always current)."""
import json, os
VERIF = os.path.dirname(os.path.dirname(os.path.abspath(__file__)))
ALL = ["C%02d" % i for i in range(1, 21)]

def claim(technique, text, note, design):
    return dict(technique=technique, text=text, note=note, design=design)


COMMON_NOTE = ("Trusted: Coq 8.16.1 kernel (vm_compute in proofs and for model evaluation, no native_compute, no axioms: every property theorem is "
               "'Closed under the global context'); tools/facts translator; the Go/C/strace harness and the case-file glue (lib/*.py); the Go and C source "
               "is modelled, not verified. The models keep no state between operations beyond fixed components; tools/facts lists the code's package-level variables and "
               "struct fields on every run and theories/StateInst.v pins them (an added cache / pool / field breaks an obligation). ")

CLAIMED = {
 "C01": claim("Coq refinement proof (file-level store refines abstract password map, induction over histories) + differential replay of recorded histories inside Coq",
    "Theorems: for every operation history from an empty store, every visible result (authenticate, exists, add/update/set-admin/remove/init results) equals the one the abstract map user -> (password, admin, last-change, parameter set) prescribes; list agrees; argon2id near-misses refused; characterisation of the scrypt key equivalence. KDFs are parameters with explicit premises (no collisions beyond the key equivalence). Tie: random histories run on a real directory through store.Dir, replayed on the model step by step (results + byte-level snapshots), digests recomputed independently with x/crypto; an abstract-map monitor judges the observed results.",
    COMMON_NOTE + "Assumed (premises of the theorems): KDF collision freedom up to the schema's key equivalence, SHA-256 only through that equivalence.", "5/C01"),
 "C02": claim("Coq proof of parser soundness against an inductive record grammar, for all file contents + differential replay on mutated/foreign/random files",
    "Theorems for every byte string as file content and every kdf: success only for a schema record of a configured set with the recomputed digest; whole digest compared; fewer than four fields never succeed; unsupported files hidden from list / shown by list-full / block add / update refused byte-identically / removed; independently written records authenticate. Tie: ~2700 file contents (systematic mutations, edge numbers, random) through all store operations, compared with the model and judged by an independent grammar reader.",
    COMMON_NOTE + "Go's encoding/base64, strconv and strings functions are modelled (validated by the same differential stream). 'No crash or hang' is observed (recover + watchdog), not proved.", "5/C02"),
 "C03": claim("Coq proofs: matcher = regex grammar, invalid name => no effect and no system call, footprint of every program under every fault + API sweep with decoy tree and strace footprints",
    "Theorems: the boolean matcher is exactly the regular expression's grammar (regex source extracted from the code); every operation with a name outside the grammar returns a refusal and the same state; at system-call level not a single call is made; for all arguments and injected faults every created/written/synced/renamed/unlinked object is <u>.user, <u>.admin, .tmp or the base directory. Tie: generated names through every entry point on a tree with a sibling store and decoys (whole tree hashed), traced operations projected to the footprint alphabet.",
    COMMON_NOTE + "Symlinks inside the base directory are outside the model.", "5/C03"),
 "C05": claim("Coq proofs over the connection handler model for all read-event sequences and callbacks + raw-socket differential run against sasl.Server",
    "Theorems for every sequence of read results and every callback: at most one callback with exactly the decoded fields; positive reply only if decoded and approved without error; a terminated stream gets exactly one reply; no reply before the request is complete; every server-determined reply is one length-prefixed part decodable by the Go client and the PAM reader with the callback's verdict; connections independent. Tie: scripted clients (truncation at every byte, over-long fields, trailing bytes, abandoned, concurrent) against a real sasl.Server.",
    COMMON_NOTE + "A silent client that keeps the connection open is never answered (no read deadline); theorems are about terminated streams.", "5/C05"),
 "C06": claim("Coq proofs over the handler model (every request, every state, sequences by induction) + differential replay of request sequences against the handler mux",
    "Theorems: undecodable bodies and every unauthorised or empty-field request get a non-success status, no list, no session and leave store, configuration and sessions unchanged; an effect implies authorisation; lists only to admin sessions; effects are exactly the store operations; a token is issued only after a successful password authentication and names that user and flag; closed under sequences. Tie: 12 (thorough 200) sequences of 49 requests over the endpoint x credential x target x body-shape matrix via httptest, statuses, list/session presence and snapshots compared with the model; an authorisation monitor on the observed run.",
    COMMON_NOTE + "HTTP routing and JSON text parsing (net/http, encoding/json) are identity within the decoded values; AES-GCM idealised as in C07.", "5/C06"),
 "C07": claim("Coq proofs under the ideal-AEAD log reading + differential run of ~3000 presented strings (all single-bit mutations) against webSessionFactory",
    "Theorems: acceptance iff the text decodes to a sealed (nonce, ciphertext) whose plaintext parses and lies in the window, returning exactly the issued name and flag; names with ':' never accepted; strict flag; pairs not in this instance's log rejected; expiry, future dating and the inclusive boundary (with Go's time.Unix wrap-around modelled); nonces distinct given distinct randomness. Tie: tokens issued and tokens sealed with chosen plaintexts, every single-bit mutation of the content, character mutations, truncations, splices, other-instance tokens, garbage; verdicts compared with the model and with a direct reading of the log.",
    COMMON_NOTE + "Assumed: AES-GCM opens only what this key sealed (INT-CTXT idealisation); crypto/rand nonces are distinct (measured over 2000 issuances).", "5/C07"),
 "C08": claim("Coq proof over a persistence model: every prefix of a disciplined trace x every crash state; failing operations; two interleaved writer processes; model programs follow the discipline + strace traces (faults, kills) fed to the verified checker",
    "Theorems: for every trace accepted by the executable protocol checker, every prefix (crash instant) and every crash state (any sub-sequence of pending directory changes kept, any content in unsynced inodes), the target is absent / an empty reservation (add only) / old-complete / new-complete and every other file is untouched; the kill-only instance; the model's add and update programs are accepted and their new content is new record + old auxiliary data; failing operations (discipline with clean-up) under every injected fault; two writer PROCESSES whose system calls interleave arbitrarily and whose temp names differ (O_EXCL) leave every file old-complete or complete-by-one-writer at every instant (volatile view). Tie: traced add/update/init on prepared stores (auxiliary data up to a 70 000-byte line) projected to events, compared with the model's events and judged by the same checker; every single injected fault; SIGKILL on entering every tracked call; the temp file must be created exclusively; an acknowledged update carries all auxiliary lines over.",
    COMMON_NOTE + "Assumed: kernel and file system implement the stated persistence model (atomic rename, fsync semantics).", "5/C08"),
 "C09": claim("Coq proof: completed protocol => quiescent base directory => every crash state shows the volatile view; invariant over histories with failed operations and verified history checker; verified durability checker + strace traces and traced fault histories",
    "Theorems: on a base-quiescent disk crash view = volatile view; a completed add/update re-establishes quiescence with the new content (chains over histories); no early visibility (fsync of the temp file precedes the rename with no write in between); set-admin and remove followed by fsync of the base directory are durable; checker soundness; refutation witnesses for bare rename / unlink; over HISTORIES with failed operations in them (a failed operation may leave an entry change of the base directory pending): an invariant that holds between the operations of any history, names without pending change read the same after every crash, soundness of the history checker that carries the dirty names from step to step, every history of the model's operations under arbitrary faults is accepted, hence every acknowledged model operation is durable whatever failed before it; refutation witness for the retry that acknowledges without a directory fsync (repaired defect). Tie: every traced mutation, undisturbed and under every single injected fault, must pass durability_ok / protocol_complete_ok when acknowledged; ~90 traced histories of 2-5 operations with faults in the directory open / fsync / rename / unlink of some steps, step-by-step against the model and as a whole through hist_ok.",
    COMMON_NOTE + "Assumed: the persistence model (see C08).", "5/C09"),
 "C10": claim("Coq proof of deadlock freedom of the dispatcher LTS for every scheduler, instantiated with AST facts extracted from the source + adversarial load with watchdog",
    "Theorems (for the extracted capacities and the extracted non-blocking upgrade enqueue, every upgrade mode, every reachable state, any number of clients): whenever anything is pending the system can step; the dispatcher is back at its select within two steps; it never waits on its own queue; queues bounded and FIFO; refutation of the blocking variant (wedged for good). Tie: tools/facts (capacities, send structure, goroutine structure) cross-checked with cap() in-process; load patterns with 24-64 clients incl. unreachable/stalled upgrade master and slow/hanging hooks under a progress watchdog.",
    COMMON_NOTE + "Partial (runtime): 'eventually answered' is deadlock freedom + FIFO service; fairness of Go's randomised select and OS-level blocking in exec / HTTP client are not modelled. Hooks goroutine and remote upgrader are assumed to keep receiving (they never wait for the dispatcher: extracted fact).", "5/C10"),
 "C11": claim("Coq proof: linearisation-point theorems for the dispatcher LTS (log = sequential execution, per-client protocol, upgrades never undo) + linearizability search on recorded histories",
    "Theorems for every execution: store and every logged result equal the single-threaded execution of the handled requests in handling order; every returned answer is the logged result of that client's own request; per client the trace reads Call, Enq, Handle, Ret (so each linearisation point lies between call and return); every request handled once; an internal upgrade (which re-authenticates: extracted fact) touches nobody else and never changes which password works; refutation of the stale upgrade. Tie: 150 (thorough 5000) concurrent histories recorded at the Store interface with upgrades off/local, each decided by a memoised linearizability search against the sequential specification; driver built with -race.",
    COMMON_NOTE + "The linearizability search is validation and failing-history search, not proof. Data-race freedom of the Go code is observed (race detector), not proved.", "5/C11"),
 "C13": claim("Coq proof (induction over reader events; scanner model refines a plain recursive parser) + differential evaluation of the model inside Coq against sasl.Request/Response",
    "Theorems over the executable model of sasl_encoding.go: exact format, round trip for every field content up to the limit and every well-behaved reader, over-limit refusal, re-encode = consumed bytes, fragment independence, PAM bytes = Go bytes. Tie: tools/facts (MaxRequestLength, WHAWTY_REQUEST_MAX_PARTLEN) and ~18500 cases (boundary lengths, exhaustive short decoder inputs, all fragmentations of short streams, random fragmentations with empty reads / EOF-with-data / errors).",
    COMMON_NOTE + "bufio.Scanner is modelled over its pending bytes (buffer growth unreachable by split_decides).", "5/C13"),
 "C14": claim("Coq proof that add/update write exactly the schema line + byte-for-byte comparison of every written file with independently recomputed digests",
    "Theorems: a successful add / update leaves exactly the schema line of the default set for the oracle time and salt and the digest of exactly this password, followed by the old auxiliary data; it parses back; it is a single line; the written bytes depend on the password only through the digest; salt and digest are recoverable from the line (fresh salts never repeat a record). Tie: stores created by NewDirFromConfig from YAML the harness printed; every written file compared with the line built from the digest recomputed with x/crypto; salt size/freshness, call-window time, scan for passwords and HMAC keys.",
    COMMON_NOTE + "The digest functions themselves (argon2id, scrypt, HMAC) are oracles recomputed by the harness.", "5/C14"),
 "C15": claim("Coq proofs: frame theorems on arbitrary directories and failure-atomicity of the system-call programs under every single injected fault + strace fault injection",
    "Theorems: update rewrites only the first line of its target, set-admin moves the whole record, add creates one file, nothing else changes; every failing add/update/set-admin/init leaves the directory as it was; under every single injected system-call failure a failing add changes nothing, a failing update/set-admin changes nothing unless the rename had already happened (the full statement is refuted with a witness: known finding); faults that do not fail the operation do not change its effect; read-only calls never change the directory. Tie: histories with auxiliary data (frame monitor) and every tracked system call of add/update/set-admin/remove x errno injected with strace, result and directory compared with the model.",
    COMMON_NOTE + "Known finding (KNOWN_FINDINGS.txt): an I/O error after the rename is reported as failure although the change is in place.", "5/C15"),
 "C16": claim("Coq proofs: check result = order-free validity for every permutation of the listing; validity and well-formedness invariants over every operation and history + generated directories",
    "Theorems: for every directory built from valid names and every permutation of its listing the check accepts iff every entry is <name>.user|.admin, no name has both and some admin file is supported; every operation keeps the store well-formed (no double files, empty work area) and, unless it removes/demotes the last administrator, valid - also over histories; init only on an empty directory and produces a valid store. Tie: ~800 generated directories (45 % valid) and histories with a check after every operation, compared with the model and an independent validity reading.",
    COMMON_NOTE + "The CLI gate (exit status when the check fails) is exercised in the thorough tier only.", "5/C16"),
 "C04": claim("Coq statements fixing each frontend's mapping and limits + five-way differential run (saslauthd socket, basic-auth, API, LDAP over TCP, CLI binary) against store.Dir.Authenticate",
    "Theorems (Frontends.v): within the transport's limits a frontend accepts iff the store accepts the delivered pair (for LDAP the name up to the first '@'); a store error is a denial; the pair is not altered. The frontends are thin, so the weight is in the tie: ~540 (user, password) pairs special in some transport through the real sasl client/server, the handler mux, an LDAP bind over TCP and the built binary, each compared with the store's own verdict.",
    COMMON_NOTE + "HTTP, JSON, BER/LDAP, TLS and the command line are identity within the stated limits (invalid UTF-8 is outside JSON's, an empty argument means 'prompt').", "5/C04"),
 "C12": claim("Coq proofs (upgradeable iff pid <> default; one upgrade step preserves password, flag, auxiliary data and others; authentication is read-only; upgrade never undoes: C11) + login sequences replayed on the agent model",
    "Theorems: authentication reports upgradeable exactly when the record's parameter set differs from the default; an upgrade (update with the login password after a successful, upgradeable login of a supported record) succeeds, the same password then authenticates, the hash is no longer upgradeable, flag/aux data/others unchanged; authentication alone never changes the store. Tie: login sequences through the agent (interface and saslauthd callback) with upgrades local/off on mixed stores, waiting for quiescence, compared with handle_req ; handle_upgrade of the extracted agent configuration and judged by an upgrade monitor; remote mode against a master agent.",
    COMMON_NOTE + "Remote mode is exercised, not modelled beyond the master's own update path. KDF premises as in C01.", "5/C12"),
 "C17": claim("Coq proofs: condition parser = documented grammar (sound and complete), policy gate on every dispatcher write request + differential run with zxcvbn as oracle",
    "Theorems: parse_condition accepts exactly the documented grammar (ASCII); unknown types / unparsable conditions stop the agent; score thresholds above 4 refused; a request whose password fails the policy changes nothing, notifies nothing, queues nothing (init, add, update, internal upgrade); a passing password gets exactly the store's result; a change implies the policy passed. Tie: ~600 condition strings, the three comparators against zxcvbn's own values, every write path (interface, web API by admin / user session / old password, init, local upgrade) around three policies with store snapshots.",
    COMMON_NOTE + "zxcvbn is an oracle (its estimate is an input); conditions with non-ASCII white space and thresholds above 2^53 are outside the theorem's guard.", "5/C17"),
 "C18": claim("Coq proofs: loader accepts exactly the well-formed trees, accepted sets never panic (library precondition model), reload all-or-nothing + generated YAML, child processes, SIGHUP",
    "Theorems: from_config succeeds iff the tree is well-formed and returns exactly its base directory, default and sets; every accepted hasher satisfies the preconditions under which scrypt.Key / argon2.IDKey do not panic; configured r/p used with defaults 8/1; a reload yields the complete old or the complete new configuration, new only if it loads and passes the check. Tie: 500 generated / mutated YAML documents vs NewDirFromConfig and an independent well-formedness reading; accepted sets used for add+authenticate in child processes; reloads by SIGHUP under client load with a probe write.",
    COMMON_NOTE + "YAML text parsing is outside the model; hasher_usable is a transcription of the libraries' argument checks.", "5/C18"),
 "C19": claim("Coq proofs over the notify/timer loop (every event sequence) and the eligibility test + hooks run with a short rate limit and logging scripts",
    "Theorems: loop invariant (armed iff pending); a notification runs the hooks at once or leaves the timer armed with more than one pending so that the next timer event runs them (every notification covered); at most two rounds per rate-limit interval; rounds use the store most recently announced; the set started is exactly the non-hidden executable regular files and symlinks of a directory that is not world-writable; the dispatcher notifies exactly after successful add/update/set-admin and every remove. Tie: notification patterns against HooksCaller.run (300 ms interval), generated hooks directories, the agent with failing/read-only/successful operations and a hanging hook.",
    COMMON_NOTE + "Partial (runtime): process start, the one-minute kill and wall-clock jitter are observed, not modelled; patterns near a timer edge accept both interleavings.", "5/C19"),
 "C20": claim("Coq proofs over the model of the module's protocol logic + runs of the compiled module (stub headers, ASan/UBSan) against scripted servers",
    "Theorems: SUCCESS only if the server's first part begins with OK (and arrives within the timeout); the request on the wire is the saslauthd encoding of the clipped user and password, identical to the Go encoder's; unreachable, short, silent, negative replies never give SUCCESS; missing password; only the first part matters; reading a reply takes at most 2+256 bounded waits. Tie: pam_whawty.c from the working tree against scripted unix-socket servers (reply corpus cut at every byte, lying lengths, delays on both sides of the timeout, early close), PAM code and received request compared with the model.",
    COMMON_NOTE + "Partial (runtime): memory safety observed with sanitizers, not proved; libpam is replaced by stand-ins (harness/pam).", "5/C20"),
}

NOT_YET = "claimed by DESIGN.md but its check is not built yet in this snapshot; no claim is made until the check exists"

def main():
    checks = []
    for p in ALL:
        if p not in CLAIMED:
            continue
        c = CLAIMED[p]
        checks.append({
            "property_id": p,
            "quick_cmd": "./check %s --tier quick" % p,
            "thorough_cmd": "./check %s --tier thorough" % p,
            "evidence_file": "/verif/evidence/%s.json" % p,
            "replay_cmd_template": "./check %s --replay {path}" % p,
            "engine": "coq-model+correspondence",
            "level_claimed": {"category": "proof", "text": c["text"], "design_ref": c["design"]},
            "level_note": c["note"],
            "technique": c["technique"],
        })
    m = {
        "version": 1,
        "setup_cmd": "./setup.sh",
        "hooks": {
            "guard": "verif",
            "enable": "no source hooks: harness files are compiled into /repo's packages at check time with `go test -overlay` (see DESIGN.md 3.1); build tag `verif` reserved",
            "baseline_off_cmd": "cd /repo && GOFLAGS=-mod=mod GOPROXY=off GOSUMDB=off GOTOOLCHAIN=local go test -json -vet=off -count=1 -timeout 25m ./...",
            "source_commits": [],
            "add_only": True,
        },
        "engines": [{
            "name": "coq-model+correspondence", "path": "/verif/check",
            "serves_properties": sorted(CLAIMED),
            "kind_free_text": "Coq 8.16 theorems over executable Gallina models (coq/theories, coq/Properties); models tied to /repo by tools/facts (regenerates Extracted.v) and by differential runs evaluated inside Coq (coq/Run, vm_compute)",
        }],
        "checks": checks,
        "not_applicable": [{"property_id": p, "reason": NOT_YET} for p in ALL if p not in CLAIMED],
        "notes": "See DESIGN.md. KNOWN_FINDINGS.txt lists repaired (fixed:) and recorded (known:) defects.",
    }
    json.dump(m, open(os.path.join(VERIF, "MANIFEST.json"), "w"), indent=1)

if __name__ == "__main__":
    main()
