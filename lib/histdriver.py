"""System-call level HISTORIES with faults (C09, Run/C09h): several store operations on ONE directory,
one after the other, each in a fresh process under strace, some with one injected I/O error.  A
failed operation may leave an entry change of the base directory pending (rename / unlink done, the
directory fsync failed); the operations that follow - in particular the caller's retry - are then
judged by DurHist.hist_ok: whatever they acknowledge must be durable for their user's names."""
import os
import random
import shutil
from concurrent.futures import ThreadPoolExecutor

import tracelib as tl
import tracedriver as td

MUTATING = ("add", "update", "setadmin", "remove", "init")


def _clone_dir(st):
    """a throw-away copy of the store as it is now (for calibration runs)"""
    c = tl.Store.__new__(tl.Store)
    c.root = st.root + "-k%d" % random.getrandbits(40)
    shutil.copytree(st.root, c.root, symlinks=True)
    c.base = os.path.join(c.root, "base")
    c.cfg = os.path.join(c.root, "store.yaml")
    c.default = st.default
    c.write_cfg()
    return c


def _plan(st, op):
    """tracked calls the operation makes from the current state: [(kind, occurrence-of-kind, loc)], counts before the marker"""
    k = _clone_dir(st)
    try:
        res = tl.run_traced(k, td.op_args(op))
    finally:
        k.cleanup()
    occ, plan = {}, []
    for a in res["accesses"]:
        j = occ.get(a[0], 0)
        occ[a[0]] = j + 1
        plan.append((a[0], j, a[1]))
    return plan, res["before_counts"]


def _pick(plan, where):
    """where: 'dirsync' = the last fsync; 'diropen' = the open that precedes it; 'last-unlink'; 'rename'; int = index"""
    idx = None
    if isinstance(where, int):
        idx = where if 0 <= where < len(plan) else None
    elif where == "dirsync":
        c = [i for i, p in enumerate(plan) if p[0] == "KFsync"]
        idx = c[-1] if c else None
    elif where == "diropen":
        c = [i for i, p in enumerate(plan) if p[0] == "KFsync"]
        if c:
            o = [i for i, p in enumerate(plan) if p[0] == "KOpen" and i < c[-1]]
            idx = o[-1] if o else None
    elif where == "last-unlink":
        c = [i for i, p in enumerate(plan) if p[0] == "KUnlink"]
        idx = c[-1] if c else None
    elif where == "rename":
        c = [i for i, p in enumerate(plan) if p[0] == "KRename"]
        idx = c[-1] if c else None
    return idx


def run_history(prop, scen, steps, cls):
    """steps: [(op, where, errno)] (where None = no fault).  Returns one case dict (HistCase)."""
    st = scen.clone()
    try:
        tcs, human = [], []
        for (op, where, errno) in steps:
            inject, fdesc = None, None
            if where is not None:
                plan, bc = _plan(st, op)
                idx = _pick(plan, where)
                if idx is not None:
                    kind, j, _ = plan[idx]
                    sysc = tl.KIND_SYSCALL[kind]
                    inject = (sysc, errno, bc.get(sysc, 0) + j + 1)
            before = st.snapshot()
            res = tl.run_traced(st, td.op_args(op), inject=inject)
            if inject and not res["accesses"] and res["result"] != "ok":
                # the fault hit the start-up of the process, not the operation: run the step undisturbed
                inject = None
                res = tl.run_traced(st, td.op_args(op))
            after = st.snapshot()
            inj = [a for a in res["accesses"] if a[3]]
            if len(inj) == 1:
                kind = inj[0][0]
                same = [a for a in res["accesses"] if a[0] == kind]
                fdesc = (kind, [i for i, a in enumerate(same) if a[3]][0], errno)
            elif len(inj) > 1:
                return None
            c = td.make_case(prop, st, op, before, after, res, fdesc, cls)
            tcs.append(c)
            human.append({"op": [str(x) for x in op], "fault": fdesc, "result": res["result"], "detail": res["detail"][:120],
                          "events": [list(map(str, e)) for e in res["events"]]})
        case = {"prop": prop, "kind": "hist", "class": cls, "nontrivial": any(h["fault"] for h in human),
                "coq": "HistCase [%s]" % "; ".join("(" + c["coq"] + ")" for c in tcs),
                "human": {"steps": human}}
        viol = [c["violation"] for c in tcs if c.get("violation")]
        if viol:
            case["violation"] = "; ".join(viol)
        # the recorded finding D9 (error after the rename / unlink took effect) is a C15 matter; here it is
        # the situation the histories are about, not a violation
        return case
    finally:
        st.cleanup()


def directed(tier):
    E = "EIO"
    H = []
    # the caller's retry after a failed directory flush
    for w in ("dirsync", "diropen"):
        H += [
            ("retry/setadmin", [(("setadmin", "alice", True), w, E), (("setadmin", "alice", True), None, None)]),
            ("retry/setadmin-twice", [(("setadmin", "alice", True), w, E), (("setadmin", "alice", True), w, "ENOSPC"),
                                      (("setadmin", "alice", True), None, None), (("auth", "alice", "alicepw"), None, None)]),
            ("retry/demote", [(("setadmin", "bob", False), w, E), (("setadmin", "bob", False), None, None)]),
            ("retry/remove", [(("remove", "alice"), w, E), (("remove", "alice"), None, None)]),
            ("retry/remove-admin", [(("remove", "bob"), w, E), (("remove", "bob"), None, None), (("exists", "bob"), None, None)]),
            ("retry/update", [(("update", "alice", "newpw"), w, E), (("update", "alice", "newpw"), None, None)]),
            ("retry/add", [(("add", "dave", "davepw", False), w, E), (("add", "dave", "davepw", False), None, None)]),
            ("undo/setadmin", [(("setadmin", "alice", True), w, E), (("setadmin", "alice", False), None, None)]),
            ("other-op/remove-then-add", [(("remove", "alice"), w, E), (("add", "alice", "again", True), None, None)]),
            ("other-op/add-then-remove", [(("add", "dave", "davepw", False), w, E), (("remove", "dave"), None, None)]),
            ("other-op/setadmin-then-update", [(("setadmin", "alice", True), w, E), (("update", "alice", "pw2"), None, None)]),
            ("other-op/setadmin-then-remove", [(("setadmin", "alice", True), w, E), (("remove", "alice"), None, None)]),
            ("other-user/setadmin-then-setadmin", [(("setadmin", "alice", True), w, E), (("setadmin", "carol", False), None, None),
                                                   (("setadmin", "alice", True), None, None)]),
            ("other-user/remove-then-remove-nobody", [(("remove", "alice"), w, E), (("remove", "nobody"), None, None),
                                                      (("remove", "alice"), None, None)]),
        ]
    H += [
        ("retry/remove-second-file", [(("remove", "alice"), "last-unlink", E), (("remove", "alice"), None, None)]),
        ("retry/update-rename", [(("update", "alice", "newpw"), "rename", "EXDEV"), (("update", "alice", "newpw"), None, None)]),
        ("retry/setadmin-rename", [(("setadmin", "alice", True), "rename", E), (("setadmin", "alice", True), None, None)]),
    ]
    if tier != "thorough":
        # the quick tier keeps both fault places for the retries and one for the rest
        H = [h for i, h in enumerate(H) if h[0].startswith("retry/") or i % 2 == 0]
    return H


def random_histories(rng, n):
    users = ["alice", "bob", "carol", "dave"]
    out = []
    for _ in range(n):
        steps = []
        for k in range(rng.randint(3, 5)):
            u = rng.choice(users)
            op = rng.choice([("setadmin", u, rng.random() < 0.5), ("remove", u), ("update", u, "pw%d" % k),
                             ("add", u, "pw%d" % k, rng.random() < 0.3), ("setadmin", u, True), ("remove", u)])
            if rng.random() < 0.55:
                steps.append((op, rng.choice(["dirsync", "diropen", "last-unlink", "rename", rng.randint(0, 12)]),
                              rng.choice(tl.ERRNOS)))
            else:
                steps.append((op, None, None))
        out.append(("random", steps))
    return out


def gen_hist_cases(prop, seed, tier):
    tl.build_storeop()
    rng = random.Random(seed * 7919 + 13)
    scen = td.Scenario(rng, "small")
    try:
        plans = directed(tier) + random_histories(rng, 600 if tier == "thorough" else 60)
        with ThreadPoolExecutor(max_workers=8) as ex:
            res = list(ex.map(lambda p: run_history(prop, scen, p[1], "hist/" + p[0]), plans))
        return [c for c in res if c is not None]
    finally:
        scen.cleanup()
