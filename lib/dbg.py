#!/usr/bin/env python3
"""debug helper: dbg.py <replay.json> <RunModule> [extra coq expr using c]"""
import json, sys, subprocess, os, tempfile
rp = json.load(open(sys.argv[1])); mod = sys.argv[2]
c = rp["case"]
expr = sys.argv[3] if len(sys.argv) > 3 else "first_diff c"
hdr = sys.argv[4] if len(sys.argv) > 4 else ""
d = tempfile.mkdtemp()
open(d + "/D.v", "w").write("From Whawty Require Import Bytes Names Record Store StoreSpec SaslCodec.\n%s\nFrom WhawtyRun Require Import %s.\nOpen Scope N_scope.\nDefinition c := %s.\nDefinition R := Eval vm_compute in (%s).\nPrint R.\n" % (hdr, mod, c["coq"], expr))
r = subprocess.run("ulimit -s unlimited; coqc -Q /verif/coq/theories Whawty -Q /verif/coq/Run WhawtyRun -w -notation-overridden D.v", shell=True, cwd=d, capture_output=True, text=True)
print(r.stdout[-3000:], r.stderr[-2000:])
h = c.get("human", {})
if "ops" in h:
    for i, o in enumerate(h["ops"]):
        print(i, o[:200])
