"""Shared machinery of the /verif checks: build steps, Coq evaluation of
correspondence cases, violation reporting, evidence files."""
import concurrent.futures
import hashlib
import json
import os
import re
import shutil
import subprocess
import sys
import tempfile
import time

VERIF = os.path.dirname(os.path.dirname(os.path.abspath(__file__)))
REPO = os.environ.get("VERIF_REPO", "/repo")
COQ = os.path.join(VERIF, "coq")
BUILD = os.path.join(VERIF, ".build")
REPLAYS = os.path.join(VERIF, "replays")
EVIDENCE = os.path.join(VERIF, "evidence")
KNOWN = os.path.join(VERIF, "KNOWN_FINDINGS.txt")

GOENV = dict(os.environ, GOFLAGS="-mod=mod", GOPROXY="off", GOSUMDB="off",
             GOTOOLCHAIN="local", CGO_ENABLED=os.environ.get("CGO_ENABLED", "1"))

TRUSTED_BASE = [
    "Coq 8.16.1 kernel (coqc), vm_compute used in proofs and for model evaluation; native_compute not used",
    "no Axiom/Parameter/Admitted in the development (grep enforced on every run); Print Assumptions output recorded below",
    "tools/facts translator (Go, go/ast): constants and dispatcher structure -> coq/theories/Extracted.v, regenerated on every run",
    "correspondence harness: Go drivers compiled into /repo's packages with -overlay, case files evaluated inside Coq by vm_compute (no extraction)",
    "Go/C source itself is modelled, not verified; see DESIGN.md section 7",
]


def log(msg):
    print(msg, flush=True)


def run(cmd, **kw):
    kw.setdefault("stdout", subprocess.PIPE)
    kw.setdefault("stderr", subprocess.STDOUT)
    kw.setdefault("text", True)
    return subprocess.run(cmd, **kw)


# ----------------------------------------------------------------------------
# step 1: facts translator
def build_facts():
    os.makedirs(BUILD, exist_ok=True)
    exe = os.path.join(BUILD, "facts")
    src = os.path.join(VERIF, "tools", "facts")
    need = not os.path.exists(exe) or any(
        os.path.getmtime(os.path.join(src, f)) > os.path.getmtime(exe) for f in os.listdir(src))
    if need:
        r = run(["go", "build", "-o", exe, "."], cwd=src, env=GOENV)
        if r.returncode != 0:
            raise RuntimeError("building tools/facts failed:\n" + r.stdout)
    return exe


def run_facts():
    """returns (ok, message)"""
    exe = build_facts()
    out = os.path.join(COQ, "theories", "Extracted.v")
    r = run([exe, REPO, out])
    return r.returncode == 0, r.stdout


# ----------------------------------------------------------------------------
# step 2: Coq
def coq_makefile():
    mk = os.path.join(COQ, "Makefile")
    cp = os.path.join(COQ, "_CoqProject")
    if not os.path.exists(mk) or os.path.getmtime(cp) > os.path.getmtime(mk):
        r = run(["coq_makefile", "-f", "_CoqProject", "-o", "Makefile"], cwd=COQ)
        if r.returncode != 0:
            raise RuntimeError("coq_makefile failed:\n" + r.stdout)


def coq_make(targets, timeout=1500):
    """make the given .vo targets; returns (ok, output)"""
    coq_makefile()
    try:
        r = run(["timeout", "-k", "10", str(timeout), "make", "-j16", "-k"] + targets, cwd=COQ, timeout=timeout + 30)
    except subprocess.TimeoutExpired as e:
        return False, "TIMEOUT building %s\n%s" % (targets, e.stdout or "")
    return r.returncode == 0, r.stdout


def first_coq_error(output):
    """(file, line, message) of the first error in make/coqc output"""
    m = re.search(r'File "([^"]+)", line (\d+), characters [\d-]+:\s*\nError:(.*?)(?:\n\n|\nmake|\Z)', output, re.S)
    if not m:
        return None
    return m.group(1), int(m.group(2)), " ".join(m.group(3).split())[:400]


def enclosing_statement(path, line):
    """name of the Theorem/Lemma/... containing the given line"""
    try:
        lines = open(path).read().split("\n")
    except OSError:
        return None
    for i in range(min(line, len(lines)) - 1, -1, -1):
        m = re.match(r'\s*(Theorem|Lemma|Corollary|Example|Definition|Fixpoint|Fact|Remark)\s+([A-Za-z0-9_\']+)', lines[i])
        if m:
            return m.group(2)
    return None


FORBIDDEN = re.compile(r'\b(Admitted|admit|Axiom|Axioms|Parameter|Parameters|Conjecture|Unset\s+Guard|bypass_check|Admit\s+Obligations|type-in-type|impredicative-set)\b')


def forbidden_tokens():
    """scan the development for declarations that would weaken it"""
    hits = []
    for root, _, files in os.walk(COQ):
        if "/cases" in root:
            continue
        for f in files:
            if not f.endswith(".v"):
                continue
            p = os.path.join(root, f)
            text = strip_coq_comments(open(p).read())
            for i, l in enumerate(text.split("\n"), 1):
                if FORBIDDEN.search(l):
                    hits.append("%s:%d: %s" % (os.path.relpath(p, VERIF), i, l.strip()[:120]))
                if re.match(r'\s*(Variable|Variables|Hypothesis|Hypotheses)\b', l) and not in_section(text, i):
                    hits.append("%s:%d: %s (outside a section)" % (os.path.relpath(p, VERIF), i, l.strip()[:120]))
    return hits


def strip_coq_comments(s):
    out = []
    depth = 0
    i = 0
    instr = False
    while i < len(s):
        if depth == 0 and s[i] == '"':
            instr = not instr
            out.append(s[i])
            i += 1
            continue
        if not instr and s.startswith("(*", i):
            depth += 1
            i += 2
            continue
        if not instr and depth > 0 and s.startswith("*)", i):
            depth -= 1
            i += 2
            continue
        if depth == 0:
            out.append(s[i])
        elif s[i] == "\n":
            out.append("\n")
        i += 1
    return "".join(out)


def in_section(text, lineno):
    depth = 0
    for i, l in enumerate(text.split("\n"), 1):
        if i >= lineno:
            break
        if re.match(r'\s*Section\s+\w+', l):
            depth += 1
        elif re.match(r'\s*End\s+\w+', l) and depth > 0:
            depth -= 1
    return depth > 0


def check_properties_file(prop):
    """Compile Properties/<prop>.v (dependencies first) and report
    (obligations, discharged, assumptions, broken) where broken is None or a
    dict naming the theorem / file that no longer checks."""
    pfile = os.path.join(COQ, "Properties", prop + ".v")
    if not os.path.exists(pfile):
        return 0, 0, [], {"stage": "missing", "statement": "Properties/%s.v does not exist" % prop, "file": "coq/Properties/%s.v" % prop}
    text = strip_coq_comments(open(pfile).read())
    names = re.findall(r'^\s*(?:Theorem|Example|Corollary)\s+([A-Za-z0-9_\']+)', text, re.M)
    obligations = len(names)
    ok, out = coq_make(["Properties/%s.vo" % prop])
    if not ok:
        err = first_coq_error(out)
        broken = {"stage": "coq", "output_tail": out[-3000:]}
        if err:
            f, line, msg = err
            fp = f if os.path.isabs(f) else os.path.normpath(os.path.join(COQ, f))
            broken.update({"file": os.path.relpath(fp, VERIF), "line": line, "error": msg,
                           "statement": enclosing_statement(fp, line)})
            # theorems of the properties file that precede the failure still compiled
            if os.path.basename(fp) == prop + ".v" and "Properties" in fp:
                done = 0
                for m in re.finditer(r'^\s*(?:Theorem|Example|Corollary)\s+([A-Za-z0-9_\']+)', open(fp).read(), re.M):
                    ln = open(fp).read()[:m.start()].count("\n") + 1
                    if ln < line and enclosing_statement(fp, line) != m.group(1):
                        done += 1
                return obligations, done, [], broken
        return obligations, 0, [], broken
    # recompile the properties file alone to capture Print Assumptions
    r = run(["coqc", "-Q", "theories", "Whawty", "-Q", "Properties", "WhawtyProps", "-Q", "Run", "WhawtyRun",
             "-w", "-notation-overridden,-deprecated-hint-without-locality,-deprecated-instance-without-locality",
             "Properties/%s.v" % prop], cwd=COQ)
    if r.returncode != 0:
        err = first_coq_error(r.stdout)
        return obligations, 0, [], {"stage": "coq", "output_tail": r.stdout[-3000:],
                                     "statement": err and enclosing_statement(pfile, err[1])}
    assumptions = []
    closed = r.stdout.count("Closed under the global context")
    for m in re.finditer(r'Axioms:\n((?:.+\n?)+?)(?:\n|$)', r.stdout):
        for l in m.group(1).split("\n"):
            l = l.strip()
            if l and re.match(r'[A-Za-z_][\w\.]*\s*:', l):
                assumptions.append(l)
    summary = ["%d Print Assumptions: Closed under the global context" % closed]
    summary += sorted(set(assumptions))
    return obligations, obligations, summary, None


def coqchk_property(prop, timeout=3000):
    """thorough tier: re-check Properties/<prop>.vo and everything it depends on with the independent
    checker coqchk (on a scratch copy of the compiled tree) and return (ok, summary lines)."""
    dst = os.path.join(BUILD, "coqchk_" + prop)
    shutil.rmtree(dst, ignore_errors=True)
    shutil.copytree(COQ, dst, ignore=shutil.ignore_patterns("*.glob", "*.aux", ".*.aux", "Makefile*"))
    try:
        r = run(["timeout", "-k", "10", str(timeout), "coqchk", "-silent", "-o", "-Q", "theories", "Whawty",
                 "-Q", "Properties", "WhawtyProps", "WhawtyProps." + prop], cwd=dst, timeout=timeout + 60)
    except subprocess.TimeoutExpired:
        shutil.rmtree(dst, ignore_errors=True)
        return False, ["coqchk timed out"]
    shutil.rmtree(dst, ignore_errors=True)
    out = r.stdout
    lines = []
    m = re.search(r'CONTEXT SUMMARY\s*=+\s*(.*)', out, re.S)
    if m:
        for l in m.group(1).split("\n"):
            l = l.strip()
            if l.startswith("*") or (l and lines and not l.startswith("*")):
                lines.append(l)
    ok = r.returncode == 0 and "Axioms: <none>" in out and "type-in-type: <none>" in out and \
        "unsafe (co)fixpoints: <none>" in out and "positivity is assumed: <none>" in out
    return ok, ["coqchk -silent -o WhawtyProps.%s: exit %d" % (prop, r.returncode)] + lines[:20]


# ----------------------------------------------------------------------------
# step 3: Go drivers through -overlay
def run_go_driver(pkg_rel, harness_dir, prop, seed, tier, out_path, extra_env=None, timeout=1500, race=False):
    """Build /repo's package pkg_rel together with harness files (overlay) and
    run TestVerifDriver.  Returns (ok, output)."""
    os.makedirs(BUILD, exist_ok=True)
    pkgdir = os.path.join(REPO, pkg_rel)
    # package name
    pkgname = None
    for f in sorted(os.listdir(pkgdir)):
        if f.endswith(".go") and not f.endswith("_test.go"):
            m = re.search(r'^package\s+(\w+)', open(os.path.join(pkgdir, f)).read(), re.M)
            if m:
                pkgname = m.group(1)
                break
    ovdir = os.path.join(BUILD, "overlay", pkg_rel.replace("/", "_"))
    shutil.rmtree(ovdir, ignore_errors=True)
    os.makedirs(ovdir)
    replace = {}
    tmpl = open(os.path.join(VERIF, "harness", "common", "util_test.go.tmpl")).read()
    util = os.path.join(ovdir, "zz_verif_util_test.go")
    open(util, "w").write(tmpl.replace("PKGNAME", pkgname))
    replace[os.path.join(pkgdir, "zz_verif_util_test.go")] = util
    hdir = os.path.join(VERIF, "harness", harness_dir)
    for f in sorted(os.listdir(hdir)):
        if f.endswith("_test.go"):
            replace[os.path.join(pkgdir, "zz_verif_" + f)] = os.path.join(hdir, f)
    ovjson = os.path.join(ovdir, "overlay.json")
    json.dump({"Replace": replace}, open(ovjson, "w"))
    env = dict(GOENV, VERIF_PROP=prop, VERIF_SEED=str(seed), VERIF_TIER=tier, VERIF_OUT=out_path,
               VERIF_DIR=VERIF)
    if extra_env:
        env.update(extra_env)
    cmd = ["go", "test", "-vet=off", "-count=1", "-overlay", ovjson, "-run", "^TestVerifDriver$",
           "-timeout", "%ds" % timeout, "-v"]
    if race:
        cmd.append("-race")
    cmd.append("./" + pkg_rel)
    _clean_repo_test_dirs()
    try:
        r = run(cmd, cwd=REPO, env=env, timeout=timeout + 60)
    except subprocess.TimeoutExpired as e:
        _clean_repo_test_dirs()
        return False, "TIMEOUT running go driver\n" + (e.stdout or "")
    _clean_repo_test_dirs()
    return r.returncode == 0, r.stdout


def _clean_repo_test_dirs():
    """the repository's own TestMain (package store) creates scratch stores in
    its working directory and leaves them behind when the test binary dies"""
    for n in ("test-store-user", "test-store"):
        shutil.rmtree(os.path.join(REPO, "store", n), ignore_errors=True)


def load_cases(path):
    cases = []
    if not os.path.exists(path):
        return cases
    with open(path) as f:
        for line in f:
            line = line.strip()
            if line:
                try:
                    cases.append(json.loads(line))
                except ValueError:
                    # a driver that died in the middle of a line: the failure itself is reported by the caller
                    continue
    return cases


# ----------------------------------------------------------------------------
# step 4: evaluate the model on the cases inside Coq
def _coq_eval_shard(args):
    idx, header, items, workdir, case_type = args
    name = "Cases_%03d" % idx
    path = os.path.join(workdir, name + ".v")
    with open(path, "w") as f:
        f.write(header + "\n")
        f.write("Definition cases : list %s := [\n" % case_type)
        f.write(";\n".join(items))
        f.write("\n].\n")
        f.write("Definition M := Eval vm_compute in (mismatches cases).\nPrint M.\n")
        f.write("Definition V := Eval vm_compute in (violations cases).\nPrint V.\n")
    t0 = time.time()
    try:
        r = run(["bash", "-c", "ulimit -s unlimited 2>/dev/null || ulimit -s 1000000 2>/dev/null; exec timeout -k 5 900 coqc -Q %s Whawty -Q %s WhawtyRun -w -notation-overridden %s"
                 % (os.path.join(COQ, "theories"), os.path.join(COQ, "Run"), path)], cwd=workdir, timeout=960)
    except subprocess.TimeoutExpired:
        return idx, None, None, "timeout", time.time() - t0
    if r.returncode != 0:
        return idx, None, None, "coqc exit %d: %s" % (r.returncode, r.stdout[-2000:]), time.time() - t0
    out = r.stdout

    def grab(nm):
        m = re.search(r'%s\s*=\s*(\[.*?\])\s*:\s*list N' % nm, out, re.S)
        if not m:
            return None
        body = m.group(1).strip()[1:-1].strip()
        if not body:
            return []
        return [int(x.strip().replace("%N", "")) for x in body.split(";")]
    m, v = grab("M"), grab("V")
    if m is None or v is None:
        return idx, m, v, "unparsable coqc output: " + out[-600:], time.time() - t0
    return idx, m, v, None, time.time() - t0


def coq_eval_cases(run_module, cases, shard_size=400, extra_header="", case_type="case"):
    """returns (mismatch_indices, violation_indices, errors)"""
    workdir = tempfile.mkdtemp(prefix="cases_", dir=BUILD)
    header = "From Whawty Require Import Bytes.\nFrom WhawtyRun Require Import %s.\nOpen Scope N_scope.\n%s" % (run_module, extra_header)
    shards = []
    for i in range(0, len(cases), shard_size):
        shards.append((i // shard_size, header, [c["coq"] for c in cases[i:i + shard_size]], workdir, case_type))
    mism, viol, errors = [], [], []
    with concurrent.futures.ThreadPoolExecutor(max_workers=16) as ex:
        for idx, m, v, err, dt in ex.map(_coq_eval_shard, shards):
            if err is not None or m is None or v is None:
                errors.append("shard %d: %s" % (idx, err or "unparsable coqc output"))
                continue
            mism += [idx * shard_size + k for k in m]
            viol += [idx * shard_size + k for k in v]
    if not os.environ.get("VERIF_KEEP_CASES"):
        shutil.rmtree(workdir, ignore_errors=True)
    return sorted(mism), sorted(viol), errors


# ----------------------------------------------------------------------------
# known findings
def known_findings(prop):
    known, fixed = [], []
    if os.path.exists(KNOWN):
        for l in open(KNOWN):
            l = l.strip()
            m = re.match(r'known:\s*property=(\w+)\s+(.*)', l)
            if m and m.group(1) == prop:
                known.append(m.group(2).strip())
            m = re.match(r'fixed:\s*property=(\w+)\s+(\S+)\s+(.*)', l)
            if m and m.group(1) == prop:
                fixed.append((m.group(2), m.group(3).strip()))
    return known, fixed


# ----------------------------------------------------------------------------
# reporting
class Report:
    def __init__(self, prop, tier, seed):
        self.prop, self.tier, self.seed = prop, tier, seed
        self.t0 = time.time()
        self.violations = []      # (replay_path, text, found_input)
        self.known_hits = []
        self.coverage = {}
        self.assumptions = []
        os.makedirs(REPLAYS, exist_ok=True)
        os.makedirs(EVIDENCE, exist_ok=True)

    def violation(self, tag, payload, found_input=True, signature=None):
        """record a violation; signature is matched against known: lines"""
        known, _ = known_findings(self.prop)
        if signature is not None and signature in known:
            if signature not in self.known_hits:
                self.known_hits.append(signature)
            return
        name = "%s-%s-%s-%d.json" % (self.prop, self.tier, re.sub(r'[^A-Za-z0-9_.-]', '_', tag)[:60], self.seed)
        path = os.path.join(REPLAYS, name)
        payload = dict(payload, property=self.prop, tier=self.tier, seed=self.seed, tag=tag,
                       failing_input_found=found_input)
        json.dump(payload, open(path, "w"), indent=1, default=str)
        self.violations.append((path, tag, found_input))

    def finish(self, level="proof"):
        wall = time.time() - self.t0
        ev = {
            "property_id": self.prop, "tier": self.tier, "seed": self.seed, "level": level,
            "coverage": self.coverage, "assumptions": self.assumptions,
            "wall_s": round(wall, 2), "violations": len(self.violations),
        }
        json.dump(ev, open(os.path.join(EVIDENCE, self.prop + ".json"), "w"), indent=1, default=str)
        for sig in self.known_hits:
            print("KNOWN-FINDING: property=%s %s" % (self.prop, sig))
        seen = set()
        for path, tag, found in self.violations:
            if path in seen:
                continue
            seen.add(path)
            line = "VIOLATION property=%s replay=%s" % (self.prop, path)
            if not found:
                line += " no-failing-input-found"
            print(line)
        sys.stdout.flush()
        return 1 if self.violations else 0


def distribution(cases):
    d = {}
    for c in cases:
        d[c.get("class", "?")] = d.get(c.get("class", "?"), 0) + 1
    return d


def distinct_nontrivial(cases):
    s = set()
    for c in cases:
        if c.get("nontrivial"):
            s.add(hashlib.sha1(c["coq"].encode()).hexdigest())
    return len(s)


def sample_cases(cases, k=4):
    out = []
    seen = set()
    for c in cases:
        cl = c.get("class")
        if cl in seen:
            continue
        seen.add(cl)
        out.append({"kind": c.get("kind"), "class": cl, "human": c.get("human"), "coq": c["coq"][:300]})
        if len(out) >= k:
            break
    return out
