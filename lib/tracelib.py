"""strace-based observation of single store operations: run one operation in
a fresh process (harness/storeop), parse the system calls between the two
marker stats, project them to the model's alphabet, optionally inject one
fault (strace -e inject=...)."""
import json
import os
import re
import shutil
import subprocess
import tempfile

import vlib

STOREOP = os.path.join(vlib.BUILD, "storeop")

KIND_SYSCALL = {
    "KStat": "newfstatat", "KOpen": "openat", "KMkdir": "mkdirat", "KWrite": "write", "KRead": "read",
    "KCopy": "copy_file_range", "KFsync": "fsync", "KRename": "renameat", "KUnlink": "unlinkat",
}
SYSCALL_KIND = {v: k for k, v in KIND_SYSCALL.items()}
ERRNOS = ["ENOSPC", "EIO", "EACCES", "EMFILE"]
# errors that are specific to one kind of call (in addition to the general ones)
KIND_ERRNOS = {"KRename": ["EXDEV"], "KWrite": ["EDQUOT"], "KCopy": ["EDQUOT"], "KOpen": ["EROFS"], "KMkdir": ["EROFS"]}


def build_storeop():
    src = os.path.join(vlib.VERIF, "harness", "storeop")
    if vlib.REPO != "/repo":
        # a run against another checkout (VERIF_REPO): build from a copy whose module points there
        cp = os.path.join(vlib.BUILD, "storeop-src")
        shutil.rmtree(cp, ignore_errors=True)
        shutil.copytree(src, cp)
        gm = open(os.path.join(cp, "go.mod")).read().replace("=> /repo", "=> " + vlib.REPO)
        open(os.path.join(cp, "go.mod"), "w").write(gm)
        src = cp
    shutil.copy(os.path.join(vlib.REPO, "go.sum"), os.path.join(src, "go.sum"))
    r = vlib.run(["go", "build", "-o", STOREOP, "."], cwd=src, env=vlib.GOENV)
    if r.returncode != 0:
        raise RuntimeError("building harness/storeop failed:\n" + r.stdout)


class Store:
    """a scratch store directory with a two-set argon2id configuration"""

    def __init__(self, tag="st"):
        self.root = tempfile.mkdtemp(prefix="verif-%s-" % tag)
        self.base = os.path.join(self.root, "base")
        os.mkdir(self.base)
        os.mkdir(os.path.join(self.root, "other"))
        open(os.path.join(self.root, "other", "eve.user"), "w").write("decoy\n")
        open(os.path.join(self.root, "base.user"), "w").write("decoy\n")
        self.cfg = os.path.join(self.root, "store.yaml")
        self.default = 1
        self.write_cfg()

    def write_cfg(self):
        open(self.cfg, "w").write(
            'basedir: "%s"\ndefault: %d\nparams:\n'
            '  - id: 1\n    argon2id:\n      time: 1\n      memory: 8\n      threads: 1\n      length: 32\n'
            '  - id: 2\n    argon2id:\n      time: 1\n      memory: 16\n      threads: 1\n      length: 16\n' % (self.base, self.default))

    coq_cfg_fmt = "{| params := [(1, HArgon 1 8 1 32); (2, HArgon 1 16 1 16)]; default := %d |}"

    def coq_cfg(self):
        return self.coq_cfg_fmt % self.default

    def hasher(self, pid):
        return {1: "(HArgon 1 8 1 32)", 2: "(HArgon 1 16 1 16)"}.get(pid)

    def op(self, *args):
        r = vlib.run([STOREOP, self.cfg] + list(args))
        return r.stdout

    def snapshot(self):
        """{name: bytes | {child: bytes}} of the base directory"""
        out = {}
        for n in sorted(os.listdir(self.base)):
            p = os.path.join(self.base, n)
            if os.path.islink(p):
                # a symbolic link in the base directory (the store never makes one): recorded as an entry
                # whose content names the link, never followed
                out[n] = b"\x00symlink -> " + os.readlink(p).encode("utf-8", "surrogateescape")
            elif os.path.isdir(p):
                out[n] = {k: open(os.path.join(p, k), "rb").read() for k in sorted(os.listdir(p))}
            else:
                out[n] = open(p, "rb").read()
        return out

    def outside_digest(self):
        """content of everything under root except base/ (C03: must never change)"""
        out = {}
        for dp, dn, fn in os.walk(self.root):
            if dp.startswith(self.base):
                continue
            for f in fn:
                p = os.path.join(dp, f)
                if p == self.cfg:
                    continue
                out[os.path.relpath(p, self.root)] = open(p, "rb").read()
        return out

    def cleanup(self):
        shutil.rmtree(self.root, ignore_errors=True)


def coq_bytes(b):
    hx = b.hex()
    if len(hx) <= 4096:
        return '(h "%s")' % hx
    return "(" + " ++ ".join('h "%s"' % hx[i:i + 4096] for i in range(0, len(hx), 4096)) + ")"


def coq_dir(snap):
    xs = []
    for n, v in snap.items():
        if isinstance(v, dict):
            xs.append("(%s, Dir [%s])" % (coq_bytes(n.encode()), "; ".join("(%s, %s)" % (coq_bytes(k.encode()), coq_bytes(c)) for k, c in v.items())))
        else:
            xs.append("(%s, File %s)" % (coq_bytes(n.encode()), coq_bytes(v)))
    return "[" + "; ".join(xs) + "]"


# ----------------------------------------------------------------------------
LINE_RE = re.compile(r'^(\d+)\s+(.*)$')


def parse_strace(path):
    """list of (pid, name, argstr, ret, retstr) in completion order"""
    calls = []
    pending = {}
    for raw in open(path, errors="replace"):
        m = LINE_RE.match(raw.rstrip("\n"))
        if not m:
            continue
        pid, rest = m.group(1), m.group(2)
        if rest.startswith("+++") or rest.startswith("---"):
            continue
        if rest.endswith("<unfinished ...>"):
            pending[pid] = rest[:-len("<unfinished ...>")]
            continue
        mm = re.match(r'<\.\.\. (\w+) resumed>(.*)$', rest)
        if mm:
            rest = pending.pop(pid, mm.group(1) + "(") + mm.group(2)
        mm = re.match(r'(\w+)\((.*)\)\s+=\s+(-?\d+|\?|0x[0-9a-f]+)(.*)$', rest, re.S)
        if not mm:
            continue
        name, args, ret, tail = mm.group(1), mm.group(2), mm.group(3), mm.group(4)
        try:
            reti = int(ret, 0)
        except ValueError:
            reti = None
        calls.append((pid, name, args, reti, tail.strip()))
    return calls


def between_markers(calls):
    out, on = [], False
    before = []
    for c in calls:
        if c[1] == "newfstatat" and "/verif-marker-begin" in c[2]:
            on = True
            continue
        if c[1] == "newfstatat" and "/verif-marker-end" in c[2]:
            break
        (out if on else before).append(c)
    return before, out


def classify(path, base):
    """('file', name) | ('tmpfile', name) | ('tmpdir',) | ('base',) | ('outside', path)"""
    path = os.path.normpath(path)
    if path == base:
        return ("base",)
    if path == os.path.join(base, ".tmp"):
        return ("tmpdir",)
    if path.startswith(base + "/.tmp/"):
        rest = path[len(base) + 6:]
        if "/" not in rest:
            return ("tmpfile", rest)
        return ("outside", path)
    if path.startswith(base + "/"):
        rest = path[len(base) + 1:]
        if "/" not in rest:
            return ("file", rest)
    return ("outside", path)


def coq_loc(l):
    if l[0] == "file":
        return "(LFile %s)" % coq_bytes(l[1].encode())
    if l[0] == "tmpfile":
        return "(LTmpFile %s)" % coq_bytes(l[1].encode())
    if l[0] == "tmpdir":
        return "LTmpDir"
    if l[0] == "base":
        return "LBaseDir"
    return None


def _first_path(args):
    m = re.search(r'"((?:[^"\\]|\\.)*)"', args)
    return m.group(1) if m else None


def _fd_path(arg):
    m = re.search(r'\d+<([^>]*)>', arg)
    if not m:
        return None
    p = m.group(1)
    return p[:-len("(deleted)")] if p.endswith("(deleted)") else p


def project(calls, base):
    """(events, accesses, outside): events = successful mutation-relevant calls in
    the model's alphabet; accesses = every path-taking or fd-taking tracked call
    (kind, loc, ok, injected) for fault bookkeeping; outside = calls touching
    paths that are neither in base nor harmless"""
    events, accesses, outside = [], [], []
    for pid, name, args, ret, tail in calls:
        ok = ret is not None and ret >= 0
        inj = "(INJECTED)" in tail
        if name in ("newfstatat", "openat", "mkdirat", "unlinkat"):
            p = _first_path(args)
            if p is None:
                continue
            loc = classify(p, base)
            kind = SYSCALL_KIND[name]
            accesses.append((kind, loc, ok, inj, name, args[:200]))
            if loc[0] == "outside":
                if name != "newfstatat" or not (p == os.path.dirname(base) or p == "/"):
                    outside.append((name, p, ok))
                else:
                    pass
                if name == "newfstatat":
                    continue
            if not ok:
                continue
            if name == "openat" and "O_CREAT" in args:
                events.append(("ECreate", loc))
                if "O_TRUNC" in args and "O_EXCL" not in args:
                    events.append(("EWrite", loc, 0))     # may truncate an existing file
            elif name == "openat" and "O_TRUNC" in args:
                events.append(("EWrite", loc, 0))         # truncation in place
            elif name == "mkdirat":
                events.append(("EMkdir", loc))
            elif name == "unlinkat":
                events.append(("EUnlink", loc))
        elif name == "renameat" or name == "renameat2":
            ps = re.findall(r'"((?:[^"\\]|\\.)*)"', args)
            if len(ps) >= 2:
                a, b = classify(ps[0], base), classify(ps[1], base)
                accesses.append(("KRename", a, ok, inj, name, args[:200]))
                if a[0] == "outside" or b[0] == "outside":
                    outside.append((name, ps[0] + " -> " + ps[1], ok))
                if ok:
                    events.append(("ERename", a, b))
        elif name in ("write", "fsync", "read"):
            first = args.split(",")[0]
            p = _fd_path(first)
            if p is None:
                continue
            loc = classify(p, base)
            if loc[0] == "outside":
                if name == "write" and p.startswith(os.path.dirname(base)):
                    outside.append((name, p, ok))
                continue
            accesses.append((SYSCALL_KIND[name], loc, ok, inj, name, first))
            if ok and name == "write" and ret > 0:
                events.append(("EWrite", loc, ret))
            elif ok and name == "fsync":
                events.append(("EFsync", loc))
        elif name == "copy_file_range":
            parts = args.split(",")
            src, dst = _fd_path(parts[0]), _fd_path(parts[2]) if len(parts) > 2 else None
            if dst is None:
                continue
            loc = classify(dst, base)
            accesses.append(("KCopy", loc, ok, inj, name, args[:120]))
            if loc[0] == "outside":
                outside.append((name, dst, ok))
                continue
            if ok and ret > 0:
                events.append(("EWrite", loc, ret))
        elif name in ("linkat", "symlinkat", "truncate", "ftruncate", "fchmodat", "fchownat", "utimensat", "rmdir", "unlink", "rename", "mkdir", "creat", "open", "pwrite64", "writev", "sendfile", "splice", "fdatasync", "sync_file_range"):
            # calls the store is not expected to make on store paths: keep them visible
            p = _first_path(args) or _fd_path(args.split(",")[0]) or ""
            if p.startswith(os.path.dirname(base)):
                outside.append((name, p, ok))
                if name in ("fdatasync",):
                    pass
    # merge consecutive writes to the same file
    merged = []
    for e in events:
        if e[0] == "EWrite" and merged and merged[-1][0] == "EWrite" and merged[-1][1] == e[1]:
            merged[-1] = ("EWrite", e[1], merged[-1][2] + e[2])
        else:
            merged.append(e)
    return merged, accesses, outside


def coq_events(events):
    xs = []
    for e in events:
        if e[0] == "ERename":
            a, b = coq_loc(e[1]), coq_loc(e[2])
            if a and b:
                xs.append("ERename %s %s" % (a, b))
        elif e[0] == "EWrite":
            l = coq_loc(e[1])
            if l:
                xs.append("EWrite %s []" % l)
        else:
            l = coq_loc(e[1])
            if l:
                xs.append("%s %s" % (e[0], l))
    return "[" + "; ".join(xs) + "]"


def run_traced(store, args, inject=None, timeout=60):
    """run one operation under strace.  inject = (syscall, errno, when).
    Returns dict(result, events, accesses, outside, before_counts, raw)"""
    fd, tr = tempfile.mkstemp(prefix="strace-", dir=vlib.BUILD)
    os.close(fd)
    cmd = ["strace", "-f", "-y", "-s", "64", "-o", tr]
    if inject:
        if str(inject[1]).startswith("signal="):
            cmd += ["-e", "inject=%s:%s:when=%d" % inject]      # e.g. signal=SIGKILL on entering the call
        else:
            cmd += ["-e", "inject=%s:error=%s:when=%d" % inject]
    cmd += [STOREOP, store.cfg] + list(args)
    try:
        r = vlib.run(cmd, timeout=timeout)
        out = r.stdout
        if "RESULT " not in out and r.returncode in (0, 10):
            # the line itself was lost (an injected write error can hit it): the exit status says the same
            out += "\nRESULT %s (from the exit status)" % ("ok" if r.returncode == 0 else "err")
    except subprocess.TimeoutExpired as e:
        out = "RESULT timeout"
    calls = parse_strace(tr) if os.path.exists(tr) else []
    before, mid = between_markers(calls)
    counts = {}
    for c in before:
        counts[c[1]] = counts.get(c[1], 0) + 1
    # the marker stat itself is a newfstatat that precedes the operation
    counts["newfstatat"] = counts.get("newfstatat", 0) + 1
    events, accesses, outside = project(mid, store.base)
    try:
        os.remove(tr)
    except OSError:
        pass
    m = re.search(r'RESULT (\w+)(.*)', out)
    return {"result": m.group(1) if m else "crash", "detail": (m.group(2).strip() if m else out[-500:]),
            "events": events, "accesses": accesses, "outside": outside, "before_counts": counts}
