"""Generic pipeline for properties whose correspondence is a stream of cases
produced by one Go driver and judged by coq/Run/<id>.v."""
import json
import os
import time

import vlib

# property -> configuration
CONFIG = {
    "C01": dict(
        drivers=[("store", "store")], run="C01", shard=20,
        header="From Whawty Require Import Names Record Store StoreSpec.",
        rule="random operation histories (12-40 ops) on a real directory: 2-6 users incl. prefix-sharing, over-long and invalid names, "
             "1-4 parameter sets of both algorithms with cheap costs, default switched mid-history (also to an unconfigured id), "
             "passwords biased to the near-misses of C01 (prefix, extension, case, whitespace, NUL, bit flip, 63/64/65 bytes, several KiB, "
             "sha256 of a long password, other users' passwords); per op: result + byte-level directory snapshot; "
             "non-trivial = the history authenticates after at least one acknowledged write; distinct = distinct history terms",
    ),
    "C02": dict(
        parts=[dict(drivers=[("store", "store")], run="C02", shard=60, header="From Whawty Require Import Names Record Store StoreSpec."),
               dict(drivers=[("cmd/whawty-auth", "main")], run="C02a", shard=20, case_type="acase02",
                    header="From Whawty Require Import Names Record Store StoreSpec.")],
        rule="agent level: records of three parameter sets in use by a running agent; a SIGHUP reload retires or redefines one set; authenticate / list / list-full / update "
             "of each user afterwards, judged under the configuration now in force; store level: one history (authenticate right/wrong password, exists, list, list-full, check, add, update, authenticate, remove, exists) per hash-file content: "
             "valid records of every configured set (LF, CRLF, no line end, aux data), systematic mutations (each field emptied/duplicated/removed/swapped, "
             "truncation at every length, separators deleted/doubled, single-byte substitutions and insertions by ':' LF CR NUL '=' '-' '_' '+' '/', std alphabet, padding, "
             "numeric edge values for time and parameter-set id, other/unknown ids and algorithms, digest prefixes/extension, empty or short salt, 64 KiB line), "
             "random bytes, random structured garbage, empty file; 1 MiB files run on the implementation only and are judged by the driver; "
             "non-trivial = every case (each is a distinct file content); distinct = distinct history terms",
    ),
    "C14": dict(
        parts=[dict(drivers=[("store", "store")], run="C14", shard=20, header="From Whawty Require Import Names Record Store StoreSpec."),
               dict(drivers=[("cmd/whawty-auth", "main")], run="C14a", shard=20, case_type="acase14",
                    header="From Whawty Require Import Names Record Store StoreSpec.")],
        rule="agent level: add / update / login-triggered upgrade through the running agent before and after two SIGHUP reloads that change the default "
             "parameter set: each written record must name the configured default and carry the digest the harness recomputed under that set; "
             "store level: random histories on stores created by NewDirFromConfig from YAML the harness printed itself (2-4 sets, scrypt cost/r/p incl. defaulted r and p, argon2id time/memory/threads/length 16-64), "
             "default switched mid-history; after every acknowledged write the file is compared byte-for-byte with the schema line built from the "
             "digest the harness recomputed with x/crypto, the salt's size and freshness are checked (per history in Coq, across the run in the driver), "
             "the recorded time must lie in the call window, the directory is scanned for passwords and the raw/base64 HMAC key; "
             "non-trivial = history with an authenticate after an acknowledged write; distinct = distinct history terms",
    ),
    "C16": dict(
        drivers=[("store", "store")], run="C16", shard=40,
        header="From Whawty Require Import Names Record Store StoreSpec.",
        rule="generated directories (about 45 % valid): supported/unsupported/empty hash files, several admins, .tmp as directory (empty or with residue), as file or absent, "
             "other extensions, extension-less files, both extensions for one name, no admin, unsupported admin, sub-directories, an admin file that is a directory, "
             "an only admin with an invalid name; ops per directory: check, list, list-full, init, check, exists; plus histories from init with a check after every operation; "
             "non-trivial = every case; distinct = distinct history terms",
    ),
    "C05": dict(
        drivers=[("sasl", "sasl")], run="C05", shard=120, header="From Whawty Require Import SaslCodec SaslServer.",
        rule="a real sasl.Server on a unix socket with a scripted callback that records its invocations; raw client streams: valid requests (with/without half-close, "
             "trailing bytes), truncation at every byte (half-closed and abandoned), boundary and over-long fields (255/256/257/1000/65535), empty login/password, random bytes, empty stream; "
             "callback outcomes ok/no/error x message lengths 0..70000 incl. 252/253/254 and 65533/65534; 2-64 concurrent connections with per-connection answers; "
             "every reply decoded by sasl.Response.Decode and by the model of the PAM reader; non-trivial = callback invoked or stream longer than 2 bytes; distinct = distinct case terms",
    ),
    "C06": dict(
        drivers=[("cmd/whawty-auth", "main")], run="C06", shard=2, case_type="wcase",
        header="From Whawty Require Import Names Record Store StoreSpec Session WebApi.",
        rule="sequences of 49 requests against the mux of newWebHandler (httptest) on a store with two admins and two users under three parameter sets: "
             "endpoint (7) x credential (none, garbage, expired, future-dated, almost expired, lenient flag, tampered, other instance, ghost admin, user session, admin session) x "
             "target (self, other user, other admin, non-existent, invalid, name with ':') x body shape (valid, unknown fields, trailing junk, duplicate keys, missing/null username, wrong type, "
             "not JSON, empty body, array, empty session); update with session / right / wrong old password / both / neither / upgrade-only form; "
             "per request: status, presence of a list, session handed out, byte-level store snapshot; non-trivial = every sequence; distinct = distinct sequence terms",
    ),
    "C17": dict(
        drivers=[("cmd/whawty-auth", "main")], run="C17", shard=200, timeout=900, header="From Whawty Require Import Policy.",
        rule="(1) ~190 policy type / condition strings (valid, permuted, wrong operator, overflow, signs, hex, extra fields, tabs and newlines, non-ASCII space, unknown kinds) through NewPasswordPolicy, "
             "the chosen comparator identified by probing it; (2) the three comparators at 18 thresholds x 17 passwords against the values the harness gets from zxcvbn itself (exact mantissa/exponent); "
             "(3) every write path - Store interface add/update/init, web API add and update by an admin, update by the user with a session and with the old password, the local hash upgrade - "
             "with 8 candidate passwords around three policies, store snapshot before/after; (4) agent start with unparsable policies; "
             "non-trivial = every case; distinct = distinct case terms",
    ),
    "C19": dict(
        drivers=[("cmd/whawty-auth", "main")], run="C19", shard=100, timeout=1200, header="From Whawty Require Import Hooks.",
        rule="HooksCaller.run started in-package with a 300 ms rate limit and hook scripts that log time, argv and WHAWTY_AUTH_STORE: 12 (thorough 72) notification patterns "
             "(0, 1, 2, many per interval, next interval, several intervals) compared with the rounds of the loop model (patterns near a timer edge accept both interleavings); a store switch; "
             "30 (thorough 300) generated hooks directories (hidden names, every interesting mode, regular files, symlinks, directories, fifos; directory modes incl. world-writable) - the set of hooks "
             "that actually ran compared with the eligibility model; through the agent: failed and read-only operations start nothing, a successful add starts a round, a hanging hook delays nobody; "
             "non-trivial = every case with a notification; distinct = distinct case terms",
    ),
    "C12": dict(
        drivers=[("cmd/whawty-auth", "main")], run="C12", shard=8, timeout=1200, case_type="ucase",
        header="From Whawty Require Import Names Record Store StoreSpec Agent AgentInst.",
        rule="40 (thorough 600) login sequences through the agent (Store interface and the saslauthd callback) on stores mixing records of three parameter sets and both algorithms with "
             "auxiliary data, every choice of default, upgrades local and off, right and near-miss passwords; after each login the driver waits for the queued upgrade and snapshots the directory; "
             "compared with handle_req ; handle_upgrade of the agent model instantiated with the extracted structure, and judged by the upgrade monitor (rewrite only after a successful login "
             "of an upgradeable record, under the default set, same password verifies, flag and auxiliary data kept, others untouched; no rewrite when off; rewrite does happen on an idle agent); "
             "6 (thorough 60) remote-mode runs with a master agent behind httptest: slave store untouched, master upgraded only after a successful login; non-trivial = every case; distinct = distinct case terms",
    ),
    "C10": dict(
        drivers=[("cmd/whawty-auth", "main")], run="C10", shard=50, timeout=900,
        rule="(a) cap() of every request channel and of the hooks channels, and the aliasing of the upgrade channel, read in-process and compared with the facts tools/facts extracted "
             "from the source (Extracted.v), which instantiate the deadlock-freedom theorem; (b) adversarial load for 2.5 s (thorough 15 s) per pattern with a progress watchdog: "
             "40 clients authenticate-vs-update on 30 upgradeable users with local upgrades, mixed operations with slow/hanging/failing hooks, upgrades off, remote upgrades to an "
             "unreachable and to a stalling master, a 64-client authentication burst; a stall (no completed request for 4 s while requests are outstanding) is reported with the goroutine dump; "
             "non-trivial = every case; distinct = one per pattern",
    ),
    "C11": dict(
        parts=[dict(drivers=[("cmd/whawty-auth", "main")], run="C11", shard=10, timeout=900, race=True),
               # the web layer in front of the dispatcher: request sequences (several connections) judged by the
               # web API model - every answer is the sequential one, whatever other connections sent before
               dict(drivers=[("cmd/whawty-auth", "main")], driver_prop="C11W", run="C06", shard=2, case_type="wcase",
                    header="From Whawty Require Import Names Record Store StoreSpec Session WebApi.")],
        rule="concurrent histories at the agent's Store interface: 2-8 client goroutines x 4-8 operations (authenticate, update, add, remove, set-admin) on 2-4 overlapping users with a pool of 3 passwords, "
             "upgrades off and local (users start on non-default parameter sets), call/return times recorded, followed by a sequential read-out of every (user, password) pair; "
             "each history is decided by a linearizability search against the sequential specification (evaluated in Coq), per user; the driver is built with -race; "
             "non-trivial = at least two clients; distinct = distinct history terms",
    ),
    "C07": dict(
        drivers=[("cmd/whawty-auth", "main")], run="C07", shard=2, header="From Whawty Require Import Session.",
        rule="two factory instances; tokens issued for names with and without ':' and both flags; tokens sealed by the driver with chosen plaintexts "
             "(ages on both sides of the lifetime, +-2^62, int64 edges, lenient flag spellings, non-numeric or missing fields); presented to instance A: every issued token, "
             "single-character mutations of the text, EVERY single-bit mutation of nonce||ciphertext, every prefix and suffix of the text, truncated/extended nonce and ciphertext, "
             "all nonce/ciphertext splices (incl. the other instance), the other instance's tokens, garbage, random well-formed and random byte strings; 2000 issuances checked for nonce reuse; "
             "a case is a batch of 400 presentations; non-trivial = every batch; distinct = distinct batch terms",
    ),
    "C13": dict(
        drivers=[("sasl", "sasl")], run="C13", shard=600, header="From Whawty Require Import SaslCodec.",
        rule="cases: boundary-length encodes (exhaustive over {0,1,255,256,257}^4 + 65535/65536), every byte string up to length 5 (7 thorough) "
             "over a 5-symbol alphabet as decoder input, every fragmentation of 6 short streams (each with EOF separate / EOF-with-data), "
             "random streams with random fragmentation incl. zero-length reads, read errors, runs of 99-102 empty reads; "
             "non-trivial = the decoder consumed a complete request/response or the stream was delivered in more than one read "
             "(encodes: always); distinct = distinct (input, observed output) terms",
    ),
}


def run(rep, tier, seed, replay, config=None, post=None):
    prop = rep.prop
    cfg = config or CONFIG.get(prop)
    if cfg is None:
        print("unknown property %s" % prop)
        return 2
    parts = cfg.get("parts") or [cfg]
    cov = rep.coverage
    cov["checker_cmd"] = "cd /verif/coq && make Properties/%s.vo %s (coqc 8.16.1), then coqc on generated Cases_*.v" % (
        prop, " ".join("Run/%s.vo" % p["run"] for p in parts))
    cov["trusted_base"] = list(vlib.TRUSTED_BASE) + list(cfg.get("trusted_extra", []))
    broken_names = []

    # 1. facts
    ok, msg = vlib.run_facts()
    if not ok:
        rep.violation("facts", {"what": "tools/facts could not extract a fact from the source tree", "output": msg,
                                "no_longer_checks": "translator (Extracted.v)"}, found_input=False)
        broken_names.append("tools/facts")
    # 2. forbidden tokens + theorems
    toks = vlib.forbidden_tokens()
    if toks:
        rep.violation("forbidden-tokens", {"what": "development contains forbidden declarations", "hits": toks}, found_input=False)
    obligations, discharged, assumptions, broken = vlib.check_properties_file(prop)
    cov["obligations"], cov["discharged"] = obligations, discharged
    rep.assumptions = assumptions + list(cfg.get("assumptions", [])) + [
        "idealised primitives appear as explicit premises / section hypotheses of the theorems (see DESIGN.md section 7)"]
    if broken:
        broken_names.append("%s (%s)" % (broken.get("statement"), broken.get("file")))
    elif tier == "thorough":
        ok, lines = vlib.coqchk_property(prop)
        cov["coqchk"] = lines
        if not ok:
            rep.violation("coqchk", {"what": "the independent checker coqchk does not accept the compiled development, or it reports axioms / disabled checks",
                                     "output": lines, "no_longer_checks": "coqchk WhawtyProps.%s" % prop}, found_input=False)
    cov["evaluations"] = 0
    cov["distinct_nontrivial"] = 0
    cov["rule"] = cfg["rule"]
    cov["distribution"] = {}
    cov["samples"] = []
    cov["traces_validated_against_impl"] = 0
    cov["mismatches"] = 0
    cov["spec_violations"] = 0
    all_cases = []
    for part in parts:
        v = run_part(rep, part, prop, tier, seed, replay, cov, broken_names)
        all_cases += v[1]
    # a failing input that is not a recorded known finding
    any_viol = any(found for (_, _, found) in rep.violations)
    if broken and not any_viol:
        rep.violation("proof-%s" % (broken.get("statement") or "build"),
                      {"what": "a proof obligation no longer checks and the search found no failing input",
                       "no_longer_checks": broken}, found_input=False)
    if post:
        post(rep, all_cases)
    return rep.finish()


def run_part(rep, cfg, prop, tier, seed, replay, cov, broken_names):
    """one driver family + one Run module; returns (found_spec_violation, cases)"""
    # 3. correspondence
    okr, outr = vlib.coq_make(["Run/%s.vo" % cfg["run"]])
    cases = []
    driver_failed = None
    if not okr:
        err = vlib.first_coq_error(outr)
        rep.violation("model-build", {"what": "the executable model no longer compiles against Extracted.v",
                                      "no_longer_checks": "coq/Run/%s.v" % cfg["run"], "error": err, "output_tail": outr[-2000:]},
                      found_input=False)
    for pkg, hdir in cfg.get("drivers", []):
        out_path = os.path.join(vlib.BUILD, "%s_%s.jsonl" % (prop, hdir))
        if os.path.exists(out_path):
            os.remove(out_path)
        t0 = time.time()
        okd, outd = vlib.run_go_driver(pkg, hdir, cfg.get("driver_prop", prop), seed, tier, out_path,
                                       extra_env=cfg.get("env"), race=cfg.get("race", False),
                                       timeout=cfg.get("timeout", 1500))
        cov.setdefault("driver_wall_s", {})[hdir] = round(time.time() - t0, 1)
        got = vlib.load_cases(out_path)
        for g in got:
            if g.get("kind") == "stats":
                cov.setdefault("op_result_distribution", {}).update(g.get("human") or {})
        cases += [g for g in got if g.get("kind") != "stats"]
        if not okd:
            driver_failed = outd[-4000:]
    for fn in cfg.get("pydrivers", []):
        t0 = time.time()
        try:
            cases += fn(prop, seed, tier)
        except Exception as e:  # noqa
            import traceback
            driver_failed = "python driver %s failed: %s" % (getattr(fn, "__name__", fn), traceback.format_exc()[-3000:])
        cov.setdefault("driver_wall_s", {})[getattr(fn, "__name__", "py")] = round(time.time() - t0, 1)
    cov["evaluations"] += len(cases)
    cov["distinct_nontrivial"] += vlib.distinct_nontrivial(cases)
    for k, v in vlib.distribution(cases).items():
        cov["distribution"][k] = cov["distribution"].get(k, 0) + v
    cov["samples"] += vlib.sample_cases(cases, 3)

    if replay:
        rp = json.load(open(replay))
        want = rp.get("case", {}).get("coq")
        cases = [c for c in cases if c.get("coq") == want] or cases[:0]
        print("replay: %d matching case(s) regenerated from seed %s" % (len(cases), seed))

    mism, viol, errs = ([], [], [])
    if okr and cases:
        evalable = [c for c in cases if c.get("coq")]
        mism, viol, errs = vlib.coq_eval_cases(cfg["run"], evalable, shard_size=cfg.get("shard", 400),
                                               extra_header=cfg.get("header", ""), case_type=cfg.get("case_type", "case"))
        if not errs:
            cov["traces_validated_against_impl"] += len(evalable) - len(mism)
        for e in errs:
            rep.violation("case-eval", {"what": "coqc failed on a generated case file", "error": e,
                                        "no_longer_checks": "correspondence Run/%s" % cfg["run"]}, found_input=False)
        # concrete failing inputs: the implementation's own output violates the specification
        shown = 0
        for i in viol:
            c = evalable[i]
            if shown >= 8 and not c.get("sig"):
                continue
            shown += 1
            rep.violation("spec-%s-%d" % (c.get("class", "case").replace("/", "_"), i),
                          {"what": "implementation output violates the property's specification (Run/%s.spec_ok = false)" % cfg["run"],
                           "case": c, "model_agrees": i not in mism,
                           "broken_obligations": broken_names},
                          found_input=True, signature=c.get("sig"))
        only_mism = [i for i in mism if i not in set(viol)]
        shown = 0
        for i in only_mism:
            c = evalable[i]
            if shown >= 5 and not c.get("sig"):
                continue
            shown += 1
            rep.violation("corr-%s-%d" % (c.get("class", "case").replace("/", "_"), i),
                          {"what": "model and implementation disagree; the specification monitor found no violated clause on this case",
                           "no_longer_checks": "correspondence Run/%s.agrees" % cfg["run"], "case": c},
                          found_input=False, signature=c.get("sig"))
        cov["mismatches"] += len(mism)
        cov["spec_violations"] += len(viol)
    # driver-level findings (cases the driver itself judged, e.g. crashes/hangs)
    for c in cases:
        if c.get("violation"):
            rep.violation("impl-%s" % c.get("class", "case").replace("/", "_"),
                          {"what": c["violation"], "case": c}, found_input=True, signature=c.get("sig"))
    if driver_failed is not None:
        rep.violation("driver", {"what": "the implementation driver did not complete (panic, failure or timeout)",
                                 "no_longer_checks": "correspondence driver %s" % (cfg.get("drivers"),),
                                 "output_tail": driver_failed}, found_input=False)
    if not cases and driver_failed is None:
        rep.violation("no-cases", {"what": "driver produced no cases"}, found_input=False)
    return (len(viol) > 0 or any(c.get("violation") for c in cases)), cases
