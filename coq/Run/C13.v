(* Run/C13.v — correspondence cases for the wire codec.
   [agrees]  : the executable model reproduces what the implementation did.
   [spec_ok] : what the implementation did satisfies the property's own
               specification (format as concat of length-prefixed fields;
               result determined by the byte stream through [parse_parts]),
               evaluated without the scanner model. *)
From Whawty Require Import Bytes SaslCodec Pam Extracted.
From WhawtyRun Require Export Common.
Open Scope N_scope.

Notation max := Extracted.max_request_length.

Inductive case :=
| EncReq (l p s r : bytes) (out : option bytes)
| EncResp (ok : bool) (msg : bytes) (out : option bytes)
| DecReq (evs : list ev) (out : option (list bytes))      (* None = error *)
| DecResp (evs : list ev) (out : option (bool * bytes))
| PamEnc (u p : bytes) (out : bytes).

Definition rq_out (r : rq_res) : option (list bytes) :=
  match r with RqOk q => Some (req_fields q) | _ => None end.

Definition olbeq (a b : option (list bytes)) : bool :=
  match a, b with
  | Some x, Some y => lbeq x y
  | None, None => true
  | _, _ => false
  end.

Definition rs_eq (m : rs_res) (o : option (bool * bytes)) : bool :=
  match m, o with
  | RsOk b msg, Some (b', msg') => Bool.eqb b b' && beq msg msg'
  | RsErr, None => true
  | _, _ => false
  end.

Definition agrees (c : case) : bool :=
  match c with
  | EncReq l p s r out =>
      obeq (encode_request max {| login := l; password := p; service := s; realm := r |}) out
  | EncResp ok msg out => obeq (encode_response ok msg) out
  | DecReq evs out =>
      (* the events are the reads the implementation actually made: a model that still wants
         input when the implementation has already answered is a disagreement, not an error *)
      match decode_request_events max evs with
      | RqBlocked => false
      | r => olbeq (rq_out r) out
      end
  | DecResp evs out =>
      match decode_response_events max evs with
      | RsBlocked => false
      | r => rs_eq r out
      end
  | PamEnc u p out => beq (pam_request Extracted.pam_max_partlen u p) out
  end.

(* --- specification monitor (independent of the scanner model) --- *)
Definition spec_encreq (fs : list bytes) (out : option bytes) : bool :=
  if forallb (fun f => len f <=? max) fs
  then obeq (Some (concat (map enc_part fs))) out
  else obeq None out.

Definition spec_decreq (evs : list ev) (out : option (list bytes)) : bool :=
  let '(s, term) := stream evs in
  if wbb O evs then
    match parse_parts max 4 s with
    | POk [l; p; sv; r] _ =>
        match l, p with
        | [], _ | _, [] => olbeq None out
        | _, _ => olbeq (Some [l; p; sv; r]) out
        end
    | PShort =>
        (* the reads made so far are a proper prefix of a request: an answer is only
           justified when the reader has terminated; giving up (or answering) while the
           stream is still open is a refusal of a request that may be perfectly legal *)
        if term then olbeq None out else false
    | _ => olbeq None out
    end
  else (* misbehaving reader: only soundness is required *)
    match out with
    | None => true
    | Some fs => match parse_parts max 4 (alldata evs) with
                 | POk ps _ => lbeq ps fs
                 | _ => false
                 end
    end.

Definition spec_decresp (evs : list ev) (out : option (bool * bytes)) : bool :=
  let '(s, term) := stream evs in
  if wbb O evs then
    match parse_parts max 1 s with
    | POk [t] _ => rs_eq (response_of_part t) out
    | PShort => if term then rs_eq RsErr out else false
    | _ => rs_eq RsErr out
    end
  else true.

Definition spec_ok (c : case) : bool :=
  match c with
  | EncReq l p s r out => spec_encreq [l; p; s; r] out
  | EncResp ok msg out =>
      if len msg <=? 65532
      then obeq (Some (enc_part ((if ok then str "OK" else str "NO") ++
                                 match msg with [] => [] | _ => 32 :: msg end))) out
      else obeq None out
  | DecReq evs out => spec_decreq evs out
  | DecResp evs out => spec_decresp evs out
  | PamEnc u p out =>
      let clip := firstn 256 in
      beq (concat (map enc_part [clip u; clip p; []; []])) out
  end.

Definition mismatches (cs : list case) : list N := failures agrees cs.
Definition violations (cs : list case) : list N := failures spec_ok cs.
