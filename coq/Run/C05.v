(* Run/C05.v — one connection to sasl.Server: the client's byte stream,
   whether it half-closed, the callback's scripted outcome; observed: callback
   invocations, raw reply bytes, the Go client's decoding of the reply. *)
From Whawty Require Import Bytes SaslCodec SaslServer Pam Extracted.
From WhawtyRun Require Export Common.
Open Scope N_scope.

Notation max := Extracted.max_request_length.

Inductive case :=
| Conn (stream : bytes) (halfclose : bool) (cb : cb_result)
       (calls : list (list bytes)) (reply : option bytes) (goclient : option (bool * bytes)).

Fixpoint llbeq (a b : list (list bytes)) : bool :=
  match a, b with
  | [], [] => true
  | x :: a', y :: b' => lbeq x y && llbeq a' b'
  | _, _ => false
  end.

Definition rs_eq (m : rs_res) (o : option (bool * bytes)) : bool :=
  match m, o with
  | RsOk b msg, Some (b', msg') => Bool.eqb b b' && beq msg msg'
  | RsErr, None => true
  | _, _ => false
  end.

Definition agrees (c : case) : bool :=
  match c with
  | Conn s hc cb calls reply gc =>
      let evs := [(s, if hc then EofS else Cont)] in
      let '(mcalls, mreply) := serve max (fun _ => cb) evs in
      llbeq (map req_fields mcalls) calls &&
      match mreply, reply with
      | NoReply, None => true
      | Reply ok (Some m) (Some w), Some w' => beq w w' && rs_eq (decode_response_bytes max w') gc
      | Reply ok None _, Some w' =>
          (* decode error: text not modelled, verdict must be NO *)
          match decode_response_bytes max w' with RsOk false _ => rs_eq (decode_response_bytes max w') gc | _ => false end
      | _, _ => false
      end
  end.

(* ---- the property itself, on what was observed ---- *)
Definition starts_ok (t : bytes) : bool := match t with 79 :: 75 :: _ => true | _ => false end.

Definition spec_ok (c : case) : bool :=
  match c with
  | Conn s hc cb calls reply gc =>
      (* at most one callback, with exactly the decoded fields of the stream *)
      match calls with
      | [] => true
      | [fs] => match parse_parts max 4 s with
                | POk ps _ => lbeq ps fs && match fs with l :: p :: _ => negb (beq l []) && negb (beq p []) | _ => false end
                | _ => false end
      | _ => false
      end &&
      (* a terminated stream gets a reply; no reply before the request is complete *)
      match reply with
      | None => negb hc && match parse_parts max 4 s with POk _ _ => false | _ => true end
      | Some w =>
          (* exactly one length-prefixed part *)
          match parse_parts 65535 1 w with
          | POk [t] k =>
              (k =? length w)%nat &&
              (* positive only if decoded and approved without error *)
              (negb (starts_ok t) ||
               match calls with [_] => cb_ok cb && match cb_err cb with None => true | Some _ => false end | _ => false end) &&
              (* decodable by the bundled client and by the PAM module, yielding the callback's verdict *)
              (len t <=? max) &&
              let verdict := match calls with
                             | [_] => cb_ok cb && match cb_err cb with None => true | Some _ => false end
                             | _ => false end in
              match gc with
              | Some (b, _) => Bool.eqb b verdict
              | None => false
              end &&
              Bool.eqb (pam_accepts Extracted.pam_max_partlen w) verdict
          | _ => false
          end
      end
  end.

Definition mismatches (cs : list case) : list N := failures agrees cs.
Definition violations (cs : list case) : list N := failures spec_ok cs.
