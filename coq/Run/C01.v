(* Run/C01.v — specification monitor for C01 on recorded histories: the
   abstract map of StoreSpec.v is advanced by the operations the
   implementation *acknowledged*, and every observed authenticate / exists /
   list result must be the one the map prescribes. *)
From Whawty Require Import Bytes Names Record Store StoreSpec.
From WhawtyRun Require Export StoreHist.
Open Scope N_scope.

Definition sha_of (t : tables) (p : bytes) : bytes :=
  match alookup p (t_sha t) with Some d => d | None => p end.
Definition fails_of (t : tables) (h : hasher) : bool := existsb (hasher_eqb h) (t_fails t).

Definition acked (ob : obs) : bool := match ob with ORes ROk => true | _ => false end.

Definition list_matches (a : amap) (l : list (bytes * user_info)) : bool :=
  (length a =? length l)%nat &&
  forallb (fun e => match alookup (fst e) l with
                    | Some ui => Bool.eqb (ui_admin ui) (a_admin (snd e)) && (ui_ts ui =? a_ts (snd e))%Z
                    | None => false
                    end) a.

(* users with an unusable parameter set are not "supported" *)
Definition supported_users (t : tables) (c : config) (a : amap) : amap :=
  filter (fun e => match cfg_hasher c (a_pid (snd e)) with Some _ => true | None => false end) a.

Fixpoint monitor (t : tables) (c : config) (a : amap) (steps : list hstep) (i : N) : option N :=
  match steps with
  | [] => None
  | (o, orc, ob, _) :: r =>
      let next c' a' := monitor t c' a' r (i + 1) in
      let apply so :=
        let '(c', a', sr) := spec_step (fails_of t) c a so in
        (* the implementation must acknowledge exactly when the specification does *)
        match sr, acked ob with
        | SOk, true => next c' a'
        | SErr, false => next c a
        | _, _ => Some i
        end in
      match o with
      | OpAdd u pw adm => apply (SAdd u pw adm (o_ts orc))
      | OpUpdate u pw => apply (SUpdate u pw (o_ts orc))
      | OpSetAdmin u adm => apply (SSetAdmin u adm)
      | OpRemove u => apply (SRemove u)
      | OpInit u pw => apply (SInit u pw (o_ts orc))
      | OpSetDefault id => apply (SSetDefault id)
      | OpAuth u p =>
          match spec_auth (sha_of t) (fails_of t) c a u p, ob with
          | SAuthOk adm upg ts, OAuth true adm' upg' ts' =>
              if Bool.eqb adm adm' && Bool.eqb upg upg' && (ts =? ts')%Z then next c a else Some i
          | SAuthNo, OAuth false _ _ _ => next c a
          | _, _ => Some i
          end
      | OpExists u =>
          match (if valid_name u then spec_exists a u else None), ob with
          | Some adm, OExists (ExYes adm') => if Bool.eqb adm adm' then next c a else Some i
          | None, OExists ExNo => next c a
          | None, OExists ExErr => if valid_name u && name_fits u then Some i else next c a
          | _, _ => Some i
          end
      | OpList =>
          match ob with
          | OList (Some l) => if list_matches (supported_users t c a) l then next c a else Some i
          | _ => Some i
          end
      | OpListFull | OpCheck => next c a
      end
  end.

(* histories start from the users the harness planted itself (t_known) *)
Definition spec_ok (cs : case) : bool :=
  match cs with
  | Hist c t init steps =>
      match monitor t c (t_known t) steps 0 with None => true | Some _ => false end
  end.

Definition mismatches (cs : list case) : list N := failures agrees cs.
Definition violations (cs : list case) : list N := failures spec_ok cs.
