(* Run/C02a.v — C02 at agent level: what the RUNNING agent makes of a hash
   file is decided by the configuration currently in force - also after a
   reload that retired the file's parameter set: the file then does not
   authenticate, is hidden from list, unsupported in list-full, and update
   refuses it and leaves it byte for byte. *)
From Whawty Require Import Bytes Base64 Names Record Store StoreSpec.
From WhawtyRun Require Export StoreHist.
From WhawtyRun Require Import C02.
Open Scope N_scope.

Inductive acase02 :=
| AgentFile (c : config) (t : tables) (d : dirst) (u pw : bytes)
            (auth_ok listed supported update_ok changed : bool).

Definition content_of (d : dirst) (u : bytes) : option bytes :=
  match user_file d u with Some (_, File c) => Some c | _ => None end.

Definition spec_ok (a : acase02) : bool :=
  match a with
  | AgentFile c t d u pw auth_ok listed supported update_ok changed =>
      match content_of d u with
      | Some content =>
          let sup := spec_supported c content in
          let expect_auth :=
            match spec_record c content with
            | Some r => match kdf_of t (s_h r) (s_salt r) pw with Some dg => beq dg (s_dig r) | None => false end
            | None => false
            end in
          Bool.eqb auth_ok expect_auth && Bool.eqb listed sup && Bool.eqb supported sup &&
          (sup || (negb update_ok && negb changed))
      | None => negb auth_ok && negb listed
      end
  end.

Definition agrees (a : acase02) : bool :=
  match a with
  | AgentFile c t d u pw auth_ok listed supported update_ok changed =>
      let m_auth := match authenticate (kdf_of t) c d u pw with OAuth ok _ _ _ => ok | _ => false end in
      let m_listed := match list_users c d [] with Some l => match alookup u l with Some _ => true | None => false end | None => false end in
      Bool.eqb auth_ok m_auth && Bool.eqb listed m_listed
  end.

Definition mismatches (cs : list acase02) : list N := failures agrees cs.
Definition violations (cs : list acase02) : list N := failures spec_ok cs.
