(* Run/C03.v — specification monitor for C03 on recorded histories: an
   operation given a name outside the schema's grammar is refused and changes
   nothing; such a name never authenticates and never "exists". The grammar
   is read here independently of Names.valid_name (character classes spelled
   out on the byte values). *)
From Whawty Require Import Bytes Base64 Names Record Store StoreSpec.
From WhawtyRun Require Export StoreHist.
From WhawtyRun Require Import C02.
Open Scope N_scope.

Definition alnum (b : N) : bool :=
  existsb (N.eqb b) (map N_of_ascii
    (list_ascii_of_string "0123456789ABCDEFGHIJKLMNOPQRSTUVWXYZabcdefghijklmnopqrstuvwxyz")).
Definition namechar (b : N) : bool := alnum b || existsb (N.eqb b) [45; 95; 46; 64].
Definition schema_name (u : bytes) : bool :=
  match u with [] => false | c :: r => alnum c && forallb namechar r end.

Definition refused (o : op) (ob : obs) (sn : snap) : bool :=
  snap_same sn &&
  match o, ob with
  | OpAdd _ _ _, ORes RErr | OpUpdate _ _, ORes RErr | OpSetAdmin _ _, ORes RErr | OpInit _ _, ORes RErr => true
  | OpRemove _, _ => true
  | OpAuth _ _, OAuth false _ _ _ => true
  | OpExists _, OExists ExNo | OpExists _, OExists ExErr => true
  | _, _ => false
  end.

Definition name_of (o : op) : option bytes :=
  match o with
  | OpAdd u _ _ | OpUpdate u _ | OpSetAdmin u _ | OpRemove u | OpInit u _ | OpAuth u _ | OpExists u => Some u
  | _ => None
  end.

(* whatever the operation on <u> does, it does it to <u>.user / <u>.admin (and the work area) only *)
Definition footprint_ok (u : bytes) (a b : dirst) : bool :=
  let keep d := filter (fun e => negb (beq (fst e) tmp_name) && negb (beq (fst e) (u ++ ext_user))
                                 && negb (beq (fst e) (u ++ ext_admin))) d in
  dir_eqb (keep a) (keep b) && dir_eqb (keep b) (keep a).

Fixpoint monitor (cur : dirst) (steps : list hstep) (i : N) : option N :=
  match steps with
  | [] => None
  | (o, _, ob, sn) :: r =>
      let next := match sn with SnapSame => cur | Snap x => x end in
      let ok :=
        match name_of o with
        | Some u => if schema_name u then footprint_ok u cur next else refused o ob sn
        | None =>
            (* listings never show a user whose name is outside the grammar *)
            match ob with
            | ORes ROk =>
                (* an accepted consistency check: some administrator has a name inside the grammar *)
                match o with
                | OpCheck => existsb (fun e => has_suffix (str ".admin") (fst e) &&
                                               schema_name (firstn (length (fst e) - 6) (fst e))) cur
                | _ => true
                end
            | OList (Some l) => forallb (fun e => schema_name (fst e)) l
            | OListFull (Some l) => forallb (fun e => Bool.eqb (uf_valid (snd e)) (schema_name (fst e))) l
            | _ => true
            end
        end in
      if ok then monitor next r (i + 1) else Some i
  end.

Definition spec_ok (cs : case) : bool :=
  match cs with Hist c t init steps => match monitor init steps 0 with None => true | Some _ => false end end.
Definition spec_first (cs : case) : option N :=
  match cs with Hist c t init steps => monitor init steps 0 end.

Definition mismatches (cs : list case) : list N := failures agrees cs.
Definition violations (cs : list case) : list N := failures spec_ok cs.
