(* Run/C18.v — configuration documents (as decoded trees) through the loader,
   and observed reload outcomes. *)
From Whawty Require Import Bytes Base64 Record Config.
From WhawtyRun Require Export Common.
Open Scope N_scope.

Inductive case :=
| LoadCase (t : option tree) (accepted : bool)     (* None: the YAML decoder itself must refuse the document *)
| ReloadCase (expect_new observed_new : bool).

Definition agrees (c : case) : bool :=
  match c with
  | LoadCase (Some t) acc => Bool.eqb (match from_config t with Some _ => true | None => false end) acc
  | LoadCase None acc => negb acc
  | ReloadCase e o => Bool.eqb e o
  end.

(* the specification of a well-formed configuration, read independently of from_config *)
Definition scrypt_wf_b (p : scrypt_params) : bool :=
  match b64dec StdAlpha (sp_key64 p) with Some k => (length k =? 32)%nat | None => false end && (sp_cost p <=? 31).
Definition argon_wf_b (p : argon_params) : bool := (1 <=? ap_time p) && (1 <=? ap_threads p) && (1 <=? ap_length p).
Definition set_wf_b (s : set_cfg) : bool :=
  (1 <=? sc_id s) &&
  match sc_scrypt s, sc_argon s with
  | Some sp, None => scrypt_wf_b sp
  | None, Some ap => argon_wf_b ap
  | _, _ => false
  end.
Definition wf_tree_b (t : tree) : bool :=
  negb (beq (t_basedir t) []) && forallb set_wf_b (t_sets t) &&
  (if t_default t =? 0 then match t_sets t with [] => true | _ => false end
   else existsb (fun s => sc_id s =? t_default t) (t_sets t)).

Definition spec_ok (c : case) : bool :=
  match c with
  | LoadCase (Some t) acc => Bool.eqb (wf_tree_b t) acc
  | LoadCase None acc => negb acc
  | ReloadCase e o => Bool.eqb e o
  end.

Definition mismatches (cs : list case) : list N := failures agrees cs.
Definition violations (cs : list case) : list N := failures spec_ok cs.
