(* Run/C04.v — one credential pair through one frontend, with the store's own
   verdict for the name that frontend looks up. *)
From Whawty Require Import Bytes Frontends Extracted.
From WhawtyRun Require Export Common.
Open Scope N_scope.

Notation max := Extracted.max_request_length.

Inductive case :=
| FeCase (fe : frontend) (u p : bytes) (store_ok store_err observed : bool).

(* within the transport's limits the frontend's verdict is the store's; an
   error is a denial; outside the limits the transports that refuse do refuse *)
Definition agrees (c : case) : bool :=
  match c with
  | FeCase fe u p sok serr obs =>
      if in_limits max fe u p then Bool.eqb obs (sok && negb serr)
      else match fe with
           | FBasic | FLdap => true           (* another pair reaches the store: not this case's verdict *)
           | _ => negb obs
           end
  end.

Definition spec_ok (c : case) : bool := agrees c.

Definition mismatches (cs : list case) : list N := failures agrees cs.
Definition violations (cs : list case) : list N := failures spec_ok cs.
