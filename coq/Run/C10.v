(* Run/C10.v — dynamic cross-check of the facts the translator extracted
   (channel capacities as reported by cap(), aliasing of the upgrade channel). *)
From Whawty Require Import Bytes Extracted.
From WhawtyRun Require Export Common.
Open Scope N_scope.

Inductive case := Caps (request_chans : list N) (notify newstore : N) (upgrade_is_update : bool).

Definition agrees (c : case) : bool :=
  match c with
  | Caps rq n ns alias =>
      match rq with
      | [a; b; c0; d; e; f; g; h; i] =>
          (a =? Extracted.cap_initChan) && (b =? Extracted.cap_checkChan) && (c0 =? Extracted.cap_addChan) &&
          (d =? Extracted.cap_removeChan) && (e =? Extracted.cap_updateChan) && (f =? Extracted.cap_setAdminChan) &&
          (g =? Extracted.cap_listChan) && (h =? Extracted.cap_listFullChan) && (i =? Extracted.cap_authenticateChan)
      | _ => false
      end && (n =? Extracted.cap_hooks_notify) && (ns =? Extracted.cap_hooks_newstore) &&
      Bool.eqb alias Extracted.local_upgrade_uses_update_queue
  end.
Definition spec_ok (c : case) : bool :=
  match c with Caps rq n ns _ => forallb (fun x => 1 <=? x) rq && (1 <=? n) && (1 <=? ns) end.

Definition mismatches (cs : list case) : list N := failures agrees cs.
Definition violations (cs : list case) : list N := failures spec_ok cs.
