(* Run/C12.v — login sequences through the agent with hash upgrades: after
   each login the driver waits for the queued upgrade, so the observation is
   the sequential composition handle_req ; handle_upgrade of the agent model
   (instantiated with the extracted structure). *)
From Whawty Require Import Bytes Base64 Names Record Store StoreSpec Agent AgentInst.
From WhawtyRun Require Export StoreHist.
From WhawtyRun Require Import C02.
Open Scope N_scope.

Definition ustep := (bytes * bytes * oracle * obs * snap * bool)%type.   (* user, password, oracle of the rewrite, result, directory, via second request *)

Inductive ucase :=
| UpgSeq (c : config) (t : tables) (m : umode) (init : dirst) (steps : list ustep)
| UpgSeqP (c : config) (t : tables) (m : umode) (refused : list (bytes * bytes)) (init : dirst) (steps : list ustep)
    (* the agent runs with a password policy; [refused] = the (password, user) pairs of this
       sequence that the estimator - called by the harness, not by the agent - rates below it *)
| Remote (right_pw slave_unchanged : bool) (master_pid : N) (master_ok : bool).

Definition no_policy (pw u : bytes) : bool := true.
Definition table_policy (refused : list (bytes * bytes)) (pw u : bytes) : bool :=
  negb (existsb (fun x => beq (fst x) pw && beq (snd x) u) refused).

(* one login and the upgrade it queues, run to quiescence *)
Definition login (pol : bytes -> bytes -> bool) (t : tables) (m : umode) (c : config) (d : dirst) (u pw : bytes) (orc : oracle) : dirst * obs :=
  let ac := extracted_ac m in
  let '(c1, d1, ob, _, upg) := handle_req (kdf_of t) pol (fun _ => orc) ac c d O (RAuth u pw) in
  match upg with
  | Some (u', pw') => let '(_, d2, _, _) := handle_upgrade (kdf_of t) pol (fun _ => orc) ac c1 d1 1 u' pw' in (d2, ob)
  | None => (d1, ob)
  end.

Definition auth_obs_eqb (model observed : obs) (second : bool) : bool :=
  match model, observed with
  | OAuth ok adm _ ts, OAuth ok' adm' _ ts' =>
      (* the interface does not report "upgradeable"; when the flags were read by a
         second request the time stamp may already be the rewritten record's *)
      Bool.eqb ok ok' && (negb ok || (Bool.eqb adm adm' && (second || (ts =? ts')%Z)))
  | _, _ => false
  end.

Fixpoint replay_u (pol : bytes -> bytes -> bool) (t : tables) (m : umode) (c : config) (d : dirst) (steps : list ustep) (i : N) : option N :=
  match steps with
  | [] => None
  | (u, pw, orc, ob, sn, second) :: r =>
      let '(d', ob') := login pol t m c d u pw orc in
      let same := match sn with
                  | SnapSame => dir_eqb d' d && dir_eqb d d'
                  | Snap x => dir_eqb d' x && dir_eqb x d'
                  end in
      if auth_obs_eqb ob' ob second && same then replay_u pol t m c d' r (i + 1) else Some i
  end.

Definition agrees (c : ucase) : bool :=
  match c with
  | UpgSeq cfg t m init steps => match replay_u no_policy t m cfg init steps 0 with None => true | Some _ => false end
  | UpgSeqP cfg t m rf init steps => match replay_u (table_policy rf) t m cfg init steps 0 with None => true | Some _ => false end
  | Remote _ _ _ _ => true
  end.
Definition first_diff (c : ucase) : option N :=
  match c with
  | UpgSeq cfg t m init steps => replay_u no_policy t m cfg init steps 0
  | UpgSeqP cfg t m rf init steps => replay_u (table_policy rf) t m cfg init steps 0
  | _ => None end.

(* ---- the property on the observed run ---- *)
Definition first_line_b (content : bytes) : bytes :=
  match index_of 10 content with Some i => firstn (S i) content | None => content end.
Definition tail_b (content : bytes) : bytes :=
  match index_of 10 content with Some i => skipn (S i) content | None => [] end.

Definition others_same_b (u : bytes) (a b : dirst) : bool :=
  let keep d := filter (fun e => negb (beq (fst e) tmp_name) && negb (beq (fst e) (u ++ ext_user))
                                 && negb (beq (fst e) (u ++ ext_admin))) d in
  dir_eqb (keep a) (keep b) && dir_eqb (keep b) (keep a).

Fixpoint monitor_u (pol : bytes -> bytes -> bool) (t : tables) (m : umode) (c : config) (cur : dirst) (steps : list ustep) (i : N) : option N :=
  match steps with
  | [] => None
  | (u, pw, orc, ob, sn, _) :: r =>
      let next := match sn with SnapSame => cur | Snap x => x end in
      let ok_login := match ob with OAuth true _ _ _ => true | _ => false end in
      let good :=
        match sn with
        | SnapSame => true
        | Snap _ =>
            (* a rewrite: only with upgrades on, only after a successful login of an upgradeable
               record, only the first line of that user's file, now under the default set and
               verifying the same password; admin flag (extension) and auxiliary data unchanged *)
            match m with UOff => false | _ => true end && ok_login && others_same_b u cur next &&
            match user_file cur u, user_file next u with
            | Some (adm, File old), Some (adm', File new) =>
                Bool.eqb adm adm' && beq (tail_b old) (tail_b new) &&
                match spec_record c old, spec_record c new with
                | Some ro, Some rn =>
                    negb (s_pid ro =? default c) && (s_pid rn =? default c) &&
                    match kdf_of t (s_h rn) (s_salt rn) pw with Some dg => beq dg (s_dig rn) | None => false end
                | _, _ => false
                end
            | _, _ => false
            end
        end
        (* on an idle agent the rewrite does happen (local mode, supported record not yet on the default
           set, password meets the configured policy) *)
        && match m, sn with
           | ULocal, SnapSame =>
               negb (ok_login && pol pw u &&
                     match user_file cur u with
                     | Some (_, File old) =>
                         match spec_record c old with
                         | Some ro => negb (s_pid ro =? default c) && spec_supported c old &&
                                      match cfg_hasher c (default c) with Some _ => true | None => false end
                         | None => false end
                     | _ => false end)
           | _, _ => true
           end in
      if good then monitor_u pol t m c next r (i + 1) else Some i
  end.

Definition spec_ok (c : ucase) : bool :=
  match c with
  | UpgSeq cfg t m init steps => match monitor_u no_policy t m cfg init steps 0 with None => true | Some _ => false end
  | UpgSeqP cfg t m rf init steps => match monitor_u (table_policy rf) t m cfg init steps 0 with None => true | Some _ => false end
  | Remote rightpw slave_same pid mok =>
      slave_same && (if rightpw then (pid =? 2) && mok else (pid =? 1))
  end.

Definition mismatches (cs : list ucase) : list N := failures agrees cs.
Definition violations (cs : list ucase) : list N := failures spec_ok cs.
