(* Run/C07.v — batches of strings presented to a session factory whose log
   of sealed triples the driver knows. *)
From Whawty Require Import Bytes Base64 Session.
From WhawtyRun Require Export Common.
Open Scope N_scope.

Inductive case :=
| SessBatch (l : slog) (life_ns : Z) (items : list (Z * bytes * verdict)).

Definition verdict_eqb (a b : verdict) : bool :=
  match a, b with
  | Accept u x, Accept v y => beq u v && Bool.eqb x y
  | Reject400, Reject400 | Reject401, Reject401 => true
  | _, _ => false
  end.

Definition agrees (c : case) : bool :=
  match c with
  | SessBatch l life items =>
      forallb (fun it => match it with (now, text, v) => verdict_eqb (check l life now text) v end) items
  end.

(* the property, read off the log directly: acceptance only for a text that
   decodes to a logged (nonce, ciphertext) whose plaintext is
   <name>:true|false:<time> with 0 <= age <= lifetime, returning that name and flag *)
Definition plain_fields (pt : bytes) : option (bytes * bool * Z) :=
  match split_all 58 pt with
  | [u; f; t] =>
      match (if beq f (str "true") then Some true else if beq f (str "false") then Some false else None), parse_int64 t with
      | Some a, Some ts => Some (u, a, ts)
      | _, _ => None
      end
  | _ => None
  end.

Definition spec_item (l : slog) (life : Z) (it : Z * bytes * verdict) : bool :=
  match it with
  | (now, text, Accept u a) =>
      match split_all 58 text with
      | [n64; c64] =>
          match url_dec n64, url_dec c64 with
          | Some n, Some c =>
              existsb (fun e => beq (s_nonce e) n && beq (s_ct e) c &&
                                match plain_fields (s_pt e) with
                                | Some (u', a', ts) =>
                                    beq u u' && Bool.eqb a a' &&
                                    (0 <=? now - ts * 1000000000)%Z && (now - ts * 1000000000 <=? life)%Z
                                | None => false
                                end) l
          | _, _ => false
          end
      | _ => false
      end
  | (now, text, _) =>
      (* a logged token in its window must not be refused *)
      match split_all 58 text with
      | [n64; c64] =>
          match url_dec n64, url_dec c64 with
          | Some n, Some c =>
              negb (existsb (fun e => beq (s_nonce e) n && beq (s_ct e) c &&
                                      match plain_fields (s_pt e) with
                                      | Some (_, _, ts) => (0 <=? now - ts * 1000000000)%Z && (now - ts * 1000000000 <=? life)%Z
                                      | None => false
                                      end) l)
          | _, _ => true
          end
      | _ => true
      end
  end.

Definition spec_ok (c : case) : bool :=
  match c with SessBatch l life items => forallb (spec_item l life) items end.

Definition mismatches (cs : list case) : list N := failures agrees cs.
Definition violations (cs : list case) : list N := failures spec_ok cs.
