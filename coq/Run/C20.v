(* Run/C20.v — one run of pam_sm_authenticate against a scripted server. *)
From Whawty Require Import Bytes SaslCodec Pam Extracted.
From WhawtyRun Require Export Common.
Open Scope N_scope.

Inductive case :=
| PamCase (user : bytes) (stack_pw conv_pw : option bytes) (args : list bytes) (sv : server)
          (code : pam_code) (request : bytes) (compare_request : bool).

Definition code_eqb (a b : pam_code) : bool :=
  match a, b with
  | PAM_SUCCESS, PAM_SUCCESS | PAM_AUTH_ERR, PAM_AUTH_ERR
  | PAM_AUTHINFO_UNAVAIL, PAM_AUTHINFO_UNAVAIL | PAM_AUTHTOK_RECOVERY_ERR, PAM_AUTHTOK_RECOVERY_ERR => true
  | _, _ => false
  end.

Definition agrees (c : case) : bool :=
  match c with
  | PamCase user spw cpw args sv code req cmp =>
      let '(mcode, mreq) := pam_authenticate Extracted.pam_max_partlen Extracted.pam_default_timeout args user spw cpw sv in
      code_eqb mcode code && (negb cmp || beq mreq req)
  end.

(* the property on what was observed: SUCCESS only if the server's bytes begin
   with a length prefix and "OK"; the request is the saslauthd encoding of
   (user, password, "", "") clipped to 256 bytes *)
Definition sent_bytes (sv : server) : bytes := concat (map snd (sv_chunks sv)).

Definition spec_ok (c : case) : bool :=
  match c with
  | PamCase user spw cpw args sv code req cmp =>
      match code with
      | PAM_SUCCESS =>
          sv_connect sv &&
          match sent_bytes sv with
          | a :: b :: 79 :: 75 :: _ => 2 <=? a * 256 + b
          | _ => false
          end &&
          forallb (fun ch => fst ch <? 1000 * 3600) (sv_chunks sv)
      | _ => true
      end &&
      (negb cmp ||
       existsb (fun pw => beq req (concat (map enc_part [firstn 256 user; firstn 256 pw; []; []])))
               (match spw, cpw with Some x, Some y => [x; y] | Some x, None => [x] | None, Some y => [y] | None, None => [] end))
  end.

Definition mismatches (cs : list case) : list N := failures agrees cs.
Definition violations (cs : list case) : list N := failures spec_ok cs.
