(* Run/C17.v — policy cases: condition strings, comparator results against
   the estimator's values, and the write paths. *)
From Whawty Require Import Bytes Policy.
From WhawtyRun Require Export Common.
Open Scope N_scope.

Inductive case :=
| CondCase (ty cond : bytes) (out : option ptype)
| CondBehav (ty cond : bytes) (accepted : bool) (thr : option N) (probes : list (strength * bool))
| PolCheck (p : ptype) (z : strength) (out : bool)
| PathCase (policy_ok acknowledged changed : bool)
| StartCase (ty cond : bytes) (started : bool).

Definition pk_eqb (a b : pkind) : bool :=
  match a, b with KScore, KScore | KEntropy, KEntropy | KTime, KTime => true | _, _ => false end.
Definition ptype_eqb (a b : option ptype) : bool :=
  match a, b with
  | None, None => true
  | Some PNone, Some PNone => true
  | Some (PZxcvbn x), Some (PZxcvbn y) => pk_eqb (p_kind x) (p_kind y) && (p_thr x =? p_thr y)
  | _, _ => false
  end.

Definition agrees (c : case) : bool :=
  match c with
  | CondCase ty cond out => ptype_eqb (new_policy ty cond) out
  | CondBehav ty cond accepted thr probes =>
      match new_policy ty cond with
      | None => negb accepted
      | Some p =>
          accepted && forallb (fun pr => Bool.eqb (policy_check p (fst pr)) (snd pr)) probes &&
          match p, thr with PZxcvbn z, Some t => p_thr z =? t | _, _ => true end
      end
  | PolCheck p z out => Bool.eqb (policy_check p z) out
  | PathCase _ _ _ => true
  | StartCase ty cond started => Bool.eqb (match new_policy ty cond with Some _ => true | None => false end) started
  end.

(* the property itself *)
Definition spec_ok (c : case) : bool :=
  match c with
  | PathCase pol ack changed => pol || (negb ack && negb changed)
  | CondBehav ty cond accepted _ probes =>
      (* an unparsable condition is refused; an accepted one never lets a password through that the
         condition, read by the grammar, refuses *)
      match new_policy ty cond with
      | None => negb accepted
      | Some p => negb accepted || forallb (fun pr => negb (snd pr) || policy_check p (fst pr)) probes
      end
  | StartCase ty cond started =>
      (* an unparsable configuration must stop the agent *)
      match ty with [] => true | _ => negb started || match new_policy ty cond with Some _ => true | None => false end end
  | _ => true
  end.

Definition mismatches (cs : list case) : list N := failures agrees cs.
Definition violations (cs : list case) : list N := failures spec_ok cs.
