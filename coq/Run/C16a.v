(* Run/C16a.v — C16 at agent level: the command line runs a command on a
   directory exactly when checking is disabled or the directory passes the
   consistency check (a refused command changes nothing), and a reload is
   accepted exactly when the new directory passes the check under the new
   configuration. *)
From Whawty Require Import Bytes Base64 Names Record Store StoreSpec.
From WhawtyRun Require Export StoreHist.
From WhawtyRun Require Import C02 C16.
Open Scope N_scope.

Inductive acase :=
| GateCase (c : config) (d : dirst) (docheck ran changed : bool)
| ReloadGate (c_new : config) (d_new : dirst) (accepted : bool).

Definition agrees (a : acase) : bool :=
  match a with
  | GateCase c d docheck ran _ => Bool.eqb ran (negb docheck || check_store c d)
  | ReloadGate c d acc => Bool.eqb acc (check_store c d)
  end.

Definition spec_ok (a : acase) : bool :=
  match a with
  | GateCase c d docheck ran changed =>
      Bool.eqb ran (negb docheck || valid_dir c d) && (ran || negb changed)
  | ReloadGate c d acc => Bool.eqb acc (valid_dir c d)
  end.

Definition mismatches (cs : list acase) : list N := failures agrees cs.
Definition violations (cs : list acase) : list N := failures spec_ok cs.
