(* Run/C11.v — linearizability SEARCH on recorded concurrent histories
   (validation of the implementation against the sequential specification and
   failing-history search; not a proof).  The specification is a map
   user -> (password, admin); operations on different users commute, so each
   user's sub-history is searched separately (P-compositionality). *)
From Whawty Require Import Bytes.
From WhawtyRun Require Export Common.
Open Scope N_scope.

Inductive hkind := HAdd | HUpdate | HRemove | HSetAdmin | HAuth.

Record hop := {
  h_client : nat; h_kind : hkind; h_user : bytes; h_pw : bytes; h_admin : bool;
  h_call : Z; h_ret : Z;
  h_ok : bool; h_res_admin : bool
}.

Inductive case := LinHist (init : list (bytes * (bytes * bool))) (ops : list hop).

Definition ustate := option (bytes * bool).      (* password, admin *)

(* the sequential specification for one user: Some new state if the observed
   result is the one the specification gives *)
Definition apply_op (st : ustate) (o : hop) : option ustate :=
  match h_kind o, st with
  | HAdd, None => if h_ok o then Some (Some (h_pw o, h_admin o)) else None
  | HAdd, Some _ => if h_ok o then None else Some st
  | HUpdate, Some (_, adm) => if h_ok o then Some (Some (h_pw o, adm)) else None
  | HUpdate, None => if h_ok o then None else Some st
  | HSetAdmin, Some (pw, _) => if h_ok o then Some (Some (pw, h_admin o)) else None
  | HSetAdmin, None => if h_ok o then None else Some st
  | HRemove, _ => if h_ok o then Some None else None
  | HAuth, Some (pw, adm) =>
      if beq pw (h_pw o)
      then (if h_ok o && Bool.eqb (h_res_admin o) adm then Some st else None)
      else (if h_ok o then None else Some st)
  | HAuth, None => if h_ok o then None else Some st
  end.

Definition hop_eqb (a b : hop) : bool :=
  (h_call a =? h_call b)%Z && (h_ret a =? h_ret b)%Z && Nat.eqb (h_client a) (h_client b).

(* o may be linearised next: no other remaining operation returned before o was called *)
Definition minimal (o : hop) (rem : list hop) : bool :=
  forallb (fun o' => hop_eqb o o' || negb (h_ret o' <? h_call o)%Z) rem.

Fixpoint remove_op (o : hop) (l : list hop) : list hop :=
  match l with
  | [] => []
  | x :: r => if hop_eqb o x then r else x :: remove_op o r
  end.

Definition ustate_eqb (a b : ustate) : bool :=
  match a, b with
  | None, None => true
  | Some (p, x), Some (q, y) => beq p q && Bool.eqb x y
  | _, _ => false
  end.

(* A minimal operation that is consistent with the current state and can
   NEVER change the state - an authenticate, or a request that was refused -
   can be linearised at once without loss of generality (moving it to the
   front of any valid linearisation keeps it valid); the search only branches
   over the concurrent acknowledged mutations. *)
Definition pure_op (o : hop) : bool :=
  match h_kind o with HAuth => true | _ => negb (h_ok o) end.

(* depth-first search over (state, set of remaining operations) with a memo
   of configurations already known to fail (Wing-Gong-Lowe).  Operations are
   numbered; the remaining set is a bit mask. *)
Definition iop := (nat * hop)%type.

Fixpoint dfs (fuel : nat) (ops : list iop) (st : ustate) (mask : N) (failed : list (N * ustate))
  : bool * list (N * ustate) :=
  if mask =? 0 then (true, failed)
  else
    match fuel with
    | O => (false, failed)
    | S f =>
        if existsb (fun v => (fst v =? mask) && ustate_eqb (snd v) st) failed then (false, failed)
        else
          let rem := filter (fun io => N.testbit mask (N.of_nat (fst io))) ops in
          let remops := map snd rem in
          match find (fun io => pure_op (snd io) && minimal (snd io) remops &&
                                match apply_op st (snd io) with Some _ => true | None => false end) rem with
          | Some (i, _) => dfs f ops st (N.clearbit mask (N.of_nat i)) failed
          | None =>
              (fix try (cands : list iop) (failed : list (N * ustate)) : bool * list (N * ustate) :=
                 match cands with
                 | [] => (false, (mask, st) :: failed)
                 | (i, o) :: r =>
                     if minimal o remops then
                       match apply_op st o with
                       | Some st' =>
                           let '(b, failed') := dfs f ops st' (N.clearbit mask (N.of_nat i)) failed in
                           if b then (true, failed') else try r failed'
                       | None => try r failed
                       end
                     else try r failed
                 end) rem failed
          end
    end.

Fixpoint number_from (n : nat) (l : list hop) : list iop :=
  match l with [] => [] | x :: r => (n, x) :: number_from (S n) r end.

Definition search (st : ustate) (sub : list hop) : bool :=
  let ops := number_from O sub in
  fst (dfs (S (length sub)) ops st (N.ones (N.of_nat (length sub))) []).

Definition users_of (ops : list hop) : list bytes :=
  fold_right (fun o acc => if existsb (beq (h_user o)) acc then acc else h_user o :: acc) [] ops.

Definition linearizable (init : list (bytes * (bytes * bool))) (ops : list hop) : bool :=
  forallb (fun u =>
             let sub := filter (fun o => beq (h_user o) u) ops in
             search (alookup u init) sub) (users_of ops).

(* there is no executable concurrent model to compare with: the sequential
   specification and the search are the oracle *)
Definition agrees (c : case) : bool := true.
Definition spec_ok (c : case) : bool := match c with LinHist init ops => linearizable init ops end.

Definition mismatches (cs : list case) : list N := failures agrees cs.
Definition violations (cs : list case) : list N := failures spec_ok cs.
