(* Run/Trace.v — correspondence cases at system-call level: one store
   operation run in a fresh process under strace (optionally with one injected
   fault), against the programs of StoreTrace.v. *)
From Whawty Require Import Bytes Base64 Names Record Store StoreSpec StoreTrace Crash.
From WhawtyRun Require Export StoreHist.
Open Scope N_scope.

Inductive tcase :=
| TraceCase (c : config) (t : tables) (init : dirst) (o : op) (orc : oracle) (ft : option fault)
            (r : res) (after : dirst) (evs : list event).

Definition tmp_kids_b (d : dirst) : list (bytes * bytes) :=
  match dlookup tmp_name d with Some (Dir k) => k | _ => [] end.

(* same entries outside .tmp, same files inside .tmp (absent = empty) *)
Definition same_store_b (a b : dirst) : bool :=
  let strip d := filter (fun e => negb (beq (fst e) tmp_name)) d in
  dir_eqb (strip a) (strip b) && dir_eqb (strip b) (strip a) &&
  node_eqb (Dir (tmp_kids_b a)) (Dir (tmp_kids_b b)) && node_eqb (Dir (tmp_kids_b b)) (Dir (tmp_kids_b a)) &&
  match dlookup tmp_name a, dlookup tmp_name b with
  | Some (File x), Some (File y) => beq x y
  | Some (File _), _ | _, Some (File _) => false
  | _, _ => true
  end.

Definition loc_eq (a b : loc) : bool := loc_eqb a b.

(* events compared without the written data *)
Definition ev_eqb (a b : event) : bool :=
  match a, b with
  | ECreate x, ECreate y | EMkdir x, EMkdir y | EFsync x, EFsync y | EUnlink x, EUnlink y => loc_eq x y
  | EWrite x _, EWrite y _ => loc_eq x y
  | ERename x1 x2, ERename y1 y2 => loc_eq x1 y1 && loc_eq x2 y2
  | _, _ => false
  end.

Fixpoint merge_writes (evs : list event) : list event :=
  match evs with
  | EWrite l d :: r =>
      match merge_writes r with
      | EWrite l' d' :: r' => if loc_eq l l' then EWrite l (d ++ d') :: r' else EWrite l d :: EWrite l' d' :: r'
      | r' => EWrite l d :: r'
      end
  | e :: r => e :: merge_writes r
  | [] => []
  end.

Fixpoint evs_eqb (a b : list event) : bool :=
  match a, b with
  | [], [] => true
  | x :: a', y :: b' => ev_eqb x y && evs_eqb a' b'
  | _, _ => false
  end.

Definition run_model (c : config) (t : tables) (d : dirst) (o : op) (orc : oracle) (ft : option fault)
  : option (res * tstate) :=
  match o with
  | OpAdd u pw adm => Some (p_add (kdf_of t) ft c d u pw adm orc)
  | OpUpdate u pw => Some (p_update (kdf_of t) ft c d u pw orc)
  | OpSetAdmin u adm => Some (p_set_admin ft d u adm)
  | OpRemove u => Some (p_remove_user_res ft d u, p_remove_user ft d u)
  | OpInit u pw =>
      if dir_empty d then Some (p_add (kdf_of t) ft c d u pw true orc) else Some (RErr, t0 d)
  | _ => None
  end.

Definition agrees (cs : tcase) : bool :=
  match cs with
  | TraceCase c t init o orc ft r after evs =>
      match run_model c t init o orc ft with
      | Some (r', s) =>
          res_eqb r r' && same_store_b (t_dir s) after &&
          evs_eqb (merge_writes (events s)) (merge_writes evs)
      | None => true
      end
  end.

Definition target_of (o : op) : option bytes :=
  match o with
  | OpAdd u _ _ | OpUpdate u _ | OpSetAdmin u _ | OpRemove u | OpInit u _ => Some u
  | _ => None
  end.
