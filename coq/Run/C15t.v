(* Run/C15t.v — specification monitor for the system-call level part of C15:
   a reported failure leaves the store as it was; a fault that does not make
   the operation fail does not alter its effect on other files. *)
From Whawty Require Import Bytes Base64 Names Record Store StoreSpec StoreTrace Crash.
From WhawtyRun Require Export Trace.
Open Scope N_scope.

Definition others_same (u : bytes) (a b : dirst) : bool :=
  let keep d := filter (fun e => negb (beq (fst e) tmp_name) && negb (beq (fst e) (u ++ ext_user))
                                 && negb (beq (fst e) (u ++ ext_admin))) d in
  dir_eqb (keep a) (keep b) && dir_eqb (keep b) (keep a).

Definition spec_ok (cs : tcase) : bool :=
  match cs with
  | TraceCase c t init o orc ft r after evs =>
      match r with
      | RErr => same_store_b init after
      | ROk =>
          (* a successful update: new first line, everything after it byte for byte as before *)
          match o with
          | OpUpdate u _ =>
              match user_exists init u with
              | ExYes adm =>
                  match dlookup (u ++ ext_of adm) init, dlookup (u ++ ext_of adm) after with
                  | Some (File old), Some (File new) => beq (after_first_line new) (after_first_line old)
                  | _, _ => false
                  end
              | _ => false
              end
          | _ => true
          end &&
          match target_of o with
          | Some u => others_same u init after &&
                      node_eqb (Dir (tmp_kids_b init)) (Dir (tmp_kids_b after)) &&
                      node_eqb (Dir (tmp_kids_b after)) (Dir (tmp_kids_b init))
          | None => same_store_b init after
          end
      end
  end.

Definition mismatches (cs : list tcase) : list N := failures agrees cs.
Definition violations (cs : list tcase) : list N := failures spec_ok cs.
