(* Run/C06.v — sequences of web API requests against the handler mux. *)
From Whawty Require Import Bytes Base64 Names Record Store StoreSpec Session WebApi.
From WhawtyRun Require Export StoreHist.
Open Scope N_scope.

Definition wobs := (endpoint * option body * woracle * N * bool * option bytes * snap)%type.

Inductive wcase :=
| WebSeq (c : config) (t : tables) (init : dirst) (log0 : slog) (life_ms : N) (steps : list wobs).

Fixpoint replay_web (t : tables) (life_ms : N) (s : wstate) (steps : list wobs) (i : N) : option N :=
  match steps with
  | [] => None
  | (ep, bd, o, st, lst, sess, sn) :: r =>
      let '(rp, s') := handle (kdf_of t) life_ms s ep bd o in
      let same := match sn with
                  | SnapSame => dir_eqb (w_dir s') (w_dir s) && dir_eqb (w_dir s) (w_dir s')
                  | Snap x => dir_eqb (w_dir s') x && dir_eqb x (w_dir s')
                  end in
      if (r_status rp =? st) && Bool.eqb (r_list rp) lst && obeq (r_session rp) sess && same
      then replay_web t life_ms s' r (i + 1) else Some i
  end.

Definition agrees (c : wcase) : bool :=
  match c with
  | WebSeq cfg t init log0 life steps =>
      match replay_web t life {| w_cfg := cfg; w_dir := init; w_log := log0 |} steps 0 with
      | None => true | Some _ => false end
  end.
Definition first_diff (c : wcase) : option N :=
  match c with
  | WebSeq cfg t init log0 life steps => replay_web t life {| w_cfg := cfg; w_dir := init; w_log := log0 |} steps 0
  end.

(* ---- the property on the observed run: state reconstructed from what was
   observed (directory snapshots, sessions actually handed out) ---- *)
Fixpoint monitor (t : tables) (life_ms : N) (s : wstate) (steps : list wobs) (i : N) : option N :=
  match steps with
  | [] => None
  | (ep, bd, o, st, lst, sess, sn) :: r =>
      let next_dir := match sn with SnapSame => w_dir s | Snap x => x end in
      let changed := match sn with SnapSame => false | Snap _ => true end in
      let auth := match bd with
                  | Some b => authorised (kdf_of t) life_ms s ep b o
                  | None => false end in
      let ok :=
        (* anything but a plain refusal requires authorisation *)
        (auth || ((negb (st =? 200)) && negb lst && negb changed && match sess with None => true | Some _ => false end))
        (* a session is handed out only by authenticate, on success *)
        && (match sess with Some _ => match ep with EAuth => st =? 200 | _ => false end | None => true end)
        (* a non-success status never comes with a change *)
        && ((st =? 200) || negb changed) in
      if ok then
        let log' := match sess, bd with
                    | Some _, Some b =>
                        match store_auth (kdf_of t) s (b_username b) (b_password b) with
                        | Some adm => w_log s ++ [{| s_nonce := wo_nonce o; s_ct := wo_ct o;
                                                     s_pt := format_token (b_username b) adm (wo_now_s o) |}]
                        | None => w_log s
                        end
                    | _, _ => w_log s
                    end in
        monitor t life_ms {| w_cfg := w_cfg s; w_dir := next_dir; w_log := log' |} r (i + 1)
      else Some i
  end.

Definition spec_ok (c : wcase) : bool :=
  match c with
  | WebSeq cfg t init log0 life steps =>
      match monitor t life {| w_cfg := cfg; w_dir := init; w_log := log0 |} steps 0 with
      | None => true | Some _ => false end
  end.
Definition spec_first (c : wcase) : option N :=
  match c with
  | WebSeq cfg t init log0 life steps => monitor t life {| w_cfg := cfg; w_dir := init; w_log := log0 |} steps 0
  end.

Definition mismatches (cs : list wcase) : list N := failures agrees cs.
Definition violations (cs : list wcase) : list N := failures spec_ok cs.
