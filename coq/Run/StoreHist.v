(* Run/StoreHist.v — replay of store histories recorded by the Go driver
   (harness/store) on the executable model, plus the pieces the per-property
   specification monitors share. *)
From Whawty Require Import Bytes Base64 Names Record Store StoreSpec.
From WhawtyRun Require Export Common.
Open Scope N_scope.

Definition hasher_eqb (a b : hasher) : bool :=
  match a, b with
  | HScrypt k c r p, HScrypt k' c' r' p' => beq k k' && (c =? c') && (r =? r')%Z && (p =? p')%Z
  | HArgon t m th l, HArgon t' m' th' l' => (t =? t') && (m =? m') && (th =? th') && (l =? l')
  | _, _ => false
  end.

Record tables := {
  t_fails : list hasher;                                     (* hashers whose KDF reports an error *)
  t_kdf : list (hasher * bytes * bytes * option bytes);      (* (h, salt, pw) -> digest, recomputed by the harness *)
  t_sha : list (bytes * bytes);                              (* sha256 of the passwords longer than 64 bytes *)
  t_known : amap                                             (* credentials of the records the harness planted itself *)
}.

(* a lookup miss yields a value no implementation can produce ([256] is not
   a byte string), so a missing entry shows up as a disagreement, never as an
   accidental agreement *)
Definition kdf_of (t : tables) (h : hasher) (s p : bytes) : option bytes :=
  if existsb (hasher_eqb h) (t_fails t) then None
  else match find (fun e => match e with (h', s', p', _) => hasher_eqb h h' && beq s s' && beq p p' end) (t_kdf t) with
       | Some (_, _, _, d) => d
       | None => Some [256]
       end.

Inductive snap := SnapSame | Snap (d : dirst).

Definition node_eqb (a b : node) : bool :=
  match a, b with
  | File x, File y => beq x y
  | Dir k, Dir k' =>
      (length k =? length k')%nat &&
      forallb (fun e => match alookup (fst e) k' with Some c => beq c (snd e) | None => false end) k
  | _, _ => false
  end.

Definition dir_eqb (a b : dirst) : bool :=
  (length a =? length b)%nat &&
  forallb (fun e => match dlookup (fst e) b with Some n => node_eqb (snd e) n | None => false end) a.

Definition exists_eqb (a b : exists_res) : bool :=
  match a, b with
  | ExYes x, ExYes y => Bool.eqb x y
  | ExNo, ExNo => true
  | ExErr, ExErr => true
  | _, _ => false
  end.

Definition ui_eqb (a b : user_info) : bool :=
  Bool.eqb (ui_admin a) (ui_admin b) && (ui_ts a =? ui_ts b)%Z.
Definition uf_eqb (a b : user_full) : bool :=
  Bool.eqb (uf_admin a) (uf_admin b) && (uf_ts a =? uf_ts b)%Z && Bool.eqb (uf_valid a) (uf_valid b) &&
  Bool.eqb (uf_supported a) (uf_supported b) && beq (uf_fmt a) (uf_fmt b) && (uf_pid a =? uf_pid b).

Definition amap_eqb {A} (eqb : A -> A -> bool) (a b : list (bytes * A)) : bool :=
  (length a =? length b)%nat &&
  forallb (fun e => match alookup (fst e) b with Some v => eqb (snd e) v | None => false end) a.

Definition res_eqb (a b : res) : bool :=
  match a, b with ROk, ROk | RErr, RErr => true | _, _ => false end.

Definition obs_eqb (a b : obs) : bool :=
  match a, b with
  | ORes x, ORes y => res_eqb x y
  | OExists x, OExists y => exists_eqb x y
  | OAuth ok adm upg ts, OAuth ok' adm' upg' ts' =>
      Bool.eqb ok ok' && Bool.eqb adm adm' && Bool.eqb upg upg' && (ts =? ts')%Z
  | OList (Some x), OList (Some y) => amap_eqb ui_eqb x y
  | OList None, OList None => true
  | OListFull (Some x), OListFull (Some y) => amap_eqb uf_eqb x y
  | OListFull None, OListFull None => true
  | _, _ => false
  end.

Definition hstep := (op * oracle * obs * snap)%type.

Inductive case := Hist (c : config) (t : tables) (init : dirst) (steps : list hstep).

(* first step (0-based) at which model and implementation differ *)
Fixpoint replay (t : tables) (c : config) (d : dirst) (steps : list hstep) (i : N) : option N :=
  match steps with
  | [] => None
  | (o, orc, ob, sn) :: r =>
      let '(c', d', ob') := step (kdf_of t) c d o orc in
      if negb (obs_eqb ob' ob) then Some i
      else
        let dobs := match sn with SnapSame => d | Snap x => x end in
        let same := match sn with
                    | SnapSame => dir_eqb d' d && dir_eqb d d'
                    | Snap x => dir_eqb d' x && dir_eqb x d'
                    end in
        if negb same then Some i
        else
          (* continue from the observed directory (keeps listing order of the model) *)
          replay t c' d' r (i + 1)
  end.

Definition agrees (cs : case) : bool :=
  match cs with
  | Hist c t init steps => match replay t c init steps 0 with None => true | Some _ => false end
  end.

Definition first_diff (cs : case) : option N :=
  match cs with Hist c t init steps => replay t c init steps 0 end.

(* the observed directory after each step *)
Fixpoint observed_dirs (d : dirst) (steps : list hstep) : list dirst :=
  match steps with
  | [] => []
  | (_, _, _, sn) :: r =>
      let d' := match sn with SnapSame => d | Snap x => x end in
      d' :: observed_dirs d' r
  end.
