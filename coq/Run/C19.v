(* Run/C19.v — hook rounds observed for notification patterns, and the set of
   hooks started from generated directories. *)
From Whawty Require Import Bytes Hooks.
From WhawtyRun Require Export Common.
Open Scope N_scope.

Inductive case :=
| Timing (evs : list hev) (rounds : nat) (ambiguous : bool) (uncovered : nat)
| StoreSwitch (ok : bool)
| Elig (dir_mode : N) (entries : list hentry) (ran : list bytes)
| AgentNotify (after_failures after_success : nat).

Fixpoint count_rounds (os : list (list hout)) : nat :=
  match os with [] => O | o :: r => (length o + count_rounds r)%nat end.

Definition model_rounds (evs : list hev) : nat :=
  count_rounds (snd (hrun (hinit []) evs)).

Fixpoint insert_sorted (x : bytes) (l : list bytes) : list bytes :=
  match l with
  | [] => [x]
  | y :: r => if (fix lt (a b : bytes) : bool :=
                    match a, b with
                    | [], [] => false | [], _ => true | _, [] => false
                    | p :: a', q :: b' => if p <? q then true else if q <? p then false else lt a' b'
                    end) x y then x :: l else y :: insert_sorted x r
  end.
Definition sort_bytes (l : list bytes) : list bytes := fold_right insert_sorted [] l.

Definition agrees (c : case) : bool :=
  match c with
  | Timing evs rounds ambiguous _ =>
      (* near a timer edge one more or one fewer round is a legal interleaving *)
      if ambiguous then (model_rounds evs - 1 <=? rounds)%nat && (rounds <=? model_rounds evs + 1)%nat
      else (rounds =? model_rounds evs)%nat
  | StoreSwitch ok => ok
  | Elig dm entries ran => lbeq (sort_bytes (hooks_to_run dm entries)) (sort_bytes ran)
  | AgentNotify a b => (a =? 0)%nat && (1 <=? b)%nat
  end.

(* the property on the observation: every notification is covered (at least
   one round if any notification, and a trailing round when notifications
   arrived after the leading one), at most two rounds per interval *)
Definition notifications (evs : list hev) : nat :=
  length (filter (fun e => match e with HNotify => true | _ => false end) evs).
Definition intervals (evs : list hev) : nat :=
  length (filter (fun e => match e with HTimer => true | _ => false end) evs).

Definition spec_ok (c : case) : bool :=
  match c with
  | Timing evs rounds _ uncovered =>
      (* every notification is followed by the start of a round at or after it *)
      (uncovered =? 0)%nat &&
      ((notifications evs =? 0)%nat || (1 <=? rounds)%nat) &&
      (rounds <=? 2 * intervals evs + 1)%nat && (rounds <=? notifications evs)%nat
  | StoreSwitch ok => ok
  | Elig dm entries ran =>
      forallb (fun n => existsb (fun e => beq (e_name e) n && eligible e) entries) ran &&
      ((N.land dm 2 =? 0) || match ran with [] => true | _ => false end)
  | AgentNotify a b => (a =? 0)%nat && (1 <=? b)%nat
  end.

Definition mismatches (cs : list case) : list N := failures agrees cs.
Definition violations (cs : list case) : list N := failures spec_ok cs.
