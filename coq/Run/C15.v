(* Run/C15.v — frame monitor on recorded histories: every operation leaves
   all files other than its target's byte-identical; update keeps the
   auxiliary data; set-admin keeps the whole record; a reported failure and
   every read-only call leave the directory exactly as it was. *)
From Whawty Require Import Bytes Base64 Names Record Store StoreSpec.
From WhawtyRun Require Export StoreHist.
From WhawtyRun Require Import C02 C14.
Open Scope N_scope.

Definition others_same (u : bytes) (a b : dirst) : bool :=
  let keep d := filter (fun e => negb (beq (fst e) tmp_name) && negb (beq (fst e) (u ++ ext_user))
                                 && negb (beq (fst e) (u ++ ext_admin))) d in
  dir_eqb (keep a) (keep b) && dir_eqb (keep b) (keep a).

Definition tmp_clean_b (d : dirst) : bool :=
  match dlookup tmp_name d with Some (Dir (_ :: _)) => false | _ => true end.

Definition check_step (cur next : dirst) (o : op) (ob : obs) (sn : snap) : bool :=
  let unchanged := snap_same sn in
  match o, ob with
  | OpAuth _ _, _ | OpExists _, _ | OpList, _ | OpListFull, _ | OpCheck, _ | OpSetDefault _, _ => unchanged
  | _, ORes RErr => unchanged
  | OpAdd u _ _, ORes ROk | OpInit u _, ORes ROk => others_same u cur next
  | OpUpdate u _, ORes ROk =>
      others_same u cur next &&
      match user_file cur u, user_file next u with
      | Some (adm, File old), Some (adm', File new) => Bool.eqb adm adm' && beq (tail_of old) (tail_of new)
      | _, _ => false
      end
  | OpSetAdmin u adm, ORes ROk =>
      others_same u cur next &&
      match user_file cur u, user_file next u with
      | Some (_, n), Some (adm', n') => Bool.eqb adm adm' && node_eqb n n'
      | _, _ => false
      end
  | OpRemove u, _ => others_same u cur next
  | _, _ => true
  end.

Fixpoint monitor (cur : dirst) (steps : list hstep) (i : N) : option N :=
  match steps with
  | [] => None
  | (o, _, ob, sn) :: r =>
      let next := match sn with SnapSame => cur | Snap x => x end in
      if check_step cur next o ob sn && (negb (tmp_clean_b cur) || tmp_clean_b next)
      then monitor next r (i + 1) else Some i
  end.

Definition spec_ok (cs : case) : bool :=
  match cs with Hist c t init steps => match monitor init steps 0 with None => true | Some _ => false end end.

Definition mismatches (cs : list case) : list N := failures agrees cs.
Definition violations (cs : list case) : list N := failures spec_ok cs.
