(* Run/C14.v — specification monitor for C14: after every acknowledged add /
   update / init the target's file must be exactly the schema record of the
   configured default parameter set for that password, followed by the old
   auxiliary data; salts have the schema's size and never repeat. *)
From Whawty Require Import Bytes Base64 Names Record Store StoreSpec.
From WhawtyRun Require Export StoreHist.
From WhawtyRun Require Import C02.
Open Scope N_scope.

Definition schema_line (h : hasher) (ts : Z) (pid : N) (salt dig : bytes) : bytes :=
  fmt_of h ++ [58] ++ dec_Z ts ++ [58] ++ dec_N pid ++ [58] ++
  b64enc UrlAlpha salt ++ [58] ++ b64enc UrlAlpha dig ++ [10].

Definition schema_salt_len (h : hasher) : nat :=
  match h with HScrypt _ _ _ _ => 32%nat | HArgon _ _ _ _ => 16%nat end.

Definition tail_of (content : bytes) : bytes :=
  match index_of 10 content with Some i => skipn (S i) content | None => [] end.

Definition written_ok (t : tables) (c : config) (cur next : dirst) (u pw : bytes) (orc : oracle) : bool :=
  match cfg_hasher c (default c) with
  | None => false                      (* acknowledged although no default set exists *)
  | Some h =>
      match user_file next u with
      | Some (_, File content) =>
          let old_tail := match user_file cur u with
                          | Some (_, File old) => tail_of old
                          | _ => [] end in
          match kdf_of t h (o_salt orc) pw with
          | Some dig =>
              beq content (schema_line h (o_ts orc) (default c) (o_salt orc) dig ++ old_tail)
              && (length (o_salt orc) =? schema_salt_len h)%nat
          | None => false
          end
      | _ => false
      end
  end.

Fixpoint monitor (t : tables) (c : config) (cur : dirst) (salts : list bytes) (steps : list hstep) (i : N) : option N :=
  match steps with
  | [] => None
  | (o, orc, ob, sn) :: r =>
      let next := match sn with SnapSame => cur | Snap x => x end in
      let c' := match o with OpSetDefault id => {| params := params c; default := id |} | _ => c end in
      let wrote u pw :=
        if written_ok t c cur next u pw orc && negb (existsb (beq (o_salt orc)) salts)
        then monitor t c' next (o_salt orc :: salts) r (i + 1)
        else Some i in
      match o, ob with
      | OpAdd u pw _, ORes ROk => wrote u pw
      | OpUpdate u pw, ORes ROk => wrote u pw
      | OpInit u pw, ORes ROk => wrote u pw
      | _, _ => monitor t c' next salts r (i + 1)
      end
  end.

Definition spec_ok (cs : case) : bool :=
  match cs with
  | Hist c t init steps => match monitor t c init [] steps 0 with None => true | Some _ => false end
  end.

Definition mismatches (cs : list case) : list N := failures agrees cs.
Definition violations (cs : list case) : list N := failures spec_ok cs.
