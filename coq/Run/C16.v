(* Run/C16.v — specification monitor for C16: the observed result of every
   consistency check equals [valid_dir] of the observed directory (an
   order-free reading of the schema's validity rule); initialisation succeeds
   only on an empty directory and yields a valid store; after every completed
   operation no user has two files and the work area is empty. *)
From Whawty Require Import Bytes Base64 Names Record Store StoreSpec.
From WhawtyRun Require Export StoreHist.
From WhawtyRun Require Import C02.
Open Scope N_scope.

(* <name>.user / <name>.admin by the last extension *)
Definition named (f : bytes) : option (bytes * bool) :=
  if has_suffix (str ".admin") f then Some (firstn (length f - 6) f, true)
  else if has_suffix (str ".user") f then Some (firstn (length f - 5) f, false)
  else None.

Definition has_entry (d : dirst) (f : bytes) : bool :=
  match dlookup f d with Some _ => true | None => false end.

Definition valid_dir (c : config) (d : dirst) : bool :=
  (* every entry other than .tmp is <name>.user or <name>.admin *)
  forallb (fun e => beq (fst e) (str ".tmp") || match named (fst e) with Some _ => true | None => false end) d
  (* no (valid) name has both; a name too long to have a sibling counts as a clash, as the code's stat error does *)
  && forallb (fun e => beq (fst e) (str ".tmp") ||
                match named (fst e) with
                | Some (u, adm) =>
                    negb (valid_name u) ||
                    (negb (has_entry d (u ++ (if adm then str ".user" else str ".admin")))
                     && (len (u ++ (if adm then str ".user" else str ".admin")) <=? 255))
                | None => true
                end) d
  (* at least one admin file (of a valid name) holds a supported hash *)
  && existsb (fun e => negb (beq (fst e) (str ".tmp")) &&
                match named (fst e), snd e with
                | Some (u, true), File content => valid_name u && spec_supported c content
                | _, _ => false
                end) d.

Definition empty_dir (d : dirst) : bool :=
  match d with
  | [] => true
  | [(n, Dir _)] => beq n (str ".tmp")
  | _ => false
  end.

Definition tmp_clean (d : dirst) : bool :=
  match dlookup (str ".tmp") d with
  | Some (Dir []) | None => true
  | _ => false
  end.

Definition no_double (d : dirst) : bool :=
  forallb (fun e => match named (fst e) with
                    | Some (u, true) => negb (valid_name u) || negb (has_entry d (u ++ str ".user"))
                    | _ => true end) d.

(* the operations the property exempts: removing or demoting an administrator *)
Definition unseats_admin (d : dirst) (o : op) : bool :=
  match o with
  | OpRemove u | OpSetAdmin u false => has_entry d (u ++ str ".admin")
  | _ => false
  end.

Fixpoint monitor (t : tables) (c : config) (cur : dirst) (wasvalid : bool) (steps : list hstep) (i : N) : option N :=
  match steps with
  | [] => None
  | (o, orc, ob, sn) :: r =>
      let next := match sn with SnapSame => cur | Snap x => x end in
      let c' := match o with OpSetDefault id => {| params := params c; default := id |} | _ => c end in
      let ok :=
        match o, ob with
        | OpCheck, ORes ROk => valid_dir c cur
        | OpCheck, ORes RErr => negb (valid_dir c cur)
        | OpInit _ _, ORes ROk => empty_dir cur && valid_dir c next
        | _, _ => true
        end
        (* from a valid store: completed operations leave no double files and a clean work area *)
        && (negb (wasvalid && tmp_clean cur) || (tmp_clean next && no_double next))
        (* from a valid store: whatever does not remove or demote an administrator - successful or
           failed - leaves a valid store *)
        && (negb wasvalid || unseats_admin cur o || valid_dir c' next) in
      if ok then monitor t c' next (valid_dir c' next) r (i + 1) else Some i
  end.

Definition spec_ok (cs : case) : bool :=
  match cs with
  | Hist c t init steps => match monitor t c init (valid_dir c init) steps 0 with None => true | Some _ => false end
  end.
Definition spec_first (cs : case) : option N :=
  match cs with Hist c t init steps => monitor t c init (valid_dir c init) steps 0 end.

Definition mismatches (cs : list case) : list N := failures agrees cs.
Definition violations (cs : list case) : list N := failures spec_ok cs.
