(* Run/C08.v — every observed add / update / init trace must follow the write
   discipline whose crash safety is proved in Crash_proofs.crash_safe_prefix. *)
From Whawty Require Import Bytes Base64 Names Record Store StoreSpec StoreTrace Crash.
From WhawtyRun Require Export Trace.
Open Scope N_scope.

Definition final_name (init : dirst) (o : op) : option (bytes * bool) :=
  match o with
  | OpAdd u _ adm => Some (u ++ ext_of adm, true)
  | OpInit u _ => Some (u ++ ext_admin, true)
  | OpUpdate u _ =>
      match user_exists init u with
      | ExYes adm => Some (u ++ ext_of adm, false)
      | _ => None
      end
  | _ => None
  end.

Definition spec_ok (cs : tcase) : bool :=
  match cs with
  | TraceCase c t init o orc ft r after evs =>
      match final_name init o with
      | Some (f, reserve) =>
          match r with
          | ROk => protocol_complete_ok f reserve evs
          | RErr =>
              (* a failed (refused or faulted) operation: a prefix of the discipline followed by
                 its clean-up - in particular no write to, truncation of or rename over a live file *)
              protocol_prefix_x_ok f reserve evs
          end
      | None =>
          (* operations that write no record never create, write or truncate a file of the store *)
          forallb (fun e => match e with
                            | EWrite (LFile _) _ | ECreate (LFile _) | ERename (LTmpFile _) (LFile _) => false
                            | _ => true end) evs
      end
  end.

Definition mismatches (cs : list tcase) : list N := failures agrees cs.
Definition violations (cs : list tcase) : list N := failures spec_ok cs.
