(* Run/C08.v — every observed add / update / init trace must follow the write
   discipline whose crash safety is proved in Crash_proofs.crash_safe_prefix. *)
From Whawty Require Import Bytes Base64 Names Record Store StoreSpec StoreTrace Crash.
From WhawtyRun Require Export Trace.
Open Scope N_scope.

Definition final_name (init : dirst) (o : op) : option (bytes * bool) :=
  match o with
  | OpAdd u _ adm => Some (u ++ ext_of adm, true)
  | OpInit u _ => Some (u ++ ext_admin, true)
  | OpUpdate u _ =>
      match user_exists init u with
      | ExYes adm => Some (u ++ ext_of adm, false)
      | _ => None
      end
  | _ => None
  end.

Definition spec_ok (cs : tcase) : bool :=
  match cs with
  | TraceCase c t init o orc ft r after evs =>
      match final_name init o with
      | Some (f, reserve) =>
          match r with
          | ROk =>
              protocol_complete_ok f reserve evs &&
              (* new-complete: "the complete new record together with all auxiliary lines" - what follows
                 the first line of the old file is in the new file byte for byte *)
              match o with
              | OpUpdate _ _ =>
                  match dlookup f init, dlookup f after with
                  | Some (File old), Some (File new) => beq (after_first_line new) (after_first_line old)
                  | _, _ => false
                  end
              | _ => true
              end
          | RErr =>
              (* a failed (refused or faulted) operation: a prefix of the discipline followed by
                 its clean-up - in particular no write to, truncation of or rename over a live file *)
              protocol_prefix_x_ok f reserve evs
          end
      | None =>
          (* operations that write no record never create, write or truncate a file of the store *)
          forallb (fun e => match e with
                            | EWrite (LFile _) _ | ECreate (LFile _) | ERename (LTmpFile _) (LFile _) => false
                            | _ => true end) evs
      end
  end.

Definition mismatches (cs : list tcase) : list N := failures agrees cs.
Definition violations (cs : list tcase) : list N := failures spec_ok cs.
