(* Run/C03t.v — footprint of every traced operation: only <u>.user,
   <u>.admin, the work area and the base directory; nothing for invalid names. *)
From Whawty Require Import Bytes Base64 Names Record Store StoreSpec StoreTrace Crash.
From WhawtyRun Require Export Trace.
Open Scope N_scope.

Definition loc_allowed_b (u : bytes) (l : loc) : bool :=
  match l with
  | LFile f => beq f (u ++ ext_user) || beq f (u ++ ext_admin)
  | _ => true
  end.
Definition event_allowed_b (u : bytes) (e : event) : bool :=
  match e with
  | ECreate l | EMkdir l | EWrite l _ | EFsync l | EUnlink l => loc_allowed_b u l
  | ERename a b => loc_allowed_b u a && loc_allowed_b u b
  end.

Definition spec_ok (cs : tcase) : bool :=
  match cs with
  | TraceCase c t init o orc ft r after evs =>
      match target_of o with
      | Some u =>
          if valid_name u then forallb (event_allowed_b u) evs
          else match evs with [] => same_store_b init after | _ => false end
      | None => match evs with [] => true | _ => false end
      end
  end.

Definition mismatches (cs : list tcase) : list N := failures agrees cs.
Definition violations (cs : list tcase) : list N := failures spec_ok cs.
