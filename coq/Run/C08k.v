(* Run/C08k.v — C08, explored concretely: add / update are killed (SIGKILL on
   entering the n-th system call, for every n) and the directory the kill
   leaves behind is judged: the target is absent or an empty reservation (add
   only), the complete old record, or a complete new record (authenticates the
   new password, old auxiliary data byte for byte); every other file is as
   before; the work area aside, nothing else appeared; and a store that passed
   the consistency check before still passes it.  These are the outcomes
   C08_kill_safe_prefix_x allows. *)
From Whawty Require Import Bytes Base64 Names Record Store StoreSpec StoreTrace Crash.
From WhawtyRun Require Export Trace.
From WhawtyRun Require Import C02 C16 C08.
Open Scope N_scope.

Inductive kcase :=
| KillCase (c : config) (t : tables) (init : dirst) (o : op) (after : dirst) (check_ok_after : bool).

Definition strip_tmp (d : dirst) : dirst := filter (fun e => negb (beq (fst e) tmp_name)) d.
Definition without (f : bytes) (d : dirst) : dirst := filter (fun e => negb (beq (fst e) f)) (strip_tmp d).

Definition new_pw (o : op) : bytes :=
  match o with OpAdd _ pw _ | OpUpdate _ pw | OpInit _ pw => pw | _ => [] end.
Definition user_of (o : op) : bytes :=
  match o with OpAdd u _ _ | OpUpdate u _ | OpInit u _ => u | _ => [] end.

Definition spec_ok (k : kcase) : bool :=
  match k with
  | KillCase c t init o after chk =>
      match final_name init o with
      | Some (f, reserve) =>
          (* every other file untouched, nothing new outside the work area *)
          dir_eqb (without f init) (without f after) && dir_eqb (without f after) (without f init) &&
          match dlookup f init, dlookup f after with
          | _, None => reserve
          | old, Some (File content) =>
              (reserve && match content with [] => true | _ => false end) ||
              match old with Some (File oc) => beq oc content | _ => false end ||
              (match authenticate (kdf_of t) c [(f, File content)] (user_of o) (new_pw o) with
               | OAuth true _ _ _ => true | _ => false end &&
               beq (after_first_line content)
                   (match old with Some (File oc) => after_first_line oc | _ => [] end))
          | _, Some (Dir _) => false
          end &&
          (* validity survives the kill *)
          (negb (valid_dir c init) || (valid_dir c after && chk))
      | None => true
      end
  end.

Definition agrees (k : kcase) : bool :=
  match k with
  | KillCase c t init o after chk => Bool.eqb chk (check_store c after)
  end.

Definition mismatches (cs : list kcase) : list N := failures agrees cs.
Definition violations (cs : list kcase) : list N := failures spec_ok cs.
