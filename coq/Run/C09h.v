(* Run/C09h.v — C09 over HISTORIES with faults: several operations on one directory, one after
   the other, each in a fresh process under strace, some with one injected I/O error.  A failed
   operation may leave an entry change of the base directory pending; the next acknowledged
   mutating operation on the same user must leave that user's names durable
   (DurHist.hist_ok, sound by DurHist_proofs.history_acked_durable). *)
From Whawty Require Import Bytes Base64 Names Record Store StoreSpec StoreTrace Crash DurHist.
From WhawtyRun Require Export Trace.
From WhawtyRun Require Import C08.
Open Scope N_scope.

Inductive hcase := HistCase (steps : list tcase).

Definition dstep_of (cs : tcase) : DurHist.hstep :=
  match cs with
  | TraceCase c t init o orc ft r after evs =>
      {| DurHist.h_shape := match final_name init o with Some (f, rv) => HWrite f rv | None => HDir end;
         DurHist.h_ack := match r, o with
                  | ROk, OpAdd u _ _ | ROk, OpUpdate u _ | ROk, OpSetAdmin u _ | ROk, OpRemove u | ROk, OpInit u _ => Some u
                  | _, _ => None
                  end;
         DurHist.h_evs := evs |}
  end.

Definition steps_of (hc : hcase) : list DurHist.hstep := match hc with HistCase l => map dstep_of l end.

(* each step is what the model does from the directory the previous step left *)
Fixpoint chained (prev : option dirst) (l : list tcase) : bool :=
  match l with
  | [] => true
  | (TraceCase _ _ init _ _ _ _ after _) as cs :: r =>
      match prev with Some p => same_store_b p init | None => true end && agrees cs && chained (Some after) r
  end.

Definition agrees_h (hc : hcase) : bool := match hc with HistCase l => chained None l end.
Definition spec_ok (hc : hcase) : bool := DurHist.hist_ok (steps_of hc) [].

Definition mismatches (cs : list hcase) : list N := failures agrees_h cs.
Definition violations (cs : list hcase) : list N := failures spec_ok cs.
