(* Run/C14a.v — C14 at agent level: every record the running agent writes
   (add, update, hash upgrade) - also after the configuration was reloaded -
   names the CONFIGURED default parameter set and carries the digest of the
   password under exactly that set's parameters (recomputed by the harness
   with x/crypto and handed over in the KDF table). *)
From Whawty Require Import Bytes Base64 Names Record Store StoreSpec.
From WhawtyRun Require Export StoreHist.
From WhawtyRun Require Import C02.
Open Scope N_scope.

Inductive acase14 := AgentWrite (c : config) (t : tables) (content pw : bytes).

Definition spec_ok (a : acase14) : bool :=
  match a with
  | AgentWrite c t content pw =>
      match spec_record c content with
      | Some r =>
          (s_pid r =? default c) &&
          match kdf_of t (s_h r) (s_salt r) pw with
          | Some d => beq d (s_dig r)
          | None => false
          end
      | None => false
      end
  end.

(* the model's own reading of the record *)
Definition agrees (a : acase14) : bool :=
  match a with
  | AgentWrite c t content pw =>
      match authenticate (kdf_of t) c [(str "u.user", File content)] (str "u") pw with
      | OAuth true _ upg _ => negb upg
      | _ => false
      end
  end.

Definition mismatches (cs : list acase14) : list N := failures agrees cs.
Definition violations (cs : list acase14) : list N := failures spec_ok cs.
