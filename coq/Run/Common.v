(* Run/Common.v — glue shared by the correspondence case files the harness
   writes: literals and the index-of-failures helper. *)
From Whawty Require Export Bytes.
Open Scope N_scope.

Notation h := hex.
Definition rep (b n : N) : bytes := repeat_byte b (N.to_nat n).

Fixpoint failures_from {A} (f : A -> bool) (i : N) (l : list A) : list N :=
  match l with
  | [] => []
  | x :: r => if f x then failures_from f (i + 1) r else i :: failures_from f (i + 1) r
  end.
Definition failures {A} (f : A -> bool) (l : list A) : list N := failures_from f 0 l.

Definition obeq (a b : option bytes) : bool :=
  match a, b with
  | Some x, Some y => beq x y
  | None, None => true
  | _, _ => false
  end.

Fixpoint lbeq (a b : list bytes) : bool :=
  match a, b with
  | [], [] => true
  | x :: a', y :: b' => beq x y && lbeq a' b'
  | _, _ => false
  end.
