(* Run/C02.v — specification monitor for C02: every observed result on a
   hash file is judged against an independent reading of the schema
   (fields by Split on every ':', own number syntax), not against
   Record.parse_record. *)
From Whawty Require Import Bytes Base64 Names Record Store StoreSpec.
From WhawtyRun Require Export StoreHist.
Open Scope N_scope.

(* number syntax of the schema: optional sign (time only), decimal digits *)
Definition spec_digits (s : bytes) : option N :=
  match s with
  | [] => None
  | _ => if forallb is_digit s
         then Some (fold_left (fun acc d => acc * 10 + (d - 48)) s 0)
         else None
  end.
Definition spec_time (s : bytes) : option Z :=
  match s with
  | 45 :: r => match spec_digits r with
               | Some v => if (Z.of_N v <=? 9223372036854775808)%Z then Some (- Z.of_N v)%Z else None
               | None => None end
  | 43 :: r => match spec_digits r with
               | Some v => if (Z.of_N v <=? 9223372036854775807)%Z then Some (Z.of_N v) else None
               | None => None end
  | _ => match spec_digits s with
         | Some v => if (Z.of_N v <=? 9223372036854775807)%Z then Some (Z.of_N v) else None
         | None => None end
  end.
Definition spec_pid (s : bytes) : option N :=
  match spec_digits s with
  | Some v => if v <=? 18446744073709551615 then Some v else None
  | None => None
  end.

Record srec := { s_h : hasher; s_ts : Z; s_pid : N; s_salt : bytes; s_dig : bytes }.

Definition line_of (content : bytes) : bytes :=
  match index_of 10 content with Some i => firstn (S i) content | None => content end.

Definition spec_record (c : config) (content : bytes) : option srec :=
  match split_all 58 (line_of content) with
  | [alg; ts; pid; s64; d64] =>
      match spec_time ts, spec_pid pid with
      | Some t, Some i =>
          match cfg_hasher c i with
          | Some h =>
              if beq alg (fmt_of h) then
                match url_dec s64, url_dec d64 with
                | Some s, Some d => Some {| s_h := h; s_ts := t; s_pid := i; s_salt := s; s_dig := d |}
                | _, _ => None
                end
              else None
          | None => None
          end
      | _, _ => None
      end
  | _ => None
  end.

Definition spec_supported (c : config) (content : bytes) : bool :=
  match spec_record c content with
  | Some r => match s_salt r, s_dig r with [], _ | _, [] => false | _, _ => true end
  | None => false
  end.

(* the file of user u in an observed directory: .admin first *)
Definition user_file (d : dirst) (u : bytes) : option (bool * node) :=
  match dlookup (u ++ ext_admin) d with
  | Some n => Some (true, n)
  | None => match dlookup (u ++ ext_user) d with
            | Some n => Some (false, n)
            | None => None
            end
  end.

Definition snap_same (s : snap) : bool := match s with SnapSame => true | _ => false end.

Definition check_step (t : tables) (c : config) (cur next : dirst) (o : op) (ob : obs) (sn : snap) : bool :=
  match o with
  | OpAuth u p =>
      match user_file cur u, ob with
      | Some (adm, File content), OAuth ok adm' upg ts =>
          match spec_record c content with
          | Some r =>
              let expect := match kdf_of t (s_h r) (s_salt r) p with
                            | Some d => beq d (s_dig r)
                            | None => false end in
              if expect then ok && Bool.eqb adm adm' && Bool.eqb upg (negb (default c =? s_pid r)) && (ts =? s_ts r)%Z
              else negb ok
          | None => negb ok
          end
      | _, OAuth ok _ _ _ => negb ok
      | _, _ => false
      end
  | OpList =>
      match ob with
      | OList (Some l) =>
          forallb (fun e => match check_user_file (fst e), snd e with
                            | Some (u, _), File content =>
                                if valid_name u then
                                  Bool.eqb (match alookup u l with Some _ => true | None => false end)
                                           (existsb (fun e' => match check_user_file (fst e'), snd e' with
                                                               | Some (u', _), File c' => beq u u' && spec_supported c c'
                                                               | _, _ => false end) cur)
                                else match alookup u l with Some _ => false | None => true end
                            | _, _ => true
                            end) cur
      | _ => true
      end
  | OpListFull =>
      match ob with
      | OListFull (Some l) =>
          forallb (fun e => match check_user_file (fst e), snd e with
                            | Some (u, _), File content =>
                                match alookup u l with
                                | Some uf =>
                                    (* with a single file per user the flag is exactly "supported" *)
                                    if (length (filter (fun e' => match check_user_file (fst e') with
                                                                  | Some (u', _) => beq u u' | None => false end) cur) =? 1)%nat
                                    then Bool.eqb (uf_supported uf) (spec_supported c content)
                                    else true
                                | None => false
                                end
                            | _, _ => true
                            end) cur
      | _ => true
      end
  | OpAdd u _ _ =>
      match user_file cur u with
      | Some _ => match ob with ORes RErr => snap_same sn | _ => false end
      | None => true
      end
  | OpUpdate u _ =>
      match user_file cur u with
      | Some (_, File content) =>
          if spec_supported c content then true
          else match ob with ORes RErr => snap_same sn | _ => false end
      | Some (_, Dir _) => match ob with ORes RErr => snap_same sn | _ => false end
      | None => match ob with ORes RErr => snap_same sn | _ => false end
      end
  | OpRemove u =>
      if valid_name u then
        match user_file next u with
        | Some (_, Dir (_ :: _)) => true
        | Some _ => false
        | None => true
        end
      else snap_same sn
  | OpExists u =>
      match ob with
      | OExists (ExYes adm) => match user_file cur u with Some (adm', _) => Bool.eqb adm adm' | None => false end
      | OExists ExNo => match user_file cur u with None => true | Some _ => false end
      | _ => true
      end
  | _ => true
  end.

Fixpoint monitor (t : tables) (c : config) (cur : dirst) (steps : list hstep) (i : N) : option N :=
  match steps with
  | [] => None
  | (o, _, ob, sn) :: r =>
      let next := match sn with SnapSame => cur | Snap x => x end in
      if check_step t c cur next o ob sn
      then monitor t (match o with OpSetDefault id => {| params := params c; default := id |} | _ => c end) next r (i + 1)
      else Some i
  end.

Definition spec_ok (cs : case) : bool :=
  match cs with
  | Hist c t init steps => match monitor t c init steps 0 with None => true | Some _ => false end
  end.
Definition spec_first (cs : case) : option N :=
  match cs with Hist c t init steps => monitor t c init steps 0 end.

Definition mismatches (cs : list case) : list N := failures agrees cs.
Definition violations (cs : list case) : list N := failures spec_ok cs.
