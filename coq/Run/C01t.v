(* Run/C01t.v — C01 at system-call level: an ACKNOWLEDGED add / update / init
   is effective whatever happened to individual system calls on the way: the
   password just set authenticates against the resulting directory.  (What a
   FAILED operation may leave behind is C15's subject.) *)
From Whawty Require Import Bytes Base64 Names Record Store StoreSpec StoreTrace Crash.
From WhawtyRun Require Export Trace.
Open Scope N_scope.

Definition verdict (t : tables) (c : config) (d : dirst) (u pw : bytes) : bool :=
  match authenticate (kdf_of t) c d u pw with OAuth ok _ _ _ => ok | _ => false end.

Definition spec_ok (cs : tcase) : bool :=
  match cs with
  | TraceCase c t init o orc ft r after evs =>
      match o, r with
      | OpAdd u pw _, ROk | OpUpdate u pw, ROk | OpInit u pw, ROk => verdict t c after u pw
      | _, _ => true
      end
  end.

Definition mismatches (cs : list tcase) : list N := failures agrees cs.
Definition violations (cs : list tcase) : list N := failures spec_ok cs.
