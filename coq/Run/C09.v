(* Run/C09.v — every acknowledged mutation must have made its directory
   changes durable before returning (Crash_proofs.complete_is_durable,
   set_admin_durable, remove_durable, durability_checker_sound). *)
From Whawty Require Import Bytes Base64 Names Record Store StoreSpec StoreTrace Crash.
From WhawtyRun Require Export Trace.
From WhawtyRun Require Import C08.
Open Scope N_scope.

Definition spec_ok (cs : tcase) : bool :=
  match cs with
  | TraceCase c t init o orc ft r after evs =>
      (* every ACKNOWLEDGED operation, whether or not an I/O error was injected on the way *)
      match r with
      | ROk =>
          durability_ok evs &&
          match final_name init o with
          | Some (f, reserve) => protocol_complete_ok f reserve evs
          | None => true
          end
      | RErr => true
      end
  end.

Definition mismatches (cs : list tcase) : list N := failures agrees cs.
Definition violations (cs : list tcase) : list N := failures spec_ok cs.
