(* C19_proofs.v — when the dispatcher notifies the hooks goroutine. *)
From Whawty Require Import Bytes Record Store Agent.
Open Scope N_scope.

Lemma notify_iff_mutation kdf policy_ok orc ac c d n r c' d' ob notify upg :
  handle_req kdf policy_ok orc ac c d n r = (c', d', ob, notify, upg) ->
  notify = match r with
           | RAdd _ _ _ | RUpdate _ _ | RSetAdmin _ _ => is_ok ob
           | RRemove _ => true
           | _ => false
           end.
Proof.
  unfold handle_req. intros H.
  destruct r; cbn [gated op_of] in H;
    try (destruct (policy_ok _ _); cbn [negb] in H);
    try (destruct (step kdf c d _ (orc n)) as [[c1 d1] ob1]);
    try (injection H as <- <- <- <- <-; reflexivity);
    try congruence.
Qed.
