(* WebApi.v — the handlers of cmd/whawty-auth/web_api.go as a function
     state -> request -> (response, state)
   over the store model (Store.v) and the session model (Session.v).

   The JSON layer is identity on decoded values: a request body is either
   the decoded field values (absent fields are empty / false, as Go's zero
   values) or [None] when the document does not decode into the handler's
   struct.  HTTP itself (routing, methods) is not modelled. *)
From Whawty Require Import Bytes Base64 Names Record Store Session.
Open Scope N_scope.

Inductive endpoint := EAuth | EAdd | ERemove | EUpdate | ESetAdmin | EList | EListFull.

Record body := {
  b_session : bytes; b_username : bytes; b_password : bytes;
  b_old : bytes; b_new : bytes; b_admin : bool
}.

Record wstate := { w_cfg : config; w_dir : dirst; w_log : slog }.

(* oracles of one request: values the real code takes from the clock and crypto/rand *)
Record woracle := {
  wo_store : oracle;          (* time stamp and salt of a store write, listing order *)
  wo_now_ns : Z;              (* clock when a session is checked *)
  wo_now_s : Z;               (* clock when a session is issued *)
  wo_nonce : bytes; wo_ct : bytes   (* what sealing produced *)
}.

Record wresp := {
  r_status : N;
  r_list : bool;              (* the response carries a user list *)
  r_session : option bytes    (* the response carries this session token *)
}.

Definition resp (st : N) : wresp := {| r_status := st; r_list := false; r_session := None |}.

Definition session_life_ns (life_ms : N) : Z := (Z.of_N life_ms * 1000000)%Z.

Section WithKdf.
  Variable kdf : hasher -> bytes -> bytes -> option bytes.
  Variable life_ms : N.

  Definition chk (s : wstate) (o : woracle) (session : bytes) : verdict :=
    check (w_log s) (session_life_ns life_ms) (wo_now_ns o) session.

  Definition status_of (v : verdict) : N :=
    match v with Accept _ _ => 200 | Reject400 => 400 | Reject401 => 401 end.

  Definition store_auth (s : wstate) (u p : bytes) : option bool :=   (* Some admin = accepted *)
    match authenticate kdf (w_cfg s) (w_dir s) u p with
    | OAuth true adm _ _ => Some adm
    | _ => None
    end.

  Definition with_dir (s : wstate) (d : dirst) : wstate :=
    {| w_cfg := w_cfg s; w_dir := d; w_log := w_log s |}.

  (* management handlers share: non-empty fields, valid session, admin *)
  Definition admin_gate (s : wstate) (o : woracle) (session : bytes) (k : unit -> wresp * wstate)
    : wresp * wstate :=
    match chk s o session with
    | Accept _ true => k tt
    | Accept _ false => (resp 403, s)
    | v => (resp (status_of v), s)
    end.

  Definition is_empty (x : bytes) : bool := match x with [] => true | _ => false end.

  Definition handle (s : wstate) (ep : endpoint) (bd : option body) (o : woracle) : wresp * wstate :=
    match bd with
    | None => (resp 400, s)
    | Some b =>
        match ep with
        | EAuth =>
            if is_empty (b_username b) || is_empty (b_password b) then (resp 400, s)
            else match store_auth s (b_username b) (b_password b) with
                 | None => (resp 401, s)
                 | Some adm =>
                     let '(l', text) := generate (w_log s) (b_username b) adm (wo_now_s o) (wo_nonce o) (wo_ct o) in
                     ({| r_status := 200; r_list := false; r_session := Some text |},
                      {| w_cfg := w_cfg s; w_dir := w_dir s; w_log := l' |})
                 end
        | EAdd =>
            if is_empty (b_session b) || is_empty (b_username b) || is_empty (b_password b) then (resp 400, s)
            else admin_gate s o (b_session b) (fun _ =>
                   let '(d', r) := add_user kdf (w_cfg s) (w_dir s) (b_username b) (b_password b) (b_admin b) (wo_store o) in
                   match r with ROk => (resp 200, with_dir s d') | RErr => (resp 400, with_dir s d') end)
        | ERemove =>
            if is_empty (b_session b) || is_empty (b_username b) then (resp 400, s)
            else admin_gate s o (b_session b) (fun _ =>
                   (resp 200, with_dir s (remove_user (w_dir s) (b_username b))))
        | ESetAdmin =>
            if is_empty (b_session b) || is_empty (b_username b) then (resp 400, s)
            else admin_gate s o (b_session b) (fun _ =>
                   let '(d', r) := set_admin (w_dir s) (b_username b) (b_admin b) in
                   match r with ROk => (resp 200, with_dir s d') | RErr => (resp 400, with_dir s d') end)
        | EList =>
            if is_empty (b_session b) then (resp 400, s)
            else admin_gate s o (b_session b) (fun _ =>
                   match list_users (w_cfg s) (listing (wo_store o) (w_dir s)) [] with
                   | Some _ => ({| r_status := 200; r_list := true; r_session := None |}, s)
                   | None => ({| r_status := 400; r_list := true; r_session := None |}, s)
                   end)
        | EListFull =>
            if is_empty (b_session b) then (resp 400, s)
            else admin_gate s o (b_session b) (fun _ =>
                   match list_full (w_cfg s) (listing (wo_store o) (w_dir s)) [] with
                   | Some _ => ({| r_status := 200; r_list := true; r_session := None |}, s)
                   | None => ({| r_status := 400; r_list := true; r_session := None |}, s)
                   end)
        | EUpdate =>
            if is_empty (b_username b) then (resp 400, s)
            else
              let do_update (_ : unit) :=
                let '(d', r) := update_user kdf (w_cfg s) (w_dir s) (b_username b) (b_new b) (wo_store o) in
                match r with ROk => (resp 200, with_dir s d') | RErr => (resp 400, with_dir s d') end in
              if negb (is_empty (b_session b)) && is_empty (b_old b) then
                if is_empty (b_new b) then (resp 400, s)
                else match chk s o (b_session b) with
                     | Accept u adm =>
                         if negb adm && negb (beq u (b_username b)) then (resp 403, s) else do_update tt
                     | v => (resp (status_of v), s)
                     end
              else if is_empty (b_session b) && negb (is_empty (b_old b)) then
                match store_auth s (b_username b) (b_old b) with
                | None => (resp 401, s)
                | Some _ => if is_empty (b_new b) then (resp 200, s) else do_update tt
                end
              else (resp 400, s)
        end
    end.

  (* ---- the authorisation the property prescribes ---- *)
  (* a session accepted now: issued by this instance, unexpired *)
  Definition session_of (s : wstate) (o : woracle) (session : bytes) : option (bytes * bool) :=
    match chk s o session with Accept u a => Some (u, a) | _ => None end.

  Definition authorised (s : wstate) (ep : endpoint) (b : body) (o : woracle) : bool :=
    match ep with
    | EAuth => match store_auth s (b_username b) (b_password b) with Some _ => true | None => false end
    | EAdd | ERemove | ESetAdmin | EList | EListFull =>
        match session_of s o (b_session b) with Some (_, true) => true | _ => false end
    | EUpdate =>
        (* exactly one credential: an admin token, the user's own token, or the current password *)
        (negb (is_empty (b_session b)) && is_empty (b_old b) &&
           match session_of s o (b_session b) with
           | Some (u, adm) => adm || beq u (b_username b)
           | None => false end)
        || (is_empty (b_session b) && negb (is_empty (b_old b)) &&
           match store_auth s (b_username b) (b_old b) with Some _ => true | None => false end)
    end.

  Definition wstep := (endpoint * option body * woracle)%type.

  Fixpoint run_web (s : wstate) (rs : list wstep) : list wresp * wstate :=
    match rs with
    | [] => ([], s)
    | (ep, bd, o) :: r =>
        let '(rp, s') := handle s ep bd o in
        let '(rps, s'') := run_web s' r in
        (rp :: rps, s'')
    end.
End WithKdf.
