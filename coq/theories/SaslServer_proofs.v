(* SaslServer_proofs.v — C05: the server fails closed on every byte stream. *)
From Whawty Require Import Bytes SaslCodec SaslCodec_proofs SaslServer.
From Coq Require Import ZifyN ZifyNat ZifyBool.
Open Scope N_scope.

Local Ltac Zify.zify_post_hook ::= Z.div_mod_to_equations.

(* ---------------- auxiliary lemmas (independent of the section) ---------- *)

Definition verdict (res : cb_result) : bool * bytes :=
  match cb_err res with
  | Some e => (false, e)
  | None => (cb_ok res, cb_msg res)
  end.

Lemma serve_unfold max cb evs :
  serve max cb evs =
  match decode_request_events max evs with
  | RqBlocked => ([], NoReply)
  | RqErr => ([], Reply false None None)
  | RqOk r =>
      ([r], Reply (fst (verdict (cb r)))
                  (Some (clip_msg max (snd (verdict (cb r)))))
                  (encode_response (fst (verdict (cb r)))
                                   (clip_msg max (snd (verdict (cb r))))))
  end.
Proof.
  unfold serve, verdict.
  destruct (decode_request_events max evs) as [r| |]; try reflexivity.
  destruct (cb_err (cb r)); reflexivity.
Qed.

Lemma response_text_len' ok msg :
  len (response_text ok msg) = 2 + match msg with [] => 0 | _ => 1 + len msg end.
Proof.
  unfold response_text. rewrite len_app.
  destruct ok, msg; cbn [str]; rewrite ?len_cons, ?len_nil;
    unfold len; cbn [length]; lia.
Qed.

Lemma clip_msg_len max m : 3 <= max -> len (clip_msg max m) + 3 <= max.
Proof.
  intros H. unfold clip_msg, len. rewrite firstn_length. lia.
Qed.

Lemma response_of_part_text ok m : response_of_part (response_text ok m) = RsOk ok m.
Proof. destruct ok, m; reflexivity. Qed.

Lemma decode_request_ok_fields max evs r :
  decode_request_events max evs = RqOk r ->
  exists k, parse_parts max 4 (alldata evs) = POk (req_fields r) k /\
            login r <> [] /\ password r <> [] /\
            forallb (fun f => len f <=? max) (req_fields r) = true.
Proof.
  unfold decode_request_events. intros H.
  destruct (decode_events max 4 [] Cont evs) as [ps| |] eqn:D; try discriminate.
  pose proof (decode_events_sound _ _ _ _ _ _ D) as [k Hk]. cbn [app] in Hk.
  pose proof (parse_parts_parts_le _ _ _ _ _ Hk) as Hle.
  destruct ps as [|l [|p [|s [|rr [|x ps]]]]]; try discriminate.
  cbn [request_of_parts] in H.
  destruct l as [|l0 l]; [discriminate|]. destruct p as [|p0 p]; [discriminate|].
  injection H as <-.
  exists k. unfold req_fields. cbn [login password service realm].
  split; [exact Hk|]. split; [discriminate|]. split; [discriminate|]. exact Hle.
Qed.

Lemma decode_request_terminated max evs :
  wb O evs -> snd (stream evs) = true -> decode_request_events max evs <> RqBlocked.
Proof.
  intros Hwb Ht. unfold decode_request_events.
  rewrite fragment_independent by (auto; lia).
  unfold spec_res. rewrite Ht.
  destruct (parse_parts max 4 (fst (stream evs))) as [ps k| |]; try discriminate.
  unfold request_of_parts.
  destruct ps as [|l [|p [|s [|rr [|x ps]]]]]; try discriminate.
  destruct l; [discriminate|]. destruct p; discriminate.
Qed.

Lemma pam_accepts_enc_part pmax ok m :
  len (response_text ok m) <= 65535 -> len (response_text ok m) <= pmax ->
  pam_accepts pmax (enc_part (response_text ok m)) = ok.
Proof.
  intros H16 Hp. unfold enc_part, be16. cbn [app]. unfold pam_accepts. cbv zeta.
  set (t := response_text ok m) in *.
  rewrite be16_val by exact H16.
  rewrite N.min_l by exact Hp.
  replace (len t <? len t) with false by lia.
  unfold len. rewrite Nat2N.id, firstn_all.
  subst t. destruct ok; reflexivity.
Qed.

Section S.
  Variable max : N.
  Hypothesis max_ok : 3 <= max <= 65535.
  Variable cb : request -> cb_result.

  Theorem cb_at_most_once evs : (length (fst (serve max cb evs)) <= 1)%nat.
  Proof.
    rewrite serve_unfold.
    destruct (decode_request_events max evs); cbn [fst length]; lia.
  Qed.

  (* the callback sees exactly the four decoded fields of the stream's prefix *)
  Theorem cb_exact_fields evs r :
    fst (serve max cb evs) = [r] ->
    exists k, parse_parts max 4 (alldata evs) = POk (req_fields r) k /\
              login r <> [] /\ password r <> [] /\
              forallb (fun f => len f <=? max) (req_fields r) = true.
  Proof.
    rewrite serve_unfold.
    destruct (decode_request_events max evs) as [r'| |] eqn:D; cbn [fst];
      intros H; try discriminate.
    injection H as ->. apply decode_request_ok_fields. exact D.
  Qed.

  (* positive reply only if the request decoded and the callback approved without error *)
  Theorem fail_closed evs msg wire :
    snd (serve max cb evs) = Reply true msg wire ->
    exists r, fst (serve max cb evs) = [r] /\ cb_ok (cb r) = true /\ cb_err (cb r) = None.
  Proof.
    rewrite serve_unfold.
    destruct (decode_request_events max evs) as [r| |] eqn:D; cbn [fst snd];
      intros H; try discriminate.
    exists r. split; [reflexivity|].
    unfold verdict in H.
    destruct (cb_err (cb r)) as [e|]; cbn [fst snd] in H; [discriminate|].
    injection H as H _ _. split; [exact H|reflexivity].
  Qed.

  (* a terminated, well-behaved stream always gets exactly one reply *)
  Theorem exactly_one_reply evs :
    wb O evs -> snd (stream evs) = true ->
    exists ok msg wire, snd (serve max cb evs) = Reply ok msg wire.
  Proof.
    intros Hwb Ht. pose proof (decode_request_terminated max evs Hwb Ht) as Hnb.
    rewrite serve_unfold.
    destruct (decode_request_events max evs) as [r| |]; cbn [snd].
    - do 3 eexists. reflexivity.
    - do 3 eexists. reflexivity.
    - contradiction.
  Qed.

  (* no reply is sent before the request is complete *)
  Theorem no_reply_before_complete evs :
    snd (serve max cb evs) = NoReply -> fst (serve max cb evs) = [].
  Proof.
    rewrite serve_unfold.
    destruct (decode_request_events max evs) as [r| |]; cbn [fst snd];
      intros H; try discriminate; reflexivity.
  Qed.

  (* every reply whose text the server determines is one length-prefixed part,
     decodable by the Go client and by the PAM module, yielding the verdict *)
  Theorem reply_decodable evs ok m wire :
    snd (serve max cb evs) = Reply ok (Some m) wire ->
    exists w, wire = Some w /\
      w = enc_part (response_text ok m) /\
      len (response_text ok m) <= max /\
      decode_response_bytes max w = RsOk ok m /\
      (forall pmax, max <= pmax -> pam_accepts pmax w = ok).
  Proof.
    rewrite serve_unfold.
    destruct (decode_request_events max evs) as [r| |] eqn:D; cbn [fst snd];
      intros H; try discriminate.
    set (v := verdict (cb r)) in *.
    injection H as Hok Hm Hw.
    pose proof (clip_msg_len max (snd v) (proj1 max_ok)) as Hclip.
    rewrite Hm in Hclip. rewrite Hok, Hm in Hw. clear Hok Hm D.
    assert (Ht : len (response_text ok m) <= max).
    { rewrite response_text_len'. destruct m; [lia|]. lia. }
    assert (Henc : encode_response ok m = Some (enc_part (response_text ok m))).
    { unfold encode_response. rewrite encode_parts_ok.
      - cbn [map concat]. rewrite app_nil_r. reflexivity.
      - cbn [forallb]. rewrite andb_true_r. lia. }
    exists (enc_part (response_text ok m)).
    split; [congruence|]. split; [reflexivity|]. split; [exact Ht|]. split.
    - unfold decode_response_bytes, decode_response_events.
      rewrite fragment_independent by (cbn; auto; lia).
      cbn [stream fst snd]. unfold spec_res.
      destruct (parse_parts_encode max [response_text ok m] [] (proj2 max_ok)) as (k & Hk & _).
      { cbn [forallb]. rewrite andb_true_r. lia. }
      cbn [length map concat] in Hk. rewrite !app_nil_r in Hk. rewrite Hk.
      apply response_of_part_text.
    - intros pmax Hp. apply pam_accepts_enc_part; lia.
  Qed.

  (* the verdict of the reply is the callback's (error = denial) *)
  Theorem reply_is_callback_verdict evs r ok m wire :
    fst (serve max cb evs) = [r] -> snd (serve max cb evs) = Reply ok m wire ->
    ok = (cb_ok (cb r) && match cb_err (cb r) with None => true | Some _ => false end).
  Proof.
    rewrite serve_unfold.
    destruct (decode_request_events max evs) as [r'| |] eqn:D; cbn [fst snd];
      intros H1 H2; try discriminate.
    injection H1 as ->. injection H2 as H2 _ _. rewrite <- H2.
    unfold verdict. destruct (cb_err (cb r)); cbn [fst].
    - rewrite andb_false_r. reflexivity.
    - rewrite andb_true_r. reflexivity.
  Qed.

  (* the handler is a function of its own connection's bytes only *)
  Theorem connection_independent evs1 evs2 :
    wb O evs1 -> wb O evs2 -> stream evs1 = stream evs2 ->
    serve max cb evs1 = serve max cb evs2.
  Proof.
    intros H1 H2 E. rewrite !serve_unfold.
    unfold decode_request_events.
    rewrite (fragment_independent_pair max 4 evs1 evs2) by (auto; lia).
    reflexivity.
  Qed.
End S.
