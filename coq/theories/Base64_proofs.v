(* Base64_proofs.v — round trip and shape lemmas for the base64 model. *)
From Whawty Require Import Bytes Bytes_proofs Base64.
From Coq Require Import ZifyN ZifyNat ZifyBool.
Open Scope N_scope.

Lemma b64val_char al v : v < 64 -> b64val al (b64char al v) = Some v.
Admitted.

(* the encoder's characters are never ':' LF CR '=' and are bytes *)
Lemma b64char_plain al v :
  v < 64 ->
  let c := b64char al v in
  c <> 58 /\ c <> 10 /\ c <> 13 /\ c <> 61 /\ c < 256.
Admitted.

Lemma b64val_range al c v : b64val al c = Some v -> v < 64.
Admitted.

(* Decoding an encoding returns the original bytes; trailing CR/LF are
   ignored (the stored digest is followed by the line's '\n'). *)
Theorem b64dec_enc al x tail :
  bytes_wf x = true -> forallb is_nl tail = true ->
  b64dec al (b64enc al x ++ tail) = Some x.
Admitted.

Lemma b64enc_no_colon al x : bytes_wf x = true -> contains 58 (b64enc al x) = false.
Admitted.

Lemma b64enc_no_lf al x : bytes_wf x = true -> contains 10 (b64enc al x) = false.
Admitted.

Lemma b64enc_wf al x : bytes_wf x = true -> bytes_wf (b64enc al x) = true.
Admitted.

Lemma b64enc_nonempty al x : x <> [] -> b64enc al x <> [].
Admitted.

(* decoded output is always a byte string *)
Lemma b64dec_wf al s x : b64dec al s = Some x -> bytes_wf x = true.
Admitted.

(* the encoder is injective on byte strings *)
Lemma b64enc_inj al x y :
  bytes_wf x = true -> bytes_wf y = true -> b64enc al x = b64enc al y -> x = y.
Admitted.
