(* Base64_proofs.v — round trip and shape lemmas for the base64 model. *)
From Whawty Require Import Bytes Bytes_proofs Base64.
From Coq Require Import ZifyN ZifyNat ZifyBool.
Open Scope N_scope.

Local Ltac Zify.zify_post_hook ::= Z.div_mod_to_equations.

Local Ltac destr_ifs :=
  repeat match goal with
         | |- context [if ?b then _ else _] => destruct b eqn:?
         end.

Lemma b64val_char al v : v < 64 -> b64val al (b64char al v) = Some v.
Proof.
  intros H. unfold b64char.
  destruct (v <? 26) eqn:E1; [|destruct (v <? 52) eqn:E2; [|destruct (v <? 62) eqn:E3;
    [|destruct (v =? 62) eqn:E4]]].
  - unfold b64val. destr_ifs; try lia; f_equal; lia.
  - unfold b64val. destr_ifs; try lia; f_equal; lia.
  - unfold b64val. destr_ifs; try lia; f_equal; lia.
  - assert (v = 62) by lia. subst v. destruct al; reflexivity.
  - assert (v = 63) by lia. subst v. destruct al; reflexivity.
Qed.

(* the encoder's characters are never ':' LF CR '=' and are bytes *)
Lemma b64char_plain al v :
  v < 64 ->
  let c := b64char al v in
  c <> 58 /\ c <> 10 /\ c <> 13 /\ c <> 61 /\ c < 256.
Proof.
  intros H. cbv zeta. unfold b64char.
  destruct (v <? 26) eqn:E1; [lia|]. destruct (v <? 52) eqn:E2; [lia|].
  destruct (v <? 62) eqn:E3; [lia|].
  destruct (v =? 62); destruct al; lia.
Qed.

Lemma b64val_range al c v : b64val al c = Some v -> v < 64.
Proof.
  unfold b64val.
  destruct ((65 <=? c) && (c <=? 90)) eqn:E1; [intros [= <-]; lia|].
  destruct ((97 <=? c) && (c <=? 122)) eqn:E2; [intros [= <-]; lia|].
  destruct ((48 <=? c) && (c <=? 57)) eqn:E3; [intros [= <-]; lia|].
  destruct al.
  - destruct (c =? 43); [intros [= <-]; lia|]. destruct (c =? 47); [intros [= <-]; lia|].
    discriminate.
  - destruct (c =? 45); [intros [= <-]; lia|]. destruct (c =? 95); [intros [= <-]; lia|].
    discriminate.
Qed.

Lemma list_ind3 {A} (P : list A -> Prop) :
  P [] -> (forall a, P [a]) -> (forall a b, P [a; b]) ->
  (forall a b c r, P r -> P (a :: b :: c :: r)) -> forall l, P l.
Proof.
  intros H0 H1 H2 H3.
  assert (H : forall l, P l /\ (forall a, P (a :: l)) /\ (forall a b, P (a :: b :: l))).
  { induction l as [|x l (IH0 & IH1 & IH2)]; auto. }
  intros l. apply H.
Qed.

Lemma b64val_pad al : b64val al pad = None.
Proof. destruct al; reflexivity. Qed.

Lemma b64val_nl al c : is_nl c = true -> b64val al c = None.
Proof.
  unfold is_nl. intros H.
  assert (Hc : c = 10 \/ c = 13) by lia.
  destruct Hc; subst c; destruct al; reflexivity.
Qed.

Lemma skip_nl_all s : forallb is_nl s = true -> skip_nl s = [].
Proof.
  induction s as [|c s IH]; cbn [forallb skip_nl]; auto.
  intros H. apply andb_true_iff in H. destruct H as [H1 H2]. rewrite H1. auto.
Qed.

Lemma b64dec_q_nl al tail q :
  forallb is_nl tail = true -> b64dec_q al tail q = match q with [] => Some [] | _ => None end.
Proof.
  induction tail as [|c s IH]; cbn [forallb b64dec_q]; auto.
  intros H. apply andb_true_iff in H. destruct H as [H1 H2].
  rewrite (b64val_nl al c H1), H1. auto.
Qed.

Lemma b64dec_q_quad al c1 c2 c3 c4 v1 v2 v3 v4 r :
  b64val al c1 = Some v1 -> b64val al c2 = Some v2 ->
  b64val al c3 = Some v3 -> b64val al c4 = Some v4 ->
  b64dec_q al (c1 :: c2 :: c3 :: c4 :: r) [] =
  match b64dec_q al r [] with
  | Some t => Some ((v1 * 4 + v2 / 16) :: ((v2 mod 16) * 16 + v3 / 4) :: ((v3 mod 4) * 64 + v4) :: t)
  | None => None
  end.
Proof.
  intros H1 H2 H3 H4. cbn [b64dec_q app]. rewrite H1. cbn [app].
  rewrite H2. cbn [app]. rewrite H3. cbn [app]. rewrite H4. reflexivity.
Qed.

Lemma b64dec_q_pad1 al c1 c2 c3 v1 v2 v3 tail :
  b64val al c1 = Some v1 -> b64val al c2 = Some v2 -> b64val al c3 = Some v3 ->
  forallb is_nl tail = true ->
  b64dec_q al (c1 :: c2 :: c3 :: pad :: tail) [] =
  Some [v1 * 4 + v2 / 16; (v2 mod 16) * 16 + v3 / 4].
Proof.
  intros H1 H2 H3 Ht. cbn [b64dec_q app]. rewrite H1. cbn [app].
  rewrite H2. cbn [app]. rewrite H3. cbn [app]. rewrite b64val_pad.
  change (is_nl pad) with false. change (pad =? pad) with true. cbv iota.
  rewrite (skip_nl_all _ Ht). reflexivity.
Qed.

Lemma b64dec_q_pad2 al c1 c2 v1 v2 tail :
  b64val al c1 = Some v1 -> b64val al c2 = Some v2 ->
  forallb is_nl tail = true ->
  b64dec_q al (c1 :: c2 :: pad :: pad :: tail) [] = Some [v1 * 4 + v2 / 16].
Proof.
  intros H1 H2 Ht. cbn [b64dec_q app]. rewrite H1. cbn [app].
  rewrite H2. cbn [app]. rewrite b64val_pad.
  change (is_nl pad) with false. change (pad =? pad) with true. cbv iota.
  cbn [skip_nl]. change (is_nl pad) with false. cbv iota.
  change (pad =? pad) with true. cbv iota.
  rewrite (skip_nl_all _ Ht). reflexivity.
Qed.

Lemma bytes_wf_cons a x : bytes_wf (a :: x) = true <-> a < 256 /\ bytes_wf x = true.
Proof.
  unfold bytes_wf. cbn [forallb]. rewrite andb_true_iff. unfold byte_wf.
  rewrite N.ltb_lt. tauto.
Qed.

(* Decoding an encoding returns the original bytes; trailing CR/LF are
   ignored (the stored digest is followed by the line's '\n'). *)
Theorem b64dec_enc al x tail :
  bytes_wf x = true -> forallb is_nl tail = true ->
  b64dec al (b64enc al x ++ tail) = Some x.
Proof.
  intros Hx Ht. unfold b64dec. revert Hx.
  induction x as [|a|a b|a b c r IH] using list_ind3; intros Hx.
  - cbn [b64enc app]. rewrite b64dec_q_nl by assumption. reflexivity.
  - apply bytes_wf_cons in Hx. destruct Hx as [Ha _].
    cbn [b64enc app].
    erewrite b64dec_q_pad2; [| apply b64val_char; lia | apply b64val_char; lia | assumption].
    do 2 f_equal. lia.
  - apply bytes_wf_cons in Hx. destruct Hx as [Ha Hx].
    apply bytes_wf_cons in Hx. destruct Hx as [Hb _].
    cbn [b64enc app].
    erewrite b64dec_q_pad1;
      [| apply b64val_char; lia | apply b64val_char; lia | apply b64val_char; lia | assumption].
    f_equal. f_equal; [lia|]. f_equal. lia.
  - apply bytes_wf_cons in Hx. destruct Hx as [Ha Hx].
    apply bytes_wf_cons in Hx. destruct Hx as [Hb Hx].
    apply bytes_wf_cons in Hx. destruct Hx as [Hc Hx].
    cbn [b64enc app].
    erewrite b64dec_q_quad;
      [| apply b64val_char; lia | apply b64val_char; lia
       | apply b64val_char; lia | apply b64val_char; lia ].
    rewrite (IH Hx). f_equal. f_equal; [lia|]. f_equal; [lia|]. f_equal. lia.
Qed.

Lemma b64enc_chars al (P : byte -> bool) x :
  (forall v, v < 64 -> P (b64char al v) = true) -> P pad = true ->
  bytes_wf x = true -> forallb P (b64enc al x) = true.
Proof.
  intros HP Hpad.
  induction x as [|a|a b|a b c r IH] using list_ind3; intros Hx.
  - reflexivity.
  - apply bytes_wf_cons in Hx. destruct Hx as [Ha _].
    cbn [b64enc forallb]. rewrite !HP, Hpad by lia. reflexivity.
  - apply bytes_wf_cons in Hx. destruct Hx as [Ha Hx].
    apply bytes_wf_cons in Hx. destruct Hx as [Hb _].
    cbn [b64enc forallb]. rewrite !HP, Hpad by lia. reflexivity.
  - apply bytes_wf_cons in Hx. destruct Hx as [Ha Hx].
    apply bytes_wf_cons in Hx. destruct Hx as [Hb Hx].
    apply bytes_wf_cons in Hx. destruct Hx as [Hc Hx].
    cbn [b64enc forallb]. rewrite !HP, (IH Hx) by lia. reflexivity.
Qed.

Lemma b64enc_no_colon al x : bytes_wf x = true -> contains 58 (b64enc al x) = false.
Proof.
  intros Hx. apply contains_forallb. apply b64enc_chars; auto.
  intros v Hv. pose proof (b64char_plain al v Hv) as H. cbv zeta in H. lia.
Qed.

Lemma b64enc_no_lf al x : bytes_wf x = true -> contains 10 (b64enc al x) = false.
Proof.
  intros Hx. apply contains_forallb. apply b64enc_chars; auto.
  intros v Hv. pose proof (b64char_plain al v Hv) as H. cbv zeta in H. lia.
Qed.

Lemma b64enc_wf al x : bytes_wf x = true -> bytes_wf (b64enc al x) = true.
Proof.
  intros Hx. unfold bytes_wf at 1. apply b64enc_chars; auto.
  intros v Hv. pose proof (b64char_plain al v Hv) as H. cbv zeta in H.
  unfold byte_wf. lia.
Qed.

Lemma b64enc_nonempty al x : x <> [] -> b64enc al x <> [].
Proof.
  destruct x as [|a [|b [|c r]]]; cbn [b64enc]; intros H; try discriminate.
  contradiction.
Qed.

(* decoded output is always a byte string *)
Lemma b64dec_q_wf al s : forall q x,
  Forall (fun v => v < 64) q ->
  b64dec_q al s q = Some x -> bytes_wf x = true.
Proof.
  induction s as [|c r IH]; intros q x Hq H.
  - cbn [b64dec_q] in H. destruct q; [|discriminate]. injection H as <-. reflexivity.
  - cbn [b64dec_q] in H. destruct (b64val al c) as [v|] eqn:Ev.
    + pose proof (b64val_range _ _ _ Ev) as Hv.
      assert (Hq' : Forall (fun v => v < 64) (q ++ [v])).
      { apply Forall_app. split; auto. }
      destruct q as [|x1 [|y1 [|z1 [|w1 q']]]];
        try (eapply IH; [exact Hq'|exact H]).
      destruct (b64dec_q al r []) as [t|] eqn:Et; [|discriminate].
      injection H as <-.
      inversion Hq as [|? ? Hx1 Hq1]; subst. inversion Hq1 as [|? ? Hy1 Hq2]; subst.
      inversion Hq2 as [|? ? Hz1 _]; subst.
      apply bytes_wf_cons. split; [lia|].
      apply bytes_wf_cons. split; [lia|].
      apply bytes_wf_cons. split; [lia|].
      eapply IH; [|exact Et]. constructor.
    + destruct (is_nl c); [eapply IH; eauto|].
      destruct (c =? pad); [|discriminate].
      destruct q as [|x1 [|y1 [|z1 [|w1 q']]]]; try discriminate.
      * inversion Hq as [|? ? Hx1 Hq1]; subst. inversion Hq1 as [|? ? Hy1 _]; subst.
        destruct (skip_nl r) as [|c2 r2]; [discriminate|].
        destruct (c2 =? pad); [|discriminate].
        destruct (skip_nl r2); [|discriminate].
        injection H as <-. apply bytes_wf_cons. split; [lia|reflexivity].
      * inversion Hq as [|? ? Hx1 Hq1]; subst. inversion Hq1 as [|? ? Hy1 Hq2]; subst.
        inversion Hq2 as [|? ? Hz1 _]; subst.
        destruct (skip_nl r); [|discriminate].
        injection H as <-.
        apply bytes_wf_cons. split; [lia|].
        apply bytes_wf_cons. split; [lia|reflexivity].
Qed.

Lemma b64dec_wf al s x : b64dec al s = Some x -> bytes_wf x = true.
Proof.
  unfold b64dec. apply b64dec_q_wf. constructor.
Qed.

(* the encoder is injective on byte strings *)
Lemma b64enc_inj al x y :
  bytes_wf x = true -> bytes_wf y = true -> b64enc al x = b64enc al y -> x = y.
Proof.
  intros Hx Hy H.
  pose proof (b64dec_enc al x [] Hx eq_refl) as H1.
  pose proof (b64dec_enc al y [] Hy eq_refl) as H2.
  rewrite H in H1. congruence.
Qed.
