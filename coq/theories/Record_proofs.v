(* Record_proofs.v — the record parser against the schema's grammar
   (soundness for every file content) and the printer/parser round trip. *)
From Whawty Require Import Bytes Bytes_proofs Base64 Base64_proofs Record.
From Coq Require Import ZifyN ZifyNat ZifyBool.
Open Scope N_scope.

(* ------------------------------------------------------------------ *)
(* The schema's first line, as a grammar independent of the parser:
     <alg> ':' <ts> ':' <pid> ':' <salt64> ':' <digest64>
   alg, ts, pid, salt64 are ':'-free; digest64 extends to the end of the
   line (including the line terminator, which base64 decoding skips). *)
Inductive record_line : bytes -> bytes -> Z -> N -> bytes -> bytes -> Prop :=
| RL alg tsb ts pidb pid s64 d64 :
    contains colon alg = false ->
    contains colon tsb = false -> parse_int64 tsb = Some ts ->
    contains colon pidb = false -> parse_uint64 pidb = Some pid ->
    contains colon s64 = false -> contains colon d64 = false ->
    record_line (alg ++ colon :: tsb ++ colon :: pidb ++ colon :: s64 ++ colon :: d64)
                alg ts pid s64 d64.

Lemma first_line_no_inner_lf content :
  forall i, index_of lf content = Some i -> first_line content = firstn (S i) content.
Proof. intros i H. unfold first_line. rewrite H. reflexivity. Qed.

(* ---- local auxiliaries (lists, lines, separators) ---- *)
Lemma firstn_S_len (X : bytes) x tail : firstn (S (length X)) (X ++ x :: tail) = X ++ [x].
Proof.
  induction X as [|a X IH]; [reflexivity|].
  change (a :: firstn (S (length X)) (X ++ x :: tail) = a :: (X ++ [x])).
  now rewrite IH.
Qed.

Lemma skipn_S_len (X : bytes) x tail : skipn (S (length X)) (X ++ x :: tail) = tail.
Proof.
  induction X as [|a X IH]; [reflexivity|].
  change (skipn (S (length X)) (X ++ x :: tail) = tail). exact IH.
Qed.

Lemma first_line_app X tail :
  contains lf X = false -> first_line (X ++ lf :: tail) = X ++ [lf].
Proof.
  intros H. unfold first_line. rewrite (index_of_app_notin lf X tail H).
  apply firstn_S_len.
Qed.

Lemma after_first_line_app X tail :
  contains lf X = false -> after_first_line (X ++ lf :: tail) = tail.
Proof.
  intros H. unfold after_first_line. rewrite (index_of_app_notin lf X tail H).
  apply skipn_S_len.
Qed.

Lemma first_line_nolf X : contains lf X = false -> first_line X = X.
Proof. intros H. unfold first_line. now rewrite (index_of_none lf X H). Qed.

Lemma nl_no_colon nl : forallb is_nl nl = true -> contains colon nl = false.
Proof.
  induction nl as [|a nl IH]; [reflexivity|].
  cbn [forallb]. intros H. apply andb_true_iff in H as [Ha Hn].
  rewrite contains_cons, (IH Hn), orb_false_r.
  unfold is_nl in Ha. unfold colon. lia.
Qed.

Lemma colon_not_digit : is_digit colon = false. Proof. reflexivity. Qed.
Lemma colon_not_minus : colon <> 45. Proof. discriminate. Qed.
Lemma lf_not_digit : is_digit lf = false. Proof. reflexivity. Qed.
Lemma lf_not_minus : lf <> 45. Proof. discriminate. Qed.

Lemma fmt_of_no_colon h : contains colon (fmt_of h) = false.
Proof. destruct h; vm_compute; reflexivity. Qed.
Lemma fmt_of_no_lf h : contains lf (fmt_of h) = false.
Proof. destruct h; vm_compute; reflexivity. Qed.

Lemma splitN_line a b c d :
  contains colon a = false -> contains colon b = false -> contains colon c = false ->
  splitN colon 4 (a ++ colon :: b ++ colon :: c ++ colon :: d) = [a; b; c; d].
Proof.
  intros Ha Hb Hc.
  rewrite (splitN_cons colon 2 a _ Ha).
  rewrite (splitN_cons colon 1 b _ Hb).
  rewrite (splitN_cons colon 0 c _ Hc).
  now rewrite splitN_one.
Qed.

(* the header  alg:ts:pid:  contains no LF *)
Lemma header_no_lf h ts pid rest :
  contains lf rest = false ->
  contains lf (fmt_of h ++ colon :: dec_Z ts ++ colon :: dec_N pid ++ colon :: rest) = false.
Proof.
  intros Hr.
  rewrite contains_app, contains_cons, contains_app, contains_cons, contains_app, contains_cons.
  rewrite fmt_of_no_lf, (dec_Z_no lf ts lf_not_digit lf_not_minus), (dec_N_no lf pid lf_not_digit), Hr.
  reflexivity.
Qed.

Lemma parse_record_line content h ts pid hs :
  (- (max_i64 + 1) <= ts <= max_i64)%Z -> pid <= max_u64 ->
  first_line content = fmt_of h ++ colon :: dec_Z ts ++ colon :: dec_N pid ++ colon :: hs ->
  parse_record content =
  Some {| r_fmt := fmt_of h; r_ts := ts; r_pid := pid; r_hash := hs |}.
Proof.
  intros Hts Hpid Hl. unfold parse_record. rewrite Hl.
  rewrite (splitN_line _ _ _ _ (fmt_of_no_colon h)
             (dec_Z_no colon ts colon_not_digit colon_not_minus)
             (dec_N_no colon pid colon_not_digit)).
  rewrite (parse_int64_dec ts Hts), (parse_uint64_dec pid Hpid). reflexivity.
Qed.

Lemma decode_hash_enc_nl salt dig nl :
  bytes_wf salt = true -> bytes_wf dig = true -> forallb is_nl nl = true ->
  decode_hash (url_enc salt ++ colon :: url_enc dig ++ nl) = Some (salt, dig).
Proof.
  intros Hs Hd Hn. unfold decode_hash, url_enc, url_dec.
  rewrite (split_all_cons colon _ _ (b64enc_no_colon UrlAlpha salt Hs)).
  rewrite split_all_nosep.
  2:{ rewrite contains_app.
      rewrite (b64enc_no_colon UrlAlpha dig Hd : contains colon _ = false), (nl_no_colon nl Hn).
      reflexivity. }
  pose proof (b64dec_enc UrlAlpha salt [] Hs eq_refl) as E1. rewrite app_nil_r in E1.
  rewrite E1, (b64dec_enc UrlAlpha dig nl Hd Hn). reflexivity.
Qed.

Lemma enc_pair_no_lf salt dig :
  bytes_wf salt = true -> bytes_wf dig = true ->
  contains lf (url_enc salt ++ [colon] ++ url_enc dig) = false.
Proof.
  intros Hs Hd. unfold url_enc.
  rewrite contains_app, contains_app.
  rewrite (b64enc_no_lf UrlAlpha salt Hs : contains lf _ = false).
  rewrite (b64enc_no_lf UrlAlpha dig Hd : contains lf _ = false). reflexivity.
Qed.

Section WithKdf.
  Variable kdf : hasher -> bytes -> bytes -> option bytes.

  (* C02, central statement: whatever the file contains, a positive verdict
     implies that the first line is a schema record of a configured
     parameter set and that the stored digest is the recomputed one. *)
  Theorem auth_content_sound (c : config) (content pw : bytes) upg ts :
    auth_content kdf c content pw = AuthOk upg ts ->
    exists alg pid s64 d64 h salt dig,
      record_line (first_line content) alg ts pid s64 d64 /\
      cfg_hasher c pid = Some h /\ fmt_of h = alg /\
      url_dec s64 = Some salt /\ url_dec d64 = Some dig /\
      kdf h salt pw = Some dig /\
      upg = negb (default c =? pid).
  Proof.
    unfold auth_content. intros H.
    destruct (parse_record content) as [r|] eqn:Hp; [|discriminate].
    destruct (cfg_hasher c (r_pid r)) as [h|] eqn:Hc; [|discriminate].
    destruct (beq (fmt_of h) (r_fmt r)) eqn:Hf; [|discriminate].
    destruct (hash_check kdf h pw (r_hash r)) eqn:Hh; [|discriminate].
    injection H as Hu Ht.
    unfold parse_record in Hp.
    destruct (splitN colon 4 (first_line content)) as [|f [|t [|i [|hs [|]]]]] eqn:Hs;
      try discriminate.
    destruct (parse_int64 t) as [ts'|] eqn:Hpt; try discriminate.
    destruct (parse_uint64 i) as [pid|] eqn:Hpi; try discriminate.
    injection Hp as Hr. subst r. cbn [r_fmt r_ts r_pid r_hash] in *. subst ts'.
    unfold hash_check in Hh.
    destruct (decode_hash hs) as [[s d]|] eqn:Hd; [|discriminate].
    destruct (kdf h s pw) as [d'|] eqn:Hk; [|discriminate].
    apply beq_eq in Hh. subst d'.
    apply beq_eq in Hf.
    unfold decode_hash in Hd.
    destruct (split_all colon hs) as [|s64 [|d64 [|]]] eqn:Hsp; try discriminate.
    destruct (url_dec s64) as [s'|] eqn:Hds; try discriminate.
    destruct (url_dec d64) as [d'|] eqn:Hdd; try discriminate.
    injection Hd as Hs' Hd'. subst s' d'.
    apply splitN4_inv in Hs as (Hl & Hnf & Hnt & Hni).
    apply split_all2_inv in Hsp as (Hhs & Hns & Hnd). subst hs.
    exists f, pid, s64, d64, h, s, d.
    split.
    { rewrite Hl. now constructor. }
    repeat split; auto.
  Qed.

  (* no comparison of a digest prefix: a stored digest of another length
     than the recomputed one never authenticates *)
  Theorem auth_content_full_length (c : config) (content pw : bytes) r h salt dig d' :
    parse_record content = Some r -> cfg_hasher c (r_pid r) = Some h ->
    decode_hash (r_hash r) = Some (salt, dig) -> kdf h salt pw = Some d' ->
    length dig <> length d' ->
    auth_content kdf c content pw = AuthNo.
  Proof.
    intros Hp Hc Hd Hk Hlen. unfold auth_content. rewrite Hp, Hc.
    destruct (beq (fmt_of h) (r_fmt r)); [|reflexivity].
    unfold hash_check. rewrite Hd, Hk.
    destruct (beq d' dig) eqn:E; [|reflexivity].
    apply beq_eq in E. subst d'. now elim Hlen.
  Qed.

  (* fewer than three ':' in the first line: never a success *)
  Theorem auth_content_needs_four_fields (c : config) (content pw : bytes) :
    (length (splitN colon 4 (first_line content)) < 4)%nat ->
    auth_content kdf c content pw = AuthNo.
  Proof.
    intros H. unfold auth_content, parse_record.
    destruct (splitN colon 4 (first_line content)) as [|f [|t [|i [|hs [|]]]]];
      try reflexivity.
    - cbn [length] in H. lia.
  Qed.

  (* ---------------------------------------------------------------- *)
  (* printer / parser round trip *)

  Lemma fmt_of_plain h : contains colon (fmt_of h) = false /\ contains lf (fmt_of h) = false.
  Proof. split; [apply fmt_of_no_colon | apply fmt_of_no_lf]. Qed.

  Lemma print_record_shape h ts pid hs tail :
    print_record h ts pid hs ++ tail =
    (fmt_of h ++ colon :: dec_Z ts ++ colon :: dec_N pid ++ colon :: hs) ++ lf :: tail.
  Proof.
    unfold print_record. cbn [app].
    repeat (rewrite <- ?app_assoc; cbn [app]). reflexivity.
  Qed.

  Lemma first_line_print h ts pid hs tail :
    contains lf hs = false ->
    first_line (print_record h ts pid hs ++ tail) = print_record h ts pid hs.
  Proof.
    intros Hh. rewrite print_record_shape.
    rewrite (first_line_app _ _ (header_no_lf h ts pid hs Hh)).
    rewrite <- (app_nil_r (print_record h ts pid hs)), print_record_shape.
    reflexivity.
  Qed.

  Lemma after_first_line_print h ts pid hs tail :
    contains lf hs = false ->
    after_first_line (print_record h ts pid hs ++ tail) = tail.
  Proof.
    intros Hh. rewrite print_record_shape.
    apply after_first_line_app, header_no_lf, Hh.
  Qed.

  Lemma parse_record_print h ts pid hs tail :
    (- (max_i64 + 1) <= ts <= max_i64)%Z -> pid <= max_u64 ->
    contains lf hs = false ->
    parse_record (print_record h ts pid hs ++ tail) =
    Some {| r_fmt := fmt_of h; r_ts := ts; r_pid := pid; r_hash := hs ++ [lf] |}.
  Proof.
    intros Hts Hpid Hh. apply parse_record_line; auto.
    rewrite print_record_shape.
    rewrite (first_line_app _ _ (header_no_lf h ts pid hs Hh)).
    repeat (rewrite <- ?app_assoc; cbn [app]). reflexivity.
  Qed.

  Lemma decode_hash_enc salt dig :
    bytes_wf salt = true -> bytes_wf dig = true ->
    decode_hash (url_enc salt ++ [colon] ++ url_enc dig ++ [lf]) = Some (salt, dig).
  Proof.
    intros Hs Hd. cbn [app]. apply decode_hash_enc_nl; auto.
  Qed.

  Lemma hash_valid_enc salt dig :
    bytes_wf salt = true -> bytes_wf dig = true -> salt <> [] -> dig <> [] ->
    hash_valid (url_enc salt ++ [colon] ++ url_enc dig ++ [lf]) = true.
  Proof.
    intros Hs Hd Hns Hnd. unfold hash_valid. rewrite (decode_hash_enc salt dig Hs Hd).
    destruct salt; [now elim Hns|]. destruct dig; [now elim Hnd|]. reflexivity.
  Qed.

  Definition written (h : hasher) (ts : Z) (pid : N) (salt dig tail : bytes) : bytes :=
    print_record h ts pid (url_enc salt ++ [colon] ++ url_enc dig) ++ tail.

  (* general form: the first line is a schema line followed by CR/LF only *)
  Lemma auth_content_line c content h ts pid salt dig nl pw :
    (- (max_i64 + 1) <= ts <= max_i64)%Z -> pid <= max_u64 ->
    cfg_hasher c pid = Some h -> bytes_wf salt = true -> bytes_wf dig = true ->
    forallb is_nl nl = true ->
    first_line content = fmt_of h ++ colon :: dec_Z ts ++ colon :: dec_N pid ++ colon ::
                         url_enc salt ++ colon :: url_enc dig ++ nl ->
    auth_content kdf c content pw =
    match kdf h salt pw with
    | Some d' => if beq d' dig then AuthOk (negb (default c =? pid)) ts else AuthNo
    | None => AuthNo
    end.
  Proof.
    intros Hts Hpid Hc Hs Hd Hn Hl. unfold auth_content.
    rewrite (parse_record_line content h ts pid _ Hts Hpid Hl).
    cbn [r_fmt r_ts r_pid r_hash]. rewrite Hc, beq_refl.
    unfold hash_check. rewrite (decode_hash_enc_nl salt dig nl Hs Hd Hn).
    destruct (kdf h salt pw) as [d'|]; [|reflexivity].
    destruct (beq d' dig); reflexivity.
  Qed.

  Lemma first_line_written h ts pid salt dig tail :
    bytes_wf salt = true -> bytes_wf dig = true ->
    first_line (written h ts pid salt dig tail) =
    fmt_of h ++ colon :: dec_Z ts ++ colon :: dec_N pid ++ colon ::
    url_enc salt ++ colon :: url_enc dig ++ [lf].
  Proof.
    intros Hs Hd. unfold written.
    rewrite (first_line_print h ts pid _ tail (enc_pair_no_lf salt dig Hs Hd)).
    unfold print_record. repeat (rewrite <- ?app_assoc; cbn [app]). reflexivity.
  Qed.

  (* what Authenticate decides on a file the store itself wrote *)
  Lemma auth_content_written c h ts pid salt dig tail pw :
    (- (max_i64 + 1) <= ts <= max_i64)%Z -> pid <= max_u64 ->
    cfg_hasher c pid = Some h -> bytes_wf salt = true -> bytes_wf dig = true ->
    auth_content kdf c (written h ts pid salt dig tail) pw =
    match kdf h salt pw with
    | Some d' => if beq d' dig then AuthOk (negb (default c =? pid)) ts else AuthNo
    | None => AuthNo
    end.
  Proof.
    intros Hts Hpid Hc Hs Hd.
    apply (auth_content_line c _ h ts pid salt dig [lf] pw); auto.
    apply first_line_written; auto.
  Qed.

  Lemma is_supported_written c h ts pid salt dig tail :
    (- (max_i64 + 1) <= ts <= max_i64)%Z -> pid <= max_u64 ->
    cfg_hasher c pid = Some h -> bytes_wf salt = true -> bytes_wf dig = true ->
    salt <> [] -> dig <> [] ->
    format_supported_full c (written h ts pid salt dig tail) = SuppInfo true (fmt_of h) ts pid.
  Proof.
    intros Hts Hpid Hc Hs Hd Hns Hnd. unfold format_supported_full.
    rewrite (parse_record_line _ h ts pid _ Hts Hpid (first_line_written h ts pid salt dig tail Hs Hd)).
    cbn [r_fmt r_ts r_pid r_hash]. rewrite Hc, beq_refl.
    pose proof (hash_valid_enc salt dig Hs Hd Hns Hnd) as E. cbn [app] in E.
    rewrite E. reflexivity.
  Qed.

  Lemma after_first_line_written h ts pid salt dig tail :
    bytes_wf salt = true -> bytes_wf dig = true ->
    after_first_line (written h ts pid salt dig tail) = tail.
  Proof.
    intros Hs Hd. unfold written.
    apply after_first_line_print, enc_pair_no_lf; auto.
  Qed.

  (* C02 "conversely": a record produced by an independent implementation of
     the schema (the grammar's own printer; any line end CRLF or LF; any tail)
     authenticates with its password *)
  Theorem foreign_record_authenticates c h ts pid salt pw dig eol tail :
    (- (max_i64 + 1) <= ts <= max_i64)%Z -> pid <= max_u64 ->
    cfg_hasher c pid = Some h -> bytes_wf salt = true ->
    kdf h salt pw = Some dig -> bytes_wf dig = true ->
    (eol = [lf] \/ eol = [13; lf] \/ (eol = [] /\ tail = [])) ->
    auth_content kdf c (fmt_of h ++ colon :: dec_Z ts ++ colon :: dec_N pid ++ colon ::
                        url_enc salt ++ colon :: url_enc dig ++ eol ++ tail) pw
    = AuthOk (negb (default c =? pid)) ts.
  Proof.
    intros Hts Hpid Hc Hs Hk Hd Heol.
    assert (Hpair : contains lf (url_enc salt ++ colon :: url_enc dig) = false)
      by exact (enc_pair_no_lf salt dig Hs Hd).
    assert (G : forall nl content,
               forallb is_nl nl = true ->
               first_line content = fmt_of h ++ colon :: dec_Z ts ++ colon :: dec_N pid ++ colon ::
                                    url_enc salt ++ colon :: url_enc dig ++ nl ->
               auth_content kdf c content pw = AuthOk (negb (default c =? pid)) ts).
    { intros nl content Hn Hl.
      rewrite (auth_content_line c content h ts pid salt dig nl pw Hts Hpid Hc Hs Hd Hn Hl).
      rewrite Hk, beq_refl. reflexivity. }
    destruct Heol as [-> | [-> | [-> ->]]].
    - apply (G [lf]); [reflexivity|].
      cbn [app].
      replace (fmt_of h ++ colon :: dec_Z ts ++ colon :: dec_N pid ++ colon ::
               url_enc salt ++ colon :: url_enc dig ++ lf :: tail)
        with ((fmt_of h ++ colon :: dec_Z ts ++ colon :: dec_N pid ++ colon ::
               url_enc salt ++ colon :: url_enc dig) ++ lf :: tail)
        by (repeat (rewrite <- ?app_assoc; cbn [app]); reflexivity).
      rewrite (first_line_app _ _ (header_no_lf h ts pid _ Hpair)).
      repeat (rewrite <- ?app_assoc; cbn [app]). reflexivity.
    - apply (G [13; lf]); [reflexivity|].
      cbn [app].
      match goal with |- first_line ?x = _ => replace x
        with ((fmt_of h ++ colon :: dec_Z ts ++ colon :: dec_N pid ++ colon ::
               url_enc salt ++ colon :: url_enc dig ++ [13]) ++ lf :: tail)
        by (repeat (rewrite <- ?app_assoc; cbn [app]); reflexivity) end.
      rewrite first_line_app.
      + repeat (rewrite <- ?app_assoc; cbn [app]). reflexivity.
      + apply header_no_lf.
        match goal with |- contains lf ?x = false =>
          replace x with ((url_enc salt ++ colon :: url_enc dig) ++ [13])
            by (rewrite <- app_assoc; reflexivity) end.
        rewrite contains_app. apply orb_false_iff. split; [exact Hpair | reflexivity].
    - apply (G []); [reflexivity|].
      cbn [app]. rewrite !app_nil_r.
      apply first_line_nolf, header_no_lf, Hpair.
  Qed.
End WithKdf.
