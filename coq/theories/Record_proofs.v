(* Record_proofs.v — the record parser against the schema's grammar
   (soundness for every file content) and the printer/parser round trip. *)
From Whawty Require Import Bytes Bytes_proofs Base64 Base64_proofs Record.
From Coq Require Import ZifyN ZifyNat ZifyBool.
Open Scope N_scope.

(* ------------------------------------------------------------------ *)
(* The schema's first line, as a grammar independent of the parser:
     <alg> ':' <ts> ':' <pid> ':' <salt64> ':' <digest64>
   alg, ts, pid, salt64 are ':'-free; digest64 extends to the end of the
   line (including the line terminator, which base64 decoding skips). *)
Inductive record_line : bytes -> bytes -> Z -> N -> bytes -> bytes -> Prop :=
| RL alg tsb ts pidb pid s64 d64 :
    contains colon alg = false ->
    contains colon tsb = false -> parse_int64 tsb = Some ts ->
    contains colon pidb = false -> parse_uint64 pidb = Some pid ->
    contains colon s64 = false -> contains colon d64 = false ->
    record_line (alg ++ colon :: tsb ++ colon :: pidb ++ colon :: s64 ++ colon :: d64)
                alg ts pid s64 d64.

Lemma first_line_no_inner_lf content :
  forall i, index_of lf content = Some i -> first_line content = firstn (S i) content.
Admitted.

Section WithKdf.
  Variable kdf : hasher -> bytes -> bytes -> option bytes.

  (* C02, central statement: whatever the file contains, a positive verdict
     implies that the first line is a schema record of a configured
     parameter set and that the stored digest is the recomputed one. *)
  Theorem auth_content_sound (c : config) (content pw : bytes) upg ts :
    auth_content kdf c content pw = AuthOk upg ts ->
    exists alg pid s64 d64 h salt dig,
      record_line (first_line content) alg ts pid s64 d64 /\
      cfg_hasher c pid = Some h /\ fmt_of h = alg /\
      url_dec s64 = Some salt /\ url_dec d64 = Some dig /\
      kdf h salt pw = Some dig /\
      upg = negb (default c =? pid).
  Admitted.

  (* no comparison of a digest prefix: a stored digest of another length
     than the recomputed one never authenticates *)
  Theorem auth_content_full_length (c : config) (content pw : bytes) r h salt dig d' :
    parse_record content = Some r -> cfg_hasher c (r_pid r) = Some h ->
    decode_hash (r_hash r) = Some (salt, dig) -> kdf h salt pw = Some d' ->
    length dig <> length d' ->
    auth_content kdf c content pw = AuthNo.
  Admitted.

  (* fewer than three ':' in the first line: never a success *)
  Theorem auth_content_needs_four_fields (c : config) (content pw : bytes) :
    (length (splitN colon 4 (first_line content)) < 4)%nat ->
    auth_content kdf c content pw = AuthNo.
  Admitted.

  (* ---------------------------------------------------------------- *)
  (* printer / parser round trip *)

  Lemma fmt_of_plain h : contains colon (fmt_of h) = false /\ contains lf (fmt_of h) = false.
  Admitted.

  Lemma first_line_print h ts pid hs tail :
    contains lf hs = false ->
    first_line (print_record h ts pid hs ++ tail) = print_record h ts pid hs.
  Admitted.

  Lemma after_first_line_print h ts pid hs tail :
    contains lf hs = false ->
    after_first_line (print_record h ts pid hs ++ tail) = tail.
  Admitted.

  Lemma parse_record_print h ts pid hs tail :
    (- (max_i64 + 1) <= ts <= max_i64)%Z -> pid <= max_u64 ->
    contains lf hs = false ->
    parse_record (print_record h ts pid hs ++ tail) =
    Some {| r_fmt := fmt_of h; r_ts := ts; r_pid := pid; r_hash := hs ++ [lf] |}.
  Admitted.

  Lemma decode_hash_enc salt dig :
    bytes_wf salt = true -> bytes_wf dig = true ->
    decode_hash (url_enc salt ++ [colon] ++ url_enc dig ++ [lf]) = Some (salt, dig).
  Admitted.

  Lemma hash_valid_enc salt dig :
    bytes_wf salt = true -> bytes_wf dig = true -> salt <> [] -> dig <> [] ->
    hash_valid (url_enc salt ++ [colon] ++ url_enc dig ++ [lf]) = true.
  Admitted.

  Definition written (h : hasher) (ts : Z) (pid : N) (salt dig tail : bytes) : bytes :=
    print_record h ts pid (url_enc salt ++ [colon] ++ url_enc dig) ++ tail.

  (* what Authenticate decides on a file the store itself wrote *)
  Lemma auth_content_written c h ts pid salt dig tail pw :
    (- (max_i64 + 1) <= ts <= max_i64)%Z -> pid <= max_u64 ->
    cfg_hasher c pid = Some h -> bytes_wf salt = true -> bytes_wf dig = true ->
    auth_content kdf c (written h ts pid salt dig tail) pw =
    match kdf h salt pw with
    | Some d' => if beq d' dig then AuthOk (negb (default c =? pid)) ts else AuthNo
    | None => AuthNo
    end.
  Admitted.

  Lemma is_supported_written c h ts pid salt dig tail :
    (- (max_i64 + 1) <= ts <= max_i64)%Z -> pid <= max_u64 ->
    cfg_hasher c pid = Some h -> bytes_wf salt = true -> bytes_wf dig = true ->
    salt <> [] -> dig <> [] ->
    format_supported_full c (written h ts pid salt dig tail) = SuppInfo true (fmt_of h) ts pid.
  Admitted.

  Lemma after_first_line_written h ts pid salt dig tail :
    bytes_wf salt = true -> bytes_wf dig = true ->
    after_first_line (written h ts pid salt dig tail) = tail.
  Admitted.

  (* C02 "conversely": a record produced by an independent implementation of
     the schema (the grammar's own printer; any line end CRLF or LF; any tail)
     authenticates with its password *)
  Theorem foreign_record_authenticates c h ts pid salt pw dig eol tail :
    (- (max_i64 + 1) <= ts <= max_i64)%Z -> pid <= max_u64 ->
    cfg_hasher c pid = Some h -> bytes_wf salt = true ->
    kdf h salt pw = Some dig -> bytes_wf dig = true ->
    (eol = [lf] \/ eol = [13; lf] \/ (eol = [] /\ tail = [])) ->
    auth_content kdf c (fmt_of h ++ colon :: dec_Z ts ++ colon :: dec_N pid ++ colon ::
                        url_enc salt ++ colon :: url_enc dig ++ eol ++ tail) pw
    = AuthOk (negb (default c =? pid)) ts.
  Admitted.
End WithKdf.
