(* StoreSpec.v — the abstract specification of the password store: a map
   user -> credential.  Written independently of Store.v (no files, no
   parsing): this is what properties C01 / C11 / C12 mean by "the sequential
   store semantics". *)
From Whawty Require Import Bytes Names Record.
Open Scope N_scope.

Record acred := { a_pw : bytes; a_admin : bool; a_ts : Z; a_pid : N }.
Definition amap := list (bytes * acred).

(* key equivalence inherent in the schema's algorithms.  PBKDF2-HMAC-SHA256
   (inside scrypt) uses the password as an HMAC key: keys longer than the
   64-byte block are replaced by their SHA-256 digest, then zero-padded, so
   trailing NUL bytes are not told apart. *)
Fixpoint strip0_rev (r : bytes) : bytes :=
  match r with
  | 0 :: r' => strip0_rev r'
  | _ => r
  end.
Definition strip0 (p : bytes) : bytes := rev (strip0_rev (rev p)).

Section Spec.
  Variable sha256 : bytes -> bytes.
  Variable kdf_fails : hasher -> bool.     (* the library rejects these parameters *)

  Definition hmac_norm (p : bytes) : bytes :=
    strip0 (if 64 <? len p then sha256 p else p).

  Definition keyeq (h : hasher) (p q : bytes) : bool :=
    match h with
    | HArgon _ _ _ _ => beq p q
    | HScrypt _ _ _ _ => beq (hmac_norm p) (hmac_norm q)
    end.

  Definition name_fits (u : bytes) : bool := len u + 6 <=? 255.   (* <u>.admin is one path component *)

  Definition can_write (c : config) : bool :=
    match cfg_hasher c (default c) with
    | Some h => negb (kdf_fails h)
    | None => false
    end.

  Inductive sres := SOk | SErr.

  Inductive sop :=
  | SAdd (u pw : bytes) (admin : bool) (ts : Z)
  | SUpdate (u pw : bytes) (ts : Z)
  | SSetAdmin (u : bytes) (admin : bool)
  | SRemove (u : bytes)
  | SInit (u pw : bytes) (ts : Z)
  | SSetDefault (id : N).

  Definition spec_add (c : config) (a : amap) (u pw : bytes) (adm : bool) (ts : Z) : amap * sres :=
    if valid_name u && name_fits u && can_write c then
      match alookup u a with
      | Some _ => (a, SErr)
      | None => (aset u {| a_pw := pw; a_admin := adm; a_ts := ts; a_pid := default c |} a, SOk)
      end
    else (a, SErr).

  Definition spec_step (c : config) (a : amap) (o : sop) : config * amap * sres :=
    match o with
    | SAdd u pw adm ts => let (a', r) := spec_add c a u pw adm ts in (c, a', r)
    | SUpdate u pw ts =>
        if valid_name u && can_write c then
          match alookup u a with
          | Some cr => (c, aset u {| a_pw := pw; a_admin := a_admin cr; a_ts := ts; a_pid := default c |} a, SOk)
          | None => (c, a, SErr)
          end
        else (c, a, SErr)
    | SSetAdmin u adm =>
        if valid_name u then
          match alookup u a with
          | Some cr => (c, aset u {| a_pw := a_pw cr; a_admin := adm; a_ts := a_ts cr; a_pid := a_pid cr |} a, SOk)
          | None => (c, a, SErr)
          end
        else (c, a, SErr)
    | SRemove u => (c, aremove u a, SOk)
    | SInit u pw ts =>
        match a with
        | [] => let (a', r) := spec_add c a u pw true ts in (c, a', r)
        | _ => (c, a, SErr)
        end
    | SSetDefault id => ({| params := params c; default := id |}, a, SOk)
    end.

  (* the verdict the property prescribes *)
  Inductive sauth := SAuthOk (admin upgradeable : bool) (ts : Z) | SAuthNo.

  Definition spec_auth (c : config) (a : amap) (u p : bytes) : sauth :=
    match alookup u a with
    | Some cr =>
        match cfg_hasher c (a_pid cr) with
        | Some h =>
            if negb (kdf_fails h) && keyeq h (a_pw cr) p
            then SAuthOk (a_admin cr) (negb (default c =? a_pid cr)) (a_ts cr)
            else SAuthNo
        | None => SAuthNo
        end
    | None => SAuthNo
    end.

  Definition spec_exists (a : amap) (u : bytes) : option bool :=
    match alookup u a with Some cr => Some (a_admin cr) | None => None end.
End Spec.
