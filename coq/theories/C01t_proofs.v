(* C01t_proofs.v — C01 at system-call level, for every single injected fault:
   an ACKNOWLEDGED add / update is effective.  Whatever (single) I/O fault was
   injected into the system-call program, if the program reports success then
   the password just set authenticates against the resulting directory, with
   the admin flag of the record, not upgradeable, stamped with the oracle's
   time.

   The proof goes through the program directly (not through same_store and
   the big-step model), so no freshness assumption on the temp-file name and
   no assumption on the initial directory is needed:  a successful run of
   writeHashStr leaves  <line> ++ <old auxiliary data>  under the final name
   and touches no other name than .tmp. *)
From Whawty Require Import Bytes Bytes_proofs Base64 Base64_proofs Names Record Record_proofs
     Store StoreOps_proofs Store_proofs StoreTrace StoreTrace_proofs.
From Coq Require Import ZifyN ZifyNat ZifyBool.
Open Scope N_scope.

(* ------------------------------------------------------------------ *)
(* the directory after the successful tail of writeHashStr *)
Lemma tail_dir_lookup t fname line rest d3 K :
  fname <> tmp_name -> tmp_children d3 = Some K -> alookup t K = Some [] ->
  dlookup fname (tail_dir t fname line rest d3) = Some (File (line ++ rest)) /\
  (forall f, f <> fname -> f <> tmp_name ->
     dlookup f (tail_dir t fname line rest d3) = dlookup f d3).
Proof.
  intros Hn HK Ht.
  destruct rest as [|b rest]; [rewrite app_nil_r|];
    cbv beta zeta delta [tail_dir put_d ren_d]; cbv beta iota;
    rewrite HK, Ht; cbv beta iota;
    repeat (progress (rewrite ?tmp_children_dset_tmp, ?alookup_aset_eq; cbv beta iota)); cbn [app].
  all: split; [now rewrite dlookup_dset_eq|].
  all: intros f Hf Hft; now rewrite !dlookup_dset_ne by congruence.
Qed.

Section Acked.
  Variable kdf : hasher -> bytes -> bytes -> option bytes.

  (* a successful writeHashStr under any fault: what is under the final
     name afterwards, and that no other name than .tmp is touched *)
  Lemma p_write_hash_ok_lookup f c h hs fname rv o s s' :
    fname <> tmp_name ->
    p_write_hash f c h hs fname rv o s = (ROk, s') ->
    exists oldc,
      (if rv then dlookup fname (t_dir s) = None /\ oldc = []
       else dlookup fname (t_dir s) = Some (File oldc)) /\
      dlookup fname (t_dir s') =
        Some (File (print_record h (o_ts o) (default c) hs ++ after_first_line oldc)) /\
      (forall g, g <> fname -> g <> tmp_name -> dlookup g (t_dir s') = dlookup g (t_dir s)).
  Proof.
    intros Hn H. rewrite p_write_hash_eq in H. unfold wh_open in H.
    destruct (terr f KOpen s) as [e0|]; [discriminate|].
    set (line := print_record h (o_ts o) (default c) hs).
    assert (G : forall s1 old,
      (let (okdir, s2) := p_mkdir_tmp f s1 in
        if negb okdir then wfail f fname rv s2
        else match terr f KOpen s2 with
             | Some _ => wfail f fname rv (bump KOpen s2)
             | None => wh_tail f c h hs fname rv o old (wh_create (o_tmp o) (bump KOpen s2))
             end) = (ROk, s') ->
      exists oldc, old = Some oldc /\
        dlookup fname (t_dir s') = Some (File (line ++ after_first_line oldc)) /\
        (forall g, g <> fname -> g <> tmp_name -> dlookup g (t_dir s') = dlookup g (t_dir s1))).
    { intros s1 old. destruct (p_mkdir_tmp f s1) as [b s2] eqn:Em.
      destruct b; cbn [negb]; [|intros HF; destruct (wfail_not_ok _ _ _ _ _ HF)].
      destruct (terr f KOpen s2) as [e3|]; [intros HF; destruct (wfail_not_ok _ _ _ _ _ HF)|].
      intros HT. apply wh_tail_ok in HT as (oldc & -> & Hd'); [|exact Hn].
      exists oldc. split; [reflexivity|]. fold line in Hd'.
      apply p_mkdir_tmp_spec in Em as (Hd2 & _ & _).
      unfold wh_create in Hd'. cbn [t_dir bump emit setdir] in Hd'.
      set (kids := match tmp_children (t_dir s2) with Some k => k | None => [] end) in *.
      destruct (tail_dir_lookup (o_tmp o) fname line (after_first_line oldc)
                  (dset tmp_name (Dir (aset (o_tmp o) [] kids)) (t_dir s2))
                  (aset (o_tmp o) [] kids) Hn
                  (tmp_children_dset_tmp _ _) (alookup_aset_eq _ _ _)) as [L1 L2].
      rewrite Hd'. split; [exact L1|].
      intros g Hg Hgt. rewrite (L2 g Hg Hgt). rewrite dlookup_dset_ne by congruence.
      destruct Hd2 as [[E _]|(_ & E & _)]; rewrite E; [reflexivity|].
      apply dlookup_dset_ne. congruence. }
    destruct (dlookup fname (t_dir s)) as [[x|k]|] eqn:El; destruct rv; try discriminate.
    - (* existing regular file, update *)
      destruct (G _ _ H) as (oldc & Ho & L1 & L2). injection Ho as <-.
      exists x. split; [reflexivity|]. split; [exact L1|]. exact L2.
    - (* a directory under that name: the read fails *)
      destruct (G _ _ H) as (oldc & Ho & _). discriminate.
    - (* reservation *)
      destruct (G _ _ H) as (oldc & Ho & L1 & L2). injection Ho as <-.
      exists []. split; [split; reflexivity|]. split; [exact L1|].
      intros g Hg Hgt. rewrite (L2 g Hg Hgt). cbn [t_dir bump emit setdir].
      apply dlookup_dset_ne. congruence.
  Qed.

  (* Exists after the write *)
  Lemma user_exists_written d d' u adm n :
    (user_exists d u = ExNo \/ user_exists d u = ExYes adm) ->
    dlookup (u ++ ext_of adm) d' = Some n ->
    dlookup (u ++ ext_of (negb adm)) d' = dlookup (u ++ ext_of (negb adm)) d ->
    user_exists d' u = ExYes adm.
  Proof.
    unfold user_exists, stat_file. intros Hex Hl Ho.
    destruct adm; cbn [ext_of negb] in Hl, Ho.
    - rewrite Hl.
      destruct (name_max <? len (u ++ ext_admin)); [destruct Hex; discriminate|reflexivity].
    - rewrite Hl, Ho.
      destruct (name_max <? len (u ++ ext_admin)); [destruct Hex; discriminate|].
      destruct (dlookup (u ++ ext_admin) d); [destruct Hex; discriminate|].
      destruct (name_max <? len (u ++ ext_user)); [destruct Hex; discriminate|reflexivity].
  Qed.

  (* Authenticate on a directory whose file for [u] is a record the store wrote *)
  Lemma authenticate_written c d' u pw adm h dig tail o :
    valid_name u = true ->
    user_exists d' u = ExYes adm ->
    dlookup (u ++ ext_of adm) d' =
      Some (File (print_record h (o_ts o) (default c)
                    (url_enc (o_salt o) ++ [colon] ++ url_enc dig) ++ tail)) ->
    (- (max_i64 + 1) <= o_ts o <= max_i64)%Z -> default c <= max_u64 ->
    bytes_wf (o_salt o) = true -> bytes_wf dig = true ->
    cfg_hasher c (default c) = Some h -> kdf h (o_salt o) pw = Some dig ->
    authenticate kdf c d' u pw = OAuth true adm false (o_ts o).
  Proof.
    intros Hv Hex Hl Hts Hpid Hws Hwd Hh K.
    unfold authenticate. rewrite Hv, Hex. cbn [negb]. unfold read_file. rewrite Hl.
    change (print_record h (o_ts o) (default c) (url_enc (o_salt o) ++ [colon] ++ url_enc dig) ++ tail)
      with (written h (o_ts o) (default c) (o_salt o) dig tail).
    rewrite (auth_content_written kdf c h (o_ts o) (default c) (o_salt o) dig tail pw
               Hts Hpid Hh Hws Hwd).
    rewrite K, beq_refl, N.eqb_refl. reflexivity.
  Qed.

  (* ---------------------------------------------------------------- *)
  (* The side conditions.  They constrain only what is printed into the
     record (so that the parser reads back what the printer wrote):
       - the clock value fits an int64,
       - the identifier of the default parameter set fits a uint64,
       - the salt and the digest the KDF returns are byte strings.
     Nothing is assumed about the fault, the initial directory (duplicates,
     .tmp a file / a directory / absent, residue in .tmp), the temp-file name
     the OS picks, or the rest of the configuration. *)
  Definition ts_ok (o : oracle) : Prop := (- (max_i64 + 1) <= o_ts o <= max_i64)%Z.
  Definition salt_ok (o : oracle) : Prop := bytes_wf (o_salt o) = true.
  Definition default_ok (c : config) : Prop := default c <= max_u64.
  Definition digest_ok (c : config) (o : oracle) (pw : bytes) : Prop :=
    forall h dig, cfg_hasher c (default c) = Some h -> kdf h (o_salt o) pw = Some dig ->
                  bytes_wf dig = true.

  (* precise form: the verdict carries the record's admin flag and the
     oracle's time stamp *)
  Theorem acked_add_authenticates_ts ft c d u pw adm o s :
    ts_ok o -> salt_ok o -> default_ok c -> digest_ok c o pw ->
    p_add kdf ft c d u pw adm o = (ROk, s) ->
    authenticate kdf c (t_dir s) u pw = OAuth true adm false (o_ts o).
  Proof.
    intros Hts Hws Hpid Hdig. unfold p_add.
    destruct (valid_name u) eqn:Hv; cbn [negb]; [|discriminate].
    destruct (p_exists ft u (t0 d)) as [ex s1] eqn:Ex.
    apply p_exists_spec in Ex as (Hd & _ & Hex & _). cbn [t_dir t0] in Hd, Hex.
    destruct ex; try discriminate.
    destruct Hex as [Hex|Hex]; [|discriminate].
    destruct (cfg_hasher c (default c)) as [h|] eqn:Hh; [|discriminate].
    unfold hash_generate.
    destruct (kdf h (o_salt o) pw) as [dig|] eqn:K; [|discriminate].
    intros H.
    apply p_write_hash_ok_lookup in H as (oldc & [_ ->] & L1 & L2);
      [|now apply valid_not_tmp].
    rewrite Hd in L2.
    apply (authenticate_written c (t_dir s) u pw adm h dig (after_first_line []) o); auto.
    - eapply (user_exists_written d); [left; now symmetry|exact L1|].
      apply L2; [apply not_eq_sym, ext_neq|now apply valid_not_tmp].
    - exact (Hdig h dig Hh K).
  Qed.

  Theorem acked_update_authenticates_ts ft c d u pw o s :
    ts_ok o -> salt_ok o -> default_ok c -> digest_ok c o pw ->
    p_update kdf ft c d u pw o = (ROk, s) ->
    exists adm, user_exists d u = ExYes adm /\
      authenticate kdf c (t_dir s) u pw = OAuth true adm false (o_ts o).
  Proof.
    intros Hts Hws Hpid Hdig. unfold p_update.
    destruct (valid_name u) eqn:Hv; cbn [negb]; [|discriminate].
    destruct (p_exists ft u (t0 d)) as [ex s1] eqn:Ex.
    apply p_exists_spec in Ex as (Hd & _ & Hex & _). cbn [t_dir t0] in Hd, Hex.
    destruct ex as [admin| |]; try discriminate.
    destruct Hex as [Hex|Hex]; [|discriminate].
    repeat (rewrite tick_eq; cbv beta iota). cbn [t_dir bump].
    destruct (terr ft KOpen s1) as [e2|]; [discriminate|].
    destruct (terr ft KRead (bump KOpen s1)) as [e3|]; [discriminate|].
    destruct (read_file (t_dir s1) (u ++ ext_of admin)) as [content|]; [|discriminate].
    destruct (is_supported c content); [|discriminate].
    destruct (cfg_hasher c (default c)) as [h|] eqn:Hh; [|discriminate].
    unfold hash_generate.
    destruct (kdf h (o_salt o) pw) as [dig|] eqn:K; [|discriminate].
    intros H.
    apply p_write_hash_ok_lookup in H as (oldc & _ & L1 & L2);
      [|now apply valid_not_tmp].
    cbn [t_dir bump] in L2. rewrite Hd in L2.
    exists admin. split; [now symmetry|].
    apply (authenticate_written c (t_dir s) u pw admin h dig (after_first_line oldc) o); auto.
    - eapply (user_exists_written d); [right; now symmetry|exact L1|].
      apply L2; [apply not_eq_sym, ext_neq|now apply valid_not_tmp].
    - exact (Hdig h dig Hh K).
  Qed.

  (* ---- the target statements ---- *)
  Theorem acked_add_authenticates ft c d u pw adm o s :
    ts_ok o -> salt_ok o -> default_ok c -> digest_ok c o pw ->
    p_add kdf ft c d u pw adm o = (ROk, s) ->
    exists ts, authenticate kdf c (t_dir s) u pw = OAuth true adm false ts.
  Proof.
    intros Hts Hws Hpid Hdig H. exists (o_ts o).
    now apply (acked_add_authenticates_ts ft c d u pw adm o s).
  Qed.

  Theorem acked_update_authenticates ft c d u pw o s :
    ts_ok o -> salt_ok o -> default_ok c -> digest_ok c o pw ->
    p_update kdf ft c d u pw o = (ROk, s) ->
    exists adm ts, authenticate kdf c (t_dir s) u pw = OAuth true adm false ts.
  Proof.
    intros Hts Hws Hpid Hdig H.
    destruct (acked_update_authenticates_ts ft c d u pw o s Hts Hws Hpid Hdig H) as (adm & _ & Ha).
    exists adm, (o_ts o). exact Ha.
  Qed.

  (* ---- the same under the project's usual well-formedness predicates ---- *)
  Lemma side_conditions_from_wf c o pw :
    cfg_wf c -> oracle_ok o ->
    (forall h s p dg, kdf h s p = Some dg -> bytes_wf dg = true) ->
    ts_ok o /\ salt_ok o /\ digest_ok c o pw /\
    (forall h, cfg_hasher c (default c) = Some h -> default_ok c).
  Proof.
    intros Hc (Ots & Ows & _) Hk. split; [exact Ots|]. split; [exact Ows|]. split.
    - intros h dig _ K. exact (Hk _ _ _ _ K).
    - intros h Hh. unfold default_ok. unfold cfg_hasher in Hh.
      assert (In (default c, h) (params c)) as Hin.
      { revert Hh. generalize (params c). intros ps. induction ps as [|[i x] ps IH]; cbn [plookup].
        - discriminate.
        - destruct (N.eqb_spec i (default c)) as [->|Hne].
          + intros E. injection E as ->. now left.
          + intros E. right. now apply IH. }
      exact (Hc _ _ Hin).
  Qed.

  Theorem acked_add_authenticates_wf ft c d u pw adm o s :
    cfg_wf c -> oracle_ok o ->
    (forall h s p dg, kdf h s p = Some dg -> bytes_wf dg = true) ->
    p_add kdf ft c d u pw adm o = (ROk, s) ->
    exists ts, authenticate kdf c (t_dir s) u pw = OAuth true adm false ts.
  Proof.
    intros Hc Ho Hk H.
    destruct (side_conditions_from_wf c o pw Hc Ho Hk) as (A & B & C & D).
    apply (acked_add_authenticates ft c d u pw adm o s A B); [|exact C|exact H].
    (* the default set exists, or the add would have failed *)
    revert H. unfold p_add.
    destruct (negb (valid_name u)); [discriminate|].
    destruct (p_exists ft u (t0 d)) as [ex s1]. destruct ex; try discriminate.
    destruct (cfg_hasher c (default c)) as [h|] eqn:Hh; [|discriminate].
    intros _. exact (D h eq_refl).
  Qed.

  Theorem acked_update_authenticates_wf ft c d u pw o s :
    cfg_wf c -> oracle_ok o ->
    (forall h s p dg, kdf h s p = Some dg -> bytes_wf dg = true) ->
    p_update kdf ft c d u pw o = (ROk, s) ->
    exists adm ts, authenticate kdf c (t_dir s) u pw = OAuth true adm false ts.
  Proof.
    intros Hc Ho Hk H.
    destruct (side_conditions_from_wf c o pw Hc Ho Hk) as (A & B & C & D).
    apply (acked_update_authenticates ft c d u pw o s A B); [|exact C|exact H].
    revert H. unfold p_update.
    destruct (negb (valid_name u)); [discriminate|].
    destruct (p_exists ft u (t0 d)) as [ex s1]. destruct ex as [admin| |]; try discriminate.
    repeat (rewrite tick_eq; cbv beta iota).
    destruct (terr ft KOpen s1); [discriminate|].
    destruct (terr ft KRead (bump KOpen s1)); [discriminate|].
    destruct (read_file _ _); [|discriminate].
    destruct (is_supported c _); [|discriminate].
    destruct (cfg_hasher c (default c)) as [h|] eqn:Hh; [|discriminate].
    intros _. exact (D h eq_refl).
  Qed.
End Acked.

(* ------------------------------------------------------------------ *)
(* Non-vacuity: concrete runs in which every hypothesis holds, the program
   acknowledges, and the conclusion computes. *)
Module Examples.
  Definition kdf0 : hasher -> bytes -> bytes -> option bytes := fun _ s p => Some (s ++ p).
  Definition c0 : config := {| params := [(1, HArgon 1 64 1 32)]; default := 1 |}.
  Definition o0 : oracle :=
    {| o_ts := 1700000000%Z; o_salt := str "salt"; o_tmp := str "x1"; o_order := [] |}.
  Definition alice : bytes := str "alice".
  Definition secret : bytes := str "secret".

  Lemma side_conditions_hold : ts_ok o0 /\ salt_ok o0 /\ default_ok c0 /\ digest_ok kdf0 c0 o0 secret.
  Proof.
    split; [unfold ts_ok; vm_compute; split; discriminate|].
    split; [reflexivity|]. split; [unfold default_ok; vm_compute; discriminate|].
    intros h dig _ K. unfold kdf0 in K. injection K as <-. reflexivity.
  Qed.

  (* the faults that hit a call of this run and are tolerated by it *)
  Definition f_stat_tmp : fault := {| f_kind := KStat; f_occ := 2; f_errno := EIO |}.     (* Stat(.tmp) in MkdirAll *)
  Definition f_lstat : fault := {| f_kind := KStat; f_occ := 4; f_errno := EACCES |}.     (* Lstat(final) before the rename *)
  Definition f_copy : fault := {| f_kind := KCopy; f_occ := 0; f_errno := EIO |}.         (* copy_file_range -> fallback *)
  Definition f_unlink : fault := {| f_kind := KUnlink; f_occ := 0; f_errno := EROFS |}.   (* deferred os.Remove(tmp) *)

  (* add into the empty directory: without fault and under each of them *)
  Example add_acked_and_effective :
    Forall (fun ft =>
      let r := p_add kdf0 ft c0 [] alice secret true o0 in
      fst r = ROk /\
      authenticate kdf0 c0 (t_dir (snd r)) alice secret = OAuth true true false 1700000000%Z)
      [None; Some f_stat_tmp; Some f_lstat; Some f_copy; Some f_unlink].
  Proof. repeat (apply Forall_cons; [split; vm_compute; reflexivity|]). apply Forall_nil. Qed.

  (* the theorem applied to one of them (hypotheses satisfiable) *)
  Example add_by_theorem :
    exists s ts, p_add kdf0 (Some f_stat_tmp) c0 [] alice secret true o0 = (ROk, s) /\
                 authenticate kdf0 c0 (t_dir s) alice secret = OAuth true true false ts.
  Proof.
    destruct (p_add kdf0 (Some f_stat_tmp) c0 [] alice secret true o0) as [r s] eqn:E.
    assert (r = ROk) as -> by (apply (f_equal fst) in E; vm_compute in E; congruence).
    destruct side_conditions_hold as (A & B & C & D).
    destruct (acked_add_authenticates kdf0 _ _ _ _ _ _ _ _ A B C D E) as [ts H].
    exists s, ts. auto.
  Qed.

  (* update of an existing non-admin user whose file carries auxiliary data,
     with residue in .tmp under the very name CreateTemp will pick (no
     freshness is assumed) and a duplicate directory entry *)
  Definition d1 : dirst :=
    [ (str "bob.admin", File (str "x"));
      (alice ++ ext_user, File (written (HArgon 1 64 1 32) 5%Z 1 (str "s0") (str "s0old") (str "aux-data" ++ [lf])));
      (tmp_name, Dir [(str "x1", str "residue")]);
      (alice ++ ext_user, File (str "shadowed duplicate")) ].

  Example update_acked_and_effective :
    Forall (fun ft =>
      let r := p_update kdf0 ft c0 d1 alice secret o0 in
      fst r = ROk /\
      authenticate kdf0 c0 (t_dir (snd r)) alice secret = OAuth true false false 1700000000%Z /\
      authenticate kdf0 c0 (t_dir (snd r)) alice (str "old") = OAuth false false false 0%Z)
      [None; Some f_copy; Some f_unlink;
       Some {| f_kind := KStat; f_occ := 3; f_errno := EIO |}].      (* Lstat(final) *)
  Proof. repeat (apply Forall_cons; [(split; [|split]); vm_compute; reflexivity|]). apply Forall_nil. Qed.

  Example update_by_theorem :
    exists s adm ts, p_update kdf0 (Some f_copy) c0 d1 alice secret o0 = (ROk, s) /\
                     authenticate kdf0 c0 (t_dir s) alice secret = OAuth true adm false ts.
  Proof.
    destruct (p_update kdf0 (Some f_copy) c0 d1 alice secret o0) as [r s] eqn:E.
    assert (r = ROk) as -> by (apply (f_equal fst) in E; vm_compute in E; congruence).
    destruct side_conditions_hold as (A & B & C & D).
    destruct (acked_update_authenticates kdf0 _ _ _ _ _ _ _ A B C D E) as (adm & ts & H).
    exists s, adm, ts. auto.
  Qed.

  (* every fault (kind, occurrence < 8, errno): acknowledged => effective *)
  Definition kinds := [KStat; KOpen; KMkdir; KWrite; KRead; KCopy; KFsync; KRename; KUnlink].
  Definition errnos := [ENOSPC; EIO; EACCES; EMFILE; EXDEV; EDQUOT; EROFS].
  Definition all_faults : list fault :=
    flat_map (fun k => flat_map (fun n => map (fun e => {| f_kind := k; f_occ := n; f_errno := e |}) errnos)
                                (seq 0 8)) kinds.
  Definition acked_effective (r : res * tstate) : bool :=
    match r with
    | (ROk, s) => match authenticate kdf0 c0 (t_dir s) alice secret with
                  | OAuth true _ false _ => true | _ => false end
    | (RErr, _) => true
    end.
  Definition acked (r : res * tstate) : bool := match fst r with ROk => true | RErr => false end.

  Example sweep :
    forallb (fun ft => acked_effective (p_add kdf0 (Some ft) c0 [] alice secret true o0)) all_faults = true /\
    forallb (fun ft => acked_effective (p_update kdf0 (Some ft) c0 d1 alice secret o0)) all_faults = true /\
    (* both outcomes occur: the sweep is not vacuous on either side *)
    existsb (fun ft => acked (p_add kdf0 (Some ft) c0 [] alice secret true o0)) all_faults = true /\
    existsb (fun ft => negb (acked (p_add kdf0 (Some ft) c0 [] alice secret true o0))) all_faults = true /\
    existsb (fun ft => acked (p_update kdf0 (Some ft) c0 d1 alice secret o0)) all_faults = true /\
    existsb (fun ft => negb (acked (p_update kdf0 (Some ft) c0 d1 alice secret o0))) all_faults = true.
  Proof. repeat split; vm_compute; reflexivity. Qed.
End Examples.

(* ------------------------------------------------------------------ *)
(* Each side condition is necessary: dropping any one of them makes the
   statement false of the model, already without a fault.  (In each run the
   three other conditions hold.) *)
Module Necessity.
  Import Examples.
  Definition run_add kdf c o : res * obs :=
    let r := p_add kdf None c [] alice secret true o in
    (fst r, authenticate kdf c (t_dir (snd r)) alice secret).
  Definition denied : obs := OAuth false false false 0%Z.

  (* ts_ok: the clock value 2^63 is printed but parse_int64 refuses it *)
  Example without_ts_ok :
    run_add kdf0 c0 {| o_ts := 9223372036854775808%Z; o_salt := str "salt"; o_tmp := str "x1"; o_order := [] |}
    = (ROk, denied).
  Proof. vm_compute. reflexivity. Qed.

  (* default_ok: the parameter-set identifier 2^64 is printed but parse_uint64 refuses it *)
  Example without_default_ok :
    run_add kdf0 {| params := [(18446744073709551616, HArgon 1 64 1 32)]; default := 18446744073709551616 |} o0
    = (ROk, denied).
  Proof. vm_compute. reflexivity. Qed.

  (* digest_ok: a "digest" with an element that is no byte does not survive base64 *)
  Example without_digest_ok : run_add (fun _ _ _ => Some [256]) c0 o0 = (ROk, denied).
  Proof. vm_compute. reflexivity. Qed.

  (* salt_ok: likewise for the salt (with a KDF that tells the two salts apart) *)
  Example without_salt_ok :
    run_add (fun _ s p => if bytes_wf s then Some p else Some (1 :: p)) c0
            {| o_ts := 1%Z; o_salt := [256]; o_tmp := str "x1"; o_order := [] |}
    = (ROk, denied).
  Proof. vm_compute. reflexivity. Qed.
End Necessity.

Print Assumptions acked_add_authenticates.
Print Assumptions acked_update_authenticates.
Print Assumptions acked_add_authenticates_ts.
Print Assumptions acked_update_authenticates_ts.
Print Assumptions acked_add_authenticates_wf.
Print Assumptions acked_update_authenticates_wf.
