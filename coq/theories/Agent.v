(* Agent.v — the request dispatcher of cmd/whawty-auth/store.go as a labelled
   transition system.

   One dispatcher goroutine owns the store; clients (frontend goroutines)
   enqueue a request on the bounded channel of its kind and wait for the
   reply on a private, unbuffered channel.  Go's `select` is an arbitrary
   choice among the ready arms, so every theorem holds for every scheduler.

   Other goroutines are represented by what they do to the dispatcher's
   channels: the hooks goroutine and the remote upgrader only RECEIVE from
   their channel and never wait for the dispatcher (facts extracted from the
   source: Extracted.consumers_touch_dispatcher_chans = 0), so they appear as
   drain steps that are always possible when their channel is non-empty.

   The structure that decides the concurrency properties is a parameter
   [agent_cfg], instantiated in Properties/*.v from Extracted.v:
   capacities, upgrade mode, whether the upgrade request is enqueued with a
   blocking send, whether a local upgrade re-authenticates first. *)
From Whawty Require Import Bytes Names Record Store.
Open Scope N_scope.

Inductive umode := UOff | ULocal | URemote.

Inductive qid := QInit | QCheck | QAdd | QRemove | QUpdate | QSetAdmin | QList | QListFull | QAuth.

Definition qid_eqb (a b : qid) : bool :=
  match a, b with
  | QInit, QInit | QCheck, QCheck | QAdd, QAdd | QRemove, QRemove | QUpdate, QUpdate
  | QSetAdmin, QSetAdmin | QList, QList | QListFull, QListFull | QAuth, QAuth => true
  | _, _ => false
  end.

Record agent_cfg := {
  cap : qid -> nat;                  (* capacities of the request channels *)
  cap_notify : nat;                  (* hooks.Notify *)
  cap_remote : nat;                  (* remote upgrade channel *)
  mode : umode;
  upgrade_send_blocking : bool;      (* `s.upgradeChan <- req` outside a select-with-default *)
  local_upgrade_reauth : bool        (* the local upgrade arm authenticates (user, password) again first *)
}.

Inductive req :=
| RInit (u pw : bytes) | RCheck | RAdd (u pw : bytes) (adm : bool) | RRemove (u : bytes)
| RUpdate (u pw : bytes) | RSetAdmin (u : bytes) (adm : bool) | RList | RListFull | RAuth (u pw : bytes).

Definition qof (r : req) : qid :=
  match r with
  | RInit _ _ => QInit | RCheck => QCheck | RAdd _ _ _ => QAdd | RRemove _ => QRemove
  | RUpdate _ _ => QUpdate | RSetAdmin _ _ => QSetAdmin | RList => QList | RListFull => QListFull
  | RAuth _ _ => QAuth
  end.

Definition cid := nat.

(* a queued item: the client waiting for the answer (None = the internal
   upgrade request, whose response channel is nil) and the request *)
Definition qitem := (option cid * req)%type.

Inductive cstate :=
| CIdle
| CWant (r : req)          (* blocked in / about to perform `s.xChan <- req` *)
| CWait (r : req)          (* enqueued, receiving on its reply channel *)
| CDone (r : req) (res : obs).

Inductive dstate :=
| DIdle                                             (* at the select *)
| DUpgradeSend (c : option cid) (res : obs) (u pw : bytes)   (* in `s.upgradeChan <- ...` (blocking variant) *)
| DNotify (c : option cid) (r : req) (res : obs).   (* in `s.hooks.Notify <- true` *)

Record astate := {
  a_cfg : config; a_dir : dirst;            (* the store the dispatcher owns *)
  a_q : qid -> list qitem;
  a_notify : nat; a_remote : nat;           (* occupancy of the two outgoing channels *)
  a_disp : dstate;
  a_cl : cid -> cstate;
  a_n : nat;                                (* requests handled so far (indexes the oracle stream) *)
  a_log : list (option cid * req * obs)     (* handled requests in handling order, newest first *)
}.

Definition res_beq (a b : res) : bool := match a, b with ROk, ROk | RErr, RErr => true | _, _ => false end.
Definition exists_beq (a b : exists_res) : bool :=
  match a, b with
  | ExYes x, ExYes y => Bool.eqb x y
  | ExNo, ExNo | ExErr, ExErr => true
  | _, _ => false
  end.
(* equality of results as far as a client can tell (lists compared structurally) *)
Definition obs_beq (a b : obs) : bool :=
  match a, b with
  | ORes x, ORes y => res_beq x y
  | OExists x, OExists y => exists_beq x y
  | OAuth o1 a1 u1 t1, OAuth o2 a2 u2 t2 => Bool.eqb o1 o2 && Bool.eqb a1 a2 && Bool.eqb u1 u2 && (t1 =? t2)%Z
  | OList None, OList None | OListFull None, OListFull None => true
  | OList (Some x), OList (Some y) =>
      (length x =? length y)%nat &&
      forallb (fun p => beq (fst (fst p)) (fst (snd p)) &&
                        Bool.eqb (ui_admin (snd (fst p))) (ui_admin (snd (snd p))) &&
                        (ui_ts (snd (fst p)) =? ui_ts (snd (snd p)))%Z) (combine x y)
  | OListFull (Some x), OListFull (Some y) =>
      (length x =? length y)%nat &&
      forallb (fun p => beq (fst (fst p)) (fst (snd p)) &&
                        Bool.eqb (uf_admin (snd (fst p))) (uf_admin (snd (snd p))) &&
                        (uf_ts (snd (fst p)) =? uf_ts (snd (snd p)))%Z &&
                        Bool.eqb (uf_valid (snd (fst p))) (uf_valid (snd (snd p))) &&
                        Bool.eqb (uf_supported (snd (fst p))) (uf_supported (snd (snd p))) &&
                        beq (uf_fmt (snd (fst p))) (uf_fmt (snd (snd p))) &&
                        (uf_pid (snd (fst p)) =? uf_pid (snd (snd p)))) (combine x y)
  | _, _ => false
  end.

Section Agent.
  Variable kdf : hasher -> bytes -> bytes -> option bytes.
  Variable policy_ok : bytes -> bytes -> bool.     (* password, user name *)
  Variable orc : nat -> oracle.                    (* clock / salt of the n-th handled request *)
  Variable ac : agent_cfg.

  Definition op_of (r : req) : op :=
    match r with
    | RInit u pw => OpInit u pw | RCheck => OpCheck | RAdd u pw adm => OpAdd u pw adm
    | RRemove u => OpRemove u | RUpdate u pw => OpUpdate u pw | RSetAdmin u adm => OpSetAdmin u adm
    | RList => OpList | RListFull => OpListFull | RAuth u pw => OpAuth u pw
    end.

  Definition gated (r : req) : option (bytes * bytes) :=     (* (password, user) checked by the policy *)
    match r with
    | RInit u pw | RAdd u pw _ | RUpdate u pw => Some (pw, u)
    | _ => None
    end.

  Definition is_ok (o : obs) : bool := match o with ORes ROk => true | _ => false end.

  (* the sequential meaning of one client request:
     (configuration, directory, result, notify hooks?, upgrade to queue?) *)
  Definition handle_req (c : config) (d : dirst) (n : nat) (r : req)
    : config * dirst * obs * bool * option (bytes * bytes) :=
    match gated r with
    | Some (pw, u) =>
        if negb (policy_ok pw u) then (c, d, ORes RErr, false, None)
        else let '(c', d', ob) := step kdf c d (op_of r) (orc n) in
             (c', d', ob, (match r with RInit _ _ => false | _ => is_ok ob end), None)
    | None =>
        let '(c', d', ob) := step kdf c d (op_of r) (orc n) in
        match r with
        | RRemove _ => (c', d', ob, true, None)
        | RSetAdmin _ _ => (c', d', ob, is_ok ob, None)
        | RAuth u pw =>
            (c', d', ob, false,
             match ob, mode ac with
             | OAuth true _ true _, ULocal | OAuth true _ true _, URemote => Some (u, pw)
             | _, _ => None
             end)
        | _ => (c', d', ob, false, None)
        end
    end.

  (* the internal upgrade request taken from the update queue *)
  Definition handle_upgrade (c : config) (d : dirst) (n : nat) (u pw : bytes)
    : config * dirst * obs * bool :=
    let go (_ : unit) :=
      if negb (policy_ok pw u) then (c, d, ORes RErr, false)
      else let '(c', d', ob) := step kdf c d (OpUpdate u pw) (orc n) in (c', d', ob, is_ok ob) in
    if local_upgrade_reauth ac then
      match authenticate kdf c d u pw with
      | OAuth true _ true _ => go tt
      | _ => (c, d, ORes RErr, false)
      end
    else go tt.

  Definition set_q (q : qid -> list qitem) (k : qid) (v : list qitem) : qid -> list qitem :=
    fun k' => if qid_eqb k k' then v else q k'.
  Definition set_cl (cl : cid -> cstate) (c : cid) (v : cstate) : cid -> cstate :=
    fun c' => if Nat.eqb c c' then v else cl c'.

  Definition reply (cl : cid -> cstate) (oc : option cid) (r : req) (res : obs) : cid -> cstate :=
    match oc with Some c => set_cl cl c (CDone r res) | None => cl end.

  Inductive label :=
  | LCall (c : cid) (r : req)
  | LEnq (c : cid)
  | LHandle (q : qid) (oc : option cid)
  | LUpgradeSend
  | LNotify
  | LHookDrain
  | LRemoteDrain
  | LRet (c : cid) (r : req) (res : obs).

  (* after the handler: queue an upgrade, notify, reply *)
  Definition after_handle (s : astate) (q' : qid -> list qitem) (c' : config) (d' : dirst)
             (oc : option cid) (r : req) (res : obs) (notify : bool) (upg : option (bytes * bytes))
    : astate :=
    let log' := (oc, r, res) :: a_log s in
    let finish (q2 : qid -> list qitem) (rem : nat) : astate :=
      if notify
      then {| a_cfg := c'; a_dir := d'; a_q := q2; a_notify := a_notify s; a_remote := rem;
              a_disp := DNotify oc r res; a_cl := a_cl s; a_n := S (a_n s); a_log := log' |}
      else {| a_cfg := c'; a_dir := d'; a_q := q2; a_notify := a_notify s; a_remote := rem;
              a_disp := DIdle; a_cl := reply (a_cl s) oc r res; a_n := S (a_n s); a_log := log' |} in
    match upg with
    | None => finish q' (a_remote s)
    | Some (u, pw) =>
        if upgrade_send_blocking ac then
          (* the dispatcher goes on to a blocking channel send *)
          {| a_cfg := c'; a_dir := d'; a_q := q'; a_notify := a_notify s; a_remote := a_remote s;
             a_disp := DUpgradeSend oc res u pw; a_cl := a_cl s; a_n := S (a_n s); a_log := log' |}
        else
          match mode ac with
          | ULocal =>
              if Nat.ltb (length (q' QUpdate)) (cap ac QUpdate)
              then finish (set_q q' QUpdate (q' QUpdate ++ [(None, RUpdate u pw)])) (a_remote s)
              else finish q' (a_remote s)                       (* queue full: the upgrade is dropped *)
          | URemote =>
              if Nat.ltb (a_remote s) (cap_remote ac) then finish q' (S (a_remote s)) else finish q' (a_remote s)
          | UOff => finish q' (a_remote s)
          end
    end.

  Inductive astep : astate -> label -> astate -> Prop :=
  | StCall s c r :
      a_cl s c = CIdle ->
      astep s (LCall c r)
            {| a_cfg := a_cfg s; a_dir := a_dir s; a_q := a_q s; a_notify := a_notify s; a_remote := a_remote s;
               a_disp := a_disp s; a_cl := set_cl (a_cl s) c (CWant r); a_n := a_n s; a_log := a_log s |}
  | StEnq s c r :
      a_cl s c = CWant r -> (length (a_q s (qof r)) < cap ac (qof r))%nat ->
      astep s (LEnq c)
            {| a_cfg := a_cfg s; a_dir := a_dir s;
               a_q := set_q (a_q s) (qof r) (a_q s (qof r) ++ [(Some c, r)]);
               a_notify := a_notify s; a_remote := a_remote s;
               a_disp := a_disp s; a_cl := set_cl (a_cl s) c (CWait r); a_n := a_n s; a_log := a_log s |}
  | StHandleClient s q c r rest c' d' res notify upg :
      a_disp s = DIdle -> a_q s q = (Some c, r) :: rest ->
      handle_req (a_cfg s) (a_dir s) (a_n s) r = (c', d', res, notify, upg) ->
      astep s (LHandle q (Some c)) (after_handle s (set_q (a_q s) q rest) c' d' (Some c) r res notify upg)
  | StHandleUpgrade s q u pw rest c' d' res notify :
      a_disp s = DIdle -> a_q s q = (None, RUpdate u pw) :: rest ->
      handle_upgrade (a_cfg s) (a_dir s) (a_n s) u pw = (c', d', res, notify) ->
      astep s (LHandle q None) (after_handle s (set_q (a_q s) q rest) c' d' None (RUpdate u pw) res notify None)
  | StUpgradeSendLocal s oc res u pw :
      a_disp s = DUpgradeSend oc res u pw -> mode ac = ULocal ->
      (length (a_q s QUpdate) < cap ac QUpdate)%nat ->
      astep s LUpgradeSend
            {| a_cfg := a_cfg s; a_dir := a_dir s;
               a_q := set_q (a_q s) QUpdate (a_q s QUpdate ++ [(None, RUpdate u pw)]);
               a_notify := a_notify s; a_remote := a_remote s; a_disp := DIdle;
               a_cl := reply (a_cl s) oc (RAuth u pw) res; a_n := a_n s; a_log := a_log s |}
  | StUpgradeSendRemote s oc res u pw :
      a_disp s = DUpgradeSend oc res u pw -> mode ac = URemote ->
      (a_remote s < cap_remote ac)%nat ->
      astep s LUpgradeSend
            {| a_cfg := a_cfg s; a_dir := a_dir s; a_q := a_q s;
               a_notify := a_notify s; a_remote := S (a_remote s); a_disp := DIdle;
               a_cl := reply (a_cl s) oc (RAuth u pw) res; a_n := a_n s; a_log := a_log s |}
  | StNotify s oc res r :
      a_disp s = DNotify oc r res -> (a_notify s < cap_notify ac)%nat ->
      astep s LNotify
            {| a_cfg := a_cfg s; a_dir := a_dir s; a_q := a_q s;
               a_notify := S (a_notify s); a_remote := a_remote s; a_disp := DIdle;
               a_cl := reply (a_cl s) oc r res; a_n := a_n s; a_log := a_log s |}
  | StHookDrain s :
      (0 < a_notify s)%nat ->
      astep s LHookDrain
            {| a_cfg := a_cfg s; a_dir := a_dir s; a_q := a_q s;
               a_notify := pred (a_notify s); a_remote := a_remote s; a_disp := a_disp s;
               a_cl := a_cl s; a_n := a_n s; a_log := a_log s |}
  | StRemoteDrain s :
      (0 < a_remote s)%nat ->
      astep s LRemoteDrain
            {| a_cfg := a_cfg s; a_dir := a_dir s; a_q := a_q s;
               a_notify := a_notify s; a_remote := pred (a_remote s); a_disp := a_disp s;
               a_cl := a_cl s; a_n := a_n s; a_log := a_log s |}
  | StRet s c r res :
      a_cl s c = CDone r res ->
      astep s (LRet c r res)
            {| a_cfg := a_cfg s; a_dir := a_dir s; a_q := a_q s; a_notify := a_notify s; a_remote := a_remote s;
               a_disp := a_disp s; a_cl := set_cl (a_cl s) c CIdle; a_n := a_n s; a_log := a_log s |}.

  Definition ainit (c : config) (d : dirst) : astate :=
    {| a_cfg := c; a_dir := d; a_q := fun _ => []; a_notify := O; a_remote := O; a_disp := DIdle;
       a_cl := fun _ => CIdle; a_n := O; a_log := [] |}.

  Inductive reach (c : config) (d : dirst) : astate -> list label -> Prop :=
  | ReachInit : reach c d (ainit c d) []
  | ReachStep s tr l s' : reach c d s tr -> astep s l s' -> reach c d s' (tr ++ [l]).

  (* steps that do not need a new client request: the system's own progress *)
  Definition system_label (l : label) : bool :=
    match l with LCall _ _ => false | _ => true end.

  (* something is still owed to a client, or an internal request is queued *)
  Definition pending (s : astate) : Prop :=
    a_disp s <> DIdle \/ (exists q, a_q s q <> []) \/
    (exists c, match a_cl s c with CWant _ | CWait _ | CDone _ _ => True | CIdle => False end).

  Fixpoint runs (s : astate) (ls : list label) (s' : astate) : Prop :=
    match ls with
    | [] => s' = s
    | l :: r => exists mid, astep s l mid /\ runs mid r s'
    end.

  (* the dispatcher can never move again, whatever else happens *)
  Definition wedged (s : astate) : Prop :=
    a_disp s <> DIdle /\ forall tr s', runs s tr s' -> a_disp s' = a_disp s.

  (* replaying the log sequentially: what a single-threaded execution of the
     handled requests, in handling order, computes *)
  Fixpoint seq_replay (c : config) (d : dirst) (n : nat) (items : list (option cid * req * obs))
    : option (config * dirst) :=
    match items with
    | [] => Some (c, d)
    | (Some _, r, res) :: rest =>
        let '(c', d', res', _, _) := handle_req c d n r in
        if obs_beq res res' then seq_replay c' d' (S n) rest else None
    | (None, RUpdate u pw, res) :: rest =>
        let '(c', d', res', _) := handle_upgrade c d n u pw in
        if obs_beq res res' then seq_replay c' d' (S n) rest else None
    | (None, _, _) :: _ => None
    end.

  (* what one client sees of a trace *)
  Definition concerns (c : cid) (l : label) : bool :=
    match l with
    | LCall c' _ | LEnq c' | LRet c' _ _ => Nat.eqb c c'
    | LHandle _ (Some c') => Nat.eqb c c'
    | _ => false
    end.

  (* per-client protocol: Call, Enq, Handle, Ret, repeated; any prefix *)
  Fixpoint client_ok (phase : nat) (ls : list label) : bool :=
    match ls with
    | [] => true
    | l :: r =>
        match phase, l with
        | O, LCall _ _ => client_ok 1 r
        | 1%nat, LEnq _ => client_ok 2 r
        | 2%nat, LHandle _ _ => client_ok 3 r
        | 3%nat, LRet _ _ _ => client_ok 0 r
        | _, _ => false
        end
    end.
End Agent.
