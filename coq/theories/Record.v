(* Record.v — the first line of a hash file: parser (readHashStr), the two
   hashers' string handling (…DecodeBase64, IsValid, Check, Generate), the
   printer used by writeHashStr, and the per-file decisions built on them
   (isFormatSupportedFull, the credential check of Authenticate).

   The key-derivation functions are a parameter [kdf] (never an axiom): the
   theorems quantify over it, the correspondence run instantiates it with a
   table computed independently by the harness (x/crypto directly). *)
From Whawty Require Import Bytes Base64.
Open Scope N_scope.

Inductive hasher :=
| HScrypt (key : bytes) (cost : N) (r p : Z)      (* after defaulting of r, p *)
| HArgon (time mem threads keylen : N).

Definition fmt_scrypt : bytes := str "hmac_sha256_scrypt".
Definition fmt_argon : bytes := str "argon2id".
Definition fmt_of (h : hasher) : bytes :=
  match h with HScrypt _ _ _ _ => fmt_scrypt | HArgon _ _ _ _ => fmt_argon end.

(* Dir.Params / Dir.Default *)
Record config := { params : list (N * hasher); default : N }.

Fixpoint plookup (id : N) (ps : list (N * hasher)) : option hasher :=
  match ps with
  | [] => None
  | (i, h) :: r => if i =? id then Some h else plookup id r
  end.
Definition cfg_hasher (c : config) (id : N) : option hasher := plookup id (params c).

Definition colon : byte := 58.
Definition lf : byte := 10.

(* bufio.Reader.ReadString('\n'): up to and including the first LF, or all *)
Definition first_line (content : bytes) : bytes :=
  match index_of lf content with
  | Some i => firstn (S i) content
  | None => content
  end.
Definition after_first_line (content : bytes) : bytes :=
  match index_of lf content with
  | Some i => skipn (S i) content
  | None => []
  end.

Record rec := { r_fmt : bytes; r_ts : Z; r_pid : N; r_hash : bytes }.

(* readHashStr on the file's content *)
Definition parse_record (content : bytes) : option rec :=
  match splitN colon 4 (first_line content) with
  | [f; t; i; hs] =>
      match parse_int64 t, parse_uint64 i with
      | Some ts, Some pid => Some {| r_fmt := f; r_ts := ts; r_pid := pid; r_hash := hs |}
      | _, _ => None
      end
  | _ => None
  end.

(* scryptAuthDecodeBase64 / argon2IDDecodeBase64 : (salt, digest) *)
Definition decode_hash (hs : bytes) : option (bytes * bytes) :=
  match split_all colon hs with
  | [s64; d64] =>
      match url_dec s64, url_dec d64 with
      | Some s, Some d => Some (s, d)
      | _, _ => None
      end
  | _ => None
  end.

(* Hasher.IsValid *)
Definition hash_valid (hs : bytes) : bool :=
  match decode_hash hs with
  | Some (s, d) => match s, d with [], _ | _, [] => false | _, _ => true end
  | None => false
  end.

Section WithKdf.
  (* [kdf h salt password]: None = the library reports an error *)
  Variable kdf : hasher -> bytes -> bytes -> option bytes.

  (* Hasher.Check: recompute and compare the full digest *)
  Definition hash_check (h : hasher) (pw hs : bytes) : bool :=
    match decode_hash hs with
    | Some (s, d) => match kdf h s pw with
                     | Some d' => beq d' d
                     | None => false
                     end
    | None => false
    end.

  (* Hasher.Generate with the salt as oracle *)
  Definition hash_generate (h : hasher) (salt pw : bytes) : option bytes :=
    match kdf h salt pw with
    | Some d => Some (url_enc salt ++ [colon] ++ url_enc d)
    | None => None
    end.

  Inductive auth_res :=
  | AuthOk (upgradeable : bool) (ts : Z)
  | AuthNo.

  (* the part of UserHash.Authenticate after the file has been located *)
  Definition auth_content (c : config) (content pw : bytes) : auth_res :=
    match parse_record content with
    | Some r =>
        match cfg_hasher c (r_pid r) with
        | Some h =>
            if beq (fmt_of h) (r_fmt r)
            then (if hash_check h pw (r_hash r)
                  then AuthOk (negb (default c =? r_pid r)) (r_ts r)
                  else AuthNo)
            else AuthNo
        | None => AuthNo
        end
    | None => AuthNo
    end.

  (* the first line writeHashStr prints *)
  Definition print_record (h : hasher) (ts : Z) (pid : N) (hs : bytes) : bytes :=
    fmt_of h ++ [colon] ++ dec_Z ts ++ [colon] ++ dec_N pid ++ [colon] ++ hs ++ [lf].
End WithKdf.

(* isFormatSupportedFull on a file's content: (supported, format, ts, pid);
   on a read/parse error everything is zero *)
Inductive supp_res :=
| SuppErr                                        (* readHashStr failed *)
| SuppInfo (supported : bool) (fmt : bytes) (ts : Z) (pid : N).

Definition format_supported_full (c : config) (content : bytes) : supp_res :=
  match parse_record content with
  | Some r =>
      match cfg_hasher c (r_pid r) with
      | Some h => if beq (fmt_of h) (r_fmt r)
                  then SuppInfo (hash_valid (r_hash r)) (r_fmt r) (r_ts r) (r_pid r)
                  else SuppInfo false (r_fmt r) (r_ts r) (r_pid r)
      | None => SuppInfo false (r_fmt r) (r_ts r) (r_pid r)
      end
  | None => SuppErr
  end.

Definition is_supported (c : config) (content : bytes) : bool :=
  match format_supported_full c content with
  | SuppInfo true _ _ _ => true
  | _ => false
  end.
