(* Store_proofs.v — the file-level store (Store.v) refines the abstract
   password map (StoreSpec.v) over every operation history. *)
From Whawty Require Import Bytes Bytes_proofs Base64 Base64_proofs Names Record Record_proofs Store StoreSpec.
From Coq Require Import ZifyN ZifyNat ZifyBool.
Open Scope N_scope.

Definition hist := list (op * oracle).

Definition oracle_ok (o : oracle) : Prop :=
  (- (max_i64 + 1) <= o_ts o <= max_i64)%Z /\ bytes_wf (o_salt o) = true /\ o_salt o <> [].

Definition cfg_wf (c : config) : Prop :=
  forall id h, In (id, h) (params c) -> id <= max_u64.

(* ---------- auxiliary lemmas: byte strings, directory algebra, file names ---------- *)
Lemma beq_spec a b : reflect (a = b) (beq a b).
Proof.
  destruct (beq a b) eqn:E; constructor.
  - apply beq_eq; exact E.
  - apply beq_neq; exact E.
Qed.

Lemma len_app a b : len (a ++ b) = len a + len b.
Proof. unfold len. rewrite app_length. lia. Qed.

Lemma dlookup_dset k k' v d :
  dlookup k' (dset k v d) = if beq k' k then Some v else dlookup k' d.
Proof.
  induction d as [|[k0 v0] r IH]; cbn [dset dlookup].
  - reflexivity.
  - destruct (beq_spec k k0) as [->|N]; cbn [dlookup].
    + destruct (beq k' k0); reflexivity.
    + rewrite IH. destruct (beq_spec k' k0) as [->|N2].
      * destruct (beq_spec k0 k) as [E|_]; [congruence|reflexivity].
      * reflexivity.
Qed.

Lemma dlookup_dremove k k' d :
  dlookup k' (dremove k d) = if beq k' k then None else dlookup k' d.
Proof.
  induction d as [|[k0 v0] r IH]; cbn [dremove dlookup].
  - destruct (beq k' k); reflexivity.
  - destruct (beq_spec k k0) as [->|N]; cbn [dlookup].
    + rewrite IH. destruct (beq k' k0); reflexivity.
    + rewrite IH. destruct (beq_spec k' k0) as [->|N2].
      * destruct (beq_spec k0 k) as [E|_]; [congruence|reflexivity].
      * reflexivity.
Qed.

Fixpoint dnodup (d : dirst) : Prop :=
  match d with
  | [] => True
  | (k, _) :: r => dlookup k r = None /\ dnodup r
  end.

Lemma dnodup_dset k v d : dnodup d -> dnodup (dset k v d).
Proof.
  induction d as [|[k0 v0] r IH]; cbn [dset dnodup]; intros H.
  - split; [reflexivity|exact I].
  - destruct H as [H1 H2]. destruct (beq_spec k k0) as [->|N]; cbn [dnodup].
    + split; assumption.
    + split; [|apply IH; exact H2]. rewrite dlookup_dset.
      destruct (beq_spec k0 k) as [E|_]; [congruence|exact H1].
Qed.

Lemma dnodup_dremove k d : dnodup d -> dnodup (dremove k d).
Proof.
  induction d as [|[k0 v0] r IH]; cbn [dremove dnodup]; intros H.
  - exact I.
  - destruct H as [H1 H2]. destruct (beq k k0); cbn [dnodup].
    + apply IH; exact H2.
    + split; [|apply IH; exact H2]. rewrite dlookup_dremove, H1.
      destruct (beq k0 k); reflexivity.
Qed.

Lemma dnodup_In k n d : dnodup d -> In (k, n) d -> dlookup k d = Some n.
Proof.
  induction d as [|[k0 v0] r IH]; cbn [dnodup In dlookup]; intros H HI.
  - contradiction.
  - destruct H as [H1 H2]. destruct HI as [E|HI].
    + injection E as -> ->. rewrite beq_refl. reflexivity.
    + specialize (IH H2 HI). destruct (beq_spec k k0) as [->|N].
      * congruence.
      * exact IH.
Qed.

Lemma ext_admin_eq : ext_admin = [46; 97; 100; 109; 105; 110].
Proof. reflexivity. Qed.
Lemma ext_user_eq : ext_user = [46; 117; 115; 101; 114].
Proof. reflexivity. Qed.
Lemma tmp_name_eq : tmp_name = [46; 116; 109; 112].
Proof. reflexivity. Qed.

Lemma admin_ne_user u v : u ++ ext_admin <> v ++ ext_user.
Proof.
  intros H. apply (f_equal (@rev N)) in H. rewrite !rev_app_distr in H.
  rewrite ext_admin_eq, ext_user_eq in H. cbn [rev app] in H. discriminate H.
Qed.

Lemma ext_of_inj u v b b' : u ++ ext_of b = v ++ ext_of b' -> u = v /\ b = b'.
Proof.
  intros H. destruct b, b'; cbn [ext_of] in H.
  - split; [eapply app_inv_tail; exact H|reflexivity].
  - exfalso. eapply admin_ne_user; exact H.
  - exfalso. eapply admin_ne_user; symmetry; exact H.
  - split; [eapply app_inv_tail; exact H|reflexivity].
Qed.

Lemma valid_not_tmp u b : valid_name u = true -> u ++ ext_of b <> tmp_name.
Proof.
  intros V H. destruct u as [|c r]; [discriminate V|].
  unfold valid_name in V. apply andb_prop in V. destruct V as [V _].
  rewrite tmp_name_eq in H. cbn [app] in H. injection H as Hc _. subst c.
  vm_compute in V. discriminate V.
Qed.

Lemma has_prefix_app p s : has_prefix p (p ++ s) = true.
Proof.
  induction p as [|x p IH]; cbn [has_prefix app].
  - reflexivity.
  - rewrite N.eqb_refl, IH. reflexivity.
Qed.

Lemma has_suffix_app p u : has_suffix p (u ++ p) = true.
Proof. unfold has_suffix. rewrite rev_app_distr. apply has_prefix_app. Qed.

Lemma firstn_app_len (u e : bytes) : firstn (length (u ++ e) - length e) (u ++ e) = u.
Proof.
  rewrite app_length, Nat.add_sub.
  induction u as [|x u IH]; cbn [length firstn app].
  - destruct e; reflexivity.
  - rewrite IH. reflexivity.
Qed.

Lemma check_user_file_admin u : check_user_file (u ++ ext_admin) = Some (u, true).
Proof.
  unfold check_user_file. rewrite has_suffix_app, firstn_app_len. reflexivity.
Qed.

Lemma check_user_file_user u : check_user_file (u ++ ext_user) = Some (u, false).
Proof.
  unfold check_user_file.
  assert (F : has_suffix ext_admin (u ++ ext_user) = false).
  { unfold has_suffix. rewrite rev_app_distr, ext_admin_eq, ext_user_eq. reflexivity. }
  rewrite F, has_suffix_app, firstn_app_len. reflexivity.
Qed.

Lemma check_user_file_ext u b : check_user_file (u ++ ext_of b) = Some (u, b).
Proof. destruct b; [apply check_user_file_admin|apply check_user_file_user]. Qed.

Lemma fits_admin u : (name_max <? len (u ++ ext_admin)) = negb (name_fits u).
Proof.
  unfold name_fits, name_max. rewrite len_app. change (len ext_admin) with 6.
  destruct (N.ltb_spec 255 (len u + 6)), (N.leb_spec (len u + 6) 255); cbn [negb]; try reflexivity; lia.
Qed.

Lemma fits_user u : name_fits u = true -> (name_max <? len (u ++ ext_user)) = false.
Proof.
  unfold name_fits, name_max. rewrite len_app. change (len ext_user) with 5.
  intros H. apply N.leb_le in H. apply N.ltb_ge. lia.
Qed.

Lemma plookup_In id ps h : plookup id ps = Some h -> In (id, h) ps.
Proof.
  induction ps as [|[i h0] r IH]; cbn [plookup In]; intros H.
  - discriminate H.
  - destruct (N.eqb_spec i id) as [->|N].
    + injection H as ->. left; reflexivity.
    + right; apply IH; exact H.
Qed.

Section Refinement.
  Variable kdf : hasher -> bytes -> bytes -> option bytes.
  Variable sha256 : bytes -> bytes.
  Variable kdf_fails : hasher -> bool.

  (* assumptions about the cryptographic primitives, stated as premises *)
  Hypothesis kdf_fail_iff : forall h s p, kdf h s p = None <-> kdf_fails h = true.
  Hypothesis kdf_out : forall h s p d, kdf h s p = Some d -> bytes_wf d = true /\ d <> [].
  Hypothesis kdf_inj : forall h s p q d,
      kdf h s p = Some d -> kdf h s q = Some d -> keyeq sha256 h p q = true.
  Hypothesis kdf_resp : forall h s p q, keyeq sha256 h p q = true -> kdf h s p = kdf h s q.

  (* the concrete run *)
  Fixpoint run (c : config) (d : dirst) (hs : hist) : config * dirst :=
    match hs with
    | [] => (c, d)
    | (o, orc) :: r => let '(c', d', _) := step kdf c d o orc in run c' d' r
    end.

  Definition sop_of (o : op) (orc : oracle) : option sop :=
    match o with
    | OpAdd u pw adm => Some (SAdd u pw adm (o_ts orc))
    | OpUpdate u pw => Some (SUpdate u pw (o_ts orc))
    | OpSetAdmin u adm => Some (SSetAdmin u adm)
    | OpRemove u => Some (SRemove u)
    | OpInit u pw => Some (SInit u pw (o_ts orc))
    | OpSetDefault id => Some (SSetDefault id)
    | _ => None
    end.

  (* the abstract run *)
  Fixpoint srun (c : config) (a : amap) (hs : hist) : config * amap :=
    match hs with
    | [] => (c, a)
    | (o, orc) :: r =>
        match sop_of o orc with
        | Some so => let '(c', a', _) := spec_step kdf_fails c a so in srun c' a' r
        | None => srun c a r
        end
    end.

  Definition obs_of_sauth (s : sauth) : obs :=
    match s with
    | SAuthOk adm upg ts => OAuth true adm upg ts
    | SAuthNo => OAuth false false false 0%Z
    end.

  Definition obs_of_sres (r : sres) : obs := match r with SOk => ORes ROk | SErr => ORes RErr end.

  Definition exists_of_spec (a : amap) (u : bytes) : exists_res :=
    if negb (valid_name u) then ExErr
    else match spec_exists a u with
         | Some adm => ExYes adm
         | None => if name_fits u then ExNo else ExErr
         end.

  (* what the specification prescribes as the visible result of one operation
     (List / ListFull / Check are covered by separate statements) *)
  Definition spec_obs (c : config) (a : amap) (o : op) (orc : oracle) : option obs :=
    match o with
    | OpAuth u p => Some (obs_of_sauth (spec_auth sha256 kdf_fails c a u p))
    | OpExists u => Some (OExists (exists_of_spec a u))
    | OpList | OpListFull | OpCheck => None
    | _ => match sop_of o orc with
           | Some so => let '(_, _, r) := spec_step kdf_fails c a so in Some (obs_of_sres r)
           | None => None
           end
    end.

  (* the per-operation visible results of the concrete run and of the
     specification, side by side *)
  Fixpoint trace (c : config) (d : dirst) (hs : hist) : list (option obs) :=
    match hs with
    | [] => []
    | (o, orc) :: r =>
        let '(c', d', ob) := step kdf c d o orc in
        (match o with OpList | OpListFull | OpCheck => None | _ => Some ob end) :: trace c' d' r
    end.

  Fixpoint strace (c : config) (a : amap) (hs : hist) : list (option obs) :=
    match hs with
    | [] => []
    | (o, orc) :: r =>
        let ob := spec_obs c a o orc in
        match sop_of o orc with
        | Some so => let '(c', a', _) := spec_step kdf_fails c a so in ob :: strace c' a' r
        | None => ob :: strace c a r
        end
    end.

  (* ================================================================== *)
  (* auxiliary development for the refinement proof                      *)

  (* wrappers around Record_proofs lemmas whose statements do not mention
     [kdf] (robust to whether they are generalised over it or not) *)
  Lemma supp_written c h ts pid salt dig tail :
    (- (max_i64 + 1) <= ts <= max_i64)%Z -> pid <= max_u64 ->
    cfg_hasher c pid = Some h -> bytes_wf salt = true -> bytes_wf dig = true ->
    salt <> [] -> dig <> [] ->
    format_supported_full c (written h ts pid salt dig tail) = SuppInfo true (fmt_of h) ts pid.
  Proof.
    intros H1 H2 H3 H4 H5 H6 H7.
    first [ apply (is_supported_written kdf); assumption
          | apply is_supported_written; assumption ].
  Qed.

  Lemma afl_written h ts pid salt dig tail :
    bytes_wf salt = true -> bytes_wf dig = true ->
    after_first_line (written h ts pid salt dig tail) = tail.
  Proof.
    intros H1 H2.
    first [ apply (after_first_line_written kdf); assumption
          | apply after_first_line_written; assumption ].
  Qed.

  Definition res_of_sres (r : sres) : res := match r with SOk => ROk | SErr => RErr end.

  (* the file-level representation of one credential *)
  Definition cred_ok (c : config) (d : dirst) (u : bytes) (cr : acred) : Prop :=
    valid_name u = true /\ name_fits u = true /\
    exists h salt dig,
      cfg_hasher c (a_pid cr) = Some h /\ a_pid cr <= max_u64 /\
      (- (max_i64 + 1) <= a_ts cr <= max_i64)%Z /\
      kdf h salt (a_pw cr) = Some dig /\ bytes_wf salt = true /\ salt <> [] /\
      dlookup (u ++ ext_of (a_admin cr)) d
        = Some (File (written h (a_ts cr) (a_pid cr) salt dig [])) /\
      dlookup (u ++ ext_of (negb (a_admin cr))) d = None.

  (* the refinement invariant *)
  Definition Inv (c : config) (d : dirst) (a : amap) : Prop :=
    cfg_wf c /\ dnodup d /\
    (forall u cr, alookup u a = Some cr -> cred_ok c d u cr) /\
    (forall k n, dlookup k d = Some n ->
       (k = tmp_name /\ n = Dir []) \/
       exists u cr, alookup u a = Some cr /\ k = u ++ ext_of (a_admin cr)).

  Lemma Inv_empty c : cfg_wf c -> Inv c [] [].
  Proof.
    intros H. split; [exact H|]. split; [exact I|]. split.
    - intros u cr A. discriminate A.
    - intros k n L. discriminate L.
  Qed.

  Lemma inv_valid c d a u cr : Inv c d a -> alookup u a = Some cr -> valid_name u = true.
  Proof. intros (_ & _ & Ha & _) A. destruct (Ha _ _ A) as (V & _). exact V. Qed.

  Lemma inv_invalid_none c d a u : Inv c d a -> valid_name u = false -> alookup u a = None.
  Proof.
    intros HI V. destruct (alookup u a) as [cr|] eqn:A; [|reflexivity].
    rewrite (inv_valid _ _ _ _ _ HI A) in V. discriminate V.
  Qed.

  Lemma inv_user_file c d a u b :
    Inv c d a -> valid_name u = true ->
    dlookup (u ++ ext_of b) d = None \/
    exists cr content, alookup u a = Some cr /\ a_admin cr = b /\
       dlookup (u ++ ext_of b) d = Some (File content).
  Proof.
    intros (Hwf & Hnd & Ha & Hd) V.
    destruct (dlookup (u ++ ext_of b) d) as [n|] eqn:E; [right|left; reflexivity].
    destruct (Hd _ _ E) as [[Ht _]|(u' & cr & A & Hk)].
    - exfalso. eapply valid_not_tmp; eassumption.
    - apply ext_of_inj in Hk. destruct Hk as [<- ->].
      destruct (Ha _ _ A) as (_ & _ & h & salt & dig & _ & _ & _ & _ & _ & _ & L & _).
      rewrite L in E. injection E as <-.
      exists cr. eexists. split; [exact A|]. split; reflexivity.
  Qed.

  Lemma inv_absent c d a u b :
    Inv c d a -> valid_name u = true -> alookup u a = None ->
    dlookup (u ++ ext_of b) d = None.
  Proof.
    intros HI V A. destruct (inv_user_file c d a u b HI V) as [E|(cr & ct & A' & _)].
    - exact E.
    - congruence.
  Qed.

  Lemma inv_tmp c d a :
    Inv c d a -> dlookup tmp_name d = None \/ dlookup tmp_name d = Some (Dir []).
  Proof.
    intros (Hwf & Hnd & Ha & Hd).
    destruct (dlookup tmp_name d) as [n|] eqn:E; [right|left; reflexivity].
    destruct (Hd _ _ E) as [[_ ->]|(u' & cr & A & Hk)]; [reflexivity|].
    exfalso. destruct (Ha _ _ A) as (V & _).
    eapply valid_not_tmp; [exact V|symmetry; exact Hk].
  Qed.

  Lemma fits_ext u b : name_fits u = true -> (name_max <? len (u ++ ext_of b)) = false.
  Proof.
    intros F. destruct b; cbn [ext_of].
    - rewrite fits_admin, F. reflexivity.
    - apply fits_user; exact F.
  Qed.

  (* ---- read operations ---- *)
  Lemma exists_agree c d a u :
    Inv c d a -> valid_name u = true ->
    user_exists d u =
    match alookup u a with
    | Some cr => ExYes (a_admin cr)
    | None => if name_fits u then ExNo else ExErr
    end.
  Proof.
    intros HI V. unfold user_exists, stat_file.
    destruct (alookup u a) as [cr|] eqn:A.
    - destruct HI as (Hwf & Hnd & Ha & Hd).
      destruct (Ha _ _ A) as (_ & F & h & salt & dig & _ & _ & _ & _ & _ & _ & L & Lo).
      rewrite fits_admin, F, (fits_user _ F). cbn [negb].
      destruct (a_admin cr); cbn [ext_of negb] in L, Lo.
      + rewrite L. reflexivity.
      + rewrite Lo, L. reflexivity.
    - rewrite fits_admin. destruct (name_fits u) eqn:F; cbn [negb]; [|reflexivity].
      rewrite (fits_user _ F).
      rewrite (inv_absent c d a u true HI V A : dlookup (u ++ ext_admin) d = None).
      rewrite (inv_absent c d a u false HI V A : dlookup (u ++ ext_user) d = None).
      reflexivity.
  Qed.

  Lemma auth_agree c d a u p :
    Inv c d a ->
    authenticate kdf c d u p = obs_of_sauth (spec_auth sha256 kdf_fails c a u p).
  Proof.
    intros HI. unfold authenticate, spec_auth.
    destruct (valid_name u) eqn:V; cbn [negb].
    - rewrite (exists_agree c d a u HI V).
      destruct (alookup u a) as [cr|] eqn:A.
      + destruct HI as (Hwf & Hnd & Ha & Hd).
        destruct (Ha _ _ A) as (_ & F & h & salt & dig & Hh & Hpid & Hts & K & Ws & Ns & L & Lo).
        destruct (kdf_out _ _ _ _ K) as [Wd Nd].
        unfold read_file. rewrite L.
        rewrite (auth_content_written kdf c h (a_ts cr) (a_pid cr) salt dig [] p Hts Hpid Hh Ws Wd).
        rewrite Hh.
        assert (KF : kdf_fails h = false).
        { destruct (kdf_fails h) eqn:KF; [|reflexivity].
          apply (kdf_fail_iff h salt (a_pw cr)) in KF. congruence. }
        rewrite KF. cbn [negb andb].
        destruct (kdf h salt p) as [d'|] eqn:K'.
        * destruct (beq_spec d' dig) as [->|ND].
          -- rewrite (kdf_inj _ _ _ _ _ K K'). reflexivity.
          -- destruct (keyeq sha256 h (a_pw cr) p) eqn:KE; [|reflexivity].
             exfalso. apply ND. apply (kdf_resp h salt) in KE. congruence.
        * apply kdf_fail_iff in K'. congruence.
      + destruct (name_fits u); reflexivity.
    - rewrite (inv_invalid_none c d a u HI V). reflexivity.
  Qed.

  Lemma list_users_gen c a :
    (forall u cr, alookup u a = Some cr -> valid_name u = true) ->
    forall dl acc,
      (forall k n, In (k, n) dl ->
         k = tmp_name \/
         exists u cr f pid, alookup u a = Some cr /\ k = u ++ ext_of (a_admin cr) /\
                            supp_of_node c n = SuppInfo true f (a_ts cr) pid) ->
      exists l, list_users c dl acc = Some l /\
        forall u, alookup u l =
          match alookup u a with
          | Some cr => match dlookup (u ++ ext_of (a_admin cr)) dl with
                       | Some _ => Some {| ui_admin := a_admin cr; ui_ts := a_ts cr |}
                       | None => alookup u acc
                       end
          | None => alookup u acc
          end.
  Proof.
    intros Hv dl. induction dl as [|[k n] r IH]; intros acc H.
    - exists acc. split; [reflexivity|]. intros u. destruct (alookup u a); reflexivity.
    - cbn [list_users]. destruct (beq_spec k tmp_name) as [->|NT].
      + destruct (IH acc) as (l & Hl & Hq).
        { intros k n' HIn. apply H. right. exact HIn. }
        exists l. split; [exact Hl|]. intros u. rewrite Hq.
        destruct (alookup u a) as [cr|] eqn:A; [|reflexivity].
        cbn [dlookup].
        destruct (beq_spec (u ++ ext_of (a_admin cr)) tmp_name) as [E|_]; [|reflexivity].
        exfalso. eapply valid_not_tmp; [eapply Hv; exact A|exact E].
      + destruct (H k n (or_introl eq_refl)) as [E|(u0 & cr0 & f & pid & A0 & -> & S)];
          [contradiction|].
        rewrite check_user_file_ext. rewrite (Hv _ _ A0). cbn [negb]. rewrite S.
        destruct (IH (aset u0 {| ui_admin := a_admin cr0; ui_ts := a_ts cr0 |} acc))
          as (l & Hl & Hq).
        { intros k n' HIn. apply H. right. exact HIn. }
        exists l. split; [exact Hl|]. intros u. rewrite Hq.
        destruct (alookup u a) as [cr|] eqn:A.
        * cbn [dlookup].
          destruct (beq_spec (u ++ ext_of (a_admin cr)) (u0 ++ ext_of (a_admin cr0))) as [E|NE].
          -- apply ext_of_inj in E. destruct E as [-> _].
             rewrite A in A0. injection A0 as <-.
             destruct (dlookup (u0 ++ ext_of (a_admin cr)) r); [reflexivity|].
             apply alookup_aset_eq.
          -- assert (NU : u0 <> u).
             { intros ->. rewrite A in A0. injection A0 as <-. apply NE. reflexivity. }
             destruct (dlookup (u ++ ext_of (a_admin cr)) r); [reflexivity|].
             apply alookup_aset_ne. exact NU.
        * assert (NU : u0 <> u) by congruence.
          apply alookup_aset_ne. exact NU.
  Qed.

  Lemma list_agree c d a :
    Inv c d a ->
    exists l, list_users c d [] = Some l /\
      forall u ui, alookup u l = Some ui <->
        exists cr, alookup u a = Some cr /\ ui = {| ui_admin := a_admin cr; ui_ts := a_ts cr |}.
  Proof.
    intros HI. pose proof HI as (Hwf & Hnd & Ha & Hd).
    destruct (list_users_gen c a (fun u cr A => inv_valid c d a u cr HI A) d []) as (l & Hl & Hq).
    { intros k n HIn. apply (dnodup_In _ _ _ Hnd) in HIn.
      destruct (Hd _ _ HIn) as [[-> _]|(u & cr & A & ->)]; [left; reflexivity|right].
      destruct (Ha _ _ A) as (_ & F & h & salt & dig & Hh & Hpid & Hts & K & Ws & Ns & L & Lo).
      destruct (kdf_out _ _ _ _ K) as [Wd Nd].
      rewrite L in HIn. injection HIn as <-.
      exists u, cr, (fmt_of h), (a_pid cr). split; [exact A|]. split; [reflexivity|].
      cbn [supp_of_node]. apply supp_written; assumption. }
    exists l. split; [exact Hl|]. intros u ui. rewrite Hq.
    destruct (alookup u a) as [cr|] eqn:A.
    - destruct (Ha _ _ A) as (_ & F & h & salt & dig & Hh & Hpid & Hts & K & Ws & Ns & L & Lo).
      rewrite L. split.
      + intros E. injection E as <-. exists cr. split; reflexivity.
      + intros (cr' & E & ->). injection E as <-. reflexivity.
    - cbn [alookup]. split.
      + intros E. discriminate E.
      + intros (cr' & E & _). discriminate E.
  Qed.

  (* ---- the invariant depends on the map only through [alookup] ---- *)
  Lemma Inv_ext_a c d a a' :
    (forall u, alookup u a' = alookup u a) -> Inv c d a -> Inv c d a'.
  Proof.
    intros HE (Hwf & Hnd & Ha & Hd). split; [exact Hwf|]. split; [exact Hnd|]. split.
    - intros u cr A. rewrite HE in A. apply Ha; exact A.
    - intros k n L. destruct (Hd _ _ L) as [T|(u & cr & A & Hk)]; [left; exact T|right].
      exists u, cr. rewrite HE. split; assumption.
  Qed.

  Lemma Inv_set_default c d a id :
    Inv c d a -> Inv {| params := params c; default := id |} d a.
  Proof.
    intros (Hwf & Hnd & Ha & Hd). split; [exact Hwf|]. split; [exact Hnd|]. split; [|exact Hd].
    intros u cr A. exact (Ha _ _ A).
  Qed.

  (* writing / moving the file of one user *)
  Lemma Inv_aset c d a d' u cr h salt dig t :
    Inv c d a -> dnodup d' ->
    valid_name u = true -> name_fits u = true ->
    cfg_hasher c (a_pid cr) = Some h -> a_pid cr <= max_u64 ->
    (- (max_i64 + 1) <= a_ts cr <= max_i64)%Z ->
    kdf h salt (a_pw cr) = Some dig -> bytes_wf salt = true -> salt <> [] ->
    (t = dlookup tmp_name d \/ t = Some (Dir [])) ->
    (forall k, dlookup k d' =
       if beq k (u ++ ext_of (a_admin cr))
       then Some (File (written h (a_ts cr) (a_pid cr) salt dig []))
       else if beq k (u ++ ext_of (negb (a_admin cr))) then None
       else if beq k tmp_name then t else dlookup k d) ->
    Inv c d' (aset u cr a).
  Proof.
    intros HI Hnd' V F Hh Hpid Hts K Ws Ns Ht HL.
    pose proof HI as (Hwf & Hnd & Ha & Hd).
    assert (NE : u ++ ext_of (negb (a_admin cr)) <> u ++ ext_of (a_admin cr)).
    { intros E. apply ext_of_inj in E. destruct E as [_ E]. destruct (a_admin cr); discriminate E. }
    split; [exact Hwf|]. split; [exact Hnd'|]. split.
    - intros u' cr' A. destruct (beq_spec u u') as [<-|NU].
      + rewrite alookup_aset_eq in A. injection A as <-.
        split; [exact V|]. split; [exact F|].
        exists h, salt, dig. repeat (split; [assumption|]). split.
        * rewrite HL, beq_refl. reflexivity.
        * rewrite HL. destruct (beq_spec (u ++ ext_of (negb (a_admin cr))) (u ++ ext_of (a_admin cr)))
            as [E|_]; [contradiction|].
          rewrite beq_refl. reflexivity.
      + rewrite (alookup_aset_ne _ _ _ _ NU) in A.
        destruct (Ha _ _ A) as (V' & F' & h' & salt' & dig' & Hh' & Hpid' & Hts' & K' & Ws' & Ns' & L' & Lo').
        split; [exact V'|]. split; [exact F'|].
        exists h', salt', dig'. repeat (split; [assumption|]).
        assert (Q : forall b, dlookup (u' ++ ext_of b) d' = dlookup (u' ++ ext_of b) d).
        { intros b. rewrite HL.
          destruct (beq_spec (u' ++ ext_of b) (u ++ ext_of (a_admin cr))) as [E|_].
          { apply ext_of_inj in E. destruct E as [E _]. congruence. }
          destruct (beq_spec (u' ++ ext_of b) (u ++ ext_of (negb (a_admin cr)))) as [E|_].
          { apply ext_of_inj in E. destruct E as [E _]. congruence. }
          destruct (beq_spec (u' ++ ext_of b) tmp_name) as [E|_].
          { exfalso. eapply valid_not_tmp; eassumption. }
          reflexivity. }
        rewrite !Q. split; assumption.
    - intros k n L. rewrite HL in L.
      destruct (beq_spec k (u ++ ext_of (a_admin cr))) as [->|N1].
      { right. exists u, cr. split; [apply alookup_aset_eq|reflexivity]. }
      destruct (beq_spec k (u ++ ext_of (negb (a_admin cr)))) as [->|N2]; [discriminate L|].
      assert (G : dlookup k d = Some n ->
                  (k = tmp_name /\ n = Dir []) \/
                  exists u0 cr0, alookup u0 (aset u cr a) = Some cr0 /\ k = u0 ++ ext_of (a_admin cr0)).
      { intros L0. destruct (Hd _ _ L0) as [T|(u0 & cr0 & A0 & Hk)]; [left; exact T|right].
        exists u0, cr0. split; [|exact Hk].
        rewrite alookup_aset_ne; [exact A0|].
        intros <-. subst k.
        destruct (a_admin cr0), (a_admin cr); cbn [negb] in N1, N2; congruence. }
      destruct (beq_spec k tmp_name) as [->|N3]; [|apply G; exact L].
      destruct Ht as [->| ->].
      + apply G; exact L.
      + injection L as <-. left. split; reflexivity.
  Qed.

  Lemma Inv_aremove c d a d' u :
    Inv c d a -> dnodup d' ->
    (forall k, dlookup k d' =
       if beq k (u ++ ext_admin) then None
       else if beq k (u ++ ext_user) then None else dlookup k d) ->
    Inv c d' (aremove u a).
  Proof.
    intros HI Hnd' HL. pose proof HI as (Hwf & Hnd & Ha & Hd).
    split; [exact Hwf|]. split; [exact Hnd'|]. split.
    - intros u' cr' A. destruct (beq_spec u u') as [<-|NU].
      + rewrite alookup_aremove_eq in A. discriminate A.
      + rewrite (alookup_aremove_ne _ _ _ NU) in A.
        destruct (Ha _ _ A) as (V' & F' & h' & salt' & dig' & Hh' & Hpid' & Hts' & K' & Ws' & Ns' & L' & Lo').
        split; [exact V'|]. split; [exact F'|].
        exists h', salt', dig'. repeat (split; [assumption|]).
        assert (Q : forall b, dlookup (u' ++ ext_of b) d' = dlookup (u' ++ ext_of b) d).
        { intros b. rewrite HL.
          destruct (beq_spec (u' ++ ext_of b) (u ++ ext_admin)) as [E|_].
          { apply (ext_of_inj u' u b true) in E. destruct E as [E _]. congruence. }
          destruct (beq_spec (u' ++ ext_of b) (u ++ ext_user)) as [E|_].
          { apply (ext_of_inj u' u b false) in E. destruct E as [E _]. congruence. }
          reflexivity. }
        rewrite !Q. split; assumption.
    - intros k n L. rewrite HL in L.
      destruct (beq_spec k (u ++ ext_admin)) as [->|N1]; [discriminate L|].
      destruct (beq_spec k (u ++ ext_user)) as [->|N2]; [discriminate L|].
      destruct (Hd _ _ L) as [T|(u0 & cr0 & A0 & Hk)]; [left; exact T|right].
      exists u0, cr0. split; [|exact Hk].
      rewrite alookup_aremove_ne; [exact A0|].
      intros <-. subst k. destruct (a_admin cr0); cbn [ext_of] in N1, N2; congruence.
  Qed.

  (* ---- writeHashStr ---- *)
  Lemma write_hash_fail c d u pw adm mc orc :
    can_write kdf_fails c = false -> write_hash kdf c d u pw adm mc orc = (d, RErr).
  Proof.
    unfold can_write, write_hash. intros H.
    destruct (cfg_hasher c (default c)) as [h|]; [|reflexivity].
    assert (K : kdf h (o_salt orc) pw = None).
    { apply kdf_fail_iff. destruct (kdf_fails h); [reflexivity|discriminate H]. }
    unfold hash_generate. rewrite K. reflexivity.
  Qed.

  Lemma write_hash_succ c d u pw adm mc orc h old :
    cfg_hasher c (default c) = Some h -> kdf_fails h = false ->
    (dlookup tmp_name d = None \/ dlookup tmp_name d = Some (Dir [])) ->
    u ++ ext_of adm <> tmp_name ->
    ((mc = true /\ dlookup (u ++ ext_of adm) d = None /\ old = []) \/
     (mc = false /\ dlookup (u ++ ext_of adm) d = Some (File old))) ->
    dnodup d ->
    exists dig d',
      kdf h (o_salt orc) pw = Some dig /\
      write_hash kdf c d u pw adm mc orc = (d', ROk) /\
      dnodup d' /\
      forall k, dlookup k d' =
        if beq k (u ++ ext_of adm)
        then Some (File (written h (o_ts orc) (default c) (o_salt orc) dig (after_first_line old)))
        else if beq k tmp_name then Some (Dir []) else dlookup k d.
  Proof.
    intros Hh KF Htmp NT Hcase Hnd.
    destruct (kdf h (o_salt orc) pw) as [dig|] eqn:K.
    2:{ apply kdf_fail_iff in K. congruence. }
    exists dig. unfold write_hash. rewrite Hh. unfold hash_generate. rewrite K.
    cbv zeta.
    assert (TF : beq tmp_name (u ++ ext_of adm) = false).
    { apply beq_neq. congruence. }
    destruct Hcase as [(-> & L & ->)|(-> & L)]; rewrite L; cbv beta iota.
    - rewrite dlookup_dset, TF.
      destruct Htmp as [T|T]; rewrite T; cbv beta iota.
      + eexists. split; [reflexivity|]. split; [reflexivity|]. split.
        * apply dnodup_dset, dnodup_dset, dnodup_dset. exact Hnd.
        * intros k. rewrite !dlookup_dset.
          destruct (beq k (u ++ ext_of adm)); [reflexivity|].
          destruct (beq k tmp_name); reflexivity.
      + eexists. split; [reflexivity|]. split; [reflexivity|]. split.
        * apply dnodup_dset, dnodup_dset. exact Hnd.
        * intros k. rewrite !dlookup_dset.
          destruct (beq k (u ++ ext_of adm)); [reflexivity|].
          destruct (beq_spec k tmp_name) as [->|_]; [exact T|reflexivity].
    - destruct Htmp as [T|T]; rewrite T; cbv beta iota.
      + eexists. split; [reflexivity|]. split; [reflexivity|]. split.
        * apply dnodup_dset, dnodup_dset. exact Hnd.
        * intros k. rewrite !dlookup_dset.
          destruct (beq k (u ++ ext_of adm)); [reflexivity|].
          destruct (beq k tmp_name); reflexivity.
      + eexists. split; [reflexivity|]. split; [reflexivity|]. split.
        * apply dnodup_dset. exact Hnd.
        * intros k. rewrite !dlookup_dset.
          destruct (beq k (u ++ ext_of adm)); [reflexivity|].
          destruct (beq_spec k tmp_name) as [->|_]; [exact T|reflexivity].
  Qed.

  Lemma cfg_default_bound c h : cfg_wf c -> cfg_hasher c (default c) = Some h -> default c <= max_u64.
  Proof.
    intros Hwf Hh. unfold cfg_hasher in Hh. apply plookup_In in Hh. eapply Hwf; exact Hh.
  Qed.

  (* after a successful write the user's credential is the new one *)
  Lemma Inv_after_write c d a d' u pw adm orc h dig :
    Inv c d a -> oracle_ok orc -> dnodup d' ->
    valid_name u = true -> name_fits u = true ->
    cfg_hasher c (default c) = Some h ->
    kdf h (o_salt orc) pw = Some dig ->
    dlookup (u ++ ext_of (negb adm)) d = None ->
    (forall k, dlookup k d' =
       if beq k (u ++ ext_of adm)
       then Some (File (written h (o_ts orc) (default c) (o_salt orc) dig []))
       else if beq k tmp_name then Some (Dir []) else dlookup k d) ->
    Inv c d' (aset u {| a_pw := pw; a_admin := adm; a_ts := o_ts orc; a_pid := default c |} a).
  Proof.
    intros HI (Ots & Ows & Ons) Hnd' V F Hh K Lo HL.
    pose proof HI as (Hwf & _).
    eapply (Inv_aset c d a d' u _ h (o_salt orc) dig (Some (Dir [])) HI Hnd' V F);
      cbn [a_pw a_admin a_ts a_pid]; try assumption.
    - eapply cfg_default_bound; eassumption.
    - right; reflexivity.
    - intros k. rewrite HL.
      destruct (beq k (u ++ ext_of adm)); [reflexivity|].
      destruct (beq_spec k (u ++ ext_of (negb adm))) as [->|_]; [|reflexivity].
      destruct (beq_spec (u ++ ext_of (negb adm)) tmp_name) as [E|_]; [|exact Lo].
      exfalso. eapply valid_not_tmp; eassumption.
  Qed.

  (* ---- AddUser ---- *)
  Lemma add_sim c d a u pw adm orc :
    Inv c d a -> oracle_ok orc ->
    exists d' a' sr,
      add_user kdf c d u pw adm orc = (d', res_of_sres sr) /\
      spec_add kdf_fails c a u pw adm (o_ts orc) = (a', sr) /\
      Inv c d' a'.
  Proof.
    intros HI HO. unfold add_user, spec_add.
    destruct (valid_name u) eqn:V; cbn [negb andb].
    2:{ exists d, a, SErr. split; [reflexivity|]. split; [reflexivity|exact HI]. }
    rewrite (exists_agree c d a u HI V).
    destruct (alookup u a) as [cr|] eqn:A.
    { exists d, a, SErr. split; [reflexivity|]. split; [|exact HI].
      destruct (name_fits u && can_write kdf_fails c); reflexivity. }
    destruct (name_fits u) eqn:F; cbn [andb].
    2:{ exists d, a, SErr. split; [reflexivity|]. split; [reflexivity|exact HI]. }
    destruct (can_write kdf_fails c) eqn:CW.
    2:{ rewrite (write_hash_fail _ _ _ _ _ _ _ CW). exists d, a, SErr. split; [reflexivity|]. split; [reflexivity|exact HI]. }
    unfold can_write in CW. destruct (cfg_hasher c (default c)) as [h|] eqn:Hh; [|discriminate CW].
    apply negb_true_iff in CW.
    pose proof HI as (Hwf & Hnd & _).
    destruct (write_hash_succ c d u pw adm true orc h [] Hh CW (inv_tmp _ _ _ HI)
                (valid_not_tmp u adm V)
                (or_introl (conj eq_refl (conj (inv_absent c d a u adm HI V A) eq_refl))) Hnd)
      as (dig & d' & K & W & Hnd' & HL).
    rewrite W. eexists d', _, SOk. split; [reflexivity|]. split; [reflexivity|].
    change (after_first_line []) with (@nil N) in HL.
    eapply Inv_after_write; try eassumption.
    apply inv_absent with (c := c) (a := a); assumption.
  Qed.

  (* ---- UpdateUser ---- *)
  Lemma update_sim c d a u pw orc :
    Inv c d a -> oracle_ok orc ->
    exists d' a' sr,
      update_user kdf c d u pw orc = (d', res_of_sres sr) /\
      spec_step kdf_fails c a (SUpdate u pw (o_ts orc)) = (c, a', sr) /\
      Inv c d' a'.
  Proof.
    intros HI HO. unfold update_user. cbn [spec_step].
    destruct (valid_name u) eqn:V; cbn [negb andb].
    2:{ exists d, a, SErr. split; [reflexivity|]. split; [reflexivity|exact HI]. }
    rewrite (exists_agree c d a u HI V).
    destruct (alookup u a) as [cr|] eqn:A.
    2:{ exists d, a, SErr. split; [destruct (name_fits u); reflexivity|]. split; [|exact HI].
        destruct (can_write kdf_fails c); reflexivity. }
    pose proof HI as (Hwf & Hnd & Ha & Hd).
    destruct (Ha _ _ A) as (_ & F & h0 & salt0 & dig0 & Hh0 & Hpid0 & Hts0 & K0 & Ws0 & Ns0 & L0 & Lo0).
    destruct (kdf_out _ _ _ _ K0) as [Wd0 Nd0].
    unfold read_file. rewrite L0. unfold is_supported.
    rewrite (supp_written c h0 _ _ salt0 dig0 [] Hts0 Hpid0 Hh0 Ws0 Wd0 Ns0 Nd0).
    destruct (can_write kdf_fails c) eqn:CW.
    2:{ rewrite (write_hash_fail _ _ _ _ _ _ _ CW). exists d, a, SErr. split; [reflexivity|]. split; [reflexivity|exact HI]. }
    unfold can_write in CW. destruct (cfg_hasher c (default c)) as [h|] eqn:Hh; [|discriminate CW].
    apply negb_true_iff in CW.
    destruct (write_hash_succ c d u pw (a_admin cr) false orc h _ Hh CW (inv_tmp _ _ _ HI)
                (valid_not_tmp u (a_admin cr) V)
                (or_intror (conj eq_refl L0)) Hnd)
      as (dig & d' & K & W & Hnd' & HL).
    rewrite W. eexists d', _, SOk. split; [reflexivity|]. split; [reflexivity|].
    rewrite (afl_written _ _ _ _ _ _ Ws0 Wd0) in HL.
    eapply Inv_after_write; try eassumption.
  Qed.

  (* ---- SetAdmin ---- *)
  Lemma set_admin_sim c d a u adm :
    Inv c d a ->
    exists d' a' sr,
      set_admin d u adm = (d', res_of_sres sr) /\
      spec_step kdf_fails c a (SSetAdmin u adm) = (c, a', sr) /\
      Inv c d' a'.
  Proof.
    intros HI. unfold set_admin. cbn [spec_step].
    destruct (valid_name u) eqn:V; cbn [negb].
    2:{ exists d, a, SErr. split; [reflexivity|]. split; [reflexivity|exact HI]. }
    rewrite (exists_agree c d a u HI V).
    destruct (alookup u a) as [cr|] eqn:A.
    2:{ exists d, a, SErr. split; [destruct (name_fits u); reflexivity|]. split; [reflexivity|exact HI]. }
    pose proof HI as (Hwf & Hnd & Ha & Hd).
    destruct (Ha _ _ A) as (_ & F & h0 & salt0 & dig0 & Hh0 & Hpid0 & Hts0 & K0 & Ws0 & Ns0 & L0 & Lo0).
    destruct (Bool.eqb (a_admin cr) adm) eqn:EB.
    - apply eqb_prop in EB. subst adm.
      eexists d, _, SOk. split; [reflexivity|]. split; [reflexivity|].
      apply Inv_ext_a with (a := a); [|exact HI].
      intros u'. destruct (beq_spec u u') as [<-|NU].
      + rewrite alookup_aset_eq, A. destruct cr; reflexivity.
      + apply alookup_aset_ne; exact NU.
    - apply eqb_false_iff in EB.
      assert (EA : adm = negb (a_admin cr)).
      { destruct adm, (a_admin cr); try reflexivity; exfalso; apply EB; reflexivity. }
      subst adm. clear EB.
      rewrite L0, (fits_ext u _ F), Lo0.
      eexists _, _, SOk. split; [reflexivity|]. split; [reflexivity|].
      eapply (Inv_aset c d a _ u _ h0 salt0 dig0 (dlookup tmp_name d) HI);
        cbn [a_pw a_admin a_ts a_pid]; try assumption.
      + apply dnodup_dset, dnodup_dremove. exact Hnd.
      + left; reflexivity.
      + intros k. rewrite dlookup_dset, dlookup_dremove, negb_involutive.
        destruct (beq k (u ++ ext_of (negb (a_admin cr)))); [reflexivity|].
        destruct (beq k (u ++ ext_of (a_admin cr))); [reflexivity|].
        destruct (beq_spec k tmp_name) as [->|_]; reflexivity.
  Qed.

  (* ---- Remove ---- *)
  Lemma dlookup_unlink f d :
    (dlookup f d = None \/ exists ct, dlookup f d = Some (File ct)) ->
    forall k, dlookup k (unlink f d) = if beq k f then None else dlookup k d.
  Proof.
    intros H k. unfold unlink. destruct H as [E|(ct & E)]; rewrite E.
    - destruct (beq_spec k f) as [->|_]; [exact E|reflexivity].
    - apply dlookup_dremove.
  Qed.

  Lemma dnodup_unlink f d : dnodup d -> dnodup (unlink f d).
  Proof.
    intros H. unfold unlink. destruct (dlookup f d) as [[ct|[|x l]]|]; try exact H;
      apply dnodup_dremove; exact H.
  Qed.

  Lemma user_file_shape c d a u b :
    Inv c d a -> valid_name u = true ->
    dlookup (u ++ ext_of b) d = None \/ exists ct, dlookup (u ++ ext_of b) d = Some (File ct).
  Proof.
    intros HI V. destruct (inv_user_file c d a u b HI V) as [E|(cr & ct & _ & _ & E)].
    - left; exact E.
    - right; exists ct; exact E.
  Qed.

  Lemma remove_sim c d a u : Inv c d a -> Inv c (remove_user d u) (aremove u a).
  Proof.
    intros HI. unfold remove_user. destruct (valid_name u) eqn:V; cbn [negb].
    - pose proof HI as (Hwf & Hnd & _).
      pose proof (dlookup_unlink (u ++ ext_admin) d (user_file_shape c d a u true HI V)) as Q1.
      assert (S2 : dlookup (u ++ ext_user) (unlink (u ++ ext_admin) d) = None \/
                   exists ct, dlookup (u ++ ext_user) (unlink (u ++ ext_admin) d) = Some (File ct)).
      { rewrite Q1. destruct (beq_spec (u ++ ext_user) (u ++ ext_admin)) as [E|_].
        - left; reflexivity.
        - exact (user_file_shape c d a u false HI V). }
      pose proof (dlookup_unlink (u ++ ext_user) _ S2) as Q2.
      apply Inv_aremove with (d := d); [exact HI| |].
      + apply dnodup_unlink, dnodup_unlink. exact Hnd.
      + intros k. rewrite Q2, Q1.
        destruct (beq k (u ++ ext_user)), (beq k (u ++ ext_admin)); reflexivity.
    - apply Inv_ext_a with (a := a); [|exact HI].
      intros u'. destruct (beq_spec u u') as [<-|NU].
      + rewrite alookup_aremove_eq. symmetry. eapply inv_invalid_none; eassumption.
      + apply alookup_aremove_ne; exact NU.
  Qed.

  (* ---- Init ---- *)
  Lemma dir_empty_agree c d a :
    Inv c d a -> dir_empty d = match a with [] => true | _ => false end.
  Proof.
    intros (Hwf & Hnd & Ha & Hd). destruct a as [|[u cr] ra].
    - assert (T : forall k n, dlookup k d = Some n -> k = tmp_name /\ n = Dir []).
      { intros k n L. destruct (Hd _ _ L) as [T|(u & cr & A & _)]; [exact T|discriminate A]. }
      destruct d as [|[k n] r]; [reflexivity|].
      destruct (T k n) as [-> ->].
      { cbn [dlookup]. rewrite beq_refl. reflexivity. }
      destruct r as [|[k2 n2] r2].
      + cbn [dir_empty]. apply beq_refl.
      + exfalso. cbn [dnodup] in Hnd. destruct Hnd as [N1 _].
        cbn [dlookup] in N1.
        destruct (beq_spec tmp_name k2) as [E|NE]; [discriminate N1|].
        destruct (T k2 n2) as [E _]; [|congruence].
        cbn [dlookup]. destruct (beq_spec k2 tmp_name) as [E|_]; [congruence|].
        rewrite beq_refl. reflexivity.
    - assert (A : alookup u ((u, cr) :: ra) = Some cr).
      { cbn [alookup]. rewrite beq_refl. reflexivity. }
      destruct (Ha _ _ A) as (_ & _ & h & salt & dig & _ & _ & _ & _ & _ & _ & L & _).
      destruct d as [|[k n] [|p r]].
      + discriminate L.
      + destruct n as [ct|ch]; [reflexivity|].
        cbn [dlookup] in L. destruct (beq (u ++ ext_of (a_admin cr)) k); discriminate L.
      + destruct n; reflexivity.
  Qed.

  Lemma init_sim c d a u pw orc :
    Inv c d a -> oracle_ok orc ->
    exists d' a' sr,
      init_store kdf c d u pw orc = (d', res_of_sres sr) /\
      spec_step kdf_fails c a (SInit u pw (o_ts orc)) = (c, a', sr) /\
      Inv c d' a'.
  Proof.
    intros HI HO. unfold init_store. cbn [spec_step].
    rewrite (dir_empty_agree c d a HI). destruct a as [|p ra].
    - destruct (add_sim c d [] u pw true orc HI HO) as (d' & a' & sr & E1 & E2 & I').
      exists d', a', sr. rewrite E2. split; [exact E1|]. split; [reflexivity|exact I'].
    - exists d, (p :: ra), SErr. split; [reflexivity|]. split; [reflexivity|exact HI].
  Qed.

  (* ---- one step ---- *)
  Lemma step_sim c d a o orc :
    Inv c d a -> oracle_ok orc ->
    exists c' d' ob,
      step kdf c d o orc = (c', d', ob) /\
      match o with OpList | OpListFull | OpCheck => None | _ => Some ob end = spec_obs c a o orc /\
      match sop_of o orc with
      | Some so => exists a' r, spec_step kdf_fails c a so = (c', a', r) /\ Inv c' d' a'
      | None => c' = c /\ d' = d
      end.
  Proof.
    intros HI HO. destruct o as [u pw adm|u pw|u adm|u|u pw|u|u pw| | | |id].
    - destruct (add_sim c d a u pw adm orc HI HO) as (d' & a' & sr & E1 & E2 & I').
      exists c, d', (ORes (res_of_sres sr)). cbn [step spec_obs sop_of spec_step].
      rewrite E1, E2. split; [reflexivity|]. split; [destruct sr; reflexivity|].
      exists a', sr. split; [reflexivity|exact I'].
    - destruct (update_sim c d a u pw orc HI HO) as (d' & a' & sr & E1 & E2 & I').
      exists c, d', (ORes (res_of_sres sr)). cbn [step spec_obs sop_of].
      rewrite E1, E2. split; [reflexivity|]. split; [destruct sr; reflexivity|].
      exists a', sr. split; [reflexivity|exact I'].
    - destruct (set_admin_sim c d a u adm HI) as (d' & a' & sr & E1 & E2 & I').
      exists c, d', (ORes (res_of_sres sr)). cbn [step spec_obs sop_of].
      rewrite E1, E2. split; [reflexivity|]. split; [destruct sr; reflexivity|].
      exists a', sr. split; [reflexivity|exact I'].
    - exists c, (remove_user d u), (ORes ROk). cbn [step spec_obs sop_of spec_step].
      split; [reflexivity|]. split; [reflexivity|].
      exists (aremove u a), SOk. split; [reflexivity|apply remove_sim; exact HI].
    - destruct (init_sim c d a u pw orc HI HO) as (d' & a' & sr & E1 & E2 & I').
      exists c, d', (ORes (res_of_sres sr)). cbn [step spec_obs sop_of].
      rewrite E1, E2. split; [reflexivity|]. split; [destruct sr; reflexivity|].
      exists a', sr. split; [reflexivity|exact I'].
    - exists c, d, (OExists (if valid_name u then user_exists d u else ExErr)).
      cbn [step spec_obs sop_of]. split; [reflexivity|]. split; [|split; reflexivity].
      unfold exists_of_spec, spec_exists. destruct (valid_name u) eqn:V; cbn [negb]; [|reflexivity].
      rewrite (exists_agree c d a u HI V). destruct (alookup u a); reflexivity.
    - exists c, d, (authenticate kdf c d u pw).
      cbn [step spec_obs sop_of]. split; [reflexivity|]. split; [|split; reflexivity].
      rewrite (auth_agree c d a u pw HI). reflexivity.
    - eexists c, d, _. cbn [step spec_obs sop_of]. split; [reflexivity|].
      split; [reflexivity|split; reflexivity].
    - eexists c, d, _. cbn [step spec_obs sop_of]. split; [reflexivity|].
      split; [reflexivity|split; reflexivity].
    - eexists c, d, _. cbn [step spec_obs sop_of]. split; [reflexivity|].
      split; [reflexivity|split; reflexivity].
    - eexists _, d, (ORes ROk). cbn [step spec_obs sop_of spec_step]. split; [reflexivity|].
      split; [reflexivity|].
      exists a, SOk. split; [reflexivity|apply Inv_set_default; exact HI].
  Qed.

  (* ---- histories ---- *)
  Lemma trace_sim hs : forall c d a,
    Inv c d a -> Forall oracle_ok (map snd hs) -> trace c d hs = strace c a hs.
  Proof.
    induction hs as [|[o orc] r IH]; intros c d a HI HF; [reflexivity|].
    cbn [map snd] in HF. inversion HF as [|x l HO HF' Eq]; subst x l.
    destruct (step_sim c d a o orc HI HO) as (c' & d' & ob & E & O & S).
    cbn [trace strace]. cbv zeta. rewrite E, <- O.
    destruct (sop_of o orc) as [so|].
    - destruct S as (a' & r0 & E2 & I'). rewrite E2. f_equal. apply IH; assumption.
    - destruct S as [-> ->]. f_equal. apply IH; assumption.
  Qed.

  Lemma run_sim hs : forall c d a,
    Inv c d a -> Forall oracle_ok (map snd hs) ->
    exists c' d' a', run c d hs = (c', d') /\ srun c a hs = (c', a') /\ Inv c' d' a'.
  Proof.
    induction hs as [|[o orc] r IH]; intros c d a HI HF.
    - exists c, d, a. split; [reflexivity|]. split; [reflexivity|exact HI].
    - cbn [map snd] in HF. inversion HF as [|x l HO HF' Eq]; subst x l.
      destruct (step_sim c d a o orc HI HO) as (c' & d' & ob & E & O & S).
      cbn [run srun]. rewrite E.
      destruct (sop_of o orc) as [so|].
      + destruct S as (a' & r0 & E2 & I'). rewrite E2. apply IH; assumption.
      + destruct S as [-> ->]. apply IH; assumption.
  Qed.

  (* ---- C01, main statement: for every history from an empty store, every
     visible result equals the one the abstract password map prescribes ---- *)
  Theorem store_refines_spec (hs : hist) (c : config) :
    cfg_wf c -> Forall oracle_ok (map snd hs) ->
    trace c [] hs = strace c [] hs.
  Proof.
    intros Hwf HF. apply trace_sim; [apply Inv_empty; exact Hwf|exact HF].
  Qed.

  (* after any history the verdict on ANY (user, password) is the specified one *)
  Theorem auth_after_history (hs : hist) (c : config) (u p : bytes) :
    cfg_wf c -> Forall oracle_ok (map snd hs) ->
    let '(c1, d1) := run c [] hs in
    let '(c2, a) := srun c [] hs in
    c1 = c2 /\
    authenticate kdf c1 d1 u p = obs_of_sauth (spec_auth sha256 kdf_fails c1 a u p) /\
    (valid_name u = true -> user_exists d1 u =
       match spec_exists a u with Some adm => ExYes adm | None => if name_fits u then ExNo else ExErr end).
  Proof.
    intros Hwf HF.
    destruct (run_sim hs c [] [] (Inv_empty c Hwf) HF) as (c' & d' & a' & R & S & HI).
    rewrite R, S. split; [reflexivity|]. split.
    - apply auth_agree; exact HI.
    - intros V. rewrite (exists_agree c' d' a' u HI V). unfold spec_exists.
      destruct (alookup u a'); reflexivity.
  Qed.

  (* list agrees with the map: exactly the users whose parameter set is still
     configured, with their admin flag and last-change time *)
  Theorem list_after_history (hs : hist) (c : config) :
    cfg_wf c -> Forall oracle_ok (map snd hs) ->
    let '(c1, d1) := run c [] hs in
    let '(_, a) := srun c [] hs in
    exists l, list_users c1 d1 [] = Some l /\
      forall u ui, alookup u l = Some ui <->
        exists cr, alookup u a = Some cr /\ ui = {| ui_admin := a_admin cr; ui_ts := a_ts cr |}.
  Proof.
    intros Hwf HF.
    destruct (run_sim hs c [] [] (Inv_empty c Hwf) HF) as (c' & d' & a' & R & S & HI).
    rewrite R, S. apply list_agree with (c := c') (d := d'); exact HI.
  Qed.

  (* near-miss corollaries (argon2id: exact bytes) *)
  Theorem near_miss_argon (hs : hist) (c : config) (u p : bytes) cr t m th l :
    cfg_wf c -> Forall oracle_ok (map snd hs) ->
    let '(c1, d1) := run c [] hs in
    let '(_, a) := srun c [] hs in
    alookup u a = Some cr -> cfg_hasher c1 (a_pid cr) = Some (HArgon t m th l) ->
    p <> a_pw cr ->
    authenticate kdf c1 d1 u p = OAuth false false false 0%Z.
  Proof.
    intros Hwf HF.
    destruct (run_sim hs c [] [] (Inv_empty c Hwf) HF) as (c' & d' & a' & R & S & HI).
    rewrite R, S. intros A Hh NE.
    rewrite (auth_agree c' d' a' u p HI). unfold spec_auth. rewrite A, Hh.
    cbn [keyeq].
    destruct (beq_spec (a_pw cr) p) as [E|_]; [exfalso; apply NE; symmetry; exact E|].
    rewrite andb_false_r. reflexivity.
  Qed.
End Refinement.

(* characterisation of the scrypt key equivalence (PBKDF2-HMAC keys) *)
Lemma rev_repeat_byte b n : rev (repeat_byte b n) = repeat_byte b n.
Proof.
  assert (S : forall k, repeat_byte b k ++ [b] = b :: repeat_byte b k).
  { induction k as [|k IH]; cbn [repeat_byte app]; [reflexivity|]. rewrite IH. reflexivity. }
  induction n as [|n IH]; cbn [repeat_byte rev]; [reflexivity|].
  rewrite IH. apply S.
Qed.

Lemma repeat_byte_app b n m : repeat_byte b n ++ repeat_byte b m = repeat_byte b (n + m).
Proof.
  induction n as [|n IH]; cbn [repeat_byte app Nat.add]; [reflexivity|].
  rewrite IH. reflexivity.
Qed.

Lemma strip0_rev_zeros n r : strip0_rev (repeat_byte 0 n ++ r) = strip0_rev r.
Proof.
  induction n as [|n IH]; cbn [repeat_byte app strip0_rev]; [reflexivity|exact IH].
Qed.

Lemma strip0_rev_idem r : strip0_rev (strip0_rev r) = strip0_rev r.
Proof.
  induction r as [|x r IH]; [reflexivity|].
  destruct x as [|q]; cbn [strip0_rev]; [exact IH|reflexivity].
Qed.

Lemma strip0_rev_decomp r : exists k, r = repeat_byte 0 k ++ strip0_rev r.
Proof.
  induction r as [|x r IH].
  - exists O. reflexivity.
  - destruct x as [|q]; cbn [strip0_rev].
    + destruct IH as [k IH]. exists (S k). cbn [repeat_byte app]. rewrite <- IH. reflexivity.
    + exists O. reflexivity.
Qed.

Lemma strip0_decomp p : exists k, p = strip0 p ++ repeat_byte 0 k.
Proof.
  destruct (strip0_rev_decomp (rev p)) as [k E]. exists k.
  unfold strip0. rewrite <- (rev_involutive p) at 1. rewrite E at 1.
  rewrite rev_app_distr, rev_repeat_byte. reflexivity.
Qed.

Lemma strip0_app_zeros p n : strip0 (p ++ repeat_byte 0 n) = strip0 p.
Proof.
  unfold strip0. rewrite rev_app_distr, rev_repeat_byte, strip0_rev_zeros. reflexivity.
Qed.

Lemma strip0_idem p : strip0 (strip0 p) = strip0 p.
Proof.
  unfold strip0. rewrite rev_involutive, strip0_rev_idem. reflexivity.
Qed.

Lemma strip0_no_trailing_zero p q :
  strip0 p = strip0 q <-> exists n m, p ++ repeat_byte 0 n = q ++ repeat_byte 0 m.
Proof.
  split.
  - intros E. destruct (strip0_decomp p) as [kp Hp]. destruct (strip0_decomp q) as [kq Hq].
    exists kq, kp. rewrite Hp at 1. rewrite Hq at 1. rewrite E.
    rewrite <- !app_assoc, !repeat_byte_app. f_equal. f_equal. apply Nat.add_comm.
  - intros (n & m & E). rewrite <- (strip0_app_zeros p n), <- (strip0_app_zeros q m), E.
    reflexivity.
Qed.

Section KeyEq.
  Variable sha256 : bytes -> bytes.
  Lemma keyeq_scrypt_short k cst r pp p q :
    len p <= 64 -> len q <= 64 ->
    keyeq sha256 (HScrypt k cst r pp) p q = true <-> strip0 p = strip0 q.
  Proof.
    intros Hp Hq. cbn [keyeq]. unfold hmac_norm.
    apply N.ltb_ge in Hp. apply N.ltb_ge in Hq. rewrite Hp, Hq. apply beq_eq.
  Qed.

  Lemma keyeq_scrypt_long k cst r pp p :
    64 < len p -> len (sha256 p) <= 64 ->
    keyeq sha256 (HScrypt k cst r pp) p (sha256 p) = true.
  Proof.
    intros Hp Hs. cbn [keyeq]. unfold hmac_norm.
    apply N.ltb_lt in Hp. apply N.ltb_ge in Hs. rewrite Hp, Hs. apply beq_refl.
  Qed.

  Lemma keyeq_argon t m th l p q :
    keyeq sha256 (HArgon t m th l) p q = true <-> p = q.
  Proof. cbn [keyeq]. apply beq_eq. Qed.
End KeyEq.
