(* Store_proofs.v — the file-level store (Store.v) refines the abstract
   password map (StoreSpec.v) over every operation history. *)
From Whawty Require Import Bytes Bytes_proofs Base64 Base64_proofs Names Record Record_proofs Store StoreSpec.
From Coq Require Import ZifyN ZifyNat ZifyBool.
Open Scope N_scope.

Definition hist := list (op * oracle).

Definition oracle_ok (o : oracle) : Prop :=
  (- (max_i64 + 1) <= o_ts o <= max_i64)%Z /\ bytes_wf (o_salt o) = true /\ o_salt o <> [].

Definition cfg_wf (c : config) : Prop :=
  forall id h, In (id, h) (params c) -> id <= max_u64.

Section Refinement.
  Variable kdf : hasher -> bytes -> bytes -> option bytes.
  Variable sha256 : bytes -> bytes.
  Variable kdf_fails : hasher -> bool.

  (* assumptions about the cryptographic primitives, stated as premises *)
  Hypothesis kdf_fail_iff : forall h s p, kdf h s p = None <-> kdf_fails h = true.
  Hypothesis kdf_out : forall h s p d, kdf h s p = Some d -> bytes_wf d = true /\ d <> [].
  Hypothesis kdf_inj : forall h s p q d,
      kdf h s p = Some d -> kdf h s q = Some d -> keyeq sha256 h p q = true.
  Hypothesis kdf_resp : forall h s p q, keyeq sha256 h p q = true -> kdf h s p = kdf h s q.

  (* the concrete run *)
  Fixpoint run (c : config) (d : dirst) (hs : hist) : config * dirst :=
    match hs with
    | [] => (c, d)
    | (o, orc) :: r => let '(c', d', _) := step kdf c d o orc in run c' d' r
    end.

  Definition sop_of (o : op) (orc : oracle) : option sop :=
    match o with
    | OpAdd u pw adm => Some (SAdd u pw adm (o_ts orc))
    | OpUpdate u pw => Some (SUpdate u pw (o_ts orc))
    | OpSetAdmin u adm => Some (SSetAdmin u adm)
    | OpRemove u => Some (SRemove u)
    | OpInit u pw => Some (SInit u pw (o_ts orc))
    | OpSetDefault id => Some (SSetDefault id)
    | _ => None
    end.

  (* the abstract run *)
  Fixpoint srun (c : config) (a : amap) (hs : hist) : config * amap :=
    match hs with
    | [] => (c, a)
    | (o, orc) :: r =>
        match sop_of o orc with
        | Some so => let '(c', a', _) := spec_step kdf_fails c a so in srun c' a' r
        | None => srun c a r
        end
    end.

  Definition obs_of_sauth (s : sauth) : obs :=
    match s with
    | SAuthOk adm upg ts => OAuth true adm upg ts
    | SAuthNo => OAuth false false false 0%Z
    end.

  Definition obs_of_sres (r : sres) : obs := match r with SOk => ORes ROk | SErr => ORes RErr end.

  Definition exists_of_spec (a : amap) (u : bytes) : exists_res :=
    if negb (valid_name u) then ExErr
    else match spec_exists a u with
         | Some adm => ExYes adm
         | None => if name_fits u then ExNo else ExErr
         end.

  (* what the specification prescribes as the visible result of one operation
     (List / ListFull / Check are covered by separate statements) *)
  Definition spec_obs (c : config) (a : amap) (o : op) (orc : oracle) : option obs :=
    match o with
    | OpAuth u p => Some (obs_of_sauth (spec_auth sha256 kdf_fails c a u p))
    | OpExists u => Some (OExists (exists_of_spec a u))
    | OpList | OpListFull | OpCheck => None
    | _ => match sop_of o orc with
           | Some so => let '(_, _, r) := spec_step kdf_fails c a so in Some (obs_of_sres r)
           | None => None
           end
    end.

  (* the per-operation visible results of the concrete run and of the
     specification, side by side *)
  Fixpoint trace (c : config) (d : dirst) (hs : hist) : list (option obs) :=
    match hs with
    | [] => []
    | (o, orc) :: r =>
        let '(c', d', ob) := step kdf c d o orc in
        (match o with OpList | OpListFull | OpCheck => None | _ => Some ob end) :: trace c' d' r
    end.

  Fixpoint strace (c : config) (a : amap) (hs : hist) : list (option obs) :=
    match hs with
    | [] => []
    | (o, orc) :: r =>
        let ob := spec_obs c a o orc in
        match sop_of o orc with
        | Some so => let '(c', a', _) := spec_step kdf_fails c a so in ob :: strace c' a' r
        | None => ob :: strace c a r
        end
    end.

  (* ---- C01, main statement: for every history from an empty store, every
     visible result equals the one the abstract password map prescribes ---- *)
  Theorem store_refines_spec (hs : hist) (c : config) :
    cfg_wf c -> Forall oracle_ok (map snd hs) ->
    trace c [] hs = strace c [] hs.
  Admitted.

  (* after any history the verdict on ANY (user, password) is the specified one *)
  Theorem auth_after_history (hs : hist) (c : config) (u p : bytes) :
    cfg_wf c -> Forall oracle_ok (map snd hs) ->
    let '(c1, d1) := run c [] hs in
    let '(c2, a) := srun c [] hs in
    c1 = c2 /\
    authenticate kdf c1 d1 u p = obs_of_sauth (spec_auth sha256 kdf_fails c1 a u p) /\
    (valid_name u = true -> user_exists d1 u =
       match spec_exists a u with Some adm => ExYes adm | None => if name_fits u then ExNo else ExErr end).
  Admitted.

  (* list agrees with the map: exactly the users whose parameter set is still
     configured, with their admin flag and last-change time *)
  Theorem list_after_history (hs : hist) (c : config) :
    cfg_wf c -> Forall oracle_ok (map snd hs) ->
    let '(c1, d1) := run c [] hs in
    let '(_, a) := srun c [] hs in
    exists l, list_users c1 d1 [] = Some l /\
      forall u ui, alookup u l = Some ui <->
        exists cr, alookup u a = Some cr /\ ui = {| ui_admin := a_admin cr; ui_ts := a_ts cr |}.
  Admitted.

  (* near-miss corollaries (argon2id: exact bytes) *)
  Theorem near_miss_argon (hs : hist) (c : config) (u p : bytes) cr t m th l :
    cfg_wf c -> Forall oracle_ok (map snd hs) ->
    let '(c1, d1) := run c [] hs in
    let '(_, a) := srun c [] hs in
    alookup u a = Some cr -> cfg_hasher c1 (a_pid cr) = Some (HArgon t m th l) ->
    p <> a_pw cr ->
    authenticate kdf c1 d1 u p = OAuth false false false 0%Z.
  Admitted.
End Refinement.

(* characterisation of the scrypt key equivalence (PBKDF2-HMAC keys) *)
Lemma strip0_app_zeros p n : strip0 (p ++ repeat_byte 0 n) = strip0 p.
Admitted.

Lemma strip0_idem p : strip0 (strip0 p) = strip0 p.
Admitted.

Lemma strip0_no_trailing_zero p q :
  strip0 p = strip0 q <-> exists n m, p ++ repeat_byte 0 n = q ++ repeat_byte 0 m.
Admitted.

Section KeyEq.
  Variable sha256 : bytes -> bytes.
  Lemma keyeq_scrypt_short k cst r pp p q :
    len p <= 64 -> len q <= 64 ->
    keyeq sha256 (HScrypt k cst r pp) p q = true <-> strip0 p = strip0 q.
  Admitted.

  Lemma keyeq_scrypt_long k cst r pp p :
    64 < len p -> len (sha256 p) <= 64 ->
    keyeq sha256 (HScrypt k cst r pp) p (sha256 p) = true.
  Admitted.

  Lemma keyeq_argon t m th l p q :
    keyeq sha256 (HArgon t m th l) p q = true <-> p = q.
  Admitted.
End KeyEq.
