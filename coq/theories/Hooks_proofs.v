(* Hooks_proofs.v — C19: no change un-notified, bursts coalesced, only
   eligible files run. *)
From Whawty Require Import Bytes Bytes_proofs Hooks.
From Coq Require Import ZifyN ZifyNat ZifyBool.
Open Scope N_scope.

(* invariant of the loop: the timer is armed exactly while notifications are pending *)
Definition hinv (s : hstate) : Prop := h_armed s = negb (h_pending s =? 0).

Theorem hinv_preserved s e : hinv s -> hinv (fst (hstep s e)).
Proof.
  unfold hinv; intros Hi. destruct e as [| |st]; cbn [hstep].
  - destruct (h_pending s =? 0) eqn:E; cbn [fst h_pending h_armed].
    + reflexivity.
    + rewrite Hi. cbn [negb]. symmetry. apply negb_true_iff. apply N.eqb_neq. lia.
  - destruct (h_armed s) eqn:Ea; cbn [fst h_pending h_armed].
    + reflexivity.
    + rewrite Ea. exact Hi.
  - cbn [fst h_pending h_armed]. exact Hi.
Qed.

Theorem hinv_run evs : forall s, hinv s -> hinv (fst (hrun s evs)).
Proof.
  induction evs as [|e r IH]; intros s Hi; cbn [hrun].
  - exact Hi.
  - pose proof (hinv_preserved s e Hi) as Hp.
    destruct (hstep s e) as [s' o]. cbn [fst] in Hp.
    specialize (IH s' Hp). destruct (hrun s' r) as [s'' os]. exact IH.
Qed.

(* No change un-notified (safety form): a notification either runs the hooks
   at once (leading edge) or leaves the loop with the timer armed and more
   than one pending - so the next timer event runs them.  [covered] says the
   latest notification has been followed by a round. *)
Theorem notify_runs_or_arms s :
  hinv s ->
  let '(s', out) := hstep s HNotify in
  (out = [RunAll (h_store s)] /\ h_pending s = 0) \/
  (out = [] /\ h_armed s' = true /\ 1 < h_pending s').
Proof.
  unfold hinv; intros Hi. cbn [hstep].
  destruct (h_pending s =? 0) eqn:E.
  - left. apply N.eqb_eq in E. auto.
  - right. cbn [h_armed h_pending]. rewrite Hi. apply N.eqb_neq in E.
    repeat split; try reflexivity. lia.
Qed.

Theorem timer_after_late_notify_runs s :
  h_armed s = true -> 1 < h_pending s ->
  snd (hstep s HTimer) = [RunAll (h_store s)] /\ h_pending (fst (hstep s HTimer)) = 0.
Proof.
  intros Ha Hp. cbn [hstep]. rewrite Ha. cbn [fst snd h_pending].
  assert (E : (1 <? h_pending s) = true) by (apply N.ltb_lt; exact Hp).
  rewrite E. auto.
Qed.

Fixpoint rounds (os : list (list hout)) : nat :=
  match os with [] => O | o :: r => (length o + rounds r)%nat end.

(* timer-free runs *)
Lemma htimer_len s : (length (snd (hstep s HTimer)) <= 1)%nat.
Proof.
  cbn [hstep]. destruct (h_armed s); cbn [snd length]; [|lia].
  destruct (1 <? h_pending s); cbn [length]; lia.
Qed.

Lemma hrun_armed evs : forall s, hinv s -> h_pending s <> 0 ->
  Forall (fun e => e <> HTimer) evs ->
  rounds (snd (hrun s evs)) = O /\ h_pending s <= h_pending (fst (hrun s evs)) /\
  hinv (fst (hrun s evs)).
Proof.
  induction evs as [|e r IH]; intros s Hi Hne Hf; cbn [hrun].
  - cbn [fst snd rounds]. repeat split; [lia|exact Hi].
  - inversion Hf as [|e' r' He Hr]; subst e' r'.
    pose proof (hinv_preserved s e Hi) as Hp.
    assert (Hs : snd (hstep s e) = [] /\ h_pending s <= h_pending (fst (hstep s e))).
    { destruct e as [| |st]; cbn [hstep].
      - destruct (h_pending s =? 0) eqn:E; [apply N.eqb_eq in E; contradiction|].
        cbn [fst snd h_pending]. split; [reflexivity|lia].
      - congruence.
      - cbn [fst snd h_pending]. split; [reflexivity|lia]. }
    destruct Hs as [Ho Hge].
    destruct (hstep s e) as [s' o]. cbn [fst snd] in *. subst o.
    assert (Hne' : h_pending s' <> 0) by lia.
    destruct (IH s' Hp Hne' Hr) as (H0 & Hge' & Hi').
    destruct (hrun s' r) as [s'' os]. cbn [fst snd rounds length] in *.
    repeat split; [lia|lia|exact Hi'].
Qed.

Lemma hrun_rounds_le1 evs : forall s, hinv s ->
  Forall (fun e => e <> HTimer) evs -> (rounds (snd (hrun s evs)) <= 1)%nat.
Proof.
  induction evs as [|e r IH]; intros s Hi Hf; cbn [hrun].
  - cbn [snd rounds]. lia.
  - inversion Hf as [|e' r' He Hr]; subst e' r'.
    pose proof (hinv_preserved s e Hi) as Hp.
    destruct e as [| |st].
    + cbn [hstep] in *. destruct (h_pending s =? 0) eqn:E.
      * cbn [fst] in Hp.
        match type of Hp with hinv ?s1 => set (s' := s1) in * end.
        assert (Hne' : h_pending s' <> 0) by (unfold s'; cbn [h_pending]; lia).
        destruct (hrun_armed r s' Hp Hne' Hr) as (H0 & _ & _).
        destruct (hrun s' r) as [s'' os]. cbn [fst snd rounds length] in *. lia.
      * cbn [fst] in Hp.
        match type of Hp with hinv ?s1 => set (s' := s1) in * end.
        apply N.eqb_neq in E.
        assert (Hne' : h_pending s' <> 0) by (unfold s'; cbn [h_pending]; lia).
        destruct (hrun_armed r s' Hp Hne' Hr) as (H0 & _ & _).
        destruct (hrun s' r) as [s'' os]. cbn [fst snd rounds length] in *. lia.
    + congruence.
    + cbn [hstep] in *. cbn [fst] in Hp.
      specialize (IH _ Hp Hr).
      match type of Hp with hinv ?s1 => set (s' := s1) in * end.
      destruct (hrun s' r) as [s'' os]. cbn [fst snd rounds length] in *. lia.
Qed.

(* every notification is covered: at it, or at the next timer event *)
Theorem every_notify_covered s evs1 :
  hinv s ->
  (* the events after a notification up to and including the next timer event contain no other timer *)
  Forall (fun e => e <> HTimer) evs1 ->
  let '(s1, o1) := hstep s HNotify in
  let '(s2, os) := hrun s1 evs1 in
  let '(s3, o3) := hstep s2 HTimer in
  o1 <> [] \/ o3 <> [].
Proof.
  intros Hi Hf.
  pose proof (notify_runs_or_arms s Hi) as Hn.
  pose proof (hinv_preserved s HNotify Hi) as Hi1.
  destruct (hstep s HNotify) as [s1 o1]. cbn [fst] in Hi1.
  destruct Hn as [[Ho _]|(Ho & Ha1 & Hp1)].
  - destruct (hrun s1 evs1) as [s2 os]. destruct (hstep s2 HTimer) as [s3 o3].
    left. subst o1. discriminate.
  - pose proof (hrun_armed evs1 s1 Hi1 ltac:(lia) Hf) as (_ & Hge & Hi2).
    destruct (hrun s1 evs1) as [s2 os]. cbn [fst snd] in *.
    assert (Ha2 : h_armed s2 = true).
    { unfold hinv in Hi2. rewrite Hi2. apply negb_true_iff. apply N.eqb_neq. lia. }
    pose proof (timer_after_late_notify_runs s2 Ha2 ltac:(lia)) as [Hs _].
    destruct (hstep s2 HTimer) as [s3 o3]. cbn [snd] in Hs.
    right. subst o3. discriminate.
Qed.

(* Coalescing: between two consecutive timer events (one rate-limit
   interval: the timer is armed by the leading notification and fires once)
   there are at most two rounds, however many notifications arrive. *)

Theorem at_most_two_rounds_per_interval s evs :
  hinv s -> Forall (fun e => e <> HTimer) evs ->
  let '(s1, os) := hrun s evs in
  let '(s2, o2) := hstep s1 HTimer in
  (rounds os + length o2 <= 2)%nat /\ (h_armed s = true -> (rounds os + length o2 <= 1)%nat).
Proof.
  intros Hi Hf.
  pose proof (hrun_rounds_le1 evs s Hi Hf) as H1.
  pose proof (hrun_armed evs s Hi) as HA.
  destruct (hrun s evs) as [s1 os] eqn:Er. cbn [fst snd] in *.
  pose proof (htimer_len s1) as HT.
  destruct (hstep s1 HTimer) as [s2 o2]. cbn [snd] in HT.
  split; [lia|].
  intros Ha. unfold hinv in Hi. rewrite Ha in Hi.
  assert (Hne : h_pending s <> 0).
  { intros E0. rewrite E0 in Hi. discriminate. }
  destruct (HA Hne Hf) as (H0 & _ & _). lia.
Qed.

(* a round always uses the store most recently announced *)
Theorem round_uses_current_store s e st :
  In (RunAll st) (snd (hstep s e)) -> st = h_store s.
Proof.
  destruct e as [| |st']; cbn [hstep].
  - destruct (h_pending s =? 0); cbn [snd In]; intros H; [|tauto].
    destruct H as [H|[]]. congruence.
  - destruct (h_armed s); cbn [snd In]; [|tauto].
    destruct (1 <? h_pending s); cbn [In]; intros H; [|tauto].
    destruct H as [H|[]]. congruence.
  - cbn [snd In]. tauto.
Qed.

Theorem newstore_switches s st : h_store (fst (hstep s (HNewStore st))) = st /\ snd (hstep s (HNewStore st)) = [].
Proof.
  cbn [hstep fst snd h_store]. auto.
Qed.

(* eligibility: exactly the non-hidden, executable regular files and symlinks
   of a directory that is not world-writable *)
Theorem only_eligible_run dir_mode entries n :
  In n (hooks_to_run dir_mode entries) <->
  N.land dir_mode 2 = 0 /\ exists e, In e entries /\ e_name e = n /\ eligible e = true.
Proof.
  unfold hooks_to_run.
  destruct (N.land dir_mode 2 =? 0) eqn:E; cbn [negb].
  - apply N.eqb_eq in E. rewrite in_map_iff. split.
    + intros (e & Hn & Hin). apply filter_In in Hin. destruct Hin as [Hin He].
      split; [exact E|]. exists e. auto.
    + intros (_ & e & Hin & Hn & He). exists e. split; [exact Hn|].
      apply filter_In. auto.
  - apply N.eqb_neq in E. split.
    + intros [].
    + intros (E0 & _). contradiction.
Qed.

Theorem world_writable_runs_nothing dir_mode entries :
  N.land dir_mode 2 <> 0 -> hooks_to_run dir_mode entries = [].
Proof.
  intros H. unfold hooks_to_run. apply N.eqb_neq in H. rewrite H. reflexivity.
Qed.

Theorem eligible_spec e :
  eligible e = true <->
  (match e_name e with 46 :: _ => False | _ => True end) /\
  (e_type e = TRegular \/ e_type e = TSymlink) /\ N.land (e_mode e) 73 <> 0.
Proof.
  unfold eligible. rewrite !andb_true_iff, !negb_true_iff, N.eqb_neq.
  assert (Hn : has_prefix [46] (e_name e) = false <->
               match e_name e with 46 :: _ => False | _ => True end).
  { destruct (e_name e) as [|y r]; cbn [has_prefix].
    - split; auto.
    - rewrite andb_true_r. destruct (46 =? y) eqn:Ey.
      + apply N.eqb_eq in Ey. subst y. split; [discriminate|intros []].
      + apply N.eqb_neq in Ey. split; [intros _|reflexivity].
        destruct y as [|q]; [exact I|].
        do 6 (try (destruct q as [q|q|]; try exact I; try congruence)). }
  assert (Ht : match e_type e with TRegular | TSymlink => true | _ => false end = true <->
               (e_type e = TRegular \/ e_type e = TSymlink)).
  { destruct (e_type e); split; intros H; try discriminate; auto;
    destruct H as [H|H]; discriminate. }
  rewrite Hn, Ht. tauto.
Qed.
