(* C14_proofs.v — what add / update write is exactly the schema record of the
   configured default parameter set. *)
From Whawty Require Import Bytes Bytes_proofs Base64 Base64_proofs Names Record Record_proofs Store StoreOps_proofs.
From Coq Require Import ZifyN ZifyNat ZifyBool.
Open Scope N_scope.

(* the schema's line, spelled out *)
Definition schema_line (h : hasher) (ts : Z) (pid : N) (salt dig : bytes) : bytes :=
  fmt_of h ++ [colon] ++ dec_Z ts ++ [colon] ++ dec_N pid ++ [colon] ++
  url_enc salt ++ [colon] ++ url_enc dig ++ [lf].

(* splitting at the first separator is unambiguous *)
Lemma split_first_sep (sep : byte) (a : bytes) : forall (b x y : bytes),
  contains sep a = false -> contains sep b = false ->
  a ++ sep :: x = b ++ sep :: y -> a = b /\ x = y.
Proof.
  induction a as [|c a IH]; intros b x y Ha Hb E.
  - destruct b as [|c' b].
    + cbn [app] in E. injection E as E. split; [reflexivity|exact E].
    + cbn [app] in E. injection E as E1 E2. subst c'.
      rewrite contains_cons, N.eqb_refl in Hb. discriminate.
  - destruct b as [|c' b].
    + cbn [app] in E. injection E as E1 E2. subst c.
      rewrite contains_cons, N.eqb_refl in Ha. discriminate.
    + cbn [app] in E. injection E as E1 E2. subst c'.
      rewrite contains_cons in Ha, Hb.
      apply orb_false_iff in Ha. destruct Ha as [_ Ha].
      apply orb_false_iff in Hb. destruct Hb as [_ Hb].
      destruct (IH b x y Ha Hb E2) as [-> ->]. split; reflexivity.
Qed.

Section W.
  Variable kdf : hasher -> bytes -> bytes -> option bytes.

  Lemma print_record_is_schema_line h ts pid salt dig :
    print_record h ts pid (url_enc salt ++ [colon] ++ url_enc dig) = schema_line h ts pid salt dig.
  Proof.
    unfold print_record, schema_line. rewrite <- !app_assoc. reflexivity.
  Qed.

  Lemma hash_generate_inv h salt pw hs :
    hash_generate kdf h salt pw = Some hs ->
    exists dig, kdf h salt pw = Some dig /\ hs = url_enc salt ++ [colon] ++ url_enc dig.
  Proof.
    unfold hash_generate. destruct (kdf h salt pw) as [dig|]; [|discriminate].
    intros H. injection H as <-. exists dig. split; reflexivity.
  Qed.

  (* a successful add writes exactly one schema line for (default set, oracle
     time, oracle salt, digest of exactly this password) *)
  Theorem add_writes_schema_record c d u pw adm o d' :
    NoDup (keys d) ->
    add_user kdf c d u pw adm o = (d', ROk) ->
    exists h dig, cfg_hasher c (default c) = Some h /\ kdf h (o_salt o) pw = Some dig /\
      dlookup (u ++ ext_of adm) d' = Some (File (schema_line h (o_ts o) (default c) (o_salt o) dig)).
  Proof.
    intros Hnd H.
    destruct (add_frame kdf c d u pw adm o d' Hnd H) as (h & hs & Hh & Hg & _ & Hl & _).
    destruct (hash_generate_inv _ _ _ _ Hg) as (dig & Hk & ->).
    exists h, dig. split; [exact Hh|]. split; [exact Hk|].
    rewrite Hl, print_record_is_schema_line. reflexivity.
  Qed.

  Theorem update_writes_schema_record c d u pw o d' :
    NoDup (keys d) ->
    update_user kdf c d u pw o = (d', ROk) ->
    exists adm old h dig, user_exists d u = ExYes adm /\ dlookup (u ++ ext_of adm) d = Some (File old) /\
      cfg_hasher c (default c) = Some h /\ kdf h (o_salt o) pw = Some dig /\
      dlookup (u ++ ext_of adm) d' =
        Some (File (schema_line h (o_ts o) (default c) (o_salt o) dig ++ after_first_line old)).
  Proof.
    intros Hnd H.
    destruct (update_frame kdf c d u pw o d' Hnd H)
      as (adm & old & h & hs & Hex & Hold & Hh & Hg & Hl & _).
    destruct (hash_generate_inv _ _ _ _ Hg) as (dig & Hk & ->).
    exists adm, old, h, dig.
    split; [exact Hex|]. split; [exact Hold|]. split; [exact Hh|]. split; [exact Hk|].
    rewrite Hl, print_record_is_schema_line. reflexivity.
  Qed.

  (* the line parses back to its fields (any tail) *)
  Theorem schema_line_parses h ts pid salt dig tail :
    (- (max_i64 + 1) <= ts <= max_i64)%Z -> pid <= max_u64 ->
    bytes_wf salt = true -> bytes_wf dig = true ->
    exists r, parse_record (schema_line h ts pid salt dig ++ tail) = Some r /\
      r_fmt r = fmt_of h /\ r_ts r = ts /\ r_pid r = pid /\ decode_hash (r_hash r) = Some (salt, dig).
  Proof.
    intros Hts Hpid Hs Hd.
    rewrite <- print_record_is_schema_line.
    rewrite (parse_record_print h ts pid _ tail Hts Hpid (enc_pair_no_lf salt dig Hs Hd)).
    eexists. split; [reflexivity|]. cbn [r_fmt r_ts r_pid r_hash].
    split; [reflexivity|]. split; [reflexivity|]. split; [reflexivity|].
    rewrite <- !app_assoc. apply decode_hash_enc; assumption.
  Qed.

  (* exactly one line: the record itself contains a single LF, at its end *)
  Theorem schema_line_single_line h ts pid salt dig :
    bytes_wf salt = true -> bytes_wf dig = true ->
    exists body, schema_line h ts pid salt dig = body ++ [lf] /\ contains lf body = false.
  Proof.
    intros Hs Hd.
    exists (fmt_of h ++ colon :: dec_Z ts ++ colon :: dec_N pid ++ colon ::
            (url_enc salt ++ [colon] ++ url_enc dig)).
    split.
    - unfold schema_line. repeat (rewrite <- ?app_assoc; cbn [app]). reflexivity.
    - apply header_no_lf. apply enc_pair_no_lf; assumption.
  Qed.

  (* what is written depends on the password only through the digest: two
     passwords with the same digest give byte-identical stores (so neither
     the password nor anything else about it - nor the HMAC key, which only
     enters through kdf - is stored) *)
  Theorem written_depends_on_digest_only c d u p1 p2 adm o h :
    cfg_hasher c (default c) = Some h -> kdf h (o_salt o) p1 = kdf h (o_salt o) p2 ->
    add_user kdf c d u p1 adm o = add_user kdf c d u p2 adm o /\
    update_user kdf c d u p1 o = update_user kdf c d u p2 o.
  Proof.
    intros Hh Hk.
    assert (W : forall a mc, write_hash kdf c d u p1 a mc o = write_hash kdf c d u p2 a mc o).
    { intros a mc. unfold write_hash, hash_generate. rewrite Hh, Hk. reflexivity. }
    split.
    - unfold add_user. rewrite W. reflexivity.
    - unfold update_user.
      destruct (negb (valid_name u)); [reflexivity|].
      destruct (user_exists d u) as [a| |]; try reflexivity.
      rewrite W. reflexivity.
  Qed.

  (* salt and digest are recoverable from the line: two writes with different
     salts never produce the same record, whatever else coincides *)
  Theorem schema_line_injective h ts pid s1 s2 d1 d2 :
    bytes_wf s1 = true -> bytes_wf s2 = true -> bytes_wf d1 = true -> bytes_wf d2 = true ->
    schema_line h ts pid s1 d1 = schema_line h ts pid s2 d2 -> s1 = s2 /\ d1 = d2.
  Proof.
    intros Hs1 Hs2 Hd1 Hd2 E. unfold schema_line in E.
    do 6 apply app_inv_head in E.
    cbn [app] in E.
    apply (split_first_sep colon) in E.
    - destruct E as [E1 E2]. apply app_inv_tail in E2.
      unfold url_enc in E1, E2.
      split; [eapply b64enc_inj; eassumption | eapply b64enc_inj; eassumption].
    - exact (b64enc_no_colon UrlAlpha s1 Hs1).
    - exact (b64enc_no_colon UrlAlpha s2 Hs2).
  Qed.
End W.
