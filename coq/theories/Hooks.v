(* Hooks.v — cmd/whawty-auth/hooks.go: the notify / rate-limit loop of
   HooksCaller.run and the eligibility test of runAllHooks. *)
From Whawty Require Import Bytes.
Open Scope N_scope.

Inductive hev := HNotify | HTimer | HNewStore (s : bytes).

Record hstate := { h_pending : N; h_armed : bool; h_store : bytes }.

Inductive hout := RunAll (store : bytes).

(* one iteration of the select loop; HTimer is only delivered when armed *)
Definition hstep (s : hstate) (e : hev) : hstate * list hout :=
  match e with
  | HTimer =>
      if h_armed s
      then ({| h_pending := 0; h_armed := false; h_store := h_store s |},
            if 1 <? h_pending s then [RunAll (h_store s)] else [])
      else (s, [])
  | HNotify =>
      if h_pending s =? 0
      then ({| h_pending := 1; h_armed := true; h_store := h_store s |}, [RunAll (h_store s)])
      else ({| h_pending := h_pending s + 1; h_armed := h_armed s; h_store := h_store s |}, [])
  | HNewStore st => ({| h_pending := h_pending s; h_armed := h_armed s; h_store := st |}, [])
  end.

Fixpoint hrun (s : hstate) (evs : list hev) : hstate * list (list hout) :=
  match evs with
  | [] => (s, [])
  | e :: r => let '(s', o) := hstep s e in
              let '(s'', os) := hrun s' r in (s'', o :: os)
  end.

Definition hinit (store : bytes) : hstate := {| h_pending := 0; h_armed := false; h_store := store |}.

(* ---- eligibility of a directory entry ---- *)
Inductive ftype := TRegular | TSymlink | TDir | TOther.
Record hentry := { e_name : bytes; e_type : ftype; e_mode : N }.   (* permission bits *)

Definition eligible (e : hentry) : bool :=
  negb (has_prefix [46] (e_name e)) &&                       (* not hidden *)
  (match e_type e with TRegular | TSymlink => true | _ => false end) &&
  negb (N.land (e_mode e) 73 =? 0).                          (* some execute bit: 0111 *)

(* runAllHooks: nothing at all from a world-writable directory *)
Definition hooks_to_run (dir_mode : N) (entries : list hentry) : list bytes :=
  if negb (N.land dir_mode 2 =? 0) then []
  else map e_name (filter eligible entries).
