(* SaslCodec_proofs.v — lemmas about the wire codec model. *)
From Whawty Require Import Bytes SaslCodec.
From Coq Require Import ZifyN ZifyNat ZifyBool.
Open Scope N_scope.

Ltac Zify.zify_post_hook ::= Z.div_mod_to_equations.

Lemma len_app a b : len (a ++ b) = len a + len b.
Proof. unfold len. rewrite app_length. lia. Qed.

Lemma len_nil : len [] = 0. Proof. reflexivity. Qed.
Lemma len_cons x s : len (x :: s) = 1 + len s.
Proof. unfold len. cbn [length]. lia. Qed.

Lemma len_firstn n s : (n <= length s)%nat -> len (firstn n s) = N.of_nat n.
Proof. intros H. unfold len. rewrite firstn_length. lia. Qed.

(* ------------------------------------------------------------------ *)
(* one part: specification-level parser                                 *)

Inductive p1res := Tok1 (a b : N) (part rest : bytes) | Bad1 | Short1.

Definition parse1 (max : N) (s : bytes) : p1res :=
  match s with
  | a :: b :: rest =>
      let l := a * 256 + b in
      if max <? l then Bad1
      else if len rest <? l then Short1
      else Tok1 a b (firstn (N.to_nat l) rest) (skipn (N.to_nat l) rest)
  | _ => Short1
  end.

Lemma parse_parts_S max n s :
  parse_parts max (S n) s =
  match parse1 max s with
  | Tok1 a b p r => match parse_parts max n r with
                    | POk ps k => POk (p :: ps) (2 + length p + k)
                    | x => x
                    end
  | Bad1 => PBad
  | Short1 => PShort
  end.
Proof.
  cbn [parse_parts]. unfold parse1.
  destruct s as [|a [|b rest]]; try reflexivity.
  cbv zeta.
  destruct (max <? a * 256 + b) eqn:E1; [reflexivity|].
  destruct (len rest <? a * 256 + b) eqn:E2; [reflexivity|].
  destruct (parse_parts max n _); try reflexivity.
  f_equal. rewrite firstn_length. unfold len in E2. lia.
Qed.

Lemma parse1_mono_tok max d e a b p r :
  parse1 max d = Tok1 a b p r -> parse1 max (d ++ e) = Tok1 a b p (r ++ e).
Proof.
  unfold parse1. destruct d as [|a' [|b' rest]]; try discriminate.
  cbn [app]. cbv zeta.
  destruct (max <? a' * 256 + b') eqn:E1; [discriminate|].
  destruct (len rest <? a' * 256 + b') eqn:E2; [discriminate|].
  intros H. injection H as <- <- <- <-.
  rewrite len_app.
  assert (Hl : (N.to_nat (a' * 256 + b') <= length rest)%nat) by (unfold len in E2; lia).
  destruct (len rest + len e <? a' * 256 + b') eqn:E3; [lia|].
  rewrite firstn_app, skipn_app.
  replace (N.to_nat (a' * 256 + b') - length rest)%nat with O by lia.
  cbn [firstn skipn]. rewrite app_nil_r. reflexivity.
Qed.

Lemma parse1_mono_bad max d e :
  parse1 max d = Bad1 -> parse1 max (d ++ e) = Bad1.
Proof.
  unfold parse1. destruct d as [|a' [|b' rest]]; try discriminate.
  cbn [app]. cbv zeta.
  destruct (max <? a' * 256 + b'); [reflexivity|].
  destruct (len rest <? a' * 256 + b'); discriminate.
Qed.

(* split expressed through parse1 *)
Definition split_of_p1 (r : p1res) (d : bytes) (atEOF : bool) : sres :=
  match r with
  | Tok1 a b p _ => Tok (2 + length p) (a :: b :: p)
  | Bad1 => SErr
  | Short1 => match d with [] => More | _ => if atEOF then SErr else More end
  end.

Lemma split_parse1 max d atEOF :
  split max d atEOF = split_of_p1 (parse1 max d) d atEOF.
Proof.
  unfold split, parse1. destruct d as [|a [|b rest]]; try reflexivity.
  cbv zeta.
  destruct (max <? a * 256 + b) eqn:E1; [reflexivity|].
  destruct (a * 256 + b =? 0) eqn:E0.
  - assert (a * 256 + b = 0) as -> by lia.
    replace (len rest <? 0) with false by lia. reflexivity.
  - destruct (len rest <? a * 256 + b) eqn:E2; [reflexivity|].
    cbn [split_of_p1].
    assert (Hl : (N.to_nat (a * 256 + b) <= length rest)%nat) by (unfold len in E2; lia).
    rewrite firstn_length. rewrite Nat.min_l by exact Hl.
    reflexivity.
Qed.

Lemma parse1_tok_skip max d a b p r :
  parse1 max d = Tok1 a b p r -> skipn (2 + length p) d = r /\ d = a :: b :: p ++ r
  /\ len p <= max.
Proof.
  unfold parse1. destruct d as [|a' [|b' rest]]; try discriminate.
  cbv zeta.
  destruct (max <? a' * 256 + b') eqn:E1; [discriminate|].
  destruct (len rest <? a' * 256 + b') eqn:E2; [discriminate|].
  intros H. injection H as <- <- <- <-.
  assert (Hl : (N.to_nat (a' * 256 + b') <= length rest)%nat) by (unfold len in E2; lia).
  rewrite firstn_length, Nat.min_l by exact Hl.
  cbn [plus skipn]. split; [reflexivity|]. split.
  - rewrite firstn_skipn. reflexivity.
  - rewrite len_firstn by exact Hl. lia.
Qed.

(* ------------------------------------------------------------------ *)
(* event streams                                                        *)

Definition stream_st (st : rstatus) (evs : list ev) : bytes * bool :=
  match st with Cont => stream evs | _ => ([], true) end.

(* well-behaved reader: no I/O error other than EOF, never more than
   [max_empty_reads] consecutive (0, nil) results *)
Fixpoint wb (e : nat) (evs : list ev) : Prop :=
  match evs with
  | [] => True
  | (d, Cont) :: r => match d with
                      | [] => (e < max_empty_reads)%nat /\ wb (S e) r
                      | _ => wb O r
                      end
  | (_, EofS) :: _ => True
  | (_, ErrS) :: _ => False
  end.

Lemma wbb_wb evs : forall e, wbb e evs = true -> wb e evs.
Proof.
  induction evs as [|[d st] r IH]; intros e H; [exact I|].
  cbn [wb wbb] in *. destruct st; try assumption; try discriminate; try exact I.
  destruct d.
  - apply andb_true_iff in H. destruct H as [H1 H2]. split; [|apply IH; exact H2].
    apply Nat.ltb_lt. exact H1.
  - apply IH. exact H.
Qed.

Definition wb_st (st : rstatus) (evs : list ev) : Prop :=
  match st with Cont => wb O evs | EofS => True | ErrS => False end.

Lemma wb_mono evs : forall e e', (e' <= e)%nat -> wb e evs -> wb e' evs.
Proof.
  induction evs as [|[d st] r IH]; intros e e' Hle H; [exact I|].
  cbn [wb] in *. destruct st; try assumption.
  destruct d; [|assumption].
  destruct H as [H1 H2]. split; [lia|]. apply (IH (S e)); [lia|assumption].
Qed.

(* what one Scan call does, in terms of parse1 on everything still to come *)
Inductive scan_spec (max : N) (x : bytes) (t : bool) : scan_res -> Prop :=
| SS_tok a b p r pend' st' evs' :
    parse1 max x = Tok1 a b p r ->
    pend' ++ fst (stream_st st' evs') = r ->
    snd (stream_st st' evs') = t ->
    wb_st st' evs' ->
    scan_spec max x t (STok (a :: b :: p) pend' st' evs')
| SS_bad : parse1 max x = Bad1 -> scan_spec max x t SFail
| SS_short_blocked : parse1 max x = Short1 -> t = false -> scan_spec max x t SBlocked
| SS_short_fail : parse1 max x = Short1 -> t = true -> x <> [] -> scan_spec max x t SFail
| SS_short_end : parse1 max x = Short1 -> t = true -> x = [] -> scan_spec max x t (SEnd EofS).

Lemma scan_final_spec max pend st rest :
  st <> Cont -> wb_st st rest ->
  scan_spec max pend true (scan_final max pend st rest).
Proof.
  intros Hst Hwb. unfold scan_final. rewrite split_parse1.
  destruct (parse1 max pend) as [a b p r| |] eqn:P; cbn [split_of_p1].
  - destruct (parse1_tok_skip _ _ _ _ _ _ P) as [Hs _].
    rewrite Hs. eapply SS_tok; eauto.
    + destruct st; [contradiction| |]; cbn; apply app_nil_r.
    + destruct st; [contradiction| |]; reflexivity.
  - apply SS_bad; assumption.
  - destruct pend as [|x pend].
    + destruct st; [contradiction| |contradiction]. apply SS_short_end; auto.
    + apply SS_short_fail; auto. discriminate.
Qed.

Lemma scan_cont_spec max evs : forall pend e,
  wb e evs ->
  scan_spec max (pend ++ fst (stream evs)) (snd (stream evs)) (scan_cont max pend e evs).
Proof.
  induction evs as [|[d st] r IH]; intros pend e Hwb.
  - cbn [stream fst snd scan_cont]. rewrite app_nil_r.
    rewrite split_parse1.
    destruct (parse1 max pend) as [a b p rr| |] eqn:P; cbn [split_of_p1].
    + destruct (parse1_tok_skip _ _ _ _ _ _ P) as [Hs _]. rewrite Hs.
      eapply SS_tok; eauto; cbn; auto using app_nil_r.
    + apply SS_bad; assumption.
    + destruct pend; apply SS_short_blocked; auto.
  - cbn [scan_cont]. rewrite split_parse1.
    destruct (parse1 max pend) as [a b p rr| |] eqn:P; cbn [split_of_p1].
    + destruct (parse1_tok_skip _ _ _ _ _ _ P) as [Hs _]. rewrite Hs.
      eapply SS_tok.
      * apply parse1_mono_tok. exact P.
      * reflexivity.
      * reflexivity.
      * cbn [wb_st]. eapply wb_mono; [|exact Hwb]. lia.
    + apply SS_bad. apply parse1_mono_bad. exact P.
    + assert (Hmore : match pend with [] => More | _ :: _ => More end = More)
        by (destruct pend; reflexivity).
      rewrite Hmore. clear Hmore.
      destruct st.
      * (* Cont *)
        cbn [stream]. destruct (stream r) as [s t] eqn:Sr. cbn [fst snd].
        cbn [wb] in Hwb.
        destruct d as [|x d].
        -- destruct Hwb as [He Hwb].
           destruct (Nat.leb max_empty_reads e) eqn:Le.
           { apply Nat.leb_le in Le. lia. }
           cbn [app]. specialize (IH pend (S e) Hwb). try rewrite Sr in IH. exact IH.
        -- specialize (IH (pend ++ x :: d) O Hwb). try rewrite Sr in IH.
           cbn [fst snd] in IH. rewrite <- app_assoc in IH. exact IH.
      * cbn [stream fst snd]. apply scan_final_spec; [discriminate|exact I].
      * cbn [wb] in Hwb. contradiction.
Qed.

Lemma scan_one_spec max pend st evs :
  wb_st st evs ->
  scan_spec max (pend ++ fst (stream_st st evs)) (snd (stream_st st evs))
            (scan_one max pend st evs).
Proof.
  intros Hwb. destruct st; cbn [scan_one stream_st].
  - apply scan_cont_spec. exact Hwb.
  - cbn [fst snd]. rewrite app_nil_r. apply scan_final_spec; [discriminate|exact Hwb].
  - contradiction.
Qed.

(* ------------------------------------------------------------------ *)
(* the decoder against the specification parser                         *)

Definition spec_res (max : N) (n : nat) (x : bytes) (t : bool) : dres :=
  match parse_parts max n x with
  | POk ps _ => DOk ps
  | PBad => DErr
  | PShort => if t then DErr else DBlocked
  end.

Lemma decode_events_spec max n : forall pend st evs,
  (0 < n)%nat -> wb_st st evs ->
  decode_events max n pend st evs =
  spec_res max n (pend ++ fst (stream_st st evs)) (snd (stream_st st evs)).
Proof.
  induction n as [|n IH]; intros pend st evs Hn Hwb; [lia|].
  cbn [decode_events]. unfold spec_res. rewrite parse_parts_S.
  pose proof (scan_one_spec max pend st evs Hwb) as HS.
  inversion HS as [a b p r pend' st' evs' P Hr Ht Hwb' Heq
                  | P Heq | P Ht Heq | P Ht Hne Heq | P Ht Hne Heq]; rewrite P.
  - destruct n as [|n].
    + cbn [parse_parts]. destruct st'; cbn in Hwb'; try contradiction; reflexivity.
    + rewrite (IH pend' st' evs') by (try lia; assumption).
      unfold spec_res. rewrite Hr, Ht.
      destruct (parse_parts max (S n) r); try reflexivity.
      destruct (snd (stream_st st evs)); reflexivity.
  - reflexivity.
  - rewrite Ht. reflexivity.
  - rewrite Ht. reflexivity.
  - rewrite Ht. reflexivity.
Qed.

(* Fragment independence: for every well-behaved reader, the decoder's
   result is a function of the byte stream (and of whether it ends). *)
Theorem fragment_independent max n evs :
  (0 < n)%nat -> wb O evs ->
  decode_events max n [] Cont evs =
  spec_res max n (fst (stream evs)) (snd (stream evs)).
Proof.
  intros Hn Hwb. apply (decode_events_spec max n [] Cont evs Hn Hwb).
Qed.

(* two fragmentations of the same terminated stream decode alike *)
Corollary fragment_independent_pair max n evs1 evs2 :
  (0 < n)%nat -> wb O evs1 -> wb O evs2 -> stream evs1 = stream evs2 ->
  decode_events max n [] Cont evs1 = decode_events max n [] Cont evs2.
Proof.
  intros Hn H1 H2 E. rewrite !fragment_independent by assumption. rewrite E. reflexivity.
Qed.

(* early decision: once a prefix decodes, no continuation changes the result *)
Lemma parse_parts_mono_ok max n : forall s e ps k,
  parse_parts max n s = POk ps k -> parse_parts max n (s ++ e) = POk ps k.
Proof.
  induction n as [|n IH]; intros s e ps k H.
  - cbn in *. exact H.
  - rewrite parse_parts_S in *.
    destruct (parse1 max s) as [a b p r| |] eqn:P; try discriminate.
    rewrite (parse1_mono_tok _ _ e _ _ _ _ P).
    destruct (parse_parts max n r) as [ps' k'| |] eqn:R; try discriminate.
    rewrite (IH r e ps' k' R). exact H.
Qed.

Lemma parse_parts_mono_bad max n : forall s e,
  parse_parts max n s = PBad -> parse_parts max n (s ++ e) = PBad.
Proof.
  induction n as [|n IH]; intros s e H.
  - cbn in H. discriminate.
  - rewrite parse_parts_S in *.
    destruct (parse1 max s) as [a b p r| |] eqn:P; try discriminate.
    + rewrite (parse1_mono_tok _ _ e _ _ _ _ P).
      destruct (parse_parts max n r) as [ps' k'| |] eqn:R; try discriminate.
      rewrite (IH r e R). reflexivity.
    + rewrite (parse1_mono_bad _ _ e P). reflexivity.
Qed.

(* ------------------------------------------------------------------ *)
(* soundness without any assumption on the reader (I/O errors, stalls):
   whatever is returned as decoded was parsed from the bytes delivered *)


Lemma scan_final_sound max pend st rest tok pend' st' evs' :
  scan_final max pend st rest = STok tok pend' st' evs' ->
  exists a b p, tok = a :: b :: p /\ parse1 max pend = Tok1 a b p pend' /\ evs' = rest.
Proof.
  unfold scan_final. rewrite split_parse1.
  destruct (parse1 max pend) as [a b p r| |] eqn:P; cbn [split_of_p1].
  - destruct (parse1_tok_skip _ _ _ _ _ _ P) as [Hs _]. rewrite Hs.
    intros H. injection H as <- <- <- <-.
    exists a, b, p. auto.
  - discriminate.
  - destruct pend; discriminate.
Qed.

Lemma scan_cont_sound max evs : forall pend e tok pend' st' evs',
  scan_cont max pend e evs = STok tok pend' st' evs' ->
  exists a b p, tok = a :: b :: p /\
    parse1 max (pend ++ alldata evs) = Tok1 a b p (pend' ++ alldata evs').
Proof.
  induction evs as [|[d st] r IH]; intros pend e tok pend' st' evs'.
  - cbn [scan_cont]. rewrite split_parse1. unfold alldata. cbn [map concat].
    destruct (parse1 max pend) as [a b p rr| |] eqn:P; cbn [split_of_p1].
    + destruct (parse1_tok_skip _ _ _ _ _ _ P) as [Hs _]. rewrite Hs.
      intros H. injection H as <- <- <- <-.
      exists a, b, p. rewrite !app_nil_r. auto.
    + discriminate.
    + destruct pend; discriminate.
  - cbn [scan_cont]. rewrite split_parse1.
    destruct (parse1 max pend) as [a b p rr| |] eqn:P; cbn [split_of_p1].
    + destruct (parse1_tok_skip _ _ _ _ _ _ P) as [Hs _]. rewrite Hs.
      intros H. injection H as <- <- <- <-.
      exists a, b, p. split; [reflexivity|].
      apply parse1_mono_tok. exact P.
    + discriminate.
    + assert (Hmore : match pend with [] => More | _ :: _ => More end = More)
        by (destruct pend; reflexivity).
      rewrite Hmore. clear Hmore.
      unfold alldata. cbn [map concat fst]. fold (alldata r).
      destruct st.
      * destruct d as [|x d].
        -- destruct (Nat.leb max_empty_reads e).
           ++ intros H. apply scan_final_sound in H.
              destruct H as (a & b & p & -> & Hp & ->).
              exists a, b, p. split; [reflexivity|]. cbn [app].
              apply parse1_mono_tok. exact Hp.
           ++ cbn [app]. apply IH.
        -- intros H. apply IH in H. rewrite <- app_assoc in H. exact H.
      * intros H. apply scan_final_sound in H.
        destruct H as (a & b & p & -> & Hp & ->).
        exists a, b, p. split; [reflexivity|]. rewrite app_assoc.
        apply parse1_mono_tok. exact Hp.
      * intros H. apply scan_final_sound in H.
        destruct H as (a & b & p & -> & Hp & ->).
        exists a, b, p. split; [reflexivity|]. rewrite app_assoc.
        apply parse1_mono_tok. exact Hp.
Qed.

Lemma scan_one_sound max pend st evs tok pend' st' evs' :
  scan_one max pend st evs = STok tok pend' st' evs' ->
  exists a b p, tok = a :: b :: p /\
    parse1 max (pend ++ alldata evs) = Tok1 a b p (pend' ++ alldata evs').
Proof.
  destruct st; cbn [scan_one]; intros H.
  - eapply scan_cont_sound; eauto.
  - apply scan_final_sound in H. destruct H as (a & b & p & -> & Hp & ->).
    exists a, b, p. split; [reflexivity|]. apply parse1_mono_tok. exact Hp.
  - apply scan_final_sound in H. destruct H as (a & b & p & -> & Hp & ->).
    exists a, b, p. split; [reflexivity|]. apply parse1_mono_tok. exact Hp.
Qed.

Theorem decode_events_sound max n : forall pend st evs ps,
  decode_events max n pend st evs = DOk ps ->
  exists k, parse_parts max n (pend ++ alldata evs) = POk ps k.
Proof.
  induction n as [|n IH]; intros pend st evs ps H.
  - cbn in H. injection H as <-. exists O. reflexivity.
  - cbn [decode_events] in H.
    destruct (scan_one max pend st evs) as [tok pend' st' evs'| | |] eqn:S; try discriminate.
    apply scan_one_sound in S. destruct S as (a & b & p & -> & Hp).
    rewrite parse_parts_S, Hp.
    destruct n as [|n].
    + destruct st'; try discriminate; injection H as <-; cbn [parse_parts skipn];
        eexists; reflexivity.
    + destruct (decode_events max (S n) pend' st' evs') as [ps'| |] eqn:D; try discriminate.
      injection H as <-. apply IH in D. destruct D as [k D]. rewrite D.
      cbn [skipn]. eexists; reflexivity.
Qed.

(* ------------------------------------------------------------------ *)
(* encoders                                                             *)

Lemma encode_parts_ok ps :
  forallb (fun p => len p <=? 65535) ps = true ->
  encode_parts ps = Some (concat (map enc_part ps)).
Proof.
  induction ps as [|p r IH]; cbn [forallb encode_parts map concat]; intros H; [reflexivity|].
  apply andb_true_iff in H. destruct H as [H1 H2].
  replace (65535 <? len p) with false by lia. rewrite (IH H2). reflexivity.
Qed.

Lemma encode_parts_none ps :
  forallb (fun p => len p <=? 65535) ps = false -> encode_parts ps = None.
Proof.
  induction ps as [|p r IH]; cbn [forallb encode_parts]; intros H; [discriminate|].
  destruct (65535 <? len p) eqn:E; [reflexivity|].
  replace (len p <=? 65535) with true in H by lia. cbn in H. rewrite (IH H). reflexivity.
Qed.

Definition fields_ok (max : N) (r : request) : bool :=
  forallb (fun f => len f <=? max) (req_fields r).

Lemma existsb_forallb_neg {A} (f g : A -> bool) l :
  (forall x, f x = negb (g x)) -> existsb f l = negb (forallb g l).
Proof.
  intros H. induction l as [|x l IH]; cbn; [reflexivity|].
  rewrite H, IH. destruct (g x), (forallb g l); reflexivity.
Qed.

Theorem encode_request_exact max r : max <= 65535 ->
  encode_request max r =
  if fields_ok max r then Some (concat (map enc_part (req_fields r))) else None.
Proof.
  intros Hmax. unfold encode_request, fields_ok.
  rewrite (existsb_forallb_neg _ (fun f => len f <=? max)) by (intros; lia).
  destruct (forallb (fun f => len f <=? max) (req_fields r)) eqn:F; cbn [negb]; [|reflexivity].
  apply encode_parts_ok.
  rewrite forallb_forall in *. intros x Hx. specialize (F x Hx). lia.
Qed.

(* one encoded part parses back *)
Lemma be16_val n : n <= 65535 -> (n / 256) * 256 + n mod 256 = n.
Proof. intros. lia. Qed.

Lemma parse1_enc_part max p tail :
  len p <= max -> max <= 65535 ->
  parse1 max (enc_part p ++ tail) = Tok1 (len p / 256) (len p mod 256) p tail.
Proof.
  intros Hp Hmax. unfold enc_part, be16. cbn [app]. unfold parse1. cbv zeta.
  rewrite be16_val by lia.
  replace (max <? len p) with false by lia.
  rewrite len_app. replace (len p + len tail <? len p) with false by lia.
  unfold len. rewrite !Nat2N.id.
  rewrite firstn_app, skipn_app, Nat.sub_diag, firstn_all, skipn_all.
  cbn [firstn skipn app]. rewrite app_nil_r. reflexivity.
Qed.

Lemma parse_parts_encode max ps tail :
  max <= 65535 -> forallb (fun f => len f <=? max) ps = true ->
  exists k, parse_parts max (length ps) (concat (map enc_part ps) ++ tail) = POk ps k
            /\ k = length (concat (map enc_part ps)).
Proof.
  intros Hmax. induction ps as [|p r IH]; intros F.
  - exists O. split; reflexivity.
  - cbn [forallb] in F. apply andb_true_iff in F. destruct F as [F1 F2].
    destruct (IH F2) as (k & Hk & Ek).
    cbn [length map concat]. rewrite parse_parts_S, <- app_assoc.
    rewrite parse1_enc_part by lia. rewrite Hk.
    eexists; split; [reflexivity|].
    rewrite app_length, Ek. unfold enc_part, be16. rewrite app_length. cbn [length]. lia.
Qed.

(* re-encoding what was consumed *)
Lemma parse1_reencode max s a b p r :
  bytes_wf s = true -> parse1 max s = Tok1 a b p r ->
  enc_part p ++ r = s /\ bytes_wf r = true.
Proof.
  unfold parse1. destruct s as [|a' [|b' rest]]; try discriminate.
  cbv zeta. intros W.
  destruct (max <? a' * 256 + b') eqn:E1; [discriminate|].
  destruct (len rest <? a' * 256 + b') eqn:E2; [discriminate|].
  intros H. injection H as <- <- <- <-.
  cbn [bytes_wf forallb] in W. apply andb_true_iff in W. destruct W as [Wa W].
  apply andb_true_iff in W. destruct W as [Wb W]. unfold byte_wf in Wa, Wb.
  assert (Hl : (N.to_nat (a' * 256 + b') <= length rest)%nat) by (unfold len in E2; lia).
  split.
  - unfold enc_part, be16. rewrite len_firstn by exact Hl. rewrite N2Nat.id.
    replace ((a' * 256 + b') / 256) with a' by lia.
    replace ((a' * 256 + b') mod 256) with b' by lia.
    cbn [app]. rewrite firstn_skipn. reflexivity.
  - unfold bytes_wf in *. rewrite <- (firstn_skipn (N.to_nat (a' * 256 + b')) rest) in W.
    rewrite forallb_app in W. apply andb_true_iff in W. apply W.
Qed.

Theorem reencode_consumed max n : forall s ps k,
  bytes_wf s = true -> parse_parts max n s = POk ps k ->
  concat (map enc_part ps) = firstn k s /\ length ps = n.
Proof.
  induction n as [|n IH]; intros s ps k W H.
  - cbn in H. injection H as <- <-. split; reflexivity.
  - rewrite parse_parts_S in H.
    destruct (parse1 max s) as [a b p r| |] eqn:P; try discriminate.
    destruct (parse_parts max n r) as [ps' k'| |] eqn:R; try discriminate.
    injection H as <- <-.
    destruct (parse1_reencode _ _ _ _ _ _ W P) as [Es Wr].
    destruct (IH r ps' k' Wr R) as [IH1 IH2].
    cbn [map concat length]. split; [|lia].
    rewrite IH1.
    assert (L : length (enc_part p) = (2 + length p)%nat)
      by (unfold enc_part, be16; rewrite app_length; reflexivity).
    clear P W. subst s.
    rewrite firstn_app, L.
    f_equal.
    + symmetry. apply firstn_all2. rewrite L. lia.
    + f_equal. lia.
Qed.

(* over-limit prefixes are refused wherever they occur *)
Lemma parse_parts_parts_le max n : forall s ps k,
  parse_parts max n s = POk ps k -> forallb (fun f => len f <=? max) ps = true.
Proof.
  induction n as [|n IH]; intros s ps k H.
  - cbn in H. injection H as <- <-. reflexivity.
  - rewrite parse_parts_S in H.
    destruct (parse1 max s) as [a b p r| |] eqn:P; try discriminate.
    destruct (parse_parts max n r) as [ps' k'| |] eqn:R; try discriminate.
    injection H as <- <-. cbn [forallb].
    destruct (parse1_tok_skip _ _ _ _ _ _ P) as (_ & _ & Hle).
    rewrite (IH _ _ _ R). replace (len p <=? max) with true by lia. reflexivity.
Qed.
