(* Writers.v — several writer PROCESSES on one store directory (the agent and the command line,
   two agents): the system calls of two operations interleave arbitrarily.  What each process does
   is a trace of the write discipline (with its clean-up); what the directory sees is a merge. *)
From Whawty Require Import Bytes Store StoreTrace Crash.
Open Scope N_scope.

Inductive merge {A : Type} : list A -> list A -> list A -> Prop :=
| MNil : merge [] [] []
| MLeft x l1 l2 l : merge l1 l2 l -> merge (x :: l1) l2 (x :: l)
| MRight x l1 l2 l : merge l1 l2 l -> merge l1 (x :: l2) (x :: l).

(* O_EXCL on the temp file: the two writers never use the same temp name *)
Definition tmp_disjoint (evs1 evs2 : list event) : Prop :=
  forall t, In (ECreate (LTmpFile t)) evs1 -> ~ In (ECreate (LTmpFile t)) evs2.

Definition renamed_into (f : bytes) (evs : list event) : Prop :=
  exists t, In (ERename (LTmpFile t) (LFile f)) evs.
