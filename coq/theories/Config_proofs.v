(* Config_proofs.v — C18: loading is exact, accepted parameter sets never
   panic, reload is all-or-nothing. *)
From Whawty Require Import Bytes Bytes_proofs Base64 Record Config.
From Coq Require Import ZifyN ZifyNat ZifyBool.
Open Scope N_scope.

(* ---- auxiliary: one step of the loop ---- *)
Definition set_hasher (s : set_cfg) : option hasher :=
  match sc_scrypt s, sc_argon s with
  | Some sp, None => new_scrypt sp
  | None, Some ap => new_argon ap
  | _, _ => None
  end.

Lemma load_sets_cons s r acc :
  load_sets (s :: r) acc =
  if sc_id s =? 0 then None
  else match set_hasher s with
       | Some h => load_sets r (pset (sc_id s) h acc)
       | None => None
       end.
Proof.
  cbn [load_sets]. unfold set_hasher.
  destruct (sc_id s =? 0); [reflexivity|].
  destruct (sc_scrypt s) as [sp|], (sc_argon s) as [ap|]; reflexivity.
Qed.

Lemma new_scrypt_wf sp : (exists h, new_scrypt sp = Some h) <-> scrypt_wf sp.
Proof.
  unfold new_scrypt, scrypt_wf. destruct (std_dec (sp_key64 sp)) as [k|].
  - destruct (length k =? 32)%nat eqn:El; cbn [negb].
    + apply Nat.eqb_eq in El. destruct (31 <? sp_cost sp) eqn:Ec.
      * apply N.ltb_lt in Ec. split.
        -- intros [h Hh]. discriminate.
        -- intros [_ Hc]. lia.
      * apply N.ltb_ge in Ec. split.
        -- intros _. split; [exists k; auto|exact Ec].
        -- intros _. eexists. reflexivity.
    + apply Nat.eqb_neq in El. split.
      * intros [h Hh]. discriminate.
      * intros [(k' & Hk & Hl) _]. congruence.
  - split.
    + intros [h Hh]. discriminate.
    + intros [(k' & Hk & Hl) _]. discriminate.
Qed.

Lemma new_argon_wf ap : (exists h, new_argon ap = Some h) <-> argon_wf ap.
Proof.
  unfold new_argon, argon_wf.
  destruct (ap_time ap =? 0) eqn:E1; cbn [orb].
  - apply N.eqb_eq in E1. split; [intros [h Hh]; discriminate|intros (H1 & _); lia].
  - apply N.eqb_neq in E1. destruct (ap_threads ap =? 0) eqn:E2; cbn [orb].
    + apply N.eqb_eq in E2. split; [intros [h Hh]; discriminate|intros (_ & H2 & _); lia].
    + apply N.eqb_neq in E2. destruct (ap_length ap =? 0) eqn:E3.
      * apply N.eqb_eq in E3. split; [intros [h Hh]; discriminate|intros (_ & _ & H3); lia].
      * apply N.eqb_neq in E3. split; [intros _; lia|intros _; eexists; reflexivity].
Qed.

Lemma set_wf_iff s : set_wf s <-> sc_id s <> 0 /\ exists h, set_hasher s = Some h.
Proof.
  unfold set_wf, set_hasher.
  destruct (sc_scrypt s) as [sp|], (sc_argon s) as [ap|].
  - split; [intros [_ []]|intros [_ [h Hh]]; discriminate].
  - rewrite new_scrypt_wf. split; intros [H1 H2]; split; auto; lia.
  - rewrite new_argon_wf. split; intros [H1 H2]; split; auto; lia.
  - split; [intros [_ []]|intros [_ [h Hh]]; discriminate].
Qed.

Lemma plookup_pset_same id h ps : plookup id (pset id h ps) = Some h.
Proof.
  induction ps as [|[i x] r IH]; cbn [pset plookup].
  - rewrite N.eqb_refl. reflexivity.
  - destruct (i =? id) eqn:E; cbn [plookup].
    + rewrite N.eqb_refl. reflexivity.
    + rewrite E. exact IH.
Qed.

Lemma plookup_pset_other id id' h ps : id <> id' -> plookup id' (pset id h ps) = plookup id' ps.
Proof.
  intros Hne. induction ps as [|[i x] r IH]; cbn [pset plookup].
  - destruct (id =? id') eqn:E; [apply N.eqb_eq in E; contradiction|reflexivity].
  - destruct (i =? id) eqn:E; cbn [plookup].
    + apply N.eqb_eq in E. subst i.
      destruct (id =? id') eqn:E'; [apply N.eqb_eq in E'; contradiction|reflexivity].
    + destruct (i =? id'); [reflexivity|exact IH].
Qed.

Lemma pset_not_nil id h ps : pset id h ps <> [].
Proof.
  destruct ps as [|[i x] r]; cbn [pset]; [discriminate|].
  destruct (i =? id); discriminate.
Qed.

Lemma load_sets_ok sets : forall acc,
  Forall set_wf sets -> exists ps, load_sets sets acc = Some ps.
Proof.
  induction sets as [|s r IH]; intros acc Hf.
  - exists acc. reflexivity.
  - inversion Hf as [|s' r' Hs Hr]; subst s' r'.
    apply set_wf_iff in Hs. destruct Hs as [Hid [h Hh]].
    rewrite load_sets_cons, Hh.
    destruct (sc_id s =? 0) eqn:E; [apply N.eqb_eq in E; contradiction|].
    apply IH. exact Hr.
Qed.

Lemma load_sets_char sets : forall acc ps,
  load_sets sets acc = Some ps ->
  Forall set_wf sets /\
  (forall id h, plookup id ps = Some h ->
     plookup id acc = Some h \/
     exists s, In s sets /\ sc_id s = id /\ set_hasher s = Some h) /\
  (forall id, (exists h, plookup id acc = Some h) \/ (exists s, In s sets /\ sc_id s = id) ->
     exists h, plookup id ps = Some h) /\
  (ps = [] -> sets = [] /\ acc = []).
Proof.
  induction sets as [|s r IH]; intros acc ps Hl.
  - cbn [load_sets] in Hl. assert (Hps : ps = acc) by congruence. subst ps.
    split; [constructor|]. split; [intros id h Hp; left; exact Hp|].
    split.
    + intros id [Hh|(s & [] & _)]. exact Hh.
    + intros Hn. auto.
  - rewrite load_sets_cons in Hl.
    destruct (sc_id s =? 0) eqn:E; [discriminate|]. apply N.eqb_neq in E.
    destruct (set_hasher s) as [h0|] eqn:Eh; [|discriminate].
    destruct (IH _ _ Hl) as (Hf & Hsnd & Hcmp & Hnil).
    split; [|split; [|split]].
    + constructor; [|exact Hf]. apply set_wf_iff. split; [exact E|eauto].
    + intros id h Hp. destruct (Hsnd id h Hp) as [Hacc|(s' & Hin & Hid & Hh)].
      * destruct (N.eq_dec (sc_id s) id) as [Heq|Hne].
        -- subst id. rewrite plookup_pset_same in Hacc.
           right. exists s. split; [left; reflexivity|]. split; [reflexivity|congruence].
        -- rewrite plookup_pset_other in Hacc by exact Hne. left. exact Hacc.
      * right. exists s'. split; [right; exact Hin|auto].
    + intros id Hor. apply Hcmp.
      destruct (N.eq_dec (sc_id s) id) as [Heq|Hne].
      * left. subst id. rewrite plookup_pset_same. eauto.
      * destruct Hor as [[h Hh]|(s' & [Hs'|Hin] & Hid)].
        -- left. rewrite plookup_pset_other by exact Hne. eauto.
        -- subst s'. contradiction.
        -- right. eauto.
    + intros Hn. destruct (Hnil Hn) as [_ Hp]. exfalso. exact (pset_not_nil _ _ _ Hp).
Qed.

Lemma from_config_inv t l :
  from_config t = Some l ->
  t_basedir t <> [] /\
  exists ps, load_sets (t_sets t) [] = Some ps /\
    l = {| l_basedir := t_basedir t; l_config := {| params := ps; default := t_default t |} |} /\
    (if t_default t =? 0 then ps = [] else exists h, plookup (t_default t) ps = Some h).
Proof.
  unfold from_config. intros H.
  destruct (t_basedir t) as [|b bs] eqn:Eb; [discriminate|].
  split; [discriminate|].
  destruct (load_sets (t_sets t) []) as [ps|]; [|discriminate].
  exists ps. split; [reflexivity|].
  destruct (t_default t =? 0) eqn:Ed.
  - apply N.eqb_eq in Ed. destruct ps as [|x r]; [|discriminate].
    split; [|reflexivity]. rewrite Ed. congruence.
  - destruct (plookup (t_default t) ps) as [h|] eqn:Ep; [|discriminate].
    split; [congruence|eauto].
Qed.

Lemma scrypt_usable_aux p h :
  new_scrypt p = Some h -> hasher_usable h = Works \/ hasher_usable h = Errors.
Proof.
  unfold new_scrypt. intros H.
  destruct (std_dec (sp_key64 p)) as [k|]; [|discriminate].
  destruct (negb (length k =? 32)%nat); [discriminate|].
  destruct (31 <? sp_cost p); [discriminate|].
  match type of H with Some ?x = Some _ => assert (Hh : h = x) by congruence end.
  subst h. cbn [hasher_usable].
  match goal with |- context [if ?b then Errors else _] => destruct b end; [auto|].
  match goal with |- context [if ?b then Errors else _] => destruct b end; auto.
Qed.

(* the loader accepts exactly the well-formed trees *)
Theorem load_exact t : (exists l, from_config t = Some l) <-> wf_tree t.
Proof.
  split.
  - intros [l Hl]. apply from_config_inv in Hl.
    destruct Hl as (Hb & ps & Hls & _ & Hd).
    destruct (load_sets_char _ _ _ Hls) as (Hf & Hsnd & Hcmp & Hnil).
    unfold wf_tree. split; [exact Hb|]. split; [exact Hf|].
    destruct (t_default t =? 0) eqn:Ed.
    + destruct (Hnil Hd) as [Hs _]. exact Hs.
    + destruct Hd as [h Hh]. destruct (Hsnd _ _ Hh) as [Hacc|(s & Hin & Hid & _)].
      * cbn [plookup] in Hacc. discriminate.
      * eauto.
  - intros (Hb & Hf & Hd). unfold from_config.
    destruct (t_basedir t) as [|b bs] eqn:Eb; [congruence|].
    destruct (load_sets_ok _ [] Hf) as [ps Hls]. rewrite Hls.
    destruct (load_sets_char _ _ _ Hls) as (_ & Hsnd & Hcmp & Hnil).
    destruct (t_default t =? 0) eqn:Ed.
    + rewrite Hd in Hls. cbn [load_sets] in Hls.
      assert (Hps : ps = []) by congruence. subst ps. eexists. reflexivity.
    + destruct (Hcmp (t_default t) (or_intror Hd)) as [h Hh]. rewrite Hh.
      eexists. reflexivity.
Qed.

(* and what it returns carries exactly the tree's base directory, default and
   (last definition of each) parameter sets *)
Theorem load_carries_tree t l :
  from_config t = Some l ->
  l_basedir l = t_basedir t /\ default (l_config l) = t_default t /\
  (forall id h, plookup id (params (l_config l)) = Some h ->
     exists s, In s (t_sets t) /\ sc_id s = id /\
       (match sc_scrypt s, sc_argon s with
        | Some sp, None => new_scrypt sp = Some h
        | None, Some ap => new_argon ap = Some h
        | _, _ => False end)) /\
  (forall s, In s (t_sets t) -> exists h, plookup (sc_id s) (params (l_config l)) = Some h).
Proof.
  intros Hl. apply from_config_inv in Hl.
  destruct Hl as (Hb & ps & Hls & Heq & Hd). subst l. cbn [l_basedir l_config default params].
  destruct (load_sets_char _ _ _ Hls) as (Hf & Hsnd & Hcmp & Hnil).
  split; [reflexivity|]. split; [reflexivity|]. split.
  - intros id h Hp. destruct (Hsnd id h Hp) as [Hacc|(s & Hin & Hid & Hh)].
    + cbn [plookup] in Hacc. discriminate.
    + exists s. split; [exact Hin|]. split; [exact Hid|].
      unfold set_hasher in Hh.
      destruct (sc_scrypt s) as [sp|], (sc_argon s) as [ap|]; try discriminate; exact Hh.
  - intros s Hin. apply Hcmp. right. eauto.
Qed.

(* every accepted parameter set either hashes or fails with an error - it
   never panics the process *)
Theorem accepted_never_panics t l id h :
  from_config t = Some l -> plookup id (params (l_config l)) = Some h -> hasher_usable h <> Panics.
Proof.
  intros Hl Hp. destruct (load_carries_tree t l Hl) as (_ & _ & Hsnd & _).
  destruct (Hsnd id h Hp) as (s & _ & _ & Hh).
  destruct (sc_scrypt s) as [sp|], (sc_argon s) as [ap|]; try contradiction.
  - destruct (scrypt_usable_aux sp h Hh) as [Hu|Hu]; rewrite Hu; discriminate.
  - unfold new_argon in Hh.
    destruct ((ap_time ap =? 0) || (ap_threads ap =? 0) || (ap_length ap =? 0)) eqn:E;
      [discriminate|].
    assert (Hh' : h = HArgon (ap_time ap) (ap_memory ap) (ap_threads ap) (ap_length ap)) by congruence.
    subst h. cbn [hasher_usable]. rewrite E. discriminate.
Qed.

(* scrypt sets with a usable cost work, cost 0 errs (N = 1) *)
Theorem scrypt_usable p h :
  new_scrypt p = Some h -> hasher_usable h = Works \/ hasher_usable h = Errors.
Proof. exact (scrypt_usable_aux p h). Qed.

(* the configured r and p are used, defaulted to 8 and 1 when not positive *)
Theorem scrypt_params_used p k :
  std_dec (sp_key64 p) = Some k -> length k = 32%nat -> sp_cost p <= 31 ->
  new_scrypt p = Some (HScrypt k (sp_cost p) (if (0 <? sp_r p)%Z then sp_r p else 8%Z)
                                             (if (0 <? sp_p p)%Z then sp_p p else 1%Z)).
Proof.
  intros Hk Hl Hc. unfold new_scrypt. rewrite Hk.
  assert (E1 : (length k =? 32)%nat = true) by (apply Nat.eqb_eq; exact Hl).
  rewrite E1. cbn [negb].
  assert (E2 : (31 <? sp_cost p) = false) by (apply N.ltb_ge; exact Hc).
  rewrite E2. reflexivity.
Qed.

(* reload: the configuration afterwards is the complete old or the complete
   new one - never a mixture - and new only if it loads and its directory
   passes the check *)
Theorem reload_all_or_nothing cur nt chk :
  reload cur nt chk = cur \/
  exists t n, nt = Some t /\ from_config t = Some n /\ chk n = true /\ reload cur nt chk = n.
Proof.
  unfold reload. destruct nt as [t|]; [|left; reflexivity].
  destruct (from_config t) as [n|] eqn:Ef; [|left; reflexivity].
  destruct (chk n) eqn:Ec; [|left; reflexivity].
  right. exists t, n. auto.
Qed.

Theorem reload_keeps_on_failure cur nt chk :
  (nt = None \/ (exists t, nt = Some t /\ from_config t = None) \/
   (exists t n, nt = Some t /\ from_config t = Some n /\ chk n = false)) ->
  reload cur nt chk = cur.
Proof.
  unfold reload. intros [H|[(t & H & Hf)|(t & n & H & Hf & Hc)]]; subst nt.
  - reflexivity.
  - rewrite Hf. reflexivity.
  - rewrite Hf, Hc. reflexivity.
Qed.
