(* Config.v — store/config.go: validation of the decoded configuration tree
   (fromConfig), the hasher constructors, and the library preconditions of
   the key-derivation functions.  YAML text parsing (yaml.v3, KnownFields) is
   outside the model: a tree is what the decoder produced, or [None] when the
   document has unknown keys / wrong types. *)
From Whawty Require Import Bytes Base64 Record.
Open Scope N_scope.

Record scrypt_params := { sp_key64 : bytes; sp_cost : N; sp_r : Z; sp_p : Z }.
Record argon_params := { ap_time : N; ap_memory : N; ap_threads : N; ap_length : N }.
Record set_cfg := { sc_id : N; sc_scrypt : option scrypt_params; sc_argon : option argon_params }.
Record tree := { t_basedir : bytes; t_default : N; t_sets : list set_cfg }.

(* NewScryptAuthHasher: std-base64 key of 32 bytes, scryptauth.New: cost <= 31 *)
Definition new_scrypt (p : scrypt_params) : option hasher :=
  match std_dec (sp_key64 p) with
  | Some k =>
      if negb (length k =? 32)%nat then None
      else if 31 <? sp_cost p then None
      else Some (HScrypt k (sp_cost p)
                         (if (0 <? sp_r p)%Z then sp_r p else 8%Z)
                         (if (0 <? sp_p p)%Z then sp_p p else 1%Z))
  | None => None
  end.

(* NewArgon2IDHasher (repaired: rejects the values argon2.IDKey panics on) *)
Definition new_argon (p : argon_params) : option hasher :=
  if (ap_time p =? 0) || (ap_threads p =? 0) || (ap_length p =? 0) then None
  else Some (HArgon (ap_time p) (ap_memory p) (ap_threads p) (ap_length p)).

Fixpoint pset (id : N) (h : hasher) (ps : list (N * hasher)) : list (N * hasher) :=
  match ps with
  | [] => [(id, h)]
  | (i, x) :: r => if i =? id then (id, h) :: r else (i, x) :: pset id h r
  end.

(* the loop over c.Params *)
Fixpoint load_sets (sets : list set_cfg) (acc : list (N * hasher)) : option (list (N * hasher)) :=
  match sets with
  | [] => Some acc
  | s :: r =>
      if sc_id s =? 0 then None
      else
        match sc_scrypt s, sc_argon s with
        | None, None => None                          (* unknown algorithm *)
        | Some sp, None =>
            match new_scrypt sp with Some h => load_sets r (pset (sc_id s) h acc) | None => None end
        | None, Some ap =>
            match new_argon ap with Some h => load_sets r (pset (sc_id s) h acc) | None => None end
        | Some sp, Some ap =>
            (* both constructors run (and may fail first), then "more than one algorithm" *)
            None
        end
  end.

Record loaded := { l_basedir : bytes; l_config : config }.

(* Dir.fromConfig on a decoded tree *)
Definition from_config (t : tree) : option loaded :=
  match t_basedir t with
  | [] => None
  | _ =>
      match load_sets (t_sets t) [] with
      | None => None
      | Some ps =>
          if t_default t =? 0 then
            (match ps with [] => Some {| l_basedir := t_basedir t; l_config := {| params := ps; default := 0 |} |}
                         | _ => None end)
          else match plookup (t_default t) ps with
               | Some _ => Some {| l_basedir := t_basedir t; l_config := {| params := ps; default := t_default t |} |}
               | None => None
               end
      end
  end.

(* ---- the specification: well-formed configurations ---- *)
Definition scrypt_wf (p : scrypt_params) : Prop :=
  (exists k, std_dec (sp_key64 p) = Some k /\ length k = 32%nat) /\ sp_cost p <= 31.
Definition argon_wf (p : argon_params) : Prop :=
  1 <= ap_time p /\ 1 <= ap_threads p /\ 1 <= ap_length p.
Definition set_wf (s : set_cfg) : Prop :=
  1 <= sc_id s /\
  match sc_scrypt s, sc_argon s with
  | Some sp, None => scrypt_wf sp
  | None, Some ap => argon_wf ap
  | _, _ => False                          (* exactly one algorithm *)
  end.
Definition wf_tree (t : tree) : Prop :=
  t_basedir t <> [] /\ Forall set_wf (t_sets t) /\
  (if t_default t =? 0 then t_sets t = []
   else exists s, In s (t_sets t) /\ sc_id s = t_default t).

(* ---- library preconditions: what the KDF libraries do with a hasher ---- *)
Inductive usable := Works | Errors | Panics.

(* scrypt.Key: error unless N = 2^cost > 1 and r*p < 2^30 (and the size
   guards); never panics.  argon2.IDKey: panics on time < 1, threads < 1 and
   (through blake2b.New(0)) on key length 0. *)
Definition hasher_usable (h : hasher) : usable :=
  match h with
  | HScrypt _ cost r p =>
      if (cost =? 0) || (31 <? cost) then Errors
      else if (1073741824 <=? r * p)%Z then Errors
      else Works
  | HArgon t _ th l => if (t =? 0) || (th =? 0) || (l =? 0) then Panics else Works
  end.

(* ---- reload: the dispatcher's switch to a new configuration ---- *)
(* [check_ok]: the new directory passes Dir.Check *)
Definition reload (cur : loaded) (new_tree : option tree) (check_ok : loaded -> bool) : loaded :=
  match new_tree with
  | None => cur
  | Some t => match from_config t with
              | Some n => if check_ok n then n else cur
              | None => cur
              end
  end.
