(* Crash_proofs.v — crash safety (C08) and durability (C09) of every trace
   that follows the write discipline, and the fact that the model's own
   system-call programs follow it. *)
From Whawty Require Import Bytes Bytes_proofs Base64 Names Record Store StoreTrace Crash.
From Coq Require Import ZifyN ZifyNat ZifyBool.
Open Scope N_scope.

(* ---------------- general facts ---------------- *)

(* on a base-quiescent disk every crash state shows exactly the volatile view
   of the base directory *)
Theorem crash_view_of_quiescent d c :
  base_quiescent d -> crash_of d c -> forall f, crashed_file c f = vol_file d f.
Admitted.

Lemma protocol_prefix_closed f reserve l1 l2 :
  protocol_prefix_ok f reserve (l1 ++ l2) = true -> protocol_prefix_ok f reserve l1 = true.
Admitted.

Lemma protocol_complete_is_prefix f reserve l :
  protocol_complete_ok f reserve l = true -> protocol_prefix_ok f reserve l = true.
Admitted.

(* ---------------- C08: a crash at ANY instant ---------------- *)
(* For every prefix of a disciplined trace and every crash state of it, the
   target is absent or an empty reservation (add only), the complete old
   content, or the complete new content; every other file of the base
   directory is exactly as before. *)
Theorem crash_safe_prefix f reserve d0 evs c :
  base_quiescent d0 -> target_pre f reserve d0 -> tmp_fresh evs d0 ->
  protocol_prefix_ok f reserve evs = true ->
  crash_of (exec_events d0 evs) c ->
  ( (reserve = true /\ crashed_file c f = None)
    \/ (reserve = true /\ crashed_file c f = Some [])
    \/ (reserve = false /\ crashed_file c f = vol_file d0 f)
    \/ ((exists t, In (ERename (LTmpFile t) (LFile f)) evs) /\ crashed_file c f = Some (tmp_data evs)) )
  /\ (forall g, g <> f -> crashed_file c g = vol_file d0 g).
Admitted.

(* the process-kill instance (nothing lost): readers in other processes see
   the volatile state at a system-call boundary, which is one of the same *)
Theorem kill_safe_prefix f reserve d0 evs :
  base_quiescent d0 -> target_pre f reserve d0 -> tmp_fresh evs d0 ->
  protocol_prefix_ok f reserve evs = true ->
  ( (reserve = true /\ vol_file (exec_events d0 evs) f = None)
    \/ (reserve = true /\ vol_file (exec_events d0 evs) f = Some [])
    \/ (reserve = false /\ vol_file (exec_events d0 evs) f = vol_file d0 f)
    \/ ((exists t, In (ERename (LTmpFile t) (LFile f)) evs) /\ vol_file (exec_events d0 evs) f = Some (tmp_data evs)) )
  /\ (forall g, g <> f -> vol_file (exec_events d0 evs) g = vol_file d0 g).
Admitted.

(* a new record never becomes visible under its final name before its
   content is durable: the rename is preceded by an fsync of the temp file
   with no write in between *)
Theorem no_early_visibility f reserve evs t :
  protocol_prefix_ok f reserve evs = true ->
  In (ERename (LTmpFile t) (LFile f)) evs ->
  exists l1 l2 l3,
    evs = l1 ++ EFsync (LTmpFile t) :: l2 ++ ERename (LTmpFile t) (LFile f) :: l3 /\
    (forall l d, ~ In (EWrite l d) l2) /\ (forall l d, ~ In (EWrite l d) l3).
Admitted.

(* ---------------- C09: acknowledged changes are durable ---------------- *)
(* a completed add / update: the new content is what every later crash state
   shows, and the base directory is quiescent again (so the argument chains
   over any history of operations) *)
Theorem complete_is_durable f reserve d0 evs :
  base_quiescent d0 -> target_pre f reserve d0 -> tmp_fresh evs d0 ->
  protocol_complete_ok f reserve evs = true ->
  base_quiescent (exec_events d0 evs) /\
  vol_file (exec_events d0 evs) f = Some (tmp_data evs) /\
  (forall g, g <> f -> vol_file (exec_events d0 evs) g = vol_file d0 g).
Admitted.

Corollary complete_survives_crash f reserve d0 evs c :
  base_quiescent d0 -> target_pre f reserve d0 -> tmp_fresh evs d0 ->
  protocol_complete_ok f reserve evs = true ->
  crash_of (exec_events d0 evs) c ->
  crashed_file c f = Some (tmp_data evs) /\
  (forall g, g <> f -> crashed_file c g = vol_file d0 g).
Admitted.

(* set-admin: rename inside the base directory followed by its fsync *)
Theorem set_admin_durable d0 a b content c :
  base_quiescent d0 -> a <> b -> vol_file d0 a = Some content -> vol_file d0 b = None ->
  let d := exec_events d0 [ERename (LFile a) (LFile b); EFsync LBaseDir] in
  base_quiescent d /\
  (crash_of d c -> crashed_file c b = Some content /\ crashed_file c a = None /\
                   forall g, g <> a -> g <> b -> crashed_file c g = vol_file d0 g).
Admitted.

(* remove: unlinks followed by an fsync of the base directory *)
Theorem remove_durable d0 names c :
  base_quiescent d0 ->
  let d := exec_events d0 (map (fun n => EUnlink (LFile n)) names ++ [EFsync LBaseDir]) in
  base_quiescent d /\
  (crash_of d c -> (forall n, In n names -> crashed_file c n = None) /\
                   forall g, ~ In g names -> crashed_file c g = vol_file d0 g).
Admitted.

(* without the final fsync the change can be lost: the refutation witness
   for a bare rename (the behaviour of SetAdmin before its repair) *)
Theorem bare_rename_not_durable :
  exists d0 c, base_quiescent d0 /\ vol_file d0 (str "u.user") = Some (str "rec") /\
    crash_of (exec_events d0 [ERename (LFile (str "u.user")) (LFile (str "u.admin"))]) c /\
    crashed_file c (str "u.admin") = None /\ crashed_file c (str "u.user") = Some (str "rec").
Admitted.

Theorem bare_unlink_not_durable :
  exists d0 c, base_quiescent d0 /\ vol_file d0 (str "u.user") = Some (str "rec") /\
    crash_of (exec_events d0 [EUnlink (LFile (str "u.user"))]) c /\
    crashed_file c (str "u.user") = Some (str "rec").
Admitted.

(* durability checker: a trace made only of directory operations that passes
   it leaves a quiescent base directory *)
Definition dir_only (evs : list event) : Prop :=
  forall e, In e evs ->
    match e with
    | ERename (LFile _) (LFile _) | EUnlink (LFile _) | EFsync LBaseDir => True
    | _ => False
    end.

Theorem durability_checker_sound d0 evs :
  base_quiescent d0 -> dir_only evs -> durability_ok evs = true ->
  base_quiescent (exec_events d0 evs).
Admitted.

(* ---------------- the model's programs follow the discipline ---------------- *)
Section Programs.
  Variable kdf : hasher -> bytes -> bytes -> option bytes.

  Theorem add_follows_protocol c d u pw adm o s :
    p_add kdf None c d u pw adm o = (ROk, s) ->
    protocol_complete_ok (u ++ ext_of adm) true (events s) = true.
  Admitted.

  Theorem update_follows_protocol c d u pw o s :
    p_update kdf None c d u pw o = (ROk, s) ->
    exists adm, user_exists d u = ExYes adm /\
      protocol_complete_ok (u ++ ext_of adm) false (events s) = true.
  Admitted.

  Theorem set_admin_events d u adm s :
    p_set_admin None d u adm = (ROk, s) ->
    events s = [] \/
    exists cur, user_exists d u = ExYes cur /\ cur <> adm /\
      events s = [ERename (LFile (u ++ ext_of cur)) (LFile (u ++ ext_of adm)); EFsync LBaseDir].
  Admitted.

  Theorem remove_events_durable d u :
    durability_ok (events (p_remove_user None d u)) = true.
  Admitted.

  (* the data the programs put into the temp file is the new record followed
     by the old auxiliary data *)
  Theorem add_tmp_data c d u pw adm o s :
    p_add kdf None c d u pw adm o = (ROk, s) ->
    exists h hs, cfg_hasher c (default c) = Some h /\ hash_generate kdf h (o_salt o) pw = Some hs /\
      tmp_data (events s) = print_record h (o_ts o) (default c) hs.
  Admitted.

  Theorem update_tmp_data c d u pw o s :
    p_update kdf None c d u pw o = (ROk, s) ->
    exists adm old h hs, user_exists d u = ExYes adm /\ read_file d (u ++ ext_of adm) = Some old /\
      cfg_hasher c (default c) = Some h /\ hash_generate kdf h (o_salt o) pw = Some hs /\
      tmp_data (events s) = print_record h (o_ts o) (default c) hs ++ after_first_line old.
  Admitted.
End Programs.
