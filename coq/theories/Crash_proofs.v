(* Crash_proofs.v — crash safety (C08) and durability (C09) of every trace
   that follows the write discipline, and the fact that the model's own
   system-call programs follow it. *)
From Whawty Require Import Bytes Bytes_proofs Base64 Names Record Store StoreTrace Crash.
From Coq Require Import ZifyN ZifyNat ZifyBool.
Open Scope N_scope.


(* ---------------- auxiliaries: maps ---------------- *)
Lemma elookup_eremove g k e :
  elookup g (eremove k e) = if beq g k then None else elookup g e.
Proof.
  induction e as [|[k' v] e IH]; cbn [eremove elookup].
  - now destruct (beq g k).
  - destruct (beq k k') eqn:Ekk'.
    + apply beq_eq in Ekk'. subst k'. rewrite IH. now destruct (beq g k).
    + cbn [elookup]. rewrite IH. destruct (beq g k) eqn:Egk; [|reflexivity].
      apply beq_eq in Egk. subst g. now rewrite Ekk'.
Qed.

Lemma elookup_eset g k v e :
  elookup g (eset k v e) = if beq g k then Some v else elookup g e.
Proof.
  unfold eset. cbn [elookup]. rewrite elookup_eremove. now destruct (beq g k).
Qed.

Lemma ilookup_filter j i t :
  Nat.eqb j i = false ->
  ilookup j (filter (fun e : ino * inode => negb (Nat.eqb i (fst e))) t) = ilookup j t.
Proof.
  intros Hji. induction t as [|[k n] t IH]; cbn [filter ilookup fst]; [reflexivity|].
  destruct (Nat.eqb i k) eqn:Eik; cbn [negb].
  - apply Nat.eqb_eq in Eik. subst k. now rewrite Hji.
  - cbn [ilookup]. now rewrite IH.
Qed.

Lemma ilookup_iset j i n t :
  ilookup j (iset i n t) = if Nat.eqb j i then Some n else ilookup j t.
Proof.
  unfold iset. cbn [ilookup]. destruct (Nat.eqb j i) eqn:E; [reflexivity|].
  now apply ilookup_filter.
Qed.

Lemma subseq_nil_r {A} (k : list A) : subseq k [] -> k = [].
Proof. intros H. inversion H. reflexivity. Qed.

Lemma subseq_one {A} (k : list A) a : subseq k [a] -> k = [] \/ k = [a].
Proof.
  intros H. inversion H as [|x l1 l2 H1|x l1 l2 H1]; subst.
  - left. now apply subseq_nil_r.
  - right. apply subseq_nil_r in H1. now subst.
Qed.

Lemma subseq_two {A} (k : list A) a b :
  subseq k [a; b] -> k = [] \/ k = [a] \/ k = [b] \/ k = [a; b].
Proof.
  intros H. inversion H as [|x l1 l2 H1|x l1 l2 H1]; subst.
  - apply subseq_one in H1. destruct H1 as [H1|H1]; subst; auto.
  - apply subseq_one in H1. destruct H1 as [H1|H1]; subst; auto.
Qed.

Lemma subseq_nil_l {A} (l : list A) : subseq [] l.
Proof. induction l; constructor; auto. Qed.

Lemma crash_content d c i n x :
  crash_of d c -> ilookup i (inodes d) = Some n -> i_dur n = Some x -> c_content c i = x.
Proof.
  intros (_ & _ & H) Hi Hd. specialize (H i n Hi). now rewrite Hd in H.
Qed.

Lemma tmp_data_app a b : tmp_data (a ++ b) = tmp_data a ++ tmp_data b.
Proof.
  induction a as [|e a IH]; [reflexivity|].
  cbn [app tmp_data]. destruct e as [l|l|l data|l|s dd|l]; try exact IH.
  destruct l; try exact IH. rewrite IH. now rewrite app_assoc.
Qed.

Lemma proto_run_app f reserve l1 : forall st l2,
  proto_run f reserve st (l1 ++ l2) =
  match proto_run f reserve st l1 with Some st' => proto_run f reserve st' l2 | None => None end.
Proof.
  induction l1 as [|e l1 IH]; intros st l2; [reflexivity|].
  cbn [app proto_run]. destruct (proto_step f reserve st e); [apply IH|reflexivity].
Qed.

Lemma exec_events_app d l1 l2 : exec_events d (l1 ++ l2) = exec_events (exec_events d l1) l2.
Proof. unfold exec_events. apply fold_left_app. Qed.

(* a file of the old base directory read through a view that did not touch it *)
Lemma old_file_crash d0 d c g :
  base_quiescent d0 ->
  (forall j, (j < next_ino d0)%nat -> ilookup j (inodes d) = ilookup j (inodes d0)) ->
  crash_of d c ->
  elookup g (c_base c) = elookup g (base_vol d0) ->
  crashed_file c g = vol_file d0 g.
Proof.
  intros (_ & _ & Hclean & _ & Hlt & _) Hold Hc Hg.
  unfold crashed_file, vol_file. rewrite Hg.
  destruct (elookup g (base_vol d0)) as [i|] eqn:Ei; [|reflexivity].
  destruct (Hclean g i Ei) as (n & Hn & Hdur). rewrite Hn.
  f_equal. eapply crash_content; eauto. rewrite Hold; eauto.
Qed.

Lemma old_file_vol d0 d g :
  base_quiescent d0 ->
  (forall j, (j < next_ino d0)%nat -> ilookup j (inodes d) = ilookup j (inodes d0)) ->
  elookup g (base_vol d) = elookup g (base_vol d0) ->
  vol_file d g = vol_file d0 g.
Proof.
  intros (_ & _ & _ & _ & Hlt & _) Hold Hg.
  unfold vol_file. rewrite Hg.
  destruct (elookup g (base_vol d0)) as [i|] eqn:Ei; [|reflexivity].
  rewrite Hold; eauto.
Qed.

(* ---------------- general facts ---------------- *)

(* on a base-quiescent disk every crash state shows exactly the volatile view
   of the base directory *)
Theorem crash_view_of_quiescent d c :
  base_quiescent d -> crash_of d c -> forall f, crashed_file c f = vol_file d f.
Proof.
  intros Hq Hc f. apply (old_file_crash d d c f); auto.
  destruct Hq as (Hp & Hd & _). destruct Hc as ((kept & Hs & Hb) & _).
  rewrite Hp in Hs. apply subseq_nil_r in Hs. subst kept. cbn in Hb.
  now rewrite Hb, Hd.
Qed.

Lemma protocol_prefix_closed f reserve l1 l2 :
  protocol_prefix_ok f reserve (l1 ++ l2) = true -> protocol_prefix_ok f reserve l1 = true.
Proof.
  unfold protocol_prefix_ok. rewrite proto_run_app.
  now destruct (proto_run f reserve (PStart false) l1).
Qed.

Lemma protocol_complete_is_prefix f reserve l :
  protocol_complete_ok f reserve l = true -> protocol_prefix_ok f reserve l = true.
Proof.
  unfold protocol_complete_ok, protocol_prefix_ok.
  now destruct (proto_run f reserve (PStart false) l).
Qed.

(* ---------------- the protocol invariant ---------------- *)
(* The disk after an accepted prefix, described through its lookups, relative
   to the quiescent start disk d0.  i0 = inode of the reservation (add only),
   i1 = inode of the temp file. *)
Definition empty_inode : inode := {| i_vol := []; i_dur := Some []; i_written := false |}.

Definition ino_r (d0 : disk) : ino := next_ino d0.
Definition ino_t (reserve : bool) (d0 : disk) : ino := if reserve then S (next_ino d0) else next_ino d0.

Definition ino0 (d0 : disk) (r : bool) (j : ino) : option inode :=
  if r && Nat.eqb j (ino_r d0) then Some empty_inode else ilookup j (inodes d0).

Definition basev (f : bytes) (d0 : disk) (k : option ino) (g : bytes) : option ino :=
  match k with
  | Some i => if beq g f then Some i else elookup g (base_vol d0)
  | None => elookup g (base_vol d0)
  end.

Definition rsv (d0 : disk) (r : bool) : option ino := if r then Some (ino_r d0) else None.
Definition rpend (f : bytes) (d0 : disk) (r : bool) : list dirop := if r then [DLink f (ino_r d0)] else [].
Definition no_rename (f : bytes) (evs : list event) : Prop :=
  forall t, ~ In (ERename (LTmpFile t) (LFile f)) evs.

Definition inv_start (f : bytes) (reserve : bool) (d0 : disk) (r : bool) (evs : list event) (d : disk) : Prop :=
  (r = true -> reserve = true) /\
  next_ino d = (if r then S (next_ino d0) else next_ino d0) /\
  (forall j, ilookup j (inodes d) = ino0 d0 r j) /\
  (forall g, elookup g (base_vol d) = basev f d0 (rsv d0 r) g) /\
  base_dur d = base_dur d0 /\
  base_pend d = rpend f d0 r /\
  (forall t', elookup t' (tmp_vol d) = elookup t' (tmp_vol d0)) /\
  tmp_data evs = [] /\
  no_rename f evs.

Definition inv_tmp (f : bytes) (reserve : bool) (d0 : disk) (t : bytes) (synced : bool)
           (evs : list event) (d : disk) : Prop :=
  next_ino d = S (ino_t reserve d0) /\
  (exists n, i_vol n = tmp_data evs /\ (synced = true -> i_dur n = Some (i_vol n)) /\
     forall j, ilookup j (inodes d) = if Nat.eqb j (ino_t reserve d0) then Some n else ino0 d0 reserve j) /\
  (forall g, elookup g (base_vol d) = basev f d0 (rsv d0 reserve) g) /\
  base_dur d = base_dur d0 /\
  base_pend d = rpend f d0 reserve /\
  (forall t', elookup t' (tmp_vol d) = if beq t' t then Some (ino_t reserve d0) else elookup t' (tmp_vol d0)) /\
  no_rename f evs.

Definition inv_ren (f : bytes) (reserve : bool) (d0 : disk) (t : bytes) (done : bool)
           (evs : list event) (d : disk) : Prop :=
  next_ino d = S (ino_t reserve d0) /\
  (exists n, i_vol n = tmp_data evs /\ i_dur n = Some (i_vol n) /\
     forall j, ilookup j (inodes d) = if Nat.eqb j (ino_t reserve d0) then Some n else ino0 d0 reserve j) /\
  (forall g, elookup g (base_vol d) = basev f d0 (Some (ino_t reserve d0)) g) /\
  (if done then base_dur d = base_vol d /\ base_pend d = []
   else base_dur d = base_dur d0 /\ base_pend d = rpend f d0 reserve ++ [DLink f (ino_t reserve d0)]) /\
  (forall t', elookup t' (tmp_vol d) = if beq t' t then None else elookup t' (tmp_vol d0)) /\
  (exists t0, In (ERename (LTmpFile t0) (LFile f)) evs).

Definition PInv (f : bytes) (reserve : bool) (d0 : disk) (st : pstate) (evs : list event) (d : disk) : Prop :=
  match st with
  | PStart r => inv_start f reserve d0 r evs d
  | PTmp t => inv_tmp f reserve d0 t false evs d
  | PSynced t => inv_tmp f reserve d0 t true evs d
  | PRenamed t => inv_ren f reserve d0 t false evs d
  | PDone t => inv_ren f reserve d0 t true evs d
  end.

Lemma no_rename_snoc f evs e :
  no_rename f evs -> (forall t, e <> ERename (LTmpFile t) (LFile f)) -> no_rename f (evs ++ [e]).
Proof.
  intros Hnr He t Hin. apply in_app_or in Hin. destruct Hin as [Hin|[Hin|[]]].
  - exact (Hnr t Hin).
  - exact (He t Hin).
Qed.

Ltac fields :=
  cbn [inodes next_ino base_vol base_dur base_pend tmp_vol tmp_dur tmp_pend tmp_exists_vol tmp_exists_dur].

Lemma step_reserve f reserve d0 evs d :
  reserve = true -> inv_start f reserve d0 false evs d ->
  inv_start f reserve d0 true (evs ++ [ECreate (LFile f)]) (exec_event d (ECreate (LFile f))).
Proof.
  intros Hr (_ & Hnx & Hino & Hbv & Hbd & Hbp & Htv & Htd & Hnr).
  unfold inv_start, exec_event, new_file, with_base. fields.
  rewrite Hnx, Hbp.
  repeat apply conj.
  - auto.
  - reflexivity.
  - intros j. rewrite ilookup_iset, Hino. unfold ino0, ino_r. cbn [andb].
    destruct (Nat.eqb j (next_ino d0)); reflexivity.
  - intros g. rewrite elookup_eset, Hbv. reflexivity.
  - exact Hbd.
  - reflexivity.
  - exact Htv.
  - rewrite tmp_data_app, Htd. reflexivity.
  - apply no_rename_snoc; [exact Hnr|]. intros t; discriminate.
Qed.

Lemma step_mkdir f reserve d0 r evs d :
  inv_start f reserve d0 r evs d ->
  inv_start f reserve d0 r (evs ++ [EMkdir LTmpDir]) (exec_event d (EMkdir LTmpDir)).
Proof.
  intros (Hr & Hnx & Hino & Hbv & Hbd & Hbp & Htv & Htd & Hnr).
  unfold inv_start, exec_event. fields.
  repeat apply conj; auto.
  - rewrite tmp_data_app, Htd. reflexivity.
  - apply no_rename_snoc; [exact Hnr|]. intros t; discriminate.
Qed.

Lemma step_create_tmp f reserve d0 t evs d :
  inv_start f reserve d0 reserve evs d ->
  inv_tmp f reserve d0 t false (evs ++ [ECreate (LTmpFile t)]) (exec_event d (ECreate (LTmpFile t))).
Proof.
  intros (Hr & Hnx & Hino & Hbv & Hbd & Hbp & Htv & Htd & Hnr).
  unfold inv_tmp, exec_event, new_file, with_tmp. fields.
  change (if reserve then S (next_ino d0) else next_ino d0) with (ino_t reserve d0) in Hnx.
  rewrite Hnx.
  repeat apply conj; auto.
  - exists empty_inode. repeat apply conj.
    + rewrite tmp_data_app, Htd. reflexivity.
    + discriminate.
    + intros j. rewrite ilookup_iset, Hino. reflexivity.
  - intros t'. rewrite elookup_eset, Htv. reflexivity.
  - apply no_rename_snoc; [exact Hnr|]. intros t0; discriminate.
Qed.

Lemma step_write f reserve d0 t data evs d :
  inv_tmp f reserve d0 t false evs d ->
  inv_tmp f reserve d0 t false (evs ++ [EWrite (LTmpFile t) data]) (exec_event d (EWrite (LTmpFile t) data)).
Proof.
  intros (Hnx & (n & Hvol & Hsy & Hino) & Hbv & Hbd & Hbp & Htv & Hnr).
  unfold inv_tmp, exec_event, lookup_loc.
  rewrite Htv, beq_refl, Hino, Nat.eqb_refl. unfold with_inodes. fields.
  repeat apply conj; auto.
  - exists {| i_vol := i_vol n ++ data; i_dur := None; i_written := true |}. repeat apply conj.
    + cbn [i_vol]. rewrite tmp_data_app, Hvol. cbn [tmp_data]. now rewrite app_nil_r.
    + discriminate.
    + intros j. rewrite ilookup_iset, Hino.
      destruct (Nat.eqb j (ino_t reserve d0)); reflexivity.
  - apply no_rename_snoc; [exact Hnr|]. intros t0; discriminate.
Qed.

Lemma step_fsync_tmp f reserve d0 t s evs d :
  inv_tmp f reserve d0 t s evs d ->
  inv_tmp f reserve d0 t true (evs ++ [EFsync (LTmpFile t)]) (exec_event d (EFsync (LTmpFile t))).
Proof.
  intros (Hnx & (n & Hvol & Hsy & Hino) & Hbv & Hbd & Hbp & Htv & Hnr).
  unfold inv_tmp, exec_event, lookup_loc.
  rewrite Htv, beq_refl, Hino, Nat.eqb_refl. unfold with_inodes. fields.
  repeat apply conj; auto.
  - exists {| i_vol := i_vol n; i_dur := Some (i_vol n); i_written := i_written n |}. repeat apply conj.
    + cbn [i_vol]. rewrite tmp_data_app, Hvol. cbn [tmp_data]. now rewrite app_nil_r.
    + reflexivity.
    + intros j. rewrite ilookup_iset, Hino.
      destruct (Nat.eqb j (ino_t reserve d0)); reflexivity.
  - apply no_rename_snoc; [exact Hnr|]. intros t0; discriminate.
Qed.

Lemma step_rename f reserve d0 t evs d :
  inv_tmp f reserve d0 t true evs d ->
  inv_ren f reserve d0 t false (evs ++ [ERename (LTmpFile t) (LFile f)])
          (exec_event d (ERename (LTmpFile t) (LFile f))).
Proof.
  intros (Hnx & (n & Hvol & Hsy & Hino) & Hbv & Hbd & Hbp & Htv & Hnr).
  unfold inv_ren, exec_event.
  rewrite Htv, beq_refl. unfold with_base, with_tmp. fields.
  repeat apply conj; auto.
  - exists n. repeat apply conj; auto.
    rewrite tmp_data_app, Hvol. cbn [tmp_data]. now rewrite app_nil_r.
  - intros g. rewrite elookup_eset, Hbv. unfold basev, rsv.
    destruct (beq g f); destruct reserve; reflexivity.
  - now rewrite Hbp.
  - intros t'. rewrite elookup_eremove, Htv. destruct (beq t' t); reflexivity.
  - exists t. apply in_or_app. right. now left.
Qed.

Lemma step_fsync_base f reserve d0 t s evs d :
  inv_ren f reserve d0 t s evs d ->
  inv_ren f reserve d0 t true (evs ++ [EFsync LBaseDir]) (exec_event d (EFsync LBaseDir)).
Proof.
  intros (Hnx & (n & Hvol & Hsy & Hino) & Hbv & Hbd & Htv & (t0 & Hin)).
  unfold inv_ren, exec_event. fields.
  repeat apply conj; auto.
  - exists n. repeat apply conj; auto.
    rewrite tmp_data_app, Hvol. cbn [tmp_data]. now rewrite app_nil_r.
  - exists t0. apply in_or_app. now left.
Qed.

Lemma step_unlink_tmp f reserve d0 t evs d :
  inv_ren f reserve d0 t true evs d ->
  inv_ren f reserve d0 t true (evs ++ [EUnlink (LTmpFile t)]) (exec_event d (EUnlink (LTmpFile t))).
Proof.
  intros (Hnx & (n & Hvol & Hsy & Hino) & Hbv & Hbd & Htv & (t0 & Hin)).
  unfold inv_ren, exec_event, with_tmp. fields.
  repeat apply conj; auto.
  - exists n. repeat apply conj; auto.
    rewrite tmp_data_app, Hvol. cbn [tmp_data]. now rewrite app_nil_r.
  - tauto.
  - tauto.
  - intros t'. rewrite elookup_eremove, Htv. destruct (beq t' t); reflexivity.
  - exists t0. apply in_or_app. now left.
Qed.

Ltac split_ifs H :=
  repeat match type of H with
         | context [if ?b then _ else _] => destruct b eqn:?; try discriminate H
         end.

Lemma PInv_step f reserve d0 st st' e evs d :
  PInv f reserve d0 st evs d ->
  proto_step f reserve st e = Some st' ->
  PInv f reserve d0 st' (evs ++ [e]) (exec_event d e).
Proof.
  intros Hinv Hstep.
  destruct st as [r|t|t|t|t];
    destruct e as [[g|t'| |]|[g|t'| |]|[g|t'| |] data|[g|t'| |]|[g|t'| |] [g2|t2| |]|[g|t'| |]];
    cbn in Hstep; try discriminate Hstep; split_ifs Hstep;
    injection Hstep as <-;
    repeat match goal with
           | H : beq _ _ = true |- _ => apply beq_eq in H
           | H : andb _ _ = true |- _ => apply andb_prop in H; destruct H
           | H : Bool.eqb _ _ = true |- _ => apply Bool.eqb_prop in H
           end; subst; cbn [PInv] in *.
  all: first [ now apply step_reserve
             | now apply step_mkdir
             | now apply step_create_tmp
             | now apply step_write
             | now eapply step_fsync_tmp; eauto
             | now apply step_rename
             | now eapply step_fsync_base; eauto
             | now apply step_unlink_tmp
             | idtac ].
Qed.

Lemma PInv_init f reserve d0 : base_quiescent d0 -> PInv f reserve d0 (PStart false) [] d0.
Proof.
  intros (Hp & _). cbn [PInv]. unfold inv_start.
  repeat apply conj; auto.
  - discriminate.
  - intros t H. exact H.
Qed.

Lemma proto_run_snoc f reserve st l e :
  proto_run f reserve st (l ++ [e]) =
  match proto_run f reserve st l with Some st' => proto_step f reserve st' e | None => None end.
Proof.
  rewrite proto_run_app. destruct (proto_run f reserve st l) as [st'|]; [|reflexivity].
  cbn [proto_run]. now destruct (proto_step f reserve st' e).
Qed.

Lemma proto_inv f reserve d0 :
  base_quiescent d0 ->
  forall evs st, proto_run f reserve (PStart false) evs = Some st ->
                 PInv f reserve d0 st evs (exec_events d0 evs).
Proof.
  intros Hq evs. induction evs as [|e evs IH] using rev_ind; intros st Hrun.
  - cbn in Hrun. injection Hrun as <-. now apply PInv_init.
  - rewrite proto_run_snoc in Hrun.
    destruct (proto_run f reserve (PStart false) evs) as [st0|] eqn:E0; [|discriminate].
    rewrite exec_events_app. cbn [exec_events fold_left].
    eapply PInv_step; eauto.
Qed.

(* ---------------- what the invariant says about readers ---------------- *)
Lemma ino0_old d0 r j : (j < next_ino d0)%nat -> ino0 d0 r j = ilookup j (inodes d0).
Proof.
  intros Hj. unfold ino0, ino_r. destruct r; cbn [andb]; [|reflexivity].
  destruct (Nat.eqb j (next_ino d0)) eqn:E; [apply Nat.eqb_eq in E; lia|reflexivity].
Qed.

Lemma ino0_rsv d0 : ino0 d0 true (ino_r d0) = Some empty_inode.
Proof. unfold ino0. now rewrite Nat.eqb_refl. Qed.

Lemma ino_t_old reserve d0 j : (j < next_ino d0)%nat -> Nat.eqb j (ino_t reserve d0) = false.
Proof. intros Hj. apply Nat.eqb_neq. unfold ino_t. destruct reserve; lia. Qed.

Lemma ino_r_t d0 : Nat.eqb (ino_r d0) (ino_t true d0) = false.
Proof. apply Nat.eqb_neq. unfold ino_r, ino_t. lia. Qed.

Lemma ino_t_ge reserve d0 : (next_ino d0 <= ino_t reserve d0)%nat.
Proof. unfold ino_t. destruct reserve; lia. Qed.

Lemma ino0_lt d0 reserve j n : base_quiescent d0 -> ino0 d0 reserve j = Some n -> (j < S (ino_t reserve d0))%nat.
Proof.
  intros (_ & _ & _ & Hlt & _) H. unfold ino0, ino_r, ino_t in *.
  destruct reserve; cbn [andb] in H.
  - destruct (Nat.eqb j (next_ino d0)) eqn:E.
    + apply Nat.eqb_eq in E. lia.
    + apply Hlt in H. lia.
  - apply Hlt in H. lia.
Qed.

Definition good (f : bytes) (reserve : bool) (d0 : disk) (evs : list event) (d : disk) (k : option ino) : Prop :=
  k = None \/
  (k = Some (ino_r d0) /\ reserve = true /\ ilookup (ino_r d0) (inodes d) = Some empty_inode) \/
  (k = Some (ino_t reserve d0) /\
   (exists n, ilookup (ino_t reserve d0) (inodes d) = Some n /\ i_vol n = tmp_data evs /\ i_dur n = Some (i_vol n)) /\
   exists t, In (ERename (LTmpFile t) (LFile f)) evs).

Definition summary (f : bytes) (reserve : bool) (d0 : disk) (evs : list event) (d : disk) : Prop :=
  (forall j, (j < next_ino d0)%nat -> ilookup j (inodes d) = ilookup j (inodes d0)) /\
  (exists kv, (forall g, elookup g (base_vol d) = basev f d0 kv g) /\ good f reserve d0 evs d kv) /\
  (base_dur d = base_dur d0 \/ (base_dur d = base_vol d /\ base_pend d = [])) /\
  (forall o, In o (base_pend d) -> exists i, o = DLink f i /\ good f reserve d0 evs d (Some i)).

Lemma PInv_summary f reserve d0 st evs d :
  PInv f reserve d0 st evs d -> summary f reserve d0 evs d.
Proof.
  intros Hinv. destruct st as [r|t|t|t|t]; cbn [PInv] in Hinv.
  - destruct Hinv as (Hr & Hnx & Hino & Hbv & Hbd & Hbp & Htv & Htd & Hnr).
    assert (Hg : good f reserve d0 evs d (rsv d0 r)).
    { destruct r; [|now left]. right; left. repeat apply conj; auto.
      rewrite Hino. apply ino0_rsv. }
    repeat apply conj.
    + intros j Hj. rewrite Hino. now apply ino0_old.
    + exists (rsv d0 r). auto.
    + now left.
    + rewrite Hbp. destruct r; cbn [rpend]; intros o Ho; [|destruct Ho].
      destruct Ho as [<-|[]]. exists (ino_r d0). auto.
  - destruct Hinv as (Hnx & (n & Hvol & Hsy & Hino) & Hbv & Hbd & Hbp & Htv & Hnr).
    assert (Hg : good f reserve d0 evs d (rsv d0 reserve)).
    { destruct reserve eqn:Hres; [|now left]. right; left. repeat apply conj; auto.
      rewrite Hino, ino_r_t. apply ino0_rsv. }
    repeat apply conj.
    + intros j Hj. rewrite Hino, ino_t_old by auto. now apply ino0_old.
    + exists (rsv d0 reserve). auto.
    + now left.
    + rewrite Hbp. destruct reserve; cbn [rpend]; intros o Ho; [|destruct Ho].
      destruct Ho as [<-|[]]. exists (ino_r d0). auto.
  - destruct Hinv as (Hnx & (n & Hvol & Hsy & Hino) & Hbv & Hbd & Hbp & Htv & Hnr).
    assert (Hg : good f reserve d0 evs d (rsv d0 reserve)).
    { destruct reserve eqn:Hres; [|now left]. right; left. repeat apply conj; auto.
      rewrite Hino, ino_r_t. apply ino0_rsv. }
    repeat apply conj.
    + intros j Hj. rewrite Hino, ino_t_old by auto. now apply ino0_old.
    + exists (rsv d0 reserve). auto.
    + now left.
    + rewrite Hbp. destruct reserve; cbn [rpend]; intros o Ho; [|destruct Ho].
      destruct Ho as [<-|[]]. exists (ino_r d0). auto.
  - destruct Hinv as (Hnx & (n & Hvol & Hsy & Hino) & Hbv & (Hbd & Hbp) & Htv & Hren).
    assert (Hg1 : good f reserve d0 evs d (Some (ino_t reserve d0))).
    { right; right. repeat apply conj; auto. exists n. repeat apply conj; auto.
      rewrite Hino. now rewrite Nat.eqb_refl. }
    assert (Hg0 : reserve = true -> good f reserve d0 evs d (Some (ino_r d0))).
    { intros Hres. right; left. repeat apply conj; auto.
      rewrite Hino. rewrite Hres at 1. rewrite ino_r_t. rewrite Hres. apply ino0_rsv. }
    repeat apply conj.
    + intros j Hj. rewrite Hino, ino_t_old by auto. now apply ino0_old.
    + exists (Some (ino_t reserve d0)). auto.
    + now left.
    + rewrite Hbp. intros o Ho. apply in_app_or in Ho. destruct Ho as [Ho|[<-|[]]].
      * destruct reserve eqn:Hres; cbn [rpend] in Ho; [|destruct Ho].
        destruct Ho as [<-|[]]. exists (ino_r d0). auto.
      * exists (ino_t reserve d0). auto.
  - destruct Hinv as (Hnx & (n & Hvol & Hsy & Hino) & Hbv & (Hbd & Hbp) & Htv & Hren).
    assert (Hg1 : good f reserve d0 evs d (Some (ino_t reserve d0))).
    { right; right. repeat apply conj; auto. exists n. repeat apply conj; auto.
      rewrite Hino. now rewrite Nat.eqb_refl. }
    repeat apply conj.
    + intros j Hj. rewrite Hino, ino_t_old by auto. now apply ino0_old.
    + exists (Some (ino_t reserve d0)). auto.
    + now right.
    + rewrite Hbp. intros o [].
Qed.

Lemma subseq_In {A} (k l : list A) x : subseq k l -> In x k -> In x l.
Proof.
  induction 1 as [|y l1 l2 H IH|y l1 l2 H IH]; intros Hin; auto.
  - right. auto.
  - destruct Hin as [->|Hin]; [now left|right; auto].
Qed.

Lemma fold_links f e kept :
  (forall o, In o kept -> exists i, o = DLink f i) ->
  exists k,
    (forall g, elookup g (fold_left (fun e o => apply_dirop o e) kept e) =
               match k with Some i => if beq g f then Some i else elookup g e | None => elookup g e end) /\
    (k = None \/ exists i, k = Some i /\ In (DLink f i) kept).
Proof.
  induction kept as [|o kept IH] using rev_ind; intros Hall.
  - exists None. split; [reflexivity|now left].
  - destruct IH as (k & Hk & _).
    { intros o' Ho'. apply Hall. apply in_or_app. now left. }
    destruct (Hall o) as (i & ->). { apply in_or_app. right. now left. }
    exists (Some i). split.
    + intros g. rewrite fold_left_app. cbn [fold_left apply_dirop].
      rewrite elookup_eset, Hk. destruct (beq g f); [reflexivity|]. now destruct k.
    + right. exists i. split; [reflexivity|]. apply in_or_app. right. now left.
Qed.

Lemma crash_view f reserve d0 evs d c :
  base_quiescent d0 -> summary f reserve d0 evs d -> crash_of d c ->
  exists k, (forall g, elookup g (c_base c) = basev f d0 k g) /\ good f reserve d0 evs d k.
Proof.
  intros Hq (Hold & (kv & Hkv & Hgkv) & Hdur & Hpend) ((kept & Hs & Hb) & _).
  destruct Hdur as [Hdur|(Hdur & Hp)].
  - destruct (fold_links f (base_dur d) kept) as (k & Hk & Hkk).
    { intros o Ho. destruct (Hpend o) as (i & Hi & _); eauto using subseq_In. }
    exists k. split.
    + intros g. rewrite Hb, Hk, Hdur. destruct Hq as (_ & -> & _). reflexivity.
    + destruct Hkk as [->|(i & -> & Hin)]; [now left|].
      destruct (Hpend (DLink f i)) as (i' & Hi' & Hg); eauto using subseq_In.
      injection Hi' as <-. exact Hg.
  - rewrite Hp in Hs. apply subseq_nil_r in Hs. subst kept. cbn [fold_left] in Hb.
    exists kv. split; auto. intros g. now rewrite Hb, Hdur.
Qed.

Lemma basev_other f d0 k g : g <> f -> basev f d0 k g = elookup g (base_vol d0).
Proof.
  intros Hg. apply beq_neq in Hg. unfold basev. destruct k; [now rewrite Hg|reflexivity].
Qed.

(* ---------------- C08: a crash at ANY instant ---------------- *)
(* For every prefix of a disciplined trace and every crash state of it, the
   target is absent or an empty reservation (add only), the complete old
   content, or the complete new content; every other file of the base
   directory is exactly as before. *)
Theorem crash_safe_prefix f reserve d0 evs c :
  base_quiescent d0 -> target_pre f reserve d0 -> tmp_fresh evs d0 ->
  protocol_prefix_ok f reserve evs = true ->
  crash_of (exec_events d0 evs) c ->
  ( (reserve = true /\ crashed_file c f = None)
    \/ (reserve = true /\ crashed_file c f = Some [])
    \/ (reserve = false /\ crashed_file c f = vol_file d0 f)
    \/ ((exists t, In (ERename (LTmpFile t) (LFile f)) evs) /\ crashed_file c f = Some (tmp_data evs)) )
  /\ (forall g, g <> f -> crashed_file c g = vol_file d0 g).
Proof.
  intros Hq Hpre _ Hok Hc. unfold protocol_prefix_ok in Hok.
  destruct (proto_run f reserve (PStart false) evs) as [st|] eqn:Hrun; [|discriminate].
  pose proof (PInv_summary _ _ _ _ _ _ (proto_inv f reserve d0 Hq evs st Hrun)) as Hsum.
  destruct (crash_view _ _ _ _ _ _ Hq Hsum Hc) as (k & Hk & Hg).
  destruct Hsum as (Hold & _).
  split.
  - destruct Hg as [->|[(-> & Hres & Hi0)|(-> & (n & Hn & Hv & Hd) & Hren)]].
    + destruct reserve eqn:Hres; unfold target_pre in Hpre.
      * left. split; [reflexivity|]. unfold crashed_file. rewrite Hk. cbn [basev]. now rewrite Hpre.
      * right; right; left. split; [reflexivity|].
        eapply old_file_crash; eauto.
    + right; left. split; [exact Hres|]. unfold crashed_file. rewrite Hk. cbn [basev].
      rewrite beq_refl. f_equal. eapply crash_content; eauto.
    + right; right; right. split; [exact Hren|]. unfold crashed_file. rewrite Hk. cbn [basev].
      rewrite beq_refl. f_equal. rewrite <- Hv. eapply crash_content; eauto.
  - intros g Hgf. eapply old_file_crash; eauto. rewrite Hk. now apply basev_other.
Qed.

(* the process-kill instance (nothing lost): readers in other processes see
   the volatile state at a system-call boundary, which is one of the same *)
Theorem kill_safe_prefix f reserve d0 evs :
  base_quiescent d0 -> target_pre f reserve d0 -> tmp_fresh evs d0 ->
  protocol_prefix_ok f reserve evs = true ->
  ( (reserve = true /\ vol_file (exec_events d0 evs) f = None)
    \/ (reserve = true /\ vol_file (exec_events d0 evs) f = Some [])
    \/ (reserve = false /\ vol_file (exec_events d0 evs) f = vol_file d0 f)
    \/ ((exists t, In (ERename (LTmpFile t) (LFile f)) evs) /\ vol_file (exec_events d0 evs) f = Some (tmp_data evs)) )
  /\ (forall g, g <> f -> vol_file (exec_events d0 evs) g = vol_file d0 g).
Proof.
  intros Hq Hpre _ Hok. unfold protocol_prefix_ok in Hok.
  destruct (proto_run f reserve (PStart false) evs) as [st|] eqn:Hrun; [|discriminate].
  pose proof (PInv_summary _ _ _ _ _ _ (proto_inv f reserve d0 Hq evs st Hrun)) as Hsum.
  destruct Hsum as (Hold & (k & Hk & Hg) & _).
  split.
  - destruct Hg as [->|[(-> & Hres & Hi0)|(-> & (n & Hn & Hv & Hd) & Hren)]].
    + destruct reserve eqn:Hres; unfold target_pre in Hpre.
      * left. split; [reflexivity|]. unfold vol_file. rewrite Hk. cbn [basev]. now rewrite Hpre.
      * right; right; left. split; [reflexivity|].
        eapply old_file_vol; eauto.
    + right; left. split; [exact Hres|]. unfold vol_file. rewrite Hk. cbn [basev].
      rewrite beq_refl, Hi0. reflexivity.
    + right; right; right. split; [exact Hren|]. unfold vol_file. rewrite Hk. cbn [basev].
      rewrite beq_refl, Hn. now rewrite Hv.
  - intros g Hgf. eapply old_file_vol; eauto. rewrite Hk. now apply basev_other.
Qed.

(* a new record never becomes visible under its final name before its
   content is durable: the rename is preceded by an fsync of the temp file
   with no write in between *)
Definition no_write (l : list event) : Prop := forall loc data, ~ In (EWrite loc data) l.

Lemma no_write_nil : no_write [].
Proof. intros l d H. exact H. Qed.

Lemma no_write_cons e l : (forall loc data, e <> EWrite loc data) -> no_write l -> no_write (e :: l).
Proof. intros He Hl loc data [H|H]; [exact (He _ _ H)|exact (Hl _ _ H)]. Qed.

Lemma early_vis_gen f reserve t : forall evs st st',
  proto_run f reserve st evs = Some st' ->
  In (ERename (LTmpFile t) (LFile f)) evs ->
  match st with
  | PStart _ | PTmp _ =>
      exists l1 l2 l3,
        evs = l1 ++ EFsync (LTmpFile t) :: l2 ++ ERename (LTmpFile t) (LFile f) :: l3 /\
        no_write l2 /\ no_write l3
  | PSynced t0 =>
      t0 = t /\
      exists l2 l3, evs = l2 ++ ERename (LTmpFile t) (LFile f) :: l3 /\ no_write l2 /\ no_write l3
  | PRenamed _ | PDone _ => False
  end.
Proof.
  induction evs as [|e evs IH]; intros st st' Hrun Hin; [destruct Hin|].
  cbn [proto_run] in Hrun.
  destruct (proto_step f reserve st e) as [st1|] eqn:Hstep; [|discriminate].
  destruct st as [r|t0|t0|t0|t0];
    destruct e as [[g|t'| |]|[g|t'| |]|[g|t'| |] data|[g|t'| |]|[g|t'| |] [g2|t2| |]|[g|t'| |]];
    cbn in Hstep; try discriminate Hstep; split_ifs Hstep;
    injection Hstep as <-;
    repeat match goal with
           | H : beq _ _ = true |- _ => apply beq_eq in H
           | H : andb _ _ = true |- _ => apply andb_prop in H; destruct H
           | H : Bool.eqb _ _ = true |- _ => apply Bool.eqb_prop in H
           end; subst;
    (destruct Hin as [Hin|Hin]; [try discriminate Hin|]).
  (* PStart: ECreate f, ECreate tmp, EMkdir: the rename is later *)
  all: try (specialize (IH _ _ Hrun Hin); cbn beta iota in IH).
  all: try (exfalso; exact IH).
  all: try (match goal with
            | |- exists l1 l2 l3, ?e :: _ = _ /\ _ =>
                match type of IH with
                | exists l1 l2 l3, _ =>
                    destruct IH as (l1 & l2 & l3 & -> & H2 & H3);
                    exists (e :: l1), l2, l3; repeat apply conj; auto
                | _ /\ _ =>
                    destruct IH as (-> & l2 & l3 & -> & H2 & H3);
                    exists [], l2, l3; repeat apply conj; auto
                end
            end).
  - (* PSynced, another fsync *)
    destruct IH as (-> & l2 & l3 & -> & H2 & H3). split; [reflexivity|].
    exists (EFsync (LTmpFile t) :: l2), l3. repeat apply conj; auto.
    apply no_write_cons; auto. discriminate.
  - (* PSynced, the rename itself *)
    injection Hin as <-. split; [reflexivity|].
    exists [], evs. repeat apply conj; auto using no_write_nil.
    clear -Hrun. intros loc data Hw.
    assert (Hgen : forall l s s', proto_run f reserve s l = Some s' ->
                     (exists x, s = PRenamed x \/ s = PDone x) -> ~ In (EWrite loc data) l).
    { clear. induction l as [|e l IHl]; intros s s' Hr Hs H; [exact H|].
      cbn [proto_run] in Hr. destruct (proto_step f reserve s e) as [s1|] eqn:Hst; [|discriminate].
      destruct H as [->|H].
      - destruct Hs as (x & [->| ->]); cbn in Hst; discriminate.
      - apply (IHl s1 s' Hr); auto.
        destruct Hs as (x & [->| ->]);
          destruct e as [[g|t'| |]|[g|t'| |]|[g|t'| |] data'|[g|t'| |]|[g|t'| |] [g2|t2| |]|[g|t'| |]];
          cbn in Hst; try discriminate Hst; split_ifs Hst; injection Hst as <-; eauto. }
    eapply Hgen; eauto.
Qed.

Theorem no_early_visibility f reserve evs t :
  protocol_prefix_ok f reserve evs = true ->
  In (ERename (LTmpFile t) (LFile f)) evs ->
  exists l1 l2 l3,
    evs = l1 ++ EFsync (LTmpFile t) :: l2 ++ ERename (LTmpFile t) (LFile f) :: l3 /\
    (forall l d, ~ In (EWrite l d) l2) /\ (forall l d, ~ In (EWrite l d) l3).
Proof.
  intros Hok Hin. unfold protocol_prefix_ok in Hok.
  destruct (proto_run f reserve (PStart false) evs) as [st|] eqn:Hrun; [|discriminate].
  exact (early_vis_gen f reserve t evs _ _ Hrun Hin).
Qed.

(* ---------------- C09: acknowledged changes are durable ---------------- *)
(* a completed add / update: the new content is what every later crash state
   shows, and the base directory is quiescent again (so the argument chains
   over any history of operations) *)
Theorem complete_is_durable f reserve d0 evs :
  base_quiescent d0 -> target_pre f reserve d0 -> tmp_fresh evs d0 ->
  protocol_complete_ok f reserve evs = true ->
  base_quiescent (exec_events d0 evs) /\
  vol_file (exec_events d0 evs) f = Some (tmp_data evs) /\
  (forall g, g <> f -> vol_file (exec_events d0 evs) g = vol_file d0 g).
Proof.
  intros Hq Hpre _ Hok. unfold protocol_complete_ok in Hok.
  destruct (proto_run f reserve (PStart false) evs) as [st|] eqn:Hrun; [|discriminate].
  destruct st as [r|t|t|t|t]; try discriminate Hok.
  pose proof (proto_inv f reserve d0 Hq evs _ Hrun) as Hinv.
  pose proof (PInv_summary _ _ _ _ _ _ Hinv) as (Hold & _).
  cbn [PInv] in Hinv.
  destruct Hinv as (Hnx & (n & Hvol & Hsy & Hino) & Hbv & (Hbd & Hbp) & Htv & Hren).
  set (d := exec_events d0 evs) in *.
  pose proof Hq as (_ & _ & Hclean0 & Hilt0 & Hblt0 & Htlt0 & Hdisj0).
  pose proof (ino_t_ge reserve d0) as Hge.
  assert (Hbase : forall g i, elookup g (base_vol d) = Some i ->
            (g = f /\ i = ino_t reserve d0) \/ (g <> f /\ elookup g (base_vol d0) = Some i)).
  { intros g i Hgi. rewrite Hbv in Hgi. cbn [basev] in Hgi.
    destruct (beq g f) eqn:E.
    - apply beq_eq in E. injection Hgi as <-. now left.
    - apply beq_neq in E. now right. }
  assert (Htmp : forall t' i, elookup t' (tmp_vol d) = Some i -> elookup t' (tmp_vol d0) = Some i).
  { intros t' i Hti. rewrite Htv in Hti. destruct (beq t' t); [discriminate|exact Hti]. }
  split; [|split].
  - unfold base_quiescent. repeat apply conj; auto.
    + intros g i Hgi. destruct (Hbase g i Hgi) as [(-> & ->)|(Hgf & Hgi0)].
      * exists n. split; [|exact Hsy]. rewrite Hino. now rewrite Nat.eqb_refl.
      * destruct (Hclean0 g i Hgi0) as (n0 & Hn0 & Hc0). exists n0. split; [|exact Hc0].
        rewrite Hold; eauto.
    + intros i n' Hi. rewrite Hino in Hi. rewrite Hnx.
      destruct (Nat.eqb i (ino_t reserve d0)) eqn:E.
      * apply Nat.eqb_eq in E. lia.
      * eapply ino0_lt; eauto.
    + intros g i Hgi. rewrite Hnx. destruct (Hbase g i Hgi) as [(-> & ->)|(Hgf & Hgi0)]; [lia|].
      apply Hblt0 in Hgi0. lia.
    + intros t' i Hti. rewrite Hnx. apply Htmp in Hti. apply Htlt0 in Hti. lia.
    + intros g t' i Hgi Hti. apply Htmp in Hti.
      destruct (Hbase g i Hgi) as [(-> & ->)|(Hgf & Hgi0)].
      * apply Htlt0 in Hti. lia.
      * exact (Hdisj0 g t' i Hgi0 Hti).
  - unfold vol_file. rewrite Hbv. cbn [basev]. rewrite beq_refl, Hino, Nat.eqb_refl. now rewrite Hvol.
  - intros g Hgf. eapply old_file_vol; eauto. rewrite Hbv. now apply basev_other.
Qed.

Corollary complete_survives_crash f reserve d0 evs c :
  base_quiescent d0 -> target_pre f reserve d0 -> tmp_fresh evs d0 ->
  protocol_complete_ok f reserve evs = true ->
  crash_of (exec_events d0 evs) c ->
  crashed_file c f = Some (tmp_data evs) /\
  (forall g, g <> f -> crashed_file c g = vol_file d0 g).
Proof.
  intros Hq Hpre Hfr Hok Hc.
  destruct (complete_is_durable f reserve d0 evs Hq Hpre Hfr Hok) as (Hq' & Hf & Hg).
  split.
  - rewrite <- Hf. now apply crash_view_of_quiescent.
  - intros g Hgf. rewrite <- (Hg g Hgf). now apply crash_view_of_quiescent.
Qed.

(* the inode-related part of base_quiescent *)
Definition links_ok (d : disk) : Prop :=
  (forall f i, elookup f (base_vol d) = Some i ->
     exists n, ilookup i (inodes d) = Some n /\ i_dur n = Some (i_vol n)) /\
  (forall i n, ilookup i (inodes d) = Some n -> (i < next_ino d)%nat) /\
  (forall f i, elookup f (base_vol d) = Some i -> (i < next_ino d)%nat) /\
  (forall t i, elookup t (tmp_vol d) = Some i -> (i < next_ino d)%nat) /\
  (forall f t i, elookup f (base_vol d) = Some i -> elookup t (tmp_vol d) <> Some i).

Lemma quiescent_links d : base_quiescent d -> links_ok d.
Proof. intros (_ & _ & H). exact H. Qed.

Lemma links_quiescent d : base_pend d = [] -> base_dur d = base_vol d -> links_ok d -> base_quiescent d.
Proof. intros H1 H2 H3. exact (conj H1 (conj H2 H3)). Qed.

Lemma links_ok_sub d d' :
  inodes d' = inodes d -> next_ino d' = next_ino d -> tmp_vol d' = tmp_vol d ->
  (forall g i, elookup g (base_vol d') = Some i -> exists g', elookup g' (base_vol d) = Some i) ->
  links_ok d -> links_ok d'.
Proof.
  intros Hi Hn Ht Hb (Hc & Hil & Hbl & Htl & Hdj).
  unfold links_ok. rewrite Hi, Hn, Ht. repeat apply conj; auto.
  - intros g i Hg. destruct (Hb g i Hg) as (g' & Hg'). eauto.
  - intros g i Hg. destruct (Hb g i Hg) as (g' & Hg'). eauto.
  - intros g t i Hg. destruct (Hb g i Hg) as (g' & Hg'). eauto.
Qed.

Lemma rename_base_links a b i e g j :
  elookup a e = Some i ->
  elookup g (eset b i (eremove a e)) = Some j -> exists g', elookup g' e = Some j.
Proof.
  intros Ha Hg. rewrite elookup_eset, elookup_eremove in Hg.
  destruct (beq g b).
  - injection Hg as <-. eauto.
  - destruct (beq g a); [discriminate|eauto].
Qed.

Lemma unlink_base_links a e g (j : ino) :
  elookup g (eremove a e) = Some j -> exists g', elookup g' e = Some j.
Proof.
  intros Hg. rewrite elookup_eremove in Hg. destruct (beq g a); [discriminate|eauto].
Qed.

Lemma links_ok_rename d a b :
  links_ok d -> links_ok (exec_event d (ERename (LFile a) (LFile b))).
Proof.
  intros Hl. unfold exec_event. destruct (elookup a (base_vol d)) as [i|] eqn:Ea; [|exact Hl].
  apply (links_ok_sub d); [reflexivity|reflexivity|reflexivity| |exact Hl].
  unfold with_base. fields. intros g j. now apply rename_base_links.
Qed.

Lemma links_ok_unlink d a :
  links_ok d -> links_ok (exec_event d (EUnlink (LFile a))).
Proof.
  intros Hl. unfold exec_event.
  apply (links_ok_sub d); [reflexivity|reflexivity|reflexivity| |exact Hl].
  unfold with_base. fields. intros g j. apply unlink_base_links.
Qed.

Lemma links_ok_fsync_base d :
  links_ok d -> links_ok (exec_event d (EFsync LBaseDir)).
Proof.
  intros Hl. unfold exec_event.
  apply (links_ok_sub d); [reflexivity|reflexivity|reflexivity| |exact Hl].
  fields. eauto.
Qed.

(* set-admin: rename inside the base directory followed by its fsync *)
Theorem set_admin_durable d0 a b content c :
  base_quiescent d0 -> a <> b -> vol_file d0 a = Some content -> vol_file d0 b = None ->
  let d := exec_events d0 [ERename (LFile a) (LFile b); EFsync LBaseDir] in
  base_quiescent d /\
  (crash_of d c -> crashed_file c b = Some content /\ crashed_file c a = None /\
                   forall g, g <> a -> g <> b -> crashed_file c g = vol_file d0 g).
Proof.
  intros Hq Hab Ha _ d.
  assert (Hqd : base_quiescent d).
  { subst d. unfold exec_events. cbn [fold_left].
    apply links_quiescent; [reflexivity|reflexivity|].
    apply links_ok_fsync_base, links_ok_rename. now apply quiescent_links. }
  split; [exact Hqd|]. intros Hc.
  pose proof (crash_view_of_quiescent d c Hqd Hc) as Hview.
  unfold vol_file in Ha.
  destruct (elookup a (base_vol d0)) as [i|] eqn:Ea; [|discriminate].
  destruct (ilookup i (inodes d0)) as [n|] eqn:En; [|discriminate].
  injection Ha as <-.
  assert (Hvol : forall g, vol_file d g =
            match (if beq g b then Some i else if beq g a then None else elookup g (base_vol d0)) with
            | Some i => match ilookup i (inodes d0) with Some n => Some (i_vol n) | None => None end
            | None => None
            end).
  { intros g. subst d. unfold exec_events. cbn [fold_left]. unfold exec_event. rewrite Ea.
    unfold vol_file, with_base. fields. now rewrite elookup_eset, elookup_eremove. }
  repeat apply conj.
  - rewrite Hview, Hvol, beq_refl, En. reflexivity.
  - rewrite Hview, Hvol. assert (E : beq a b = false) by now apply beq_neq.
    now rewrite E, beq_refl.
  - intros g Hga Hgb. rewrite Hview, Hvol.
    apply beq_neq in Hga, Hgb. now rewrite Hga, Hgb.
Qed.

Lemma unlinks_exec names : forall d,
  let d' := exec_events d (map (fun n => EUnlink (LFile n)) names) in
  inodes d' = inodes d /\ next_ino d' = next_ino d /\ tmp_vol d' = tmp_vol d /\
  (forall g, elookup g (base_vol d') = if existsb (beq g) names then None else elookup g (base_vol d)).
Proof.
  induction names as [|n names IH]; intros d.
  - cbn. auto.
  - cbn [map]. unfold exec_events. cbn [fold_left].
    specialize (IH (exec_event d (EUnlink (LFile n)))). cbn zeta in IH. unfold exec_events in IH.
    destruct IH as (H1 & H2 & H3 & H4). cbn zeta.
    rewrite H1, H2, H3. repeat apply conj; try reflexivity.
    intros g. rewrite H4. unfold exec_event, with_base. fields.
    rewrite elookup_eremove. cbn [existsb].
    destruct (beq g n); cbn [orb]; [now destruct (existsb (beq g) names)|reflexivity].
Qed.

Lemma existsb_beq_In g names : existsb (beq g) names = true <-> In g names.
Proof.
  rewrite existsb_exists. split.
  - intros (x & Hin & Hx). apply beq_eq in Hx. now subst.
  - intros Hin. exists g. split; [exact Hin|apply beq_refl].
Qed.

(* remove: unlinks followed by an fsync of the base directory *)
Theorem remove_durable d0 names c :
  base_quiescent d0 ->
  let d := exec_events d0 (map (fun n => EUnlink (LFile n)) names ++ [EFsync LBaseDir]) in
  base_quiescent d /\
  (crash_of d c -> (forall n, In n names -> crashed_file c n = None) /\
                   forall g, ~ In g names -> crashed_file c g = vol_file d0 g).
Proof.
  intros Hq d. subst d. rewrite exec_events_app.
  destruct (unlinks_exec names d0) as (H1 & H2 & H3 & H4).
  set (d1 := exec_events d0 (map (fun n => EUnlink (LFile n)) names)) in *.
  unfold exec_events. cbn [fold_left].
  set (d := exec_event d1 (EFsync LBaseDir)).
  assert (Hqd : base_quiescent d).
  { apply links_quiescent; [reflexivity|reflexivity|].
    apply links_ok_fsync_base. eapply links_ok_sub; [exact H1|exact H2|exact H3| |apply quiescent_links, Hq].
    intros g i Hg. rewrite H4 in Hg. destruct (existsb (beq g) names); [discriminate|eauto]. }
  split; [exact Hqd|]. intros Hc.
  pose proof (crash_view_of_quiescent d c Hqd Hc) as Hview.
  assert (Hvol : forall g, vol_file d g =
            match (if existsb (beq g) names then None else elookup g (base_vol d0)) with
            | Some i => match ilookup i (inodes d0) with Some n => Some (i_vol n) | None => None end
            | None => None
            end).
  { intros g. unfold vol_file, d, exec_event. fields. now rewrite H4, H1. }
  split.
  - intros n Hn. rewrite Hview, Hvol. apply existsb_beq_In in Hn. now rewrite Hn.
  - intros g Hg. rewrite Hview, Hvol.
    destruct (existsb (beq g) names) eqn:E; [apply existsb_beq_In in E; contradiction|reflexivity].
Qed.

Definition bare_d0 : disk :=
  {| inodes := [(O, {| i_vol := str "rec"; i_dur := Some (str "rec"); i_written := true |})];
     next_ino := 1%nat;
     base_vol := [(str "u.user", O)]; base_dur := [(str "u.user", O)]; base_pend := [];
     tmp_exists_vol := false; tmp_exists_dur := false;
     tmp_vol := []; tmp_dur := []; tmp_pend := [] |}.
Definition bare_c : crashed :=
  {| c_base := [(str "u.user", O)]; c_tmp := []; c_content := fun _ => str "rec" |}.

Lemma bare_d0_quiescent : base_quiescent bare_d0.
Proof.
  unfold base_quiescent, bare_d0. fields. repeat apply conj; try reflexivity.
  - intros g i H. cbn [elookup] in H.
    destruct (beq g (str "u.user")); [|discriminate]. injection H as <-.
    eexists. split; reflexivity.
  - intros i n H. cbn [ilookup] in H. destruct (Nat.eqb i 0) eqn:E; [|discriminate].
    apply Nat.eqb_eq in E. lia.
  - intros g i H. cbn [elookup] in H.
    destruct (beq g (str "u.user")); [|discriminate]. injection H as <-. lia.
  - intros t i H. discriminate H.
  - intros g t i _ H. discriminate H.
Qed.

Lemma bare_content d :
  inodes d = inodes bare_d0 ->
  forall i n, ilookup i (inodes d) = Some n ->
    match i_dur n with Some durable => c_content bare_c i = durable | None => True end.
Proof.
  intros -> i n H. unfold bare_d0 in H. cbn [inodes ilookup] in H.
  destruct (Nat.eqb i 0); [|discriminate]. injection H as <-. reflexivity.
Qed.

(* without the final fsync the change can be lost: the refutation witness
   for a bare rename (the behaviour of SetAdmin before its repair) *)
Theorem bare_rename_not_durable :
  exists d0 c, base_quiescent d0 /\ vol_file d0 (str "u.user") = Some (str "rec") /\
    crash_of (exec_events d0 [ERename (LFile (str "u.user")) (LFile (str "u.admin"))]) c /\
    crashed_file c (str "u.admin") = None /\ crashed_file c (str "u.user") = Some (str "rec").
Proof.
  exists bare_d0, bare_c. split; [exact bare_d0_quiescent|].
  split; [vm_compute; reflexivity|].
  split; [|split; vm_compute; reflexivity].
  unfold crash_of. repeat apply conj.
  - exists []. split; [apply subseq_nil_l|vm_compute; reflexivity].
  - exists []. split; [apply subseq_nil_l|vm_compute; reflexivity].
  - apply bare_content. vm_compute. reflexivity.
Qed.

Theorem bare_unlink_not_durable :
  exists d0 c, base_quiescent d0 /\ vol_file d0 (str "u.user") = Some (str "rec") /\
    crash_of (exec_events d0 [EUnlink (LFile (str "u.user"))]) c /\
    crashed_file c (str "u.user") = Some (str "rec").
Proof.
  exists bare_d0, bare_c. split; [exact bare_d0_quiescent|].
  split; [vm_compute; reflexivity|].
  split; [|vm_compute; reflexivity].
  unfold crash_of. repeat apply conj.
  - exists []. split; [apply subseq_nil_l|vm_compute; reflexivity].
  - exists []. split; [apply subseq_nil_l|vm_compute; reflexivity].
  - apply bare_content. vm_compute. reflexivity.
Qed.

(* durability checker: a trace made only of directory operations that passes
   it leaves a quiescent base directory *)
Definition dir_only (evs : list event) : Prop :=
  forall e, In e evs ->
    match e with
    | ERename (LFile _) (LFile _) | EUnlink (LFile _) | EFsync LBaseDir => True
    | _ => False
    end.

Lemma dir_sound evs : forall d p,
  links_ok d -> dir_only evs -> base_changes_synced evs p = true ->
  (p = false -> base_pend d = [] /\ base_dur d = base_vol d) ->
  base_quiescent (exec_events d evs).
Proof.
  induction evs as [|e evs IH]; intros d p Hl Hdo Hs Hp.
  - cbn in Hs. destruct p; [discriminate|]. destruct (Hp eq_refl) as (H1 & H2).
    now apply links_quiescent.
  - assert (Hdo' : dir_only evs).
    { intros e' He'. apply Hdo. now right. }
    pose proof (Hdo e (or_introl eq_refl)) as He.
    change (exec_events d (e :: evs)) with (exec_events (exec_event d e) evs).
    destruct e as [[g|t'| |]|[g|t'| |]|[g|t'| |] data|[g|t'| |]|[g|t'| |] [g2|t2| |]|[g|t'| |]];
      try (exfalso; exact He); cbn [base_changes_synced] in Hs.
    + (* EFsync LBaseDir *)
      apply (IH _ false); auto using links_ok_fsync_base.
    + apply (IH _ true); auto using links_ok_rename; discriminate.
    + apply (IH _ true); auto using links_ok_unlink; discriminate.
Qed.

Theorem durability_checker_sound d0 evs :
  base_quiescent d0 -> dir_only evs -> durability_ok evs = true ->
  base_quiescent (exec_events d0 evs).
Proof.
  intros Hq Hdo Hs. apply (dir_sound evs d0 false); auto using quiescent_links.
  intros _. destruct Hq as (H1 & H2 & _). auto.
Qed.

(* ---------------- auxiliaries: the programs without a fault ---------------- *)
Lemma tick_none k s :
  tick None k s = (None, {| t_dir := t_dir s; t_cnt := cnt_inc k (t_cnt s); t_ev := t_ev s |}).
Proof. reflexivity. Qed.

Lemma stat_none fname s :
  exists s1, p_stat None fname s = (stat_file (t_dir s) fname, s1) /\
             t_dir s1 = t_dir s /\ t_ev s1 = t_ev s.
Proof.
  unfold p_stat, stat_file. rewrite tick_none.
  destruct (name_max <? len fname); eexists; (split; [reflexivity|split; reflexivity]).
Qed.

Lemma exists_none u s :
  exists s1, p_exists None u s = (user_exists (t_dir s) u, s1) /\
             t_dir s1 = t_dir s /\ t_ev s1 = t_ev s.
Proof.
  unfold p_exists, user_exists.
  destruct (stat_none (u ++ ext_admin) s) as (s1 & -> & Hd1 & He1).
  destruct (stat_file (t_dir s) (u ++ ext_admin)); try (eexists; split; [reflexivity|now split]).
  destruct (stat_none (u ++ ext_user) s1) as (s2 & -> & Hd2 & He2).
  rewrite Hd1.
  destruct (stat_file (t_dir s) (u ++ ext_user));
    (eexists; split; [reflexivity|split; congruence]).
Qed.

Lemma remove_ev l s :
  t_ev (p_remove None l s) = t_ev s \/ t_ev (p_remove None l s) = EUnlink l :: t_ev s.
Proof.
  unfold p_remove. rewrite !tick_none. cbv beta iota zeta.
  destruct l as [fname|t| |]; cbn [t_dir t_ev].
  - destruct (dlookup fname (t_dir s)) as [[content|[|kid kids]]|]; cbn; auto.
  - unfold tmp_children. cbn [t_dir].
    destruct (dlookup tmp_name (t_dir s)) as [[content|kids]|]; cbn; auto.
    destruct (alookup t kids); cbn; auto.
  - cbn. auto.
  - cbn. auto.
Qed.

Lemma mkdir_ev s b s2 :
  p_mkdir_tmp None s = (b, s2) ->
  t_ev s2 = t_ev s \/ t_ev s2 = EMkdir LTmpDir :: t_ev s.
Proof.
  unfold p_mkdir_tmp. rewrite !tick_none. cbv beta iota zeta. cbn [t_dir t_ev].
  destruct (dlookup tmp_name (t_dir s)) as [[content|kids]|]; intros H; injection H as <- <-; cbn; auto.
Qed.

Definition wh_events (fname t : bytes) (reserve : bool) (line rest : bytes) (mk w un : bool) : list event :=
  (if reserve then [ECreate (LFile fname)] else []) ++
  (if mk then [EMkdir LTmpDir] else []) ++
  [ECreate (LTmpFile t); EWrite (LTmpFile t) line] ++
  (if w then [EWrite (LTmpFile t) rest] else []) ++
  [EFsync (LTmpFile t); ERename (LTmpFile t) (LFile fname); EFsync LBaseDir] ++
  (if un then [EUnlink (LTmpFile t)] else []).

Lemma wh_events_complete fname t reserve line rest mk w un :
  protocol_complete_ok fname reserve (wh_events fname t reserve line rest mk w un) = true.
Proof.
  unfold protocol_complete_ok, wh_events.
  destruct reserve, mk, w, un; do 8 (cbn; rewrite ?beq_refl); reflexivity.
Qed.

Lemma wh_events_data fname t reserve line rest mk w un :
  (w = false -> rest = []) ->
  tmp_data (wh_events fname t reserve line rest mk w un) = line ++ rest.
Proof.
  intros Hw. unfold wh_events.
  destruct reserve, mk, w, un; cbn; rewrite ?app_nil_r; try reflexivity;
    rewrite (Hw eq_refl); now rewrite ?app_nil_r.
Qed.

Lemma tick_none_inv k s e s1 :
  tick None k s = (e, s1) -> e = None /\ t_ev s1 = t_ev s /\ t_dir s1 = t_dir s.
Proof. rewrite tick_none. intros H. injection H as <- <-. auto. Qed.

Lemma rerr_neq_rok (x y : tstate) : (RErr, x) = (ROk, y) -> False.
Proof. intros H. discriminate H. Qed.

(* one system call: name its result state, keep only what it leaves unchanged *)
Ltac tick_step H :=
  match type of H with
  | context [tick None ?k ?s] =>
      let e := fresh "e" in let s1 := fresh "s" in let Ht := fresh "Ht" in
      let Hev := fresh "Hev" in let Hdir := fresh "Hdir" in
      destruct (tick None k s) as [e s1] eqn:Ht in H;
      apply tick_none_inv in Ht; destruct Ht as (-> & Hev & Hdir);
      cbn [t_ev t_dir emit setdir] in Hev, Hdir; cbv beta iota in H
  end.

Ltac ev_chain :=
  cbn [t_ev emit setdir];
  repeat match goal with
         | Hx : t_ev ?x = _ |- context [t_ev ?x] => rewrite Hx; cbn [t_ev emit setdir]
         end.

Ltac wh_tail H Hmk oldv :=
  apply mkdir_ev in Hmk; cbn [t_ev emit setdir] in Hmk;
  let rest := fresh "rest" in let Hrest := fresh "Hrest" in
  remember (after_first_line oldv) as rest eqn:Hrest;
  repeat tick_step H;
  injection H as <-;
  match goal with
  | |- context [p_remove None ?l ?sx] =>
      let Hun := fresh "Hun" in
      destruct (remove_ev l sx) as [Hun|Hun];
      [ destruct rest as [|? ?];
        [ destruct Hmk as [Hmk|Hmk];
          [ exists oldv, false, false, false | exists oldv, true, false, false ]
        | destruct Hmk as [Hmk|Hmk];
          [ exists oldv, false, true, false | exists oldv, true, true, false ] ]
      | destruct rest as [|? ?];
        [ destruct Hmk as [Hmk|Hmk];
          [ exists oldv, false, false, true | exists oldv, true, false, true ]
        | destruct Hmk as [Hmk|Hmk];
          [ exists oldv, false, true, true | exists oldv, true, true, true ] ] ];
      rewrite Hun; clear Hun; rewrite <- Hrest;
      (split; [ev_chain; reflexivity | split; [intros; congruence | auto]])
  end.

(* conversion checks on the big program text must not start by evaluating
   the system calls *)
Local Strategy 100 [tick p_remove p_mkdir_tmp].

(* ---------------- the model's programs follow the discipline ---------------- *)
Section Programs.
  Variable kdf : hasher -> bytes -> bytes -> option bytes.

  (* a successful writeHashStr: its events, in program order *)
  Lemma write_hash_ok c h hs fname reserve o s s' :
    p_write_hash None c h hs fname reserve o s = (ROk, s') ->
    exists old mk w un,
      t_ev s' = rev (wh_events fname (o_tmp o) reserve (print_record h (o_ts o) (default c) hs)
                               (after_first_line old) mk w un) ++ t_ev s /\
      (w = false -> after_first_line old = []) /\
      (if reserve then old = [] else dlookup fname (t_dir s) = Some (File old)).
  Proof.
    intros H. unfold p_write_hash in H. rewrite tick_none in H. cbv beta iota in H. cbn [t_dir] in H.
    destruct (dlookup fname (t_dir s)) as [[old|kids]|] eqn:Hlk; destruct reserve eqn:Hres;
      try (exfalso; exact (rerr_neq_rok _ _ H)).
    - destruct (p_mkdir_tmp None _) as [okdir s2] eqn:Hmk in H.
      destruct okdir; cbn [negb] in H; [|exfalso; exact (rerr_neq_rok _ _ H)].
      wh_tail H Hmk old.
    - destruct (p_mkdir_tmp None _) as [okdir s2] eqn:Hmk in H.
      destruct okdir; cbn [negb] in H; [|exfalso; exact (rerr_neq_rok _ _ H)].
      repeat tick_step H. exfalso; exact (rerr_neq_rok _ _ H).
    - destruct (p_mkdir_tmp None _) as [okdir s2] eqn:Hmk in H.
      destruct okdir; cbn [negb] in H; [|exfalso; exact (rerr_neq_rok _ _ H)].
      wh_tail H Hmk (@nil N).
  Qed.

  Lemma add_ok_inv c d u pw adm o s :
    p_add kdf None c d u pw adm o = (ROk, s) ->
    exists h hs mk w un,
      cfg_hasher c (default c) = Some h /\ hash_generate kdf h (o_salt o) pw = Some hs /\
      events s = wh_events (u ++ ext_of adm) (o_tmp o) true
                           (print_record h (o_ts o) (default c) hs) [] mk w un.
  Proof.
    intros H. unfold p_add in H.
    destruct (negb (valid_name u)); [exfalso; exact (rerr_neq_rok _ _ H)|].
    destruct (exists_none u (t0 d)) as (s1 & He & Hd & Hev). rewrite He in H.
    cbn [t0 t_dir t_ev] in *.
    destruct (user_exists d u); try (exfalso; exact (rerr_neq_rok _ _ H)).
    destruct (cfg_hasher c (default c)) as [h|] eqn:Hh; [|exfalso; exact (rerr_neq_rok _ _ H)].
    destruct (hash_generate kdf h (o_salt o) pw) as [hs|] eqn:Hhs; [|exfalso; exact (rerr_neq_rok _ _ H)].
    apply write_hash_ok in H. destruct H as (old & mk & w & un & Hev' & Hw & ->).
    exists h, hs, mk, w, un. repeat apply conj; auto.
    unfold events. rewrite Hev', Hev, app_nil_r, rev_involutive. reflexivity.
  Qed.

  Lemma update_ok_inv c d u pw o s :
    p_update kdf None c d u pw o = (ROk, s) ->
    exists adm old h hs mk w un,
      user_exists d u = ExYes adm /\ read_file d (u ++ ext_of adm) = Some old /\
      cfg_hasher c (default c) = Some h /\ hash_generate kdf h (o_salt o) pw = Some hs /\
      (w = false -> after_first_line old = []) /\
      events s = wh_events (u ++ ext_of adm) (o_tmp o) false
                           (print_record h (o_ts o) (default c) hs) (after_first_line old) mk w un.
  Proof.
    intros H. unfold p_update in H.
    destruct (negb (valid_name u)); [exfalso; exact (rerr_neq_rok _ _ H)|].
    destruct (exists_none u (t0 d)) as (s1 & He & Hd & Hev). rewrite He in H.
    cbn [t0 t_dir t_ev] in *.
    destruct (user_exists d u) as [adm| |] eqn:Hex; try (exfalso; exact (rerr_neq_rok _ _ H)).
    do 2 tick_step H.
    destruct (read_file (t_dir s2) (u ++ ext_of adm)) as [content|] eqn:Hrd;
      [|exfalso; exact (rerr_neq_rok _ _ H)].
    destruct (is_supported c content); [|exfalso; exact (rerr_neq_rok _ _ H)].
    destruct (cfg_hasher c (default c)) as [h|] eqn:Hh; [|exfalso; exact (rerr_neq_rok _ _ H)].
    destruct (hash_generate kdf h (o_salt o) pw) as [hs|] eqn:Hhs; [|exfalso; exact (rerr_neq_rok _ _ H)].
    apply write_hash_ok in H. destruct H as (old & mk & w & un & Hev' & Hw & Hold).
    assert (Hdir2 : t_dir s2 = d) by congruence.
    exists adm, old, h, hs, mk, w, un. repeat apply conj; auto.
    - unfold read_file. rewrite <- Hdir2, Hold. reflexivity.
    - unfold events. rewrite Hev'.
      assert (Hnil : t_ev s2 = []) by congruence.
      rewrite Hnil, app_nil_r, rev_involutive. reflexivity.
  Qed.

  Theorem add_follows_protocol c d u pw adm o s :
    p_add kdf None c d u pw adm o = (ROk, s) ->
    protocol_complete_ok (u ++ ext_of adm) true (events s) = true.
  Proof.
    intros H. apply add_ok_inv in H. destruct H as (h & hs & mk & w & un & _ & _ & ->).
    apply wh_events_complete.
  Qed.

  Theorem update_follows_protocol c d u pw o s :
    p_update kdf None c d u pw o = (ROk, s) ->
    exists adm, user_exists d u = ExYes adm /\
      protocol_complete_ok (u ++ ext_of adm) false (events s) = true.
  Proof.
    intros H. apply update_ok_inv in H.
    destruct H as (adm & old & h & hs & mk & w & un & Hex & _ & _ & _ & _ & ->).
    exists adm. split; [exact Hex|]. apply wh_events_complete.
  Qed.

  Theorem set_admin_events d u adm s :
    p_set_admin None d u adm = (ROk, s) ->
    events s = [EFsync LBaseDir] \/
    exists cur, user_exists d u = ExYes cur /\ cur <> adm /\
      events s = [ERename (LFile (u ++ ext_of cur)) (LFile (u ++ ext_of adm)); EFsync LBaseDir].
  Proof.
    intros H. unfold p_set_admin in H.
    destruct (negb (valid_name u)); [exfalso; exact (rerr_neq_rok _ _ H)|].
    destruct (exists_none u (t0 d)) as (s1 & He & Hd & Hev). rewrite He in H.
    cbn [t0 t_dir t_ev] in *.
    destruct (user_exists d u) as [cur| |] eqn:Hex; try (exfalso; exact (rerr_neq_rok _ _ H)).
    destruct (Bool.eqb cur adm) eqn:Hca.
    - injection H as <-. left. unfold events. now rewrite Hev.
    - do 2 tick_step H.
      destruct (dlookup (u ++ ext_of cur) (t_dir s2)) as [n|]; [|exfalso; exact (rerr_neq_rok _ _ H)].
      match type of H with context [if ?b then _ else _] => destruct b end;
        [|exfalso; exact (rerr_neq_rok _ _ H)].
      do 2 tick_step H. injection H as <-.
      right. exists cur. repeat apply conj; auto.
      + intros ->. now rewrite Bool.eqb_reflx in Hca.
      + unfold events. ev_chain. reflexivity.
  Qed.

  Theorem remove_events_durable d u :
    durability_ok (events (p_remove_user None d u)) = true.
  Proof.
    unfold p_remove_user. destruct (negb (valid_name u)); [reflexivity|].
    rewrite !tick_none. cbv beta iota. unfold events, emit. cbn [t_ev].
    destruct (remove_ev (LFile (u ++ ext_user)) (p_remove None (LFile (u ++ ext_admin)) (t0 d))) as [->| ->];
      destruct (remove_ev (LFile (u ++ ext_admin)) (t0 d)) as [->| ->]; reflexivity.
  Qed.

  (* the data the programs put into the temp file is the new record followed
     by the old auxiliary data *)
  Theorem add_tmp_data c d u pw adm o s :
    p_add kdf None c d u pw adm o = (ROk, s) ->
    exists h hs, cfg_hasher c (default c) = Some h /\ hash_generate kdf h (o_salt o) pw = Some hs /\
      tmp_data (events s) = print_record h (o_ts o) (default c) hs.
  Proof.
    intros H. apply add_ok_inv in H. destruct H as (h & hs & mk & w & un & Hh & Hhs & ->).
    exists h, hs. repeat apply conj; auto.
    rewrite wh_events_data by reflexivity. apply app_nil_r.
  Qed.

  Theorem update_tmp_data c d u pw o s :
    p_update kdf None c d u pw o = (ROk, s) ->
    exists adm old h hs, user_exists d u = ExYes adm /\ read_file d (u ++ ext_of adm) = Some old /\
      cfg_hasher c (default c) = Some h /\ hash_generate kdf h (o_salt o) pw = Some hs /\
      tmp_data (events s) = print_record h (o_ts o) (default c) hs ++ after_first_line old.
  Proof.
    intros H. apply update_ok_inv in H.
    destruct H as (adm & old & h & hs & mk & w & un & Hex & Hrd & Hh & Hhs & Hw & ->).
    exists adm, old, h, hs. repeat apply conj; auto.
    now apply wh_events_data.
  Qed.
End Programs.
