(* StoreOps_proofs.v — statements about single store operations on ARBITRARY
   directories (not only those reachable from an empty store): handling of
   unsupported files (C02), frame and failure behaviour (C15), exactness of
   the consistency check for every listing order (C16), upgradeable flag (C12). *)
From Whawty Require Import Bytes Bytes_proofs Base64 Base64_proofs Names Record Record_proofs Store.
From Coq Require Import ZifyN ZifyNat ZifyBool Permutation.
Open Scope N_scope.

Definition keys (d : dirst) : list bytes := map fst d.

(* u has exactly one file, [u ++ ext_of adm], a regular file with [content] *)
Definition sole_file (d : dirst) (u : bytes) (adm : bool) (content : bytes) : Prop :=
  valid_name u = true /\ len u + 6 <= 255 /\
  dlookup (u ++ ext_of adm) d = Some (File content) /\
  dlookup (u ++ ext_of (negb adm)) d = None.

Section Ops.
  Variable kdf : hasher -> bytes -> bytes -> option bytes.

  (* ---------------- C02: unsupported / invalid hash files ---------------- *)
  Theorem unsupported_hidden_from_list c d u adm content l :
    NoDup (keys d) -> sole_file d u adm content -> is_supported c content = false ->
    list_users c d [] = Some l -> alookup u l = None.
  Admitted.

  Theorem unsupported_shown_by_list_full c d u adm content l :
    NoDup (keys d) -> sole_file d u adm content -> is_supported c content = false ->
    list_full c d [] = Some l ->
    exists e, alookup u l = Some e /\ uf_supported e = false /\ uf_admin e = adm.
  Admitted.

  Theorem existing_file_blocks_add c d u adm content pw adm' o :
    sole_file d u adm content ->
    add_user kdf c d u pw adm' o = (d, RErr).
  Admitted.

  Theorem unsupported_update_refused c d u adm content pw o :
    sole_file d u adm content -> is_supported c content = false ->
    update_user kdf c d u pw o = (d, RErr).
  Admitted.

  Theorem remove_deletes d u adm content :
    NoDup (keys d) -> sole_file d u adm content ->
    dlookup (u ++ ext_admin) (remove_user d u) = None /\
    dlookup (u ++ ext_user) (remove_user d u) = None /\
    (forall f, f <> u ++ ext_admin -> f <> u ++ ext_user ->
               dlookup f (remove_user d u) = dlookup f d).
  Admitted.

  (* ---------------- C15: frame, failures, read-only ---------------- *)
  (* a failing mutation leaves the directory exactly as it was *)
  Theorem failed_add_unchanged c d u pw adm o d' :
    add_user kdf c d u pw adm o = (d', RErr) -> d' = d.
  Admitted.

  Theorem failed_update_unchanged c d u pw o d' :
    update_user kdf c d u pw o = (d', RErr) -> d' = d.
  Admitted.

  Theorem failed_set_admin_unchanged d u adm d' :
    set_admin d u adm = (d', RErr) -> d' = d.
  Admitted.

  Theorem failed_init_unchanged c d u pw o d' :
    init_store kdf c d u pw o = (d', RErr) -> d' = d.
  Admitted.

  (* a successful update rewrites only the first line of the target's file;
     auxiliary data and every other entry (except the work area) are untouched *)
  Theorem update_frame c d u pw o d' :
    NoDup (keys d) ->
    update_user kdf c d u pw o = (d', ROk) ->
    exists adm old h hs,
      user_exists d u = ExYes adm /\
      dlookup (u ++ ext_of adm) d = Some (File old) /\
      cfg_hasher c (default c) = Some h /\
      hash_generate kdf h (o_salt o) pw = Some hs /\
      dlookup (u ++ ext_of adm) d' =
        Some (File (print_record h (o_ts o) (default c) hs ++ after_first_line old)) /\
      (forall f, f <> u ++ ext_of adm -> f <> tmp_name -> dlookup f d' = dlookup f d).
  Admitted.

  Theorem add_frame c d u pw adm o d' :
    NoDup (keys d) ->
    add_user kdf c d u pw adm o = (d', ROk) ->
    exists h hs,
      cfg_hasher c (default c) = Some h /\
      hash_generate kdf h (o_salt o) pw = Some hs /\
      dlookup (u ++ ext_of adm) d = None /\
      dlookup (u ++ ext_of adm) d' = Some (File (print_record h (o_ts o) (default c) hs)) /\
      (forall f, f <> u ++ ext_of adm -> f <> tmp_name -> dlookup f d' = dlookup f d).
  Admitted.

  (* set-admin moves the whole record, timestamp and auxiliary data included *)
  Theorem set_admin_frame d u adm d' :
    NoDup (keys d) ->
    set_admin d u adm = (d', ROk) ->
    exists cur n,
      user_exists d u = ExYes cur /\ dlookup (u ++ ext_of cur) d = Some n /\
      dlookup (u ++ ext_of adm) d' = Some n /\
      (cur <> adm -> dlookup (u ++ ext_of cur) d' = None) /\
      (forall f, f <> u ++ ext_admin -> f <> u ++ ext_user -> dlookup f d' = dlookup f d).
  Admitted.

  (* authenticate, exists, list, list-full, check never change the directory *)
  Theorem read_only_ops c d o orc :
    match o with OpAuth _ _ | OpExists _ | OpList | OpListFull | OpCheck => True | _ => False end ->
    snd (fst (step kdf c d o orc)) = d.
  Admitted.

  (* ---------------- C12: the upgradeable flag ---------------- *)
  Theorem upgradeable_iff c content pw upg ts :
    auth_content kdf c content pw = AuthOk upg ts ->
    exists r, parse_record content = Some r /\ (upg = true <-> r_pid r <> default c).
  Admitted.

  (* ---------------- C16: the consistency check is exact ---------------- *)
  (* entries are built from valid, not over-long user names *)
  Definition names_ok (d : dirst) : Prop :=
    forall f n u adm, In (f, n) d -> check_user_file f = Some (u, adm) ->
                      valid_name u = true /\ len u + 6 <= 255.

  Definition spec_valid (c : config) (d : dirst) : Prop :=
    (forall f n, In (f, n) d -> f <> tmp_name -> check_user_file f <> None) /\
    (forall f n u adm, In (f, n) d -> f <> tmp_name -> check_user_file f = Some (u, adm) ->
                       dlookup (u ++ ext_of (negb adm)) d = None) /\
    (exists u content, dlookup (u ++ ext_admin) d = Some (File content) /\
                       u ++ ext_admin <> tmp_name /\ is_supported c content = true).

  Theorem check_exact c d listing :
    NoDup (keys d) -> names_ok d -> Permutation listing d ->
    (check_loop c d listing false = true <-> spec_valid c d).
  Admitted.

  (* initialisation succeeds only on an empty directory (ignoring .tmp) *)
  Theorem init_only_if_empty c d u pw o d' :
    init_store kdf c d u pw o = (d', ROk) -> d = [] \/ exists k, d = [(tmp_name, Dir k)].
  Admitted.
End Ops.
