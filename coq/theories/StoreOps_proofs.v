(* StoreOps_proofs.v — statements about single store operations on ARBITRARY
   directories (not only those reachable from an empty store): handling of
   unsupported files (C02), frame and failure behaviour (C15), exactness of
   the consistency check for every listing order (C16), upgradeable flag (C12). *)
From Whawty Require Import Bytes Bytes_proofs Base64 Base64_proofs Names Record Record_proofs Store.
From Coq Require Import ZifyN ZifyNat ZifyBool Permutation.
Open Scope N_scope.

Definition keys (d : dirst) : list bytes := map fst d.

(* u has exactly one file, [u ++ ext_of adm], a regular file with [content] *)
Definition sole_file (d : dirst) (u : bytes) (adm : bool) (content : bytes) : Prop :=
  valid_name u = true /\ len u + 6 <= 255 /\
  dlookup (u ++ ext_of adm) d = Some (File content) /\
  dlookup (u ++ ext_of (negb adm)) d = None.


(* ------------------------------------------------------------------ *)
(* Auxiliaries: directory algebra *)
Lemma dlookup_dset_eq k v d : dlookup k (dset k v d) = Some v.
Proof.
  induction d as [|[k' v'] d IH]; cbn [dset dlookup].
  - now rewrite beq_refl.
  - destruct (beq k k') eqn:E; cbn [dlookup].
    + now rewrite beq_refl.
    + now rewrite E.
Qed.

Lemma dlookup_dset_ne k k' v d : k <> k' -> dlookup k' (dset k v d) = dlookup k' d.
Proof.
  intros H. assert (Hk : beq k' k = false) by (apply beq_neq; congruence).
  induction d as [|[k2 v2] d IH]; cbn [dset dlookup].
  - now rewrite Hk.
  - destruct (beq k k2) eqn:E; cbn [dlookup].
    + apply beq_eq in E. subst k2. now rewrite Hk.
    + now rewrite IH.
Qed.

Lemma dlookup_dremove_eq k d : dlookup k (dremove k d) = None.
Proof.
  induction d as [|[k' v'] d IH]; cbn [dremove dlookup]; auto.
  destruct (beq k k') eqn:E; cbn [dlookup]; auto.
  now rewrite E.
Qed.

Lemma dlookup_dremove_ne k k' d : k <> k' -> dlookup k' (dremove k d) = dlookup k' d.
Proof.
  intros H. assert (Hk : beq k' k = false) by (apply beq_neq; congruence).
  induction d as [|[k2 v2] d IH]; cbn [dremove dlookup]; auto.
  destruct (beq k k2) eqn:E; cbn [dlookup].
  - apply beq_eq in E. subst k2. now rewrite Hk.
  - now rewrite IH.
Qed.

Lemma dlookup_In k v d : dlookup k d = Some v -> In (k, v) d.
Proof.
  induction d as [|[k' v'] d IH]; cbn [dlookup]; [discriminate|].
  destruct (beq k k') eqn:E; intros H.
  - apply beq_eq in E. injection H as H. subst. now left.
  - right. auto.
Qed.

Lemma In_keys k (v : node) d : In (k, v) d -> In k (keys d).
Proof. intros H. unfold keys. change k with (fst (k, v)). now apply in_map. Qed.

Lemma In_dlookup k v d : NoDup (keys d) -> In (k, v) d -> dlookup k d = Some v.
Proof.
  induction d as [|[k' v'] d IH]; intros Hnd Hin; [destruct Hin|].
  cbn [keys map fst] in Hnd. inversion Hnd as [|x l Hni Hnd' Heq]; subst.
  cbn [dlookup]. destruct Hin as [Hin|Hin].
  - injection Hin as Hk Hv. subst. now rewrite beq_refl.
  - destruct (beq k k') eqn:E.
    + apply beq_eq in E. subst k'. exfalso. apply Hni. eapply In_keys; eauto.
    + auto.
Qed.

(* ------------------------------------------------------------------ *)
(* Auxiliaries: prefixes, suffixes, file-name extensions *)
Lemma has_prefix_app p t : has_prefix p (p ++ t) = true.
Proof.
  induction p as [|x p IH]; cbn [has_prefix app]; auto.
  now rewrite N.eqb_refl, IH.
Qed.

Lemma has_prefix_inv p : forall s, has_prefix p s = true -> exists t, s = p ++ t.
Proof.
  induction p as [|x p IH]; intros s H.
  - exists s. reflexivity.
  - destruct s as [|y s]; cbn [has_prefix] in H; [discriminate|].
    apply andb_true_iff in H as [Hxy Hp]. apply N.eqb_eq in Hxy. subst y.
    destruct (IH s Hp) as [t Ht]. exists t. subst s. reflexivity.
Qed.

Lemma has_suffix_app p t : has_suffix p (t ++ p) = true.
Proof. unfold has_suffix. rewrite rev_app_distr. apply has_prefix_app. Qed.

Lemma has_suffix_inv p s : has_suffix p s = true -> exists t, s = t ++ p.
Proof.
  unfold has_suffix. intros H. apply has_prefix_inv in H as [t Ht]. exists (rev t).
  rewrite <- (rev_involutive s), Ht, rev_app_distr, rev_involutive. reflexivity.
Qed.

Lemma has_suffix_last p s a b :
  has_suffix (p ++ [a]) (s ++ [b]) = (a =? b) && has_suffix p s.
Proof. unfold has_suffix. rewrite !rev_app_distr. reflexivity. Qed.

Lemma firstn_len_app (t p : bytes) : firstn (length (t ++ p) - length p) (t ++ p) = t.
Proof.
  rewrite app_length, Nat.add_sub.
  induction t as [|x t IH]; cbn [length firstn app].
  - destruct p; reflexivity.
  - now rewrite IH.
Qed.

Lemma admin_not_user_suffix u : has_suffix ext_admin (u ++ ext_user) = false.
Proof.
  change ext_admin with (str ".admi" ++ [110]).
  change ext_user with (str ".use" ++ [114]).
  rewrite app_assoc, has_suffix_last. reflexivity.
Qed.

Lemma check_user_file_admin u : check_user_file (u ++ ext_admin) = Some (u, true).
Proof.
  unfold check_user_file. rewrite has_suffix_app, firstn_len_app. reflexivity.
Qed.

Lemma check_user_file_user u : check_user_file (u ++ ext_user) = Some (u, false).
Proof.
  unfold check_user_file.
  rewrite admin_not_user_suffix, has_suffix_app, firstn_len_app. reflexivity.
Qed.

Lemma check_user_file_ext u a : check_user_file (u ++ ext_of a) = Some (u, a).
Proof. destruct a; [apply check_user_file_admin | apply check_user_file_user]. Qed.

Lemma check_user_file_inv f u a : check_user_file f = Some (u, a) -> f = u ++ ext_of a.
Proof.
  unfold check_user_file. intros H.
  destruct (has_suffix ext_admin f) eqn:Ea.
  - apply has_suffix_inv in Ea as [t Ht]. subst f. rewrite firstn_len_app in H.
    injection H as Hu Ha. subst. reflexivity.
  - destruct (has_suffix ext_user f) eqn:Eu; [|discriminate].
    apply has_suffix_inv in Eu as [t Ht]. subst f. rewrite firstn_len_app in H.
    injection H as Hu Ha. subst. reflexivity.
Qed.

Lemma ext_inj u a v b : u ++ ext_of a = v ++ ext_of b -> u = v /\ a = b.
Proof.
  intros H. pose proof (check_user_file_ext u a) as H1. rewrite H in H1.
  rewrite check_user_file_ext in H1. injection H1 as Hu Ha. auto.
Qed.

Lemma ext_neq u a : u ++ ext_of a <> u ++ ext_of (negb a).
Proof. intros H. apply ext_inj in H as [_ H]. destruct a; discriminate. Qed.

Lemma admin_neq_user u : u ++ ext_admin <> u ++ ext_user.
Proof. exact (ext_neq u true). Qed.

Lemma valid_not_tmp u e : valid_name u = true -> u ++ e <> tmp_name.
Proof.
  destruct u as [|x u]; cbn [valid_name]; [discriminate|].
  intros H E. apply andb_true_iff in H as [H _].
  injection E as Ex _. subst x. vm_compute in H. discriminate.
Qed.

Lemma check_user_file_tmp : check_user_file tmp_name = None.
Proof. reflexivity. Qed.

Lemma len_ext u a : len (u ++ ext_of a) <= len u + 6.
Proof.
  unfold len. rewrite app_length.
  destruct a; cbn [ext_of];
    [change (length ext_admin) with 6%nat | change (length ext_user) with 5%nat]; lia.
Qed.

Lemma stat_file_short d f :
  len f <= 255 ->
  stat_file d f = match dlookup f d with Some _ => StYes | None => StNo end.
Proof.
  intros H. unfold stat_file, name_max.
  destruct (255 <? len f) eqn:E; [lia|reflexivity].
Qed.

Lemma stat_file_ext d u a :
  len u + 6 <= 255 ->
  stat_file d (u ++ ext_of a) =
  match dlookup (u ++ ext_of a) d with Some _ => StYes | None => StNo end.
Proof. intros H. apply stat_file_short. pose proof (len_ext u a). lia. Qed.

Lemma stat_file_yes d f : stat_file d f = StYes -> exists n, dlookup f d = Some n.
Proof.
  unfold stat_file. destruct (name_max <? len f); [discriminate|].
  destruct (dlookup f d) as [n|]; [eauto|discriminate].
Qed.

Lemma stat_file_no d f : stat_file d f = StNo -> dlookup f d = None.
Proof.
  unfold stat_file. destruct (name_max <? len f); [discriminate|].
  destruct (dlookup f d) as [n|]; [discriminate|auto].
Qed.

Lemma user_exists_yes d u cur :
  user_exists d u = ExYes cur ->
  (exists n, dlookup (u ++ ext_of cur) d = Some n) /\
  (cur = false -> dlookup (u ++ ext_admin) d = None).
Proof.
  unfold user_exists.
  destruct (stat_file d (u ++ ext_admin)) eqn:Ea; [| |discriminate].
  - intros H. injection H as H. subst cur. split; [|discriminate].
    apply stat_file_yes in Ea. exact Ea.
  - destruct (stat_file d (u ++ ext_user)) eqn:Eu; [| discriminate | discriminate].
    intros H. injection H as H. subst cur. split.
    + apply stat_file_yes in Eu. exact Eu.
    + intros _. apply stat_file_no in Ea. exact Ea.
Qed.

Lemma sole_exists d u adm content : sole_file d u adm content -> user_exists d u = ExYes adm.
Proof.
  intros (Hv & Hl & Hf & Hn). unfold user_exists.
  change ext_admin with (ext_of true). change ext_user with (ext_of false).
  rewrite !stat_file_ext by assumption.
  destruct adm; cbn [negb] in Hn.
  - now rewrite Hf.
  - now rewrite Hn, Hf.
Qed.

Lemma sole_entries d u adm content :
  NoDup (keys d) -> sole_file d u adm content ->
  forall f n a, In (f, n) d -> check_user_file f = Some (u, a) ->
                a = adm /\ n = File content /\ f = u ++ ext_of adm.
Proof.
  intros Hnd (Hv & Hl & Hf & Hn) f n a Hin Hc.
  apply check_user_file_inv in Hc. subst f.
  apply (In_dlookup _ _ _ Hnd) in Hin.
  destruct (Bool.bool_dec a adm) as [->|Hne].
  - rewrite Hf in Hin. injection Hin as Hin. auto.
  - assert (a = negb adm) as -> by (destruct a, adm; cbn [negb]; congruence).
    rewrite Hn in Hin. discriminate.
Qed.

Lemma not_supported_node c content :
  is_supported c content = false ->
  match supp_of_node c (File content) with SuppInfo true _ _ _ => False | _ => True end.
Proof.
  unfold is_supported. cbn [supp_of_node].
  destruct (format_supported_full c content) as [|[] ? ? ?]; auto. discriminate.
Qed.


Lemma list_users_hidden c u : forall d acc l,
  (forall f n a, In (f, n) d -> check_user_file f = Some (u, a) ->
     match supp_of_node c n with SuppInfo true _ _ _ => False | _ => True end) ->
  alookup u acc = None -> list_users c d acc = Some l -> alookup u l = None.
Proof.
  induction d as [|[f n] r IH]; intros acc l Hent Hacc Hl.
  - cbn [list_users] in Hl. injection Hl as Hl. subst l. exact Hacc.
  - cbn [list_users] in Hl.
    assert (Hent' : forall f n a, In (f, n) r -> check_user_file f = Some (u, a) ->
              match supp_of_node c n with SuppInfo true _ _ _ => False | _ => True end).
    { intros f0 n0 a0 Hin. apply Hent. now right. }
    destruct (beq f tmp_name); [eapply IH; eauto|].
    destruct (check_user_file f) as [[u' a']|] eqn:Ec; [|discriminate].
    destruct (negb (valid_name u')); [eapply IH; eauto|].
    destruct (supp_of_node c n) as [|s fm ts pid] eqn:Es; [eapply IH; eauto|].
    destruct s; [|eapply IH; eauto].
    eapply IH; [exact Hent'| |exact Hl].
    destruct (beq u' u) eqn:Eu.
    + apply beq_eq in Eu. subst u'.
      specialize (Hent f n a' (or_introl eq_refl) Ec). rewrite Es in Hent. destruct Hent.
    + apply beq_neq in Eu. rewrite alookup_aset_ne by exact Eu. exact Hacc.
Qed.

Definition shown_entry (adm : bool) (e : user_full) : Prop :=
  uf_supported e = false /\ uf_admin e = adm.

Lemma list_full_shown c u adm content :
  is_supported c content = false -> u ++ ext_of adm <> tmp_name ->
  forall d acc l,
  (forall f n a, In (f, n) d -> check_user_file f = Some (u, a) -> a = adm /\ n = File content) ->
  (In (u ++ ext_of adm, File content) d \/ exists e, alookup u acc = Some e /\ shown_entry adm e) ->
  list_full c d acc = Some l ->
  exists e, alookup u l = Some e /\ shown_entry adm e.
Proof.
  intros Hsup Htmp.
  induction d as [|[f n] r IH]; intros acc l Hent Hor Hl.
  - cbn [list_full] in Hl. injection Hl as Hl. subst l.
    destruct Hor as [[]|Hor]. exact Hor.
  - cbn [list_full] in Hl.
    assert (Hent' : forall f n a, In (f, n) r -> check_user_file f = Some (u, a) ->
                                  a = adm /\ n = File content).
    { intros f0 n0 a0 Hin. apply Hent. now right. }
    destruct (beq f tmp_name) eqn:Et.
    { apply beq_eq in Et. subst f. eapply IH; [exact Hent'| |exact Hl].
      destruct Hor as [[Hin|Hin]|Hor]; [|now left|now right].
      injection Hin as Hin _. symmetry in Hin. contradiction. }
    destruct (check_user_file f) as [[u' a']|] eqn:Ec; [|discriminate].
    destruct (beq u' u) eqn:Eu.
    + apply beq_eq in Eu. subst u'.
      destruct (Hent f n a' (or_introl eq_refl) Ec) as [-> ->].
      eapply IH; [exact Hent'| |exact Hl]. right.
      rewrite alookup_aset_eq. eexists. split; [reflexivity|].
      unfold shown_entry. cbn [supp_of_node]. unfold is_supported in Hsup.
      destruct (format_supported_full c content) as [|[] ? ? ?]; cbn; auto.
    + apply beq_neq in Eu.
      eapply IH; [exact Hent'| |exact Hl].
      destruct Hor as [[Hin|Hin]|Hor]; [|now left|].
      * injection Hin as Hf Hn. subst f. rewrite check_user_file_ext in Ec.
        injection Ec as Hu _. congruence.
      * right. rewrite alookup_aset_ne by exact Eu. exact Hor.
Qed.


(* ------------------------------------------------------------------ *)
(* Auxiliaries: an order-independent description of check_loop *)
Definition entry_ok (all : dirst) (e : bytes * node) : bool :=
  beq (fst e) tmp_name ||
  match check_user_file (fst e) with
  | None => false
  | Some (u, adm) =>
      negb (valid_name u) ||
      match stat_file all (u ++ ext_of (negb adm)) with StNo => true | _ => false end
  end.

Definition entry_wit (c : config) (e : bytes * node) : bool :=
  negb (beq (fst e) tmp_name) &&
  match check_user_file (fst e) with
  | Some (u, adm) =>
      adm && valid_name u &&
      match supp_of_node c (snd e) with SuppInfo true _ _ _ => true | _ => false end
  | None => false
  end.

Lemma check_loop_char c all : forall l found,
  check_loop c all l found = forallb (entry_ok all) l && (found || existsb (entry_wit c) l).
Proof.
  induction l as [|[f n] r IH]; intros found; cbn [check_loop forallb existsb].
  - now rewrite orb_false_r.
  - unfold entry_ok at 1, entry_wit at 1. cbn [fst snd].
    destruct (beq f tmp_name); cbn [orb negb andb]; [apply IH|].
    destruct (check_user_file f) as [[u adm]|]; [|reflexivity].
    destruct (valid_name u); cbn [negb orb andb].
    + destruct (stat_file all (u ++ ext_of (negb adm))); cbn [andb]; try reflexivity.
      destruct adm; cbn [andb orb]; rewrite IH; [|reflexivity].
      now rewrite orb_assoc.
    + rewrite andb_false_r. cbn [andb orb]. apply IH.
Qed.

Section Ops.
  Variable kdf : hasher -> bytes -> bytes -> option bytes.

  (* ---------------- C02: unsupported / invalid hash files ---------------- *)
  Theorem unsupported_hidden_from_list c d u adm content l :
    NoDup (keys d) -> sole_file d u adm content -> is_supported c content = false ->
    list_users c d [] = Some l -> alookup u l = None.
    Proof.
    intros Hnd Hsole Hsup Hl.
    apply (list_users_hidden c u d [] l); [|reflexivity|exact Hl].
    intros f n a Hin Hc.
    destruct (sole_entries d u adm content Hnd Hsole f n a Hin Hc) as (_ & -> & _).
    now apply not_supported_node.
  Qed.

  Theorem unsupported_shown_by_list_full c d u adm content l :
    NoDup (keys d) -> sole_file d u adm content -> is_supported c content = false ->
    list_full c d [] = Some l ->
    exists e, alookup u l = Some e /\ uf_supported e = false /\ uf_admin e = adm.
    Proof.
    intros Hnd Hsole Hsup Hl.
    assert (Htmp : u ++ ext_of adm <> tmp_name).
    { apply valid_not_tmp. apply Hsole. }
    destruct (list_full_shown c u adm content Hsup Htmp d [] l) as (e & He & Hs & Ha).
    - intros f n a Hin Hc.
      destruct (sole_entries d u adm content Hnd Hsole f n a Hin Hc) as (-> & -> & _). auto.
    - left. apply dlookup_In. apply Hsole.
    - exact Hl.
    - exists e. auto.
  Qed.

  Theorem existing_file_blocks_add c d u adm content pw adm' o :
    sole_file d u adm content ->
    add_user kdf c d u pw adm' o = (d, RErr).
    Proof.
    intros Hsole. unfold add_user.
    rewrite (sole_exists _ _ _ _ Hsole).
    destruct Hsole as (Hv & _). rewrite Hv. reflexivity.
  Qed.

  Theorem unsupported_update_refused c d u adm content pw o :
    sole_file d u adm content -> is_supported c content = false ->
    update_user kdf c d u pw o = (d, RErr).
    Proof.
    intros Hsole Hsup. unfold update_user.
    rewrite (sole_exists _ _ _ _ Hsole).
    destruct Hsole as (Hv & _ & Hf & _). rewrite Hv. cbn [negb].
    unfold read_file. rewrite Hf, Hsup. reflexivity.
  Qed.

  Theorem remove_deletes d u adm content :
    NoDup (keys d) -> sole_file d u adm content ->
    dlookup (u ++ ext_admin) (remove_user d u) = None /\
    dlookup (u ++ ext_user) (remove_user d u) = None /\
    (forall f, f <> u ++ ext_admin -> f <> u ++ ext_user ->
               dlookup f (remove_user d u) = dlookup f d).
    Proof.
    intros _ (Hv & _ & Hf & Hn). unfold remove_user. rewrite Hv. cbn [negb].
    assert (Hau : u ++ ext_admin <> u ++ ext_user) by apply admin_neq_user.
    assert (Hua : u ++ ext_user <> u ++ ext_admin) by (intros E; now apply Hau).
    destruct adm; cbn [ext_of negb] in Hf, Hn.
    - (* the admin file exists, the user file does not *)
      assert (E1 : unlink (u ++ ext_admin) d = dremove (u ++ ext_admin) d).
      { unfold unlink. now rewrite Hf. }
      assert (E2 : unlink (u ++ ext_user) (dremove (u ++ ext_admin) d) = dremove (u ++ ext_admin) d).
      { unfold unlink. rewrite dlookup_dremove_ne by exact Hau. now rewrite Hn. }
      rewrite E1, E2. split; [apply dlookup_dremove_eq|]. split.
      + rewrite dlookup_dremove_ne by exact Hau. exact Hn.
      + intros f Hfa _. apply dlookup_dremove_ne. congruence.
    - assert (E1 : unlink (u ++ ext_admin) d = d).
      { unfold unlink. now rewrite Hn. }
      assert (E2 : unlink (u ++ ext_user) d = dremove (u ++ ext_user) d).
      { unfold unlink. now rewrite Hf. }
      rewrite E1, E2. split; [|split].
      + rewrite dlookup_dremove_ne by exact Hua. exact Hn.
      + apply dlookup_dremove_eq.
      + intros f _ Hfu. apply dlookup_dremove_ne. congruence.
  Qed.


  (* ---- the two possible outcomes of write_hash ---- *)
  Lemma write_hash_ok c d u pw admin mc o d' :
    write_hash kdf c d u pw admin mc o = (d', ROk) ->
    exists h hs oldc d2,
      cfg_hasher c (default c) = Some h /\
      hash_generate kdf h (o_salt o) pw = Some hs /\
      (if mc then dlookup (u ++ ext_of admin) d = None /\ oldc = []
       else dlookup (u ++ ext_of admin) d = Some (File oldc)) /\
      (forall f, f <> u ++ ext_of admin -> f <> tmp_name -> dlookup f d2 = dlookup f d) /\
      d' = dset (u ++ ext_of admin)
             (File (print_record h (o_ts o) (default c) hs ++ after_first_line oldc)) d2.
  Proof.
    unfold write_hash. intros H.
    destruct (cfg_hasher c (default c)) as [h|]; [|discriminate].
    destruct (hash_generate kdf h (o_salt o) pw) as [hs|] eqn:Eg; [|discriminate].
    exists h, hs.
    destruct (dlookup (u ++ ext_of admin) d) as [[old|k]|] eqn:El; destruct mc; try discriminate.
    - (* existing regular file, no create *)
      destruct (dlookup tmp_name d) as [[tc|tk]|] eqn:Et; try discriminate;
        injection H as H; subst d'; exists old; eexists;
        (split; [reflexivity|]); (split; [exact Eg|]); (split; [reflexivity|]);
        (split; [|reflexivity]); intros f Hf Ht; auto.
      apply dlookup_dset_ne. congruence.
    - (* directory under that name *)
      destruct (dlookup tmp_name d) as [[tc|tk]|]; discriminate.
    - (* create *)
      destruct (dlookup tmp_name (dset (u ++ ext_of admin) (File []) d)) as [[tc|tk]|] eqn:Et;
        try discriminate;
        injection H as H; subst d'; exists []; eexists;
        (split; [reflexivity|]); (split; [exact Eg|]); (split; [auto|]);
        (split; [|reflexivity]); intros f Hf Ht.
      + apply dlookup_dset_ne. congruence.
      + rewrite dlookup_dset_ne by congruence. apply dlookup_dset_ne. congruence.
  Qed.

  Lemma write_hash_err c d u pw admin mc o d' :
    write_hash kdf c d u pw admin mc o = (d', RErr) ->
    d' = d \/ (mc = false /\ exists k, dlookup (u ++ ext_of admin) d = Some (Dir k)).
  Proof.
    unfold write_hash. intros H.
    destruct (cfg_hasher c (default c)) as [h|]; [|injection H as H; auto].
    destruct (hash_generate kdf h (o_salt o) pw) as [hs|]; [|injection H as H; auto].
    destruct (dlookup (u ++ ext_of admin) d) as [[old|k]|] eqn:El; destruct mc;
      try (injection H as H; auto; fail).
    - destruct (dlookup tmp_name d) as [[tc|tk]|]; try discriminate. injection H as H; auto.
    - right. eauto.
    - destruct (dlookup tmp_name (dset (u ++ ext_of admin) (File []) d)) as [[tc|tk]|];
        try discriminate. injection H as H; auto.
  Qed.

  (* ---------------- C15: frame, failures, read-only ---------------- *)
  (* a failing mutation leaves the directory exactly as it was *)
  Theorem failed_add_unchanged c d u pw adm o d' :
    add_user kdf c d u pw adm o = (d', RErr) -> d' = d.
    Proof.
    unfold add_user. intros H.
    destruct (negb (valid_name u)); [injection H as H; auto|].
    destruct (user_exists d u); try (injection H as H; auto; fail).
    apply write_hash_err in H as [H|[H _]]; [auto|discriminate].
  Qed.

  Theorem failed_update_unchanged c d u pw o d' :
    update_user kdf c d u pw o = (d', RErr) -> d' = d.
    Proof.
    unfold update_user. intros H.
    destruct (negb (valid_name u)); [injection H as H; auto|].
    destruct (user_exists d u) as [admin| |]; try (injection H as H; auto; fail).
    unfold read_file in H.
    destruct (dlookup (u ++ ext_of admin) d) as [[content|k]|] eqn:El;
      try (injection H as H; auto; fail).
    destruct (is_supported c content); [|injection H as H; auto].
    apply write_hash_err in H as [H|[_ [k Hk]]]; [auto|].
    rewrite El in Hk. discriminate.
  Qed.

  Theorem failed_set_admin_unchanged d u adm d' :
    set_admin d u adm = (d', RErr) -> d' = d.
    Proof.
    unfold set_admin. intros H.
    destruct (negb (valid_name u)); [injection H as H; auto|].
    destruct (user_exists d u) as [cur| |]; try (injection H as H; auto; fail).
    destruct (Bool.eqb cur adm); [discriminate|].
    destruct (dlookup (u ++ ext_of cur) d) as [n|]; [|injection H as H; auto].
    destruct (name_max <? len (u ++ ext_of adm)); [injection H as H; auto|].
    match type of H with (if ?b then _ else _) = _ => destruct b end;
      [discriminate|injection H as H; auto].
  Qed.

  Theorem failed_init_unchanged c d u pw o d' :
    init_store kdf c d u pw o = (d', RErr) -> d' = d.
    Proof.
    unfold init_store. intros H.
    destruct (dir_empty d); [|injection H as H; auto].
    eapply failed_add_unchanged; eauto.
  Qed.

  (* a successful update rewrites only the first line of the target's file;
     auxiliary data and every other entry (except the work area) are untouched *)
  Theorem update_frame c d u pw o d' :
    NoDup (keys d) ->
    update_user kdf c d u pw o = (d', ROk) ->
    exists adm old h hs,
      user_exists d u = ExYes adm /\
      dlookup (u ++ ext_of adm) d = Some (File old) /\
      cfg_hasher c (default c) = Some h /\
      hash_generate kdf h (o_salt o) pw = Some hs /\
      dlookup (u ++ ext_of adm) d' =
        Some (File (print_record h (o_ts o) (default c) hs ++ after_first_line old)) /\
      (forall f, f <> u ++ ext_of adm -> f <> tmp_name -> dlookup f d' = dlookup f d).
    Proof.
    intros _. unfold update_user. intros H.
    destruct (negb (valid_name u)); [discriminate|].
    destruct (user_exists d u) as [admin| |] eqn:Ex; try discriminate.
    unfold read_file in H.
    destruct (dlookup (u ++ ext_of admin) d) as [[content|k]|] eqn:El; try discriminate.
    destruct (is_supported c content); [|discriminate].
    apply write_hash_ok in H as (h & hs & oldc & d2 & Hh & Hg & Hold & Hfr & Hd').
    cbv iota in Hold. rewrite El in Hold. injection Hold as Hold. subst oldc.
    exists admin, content, h, hs.
    repeat (split; [first [reflexivity|assumption]|]).
    subst d'. split; [apply dlookup_dset_eq|].
    intros f Hf Ht. rewrite dlookup_dset_ne by congruence. auto.
  Qed.

  Theorem add_frame c d u pw adm o d' :
    NoDup (keys d) ->
    add_user kdf c d u pw adm o = (d', ROk) ->
    exists h hs,
      cfg_hasher c (default c) = Some h /\
      hash_generate kdf h (o_salt o) pw = Some hs /\
      dlookup (u ++ ext_of adm) d = None /\
      dlookup (u ++ ext_of adm) d' = Some (File (print_record h (o_ts o) (default c) hs)) /\
      (forall f, f <> u ++ ext_of adm -> f <> tmp_name -> dlookup f d' = dlookup f d).
    Proof.
    intros _. unfold add_user. intros H.
    destruct (negb (valid_name u)); [discriminate|].
    destruct (user_exists d u) as [admin| |] eqn:Ex; try discriminate.
    apply write_hash_ok in H as (h & hs & oldc & d2 & Hh & Hg & Hold & Hfr & Hd').
    cbv iota in Hold. destruct Hold as [Hnone ->].
    exists h, hs.
    repeat (split; [assumption|]).
    subst d'. split.
    - rewrite dlookup_dset_eq.
      change (after_first_line []) with (@nil N). now rewrite app_nil_r.
    - intros f Hf Ht. rewrite dlookup_dset_ne by congruence. auto.
  Qed.

  (* set-admin moves the whole record, timestamp and auxiliary data included *)
  Theorem set_admin_frame d u adm d' :
    NoDup (keys d) ->
    set_admin d u adm = (d', ROk) ->
    exists cur n,
      user_exists d u = ExYes cur /\ dlookup (u ++ ext_of cur) d = Some n /\
      dlookup (u ++ ext_of adm) d' = Some n /\
      (cur <> adm -> dlookup (u ++ ext_of cur) d' = None) /\
      (forall f, f <> u ++ ext_admin -> f <> u ++ ext_user -> dlookup f d' = dlookup f d).
    Proof.
    intros _. unfold set_admin. intros H.
    destruct (negb (valid_name u)); [discriminate|].
    destruct (user_exists d u) as [cur| |] eqn:Ex; try discriminate.
    destruct (user_exists_yes _ _ _ Ex) as [[n0 Hn0] _].
    destruct (Bool.eqb cur adm) eqn:Eb.
    - apply Bool.eqb_prop in Eb. subst adm. injection H as H. subst d'.
      exists cur, n0. split; [reflexivity|]. split; [exact Hn0|]. split; [exact Hn0|].
      split; [congruence|auto].
    - apply Bool.eqb_false_iff in Eb.
      assert (adm = negb cur) as -> by (destruct adm, cur; cbn [negb]; congruence).
      rewrite Hn0 in H.
      destruct (name_max <? len (u ++ ext_of (negb cur))); [discriminate|].
      match type of H with (if ?b then _ else _) = _ => destruct b end; [|discriminate].
      injection H as H. subst d'.
      exists cur, n0. split; [reflexivity|]. split; [exact Hn0|].
      split; [apply dlookup_dset_eq|]. split.
      + intros _. rewrite dlookup_dset_ne by (intros E; symmetry in E; revert E; apply ext_neq).
        apply dlookup_dremove_eq.
      + intros f Hfa Hfu.
        assert (Hf : forall b, f <> u ++ ext_of b) by (intros []; assumption).
        rewrite dlookup_dset_ne by (intros E; symmetry in E; revert E; apply Hf).
        apply dlookup_dremove_ne. intros E; symmetry in E; revert E; apply Hf.
  Qed.

  (* authenticate, exists, list, list-full, check never change the directory *)
  Theorem read_only_ops c d o orc :
    match o with OpAuth _ _ | OpExists _ | OpList | OpListFull | OpCheck => True | _ => False end ->
    snd (fst (step kdf c d o orc)) = d.
    Proof. destruct o; cbn [step fst snd]; intros H; try destruct H; reflexivity. Qed.

  (* ---------------- C12: the upgradeable flag ---------------- *)
  Theorem upgradeable_iff c content pw upg ts :
    auth_content kdf c content pw = AuthOk upg ts ->
    exists r, parse_record content = Some r /\ (upg = true <-> r_pid r <> default c).
    Proof.
    unfold auth_content. intros H.
    destruct (parse_record content) as [r|]; [|discriminate].
    exists r. split; [reflexivity|].
    destruct (cfg_hasher c (r_pid r)) as [h|]; [|discriminate].
    destruct (beq (fmt_of h) (r_fmt r)); [|discriminate].
    destruct (hash_check kdf h pw (r_hash r)); [|discriminate].
    injection H as Hu _. subst upg.
    destruct (default c =? r_pid r) eqn:E; cbn [negb].
    - apply N.eqb_eq in E. split; [discriminate|congruence].
    - apply N.eqb_neq in E. split; [congruence|reflexivity].
  Qed.

  (* ---------------- C16: the consistency check is exact ---------------- *)
  (* entries are built from valid, not over-long user names *)
  Definition names_ok (d : dirst) : Prop :=
    forall f n u adm, In (f, n) d -> check_user_file f = Some (u, adm) ->
                      valid_name u = true /\ len u + 6 <= 255.

  Definition spec_valid (c : config) (d : dirst) : Prop :=
    (forall f n, In (f, n) d -> f <> tmp_name -> check_user_file f <> None) /\
    (forall f n u adm, In (f, n) d -> f <> tmp_name -> check_user_file f = Some (u, adm) ->
                       dlookup (u ++ ext_of (negb adm)) d = None) /\
    (exists u content, dlookup (u ++ ext_admin) d = Some (File content) /\
                       u ++ ext_admin <> tmp_name /\ is_supported c content = true).

  Theorem check_exact c d listing :
    NoDup (keys d) -> names_ok d -> Permutation listing d ->
    (check_loop c d listing false = true <-> spec_valid c d).
    Proof.
    intros Hnd Hnames Hperm. rewrite check_loop_char. cbn [orb].
    rewrite andb_true_iff, forallb_forall, existsb_exists.
    assert (Hin : forall e, In e listing <-> In e d).
    { intros e; split; apply Permutation_in; [exact Hperm | now apply Permutation_sym]. }
    split.
    - intros [Hall [[f n] [Hi Hw]]]. unfold spec_valid. split; [|split].
      + intros f0 n0 Hin0 Htmp Hnone.
        specialize (Hall (f0, n0) (proj2 (Hin _) Hin0)).
        unfold entry_ok in Hall. cbn [fst] in Hall.
        apply beq_neq in Htmp. rewrite Htmp, Hnone in Hall. discriminate.
      + intros f0 n0 u adm Hin0 Htmp Hc.
        specialize (Hall (f0, n0) (proj2 (Hin _) Hin0)).
        unfold entry_ok in Hall. cbn [fst] in Hall.
        apply beq_neq in Htmp. rewrite Htmp, Hc in Hall.
        destruct (Hnames f0 n0 u adm Hin0 Hc) as [Hv _]. rewrite Hv in Hall.
        cbn [negb orb] in Hall.
        destruct (stat_file d (u ++ ext_of (negb adm))) eqn:Es; try discriminate.
        now apply stat_file_no.
      + unfold entry_wit in Hw. cbn [fst snd] in Hw.
        apply andb_true_iff in Hw as [Htmp Hw].
        destruct (check_user_file f) as [[u adm]|] eqn:Hc; [|discriminate].
        apply andb_true_iff in Hw as [Hw Hs]. apply andb_true_iff in Hw as [Ha Hv].
        subst adm. apply check_user_file_inv in Hc. cbn [ext_of] in Hc. subst f.
        destruct n as [content|k]; cbn [supp_of_node] in Hs; [|discriminate].
        exists u, content. split; [|split].
        * apply In_dlookup; [exact Hnd|]. now apply Hin.
        * apply beq_neq. now destruct (beq (u ++ ext_admin) tmp_name).
        * unfold is_supported. exact Hs.
    - intros (H1 & H2 & (u & content & Hl & Htmp & Hs)). split.
      + intros [f n] Hi. apply Hin in Hi. unfold entry_ok. cbn [fst].
        destruct (beq f tmp_name) eqn:Et; [reflexivity|]. cbn [orb].
        apply beq_neq in Et.
        destruct (check_user_file f) as [[u0 adm]|] eqn:Hc;
          [|exfalso; exact (H1 f n Hi Et Hc)].
        destruct (Hnames f n u0 adm Hi Hc) as [Hv Hlen]. rewrite Hv. cbn [negb orb].
        rewrite stat_file_ext by exact Hlen.
        now rewrite (H2 f n u0 adm Hi Et Hc).
      + exists (u ++ ext_admin, File content). split.
        * apply Hin. now apply dlookup_In.
        * unfold entry_wit. cbn [fst snd supp_of_node].
          apply beq_neq in Htmp. rewrite Htmp, check_user_file_admin.
          apply dlookup_In in Hl.
          destruct (Hnames _ _ u true Hl (check_user_file_admin u)) as [Hv _].
          rewrite Hv. cbn [negb andb]. unfold is_supported in Hs. exact Hs.
  Qed.

  (* initialisation succeeds only on an empty directory (ignoring .tmp) *)
  Theorem init_only_if_empty c d u pw o d' :
    init_store kdf c d u pw o = (d', ROk) -> d = [] \/ exists k, d = [(tmp_name, Dir k)].
    Proof.
    unfold init_store. intros H.
    destruct (dir_empty d) eqn:E; [|discriminate].
    unfold dir_empty in E.
    destruct d as [|[n [cont|k]] [|e r]]; try discriminate; [now left|].
    right. apply beq_eq in E. subst n. eauto.
  Qed.
End Ops.
