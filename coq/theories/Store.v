(* Store.v — functional (big-step) model of store/store.go + store/userhash.go
   over a flat directory.

   State: the entries of the base directory.  The temporary work area is the
   entry ".tmp" (a directory with its own children when it exists as one).
   Every operation validates the user name first (as the repaired code does,
   see KNOWN_FINDINGS.txt D1), so every path the store derives is
   <base>/<name><ext> with a '/'-free name; names too long for one path
   component make the system calls fail (ENAMETOOLONG).

   Oracles (values the real code draws from the clock / crypto/rand / the
   OS): [o_ts] time.Now().Unix(), [o_salt] the fresh salt, [o_tmp] the name
   os.CreateTemp picks, directory listing order = order of the entry list. *)
From Whawty Require Import Bytes Base64 Record Names.
Open Scope N_scope.

Inductive node :=
| File (content : bytes)
| Dir (children : list (bytes * bytes)).   (* only .tmp's children matter *)

Definition dirst := list (bytes * node).

Definition ext_admin : bytes := str ".admin".
Definition ext_user : bytes := str ".user".
Definition tmp_name : bytes := str ".tmp".
Definition name_max : N := 255.

Fixpoint dlookup (k : bytes) (d : dirst) : option node :=
  match d with
  | [] => None
  | (k', v) :: r => if beq k k' then Some v else dlookup k r
  end.

Fixpoint dremove (k : bytes) (d : dirst) : dirst :=
  match d with
  | [] => []
  | (k', v) :: r => if beq k k' then dremove k r else (k', v) :: dremove k r
  end.

(* replace in place, or append (a new directory entry) *)
Fixpoint dset (k : bytes) (v : node) (d : dirst) : dirst :=
  match d with
  | [] => [(k, v)]
  | (k', v') :: r => if beq k k' then (k, v) :: r else (k', v') :: dset k v r
  end.

Record oracle := { o_ts : Z; o_salt : bytes; o_tmp : bytes; o_order : list bytes }.

(* the order in which the OS lists the directory ([] = the state's own order) *)
Fixpoint reorder (names : list bytes) (d : list (bytes * node)) : list (bytes * node) :=
  match names with
  | [] => []
  | n :: r => match dlookup n d with
              | Some v => (n, v) :: reorder r d
              | None => reorder r d
              end
  end.
Definition listing (o : oracle) (d : dirst) : dirst :=
  match o_order o with [] => d | ns => reorder ns d end.

Inductive stat_res := StYes | StNo | StErr.

(* fileExists *)
Definition stat_file (d : dirst) (fname : bytes) : stat_res :=
  if name_max <? len fname then StErr
  else match dlookup fname d with Some _ => StYes | None => StNo end.

(* UserHash.Exists: (exists, isAdmin) or error *)
Inductive exists_res := ExYes (admin : bool) | ExNo | ExErr.

Definition user_exists (d : dirst) (u : bytes) : exists_res :=
  match stat_file d (u ++ ext_admin) with
  | StErr => ExErr
  | StYes => ExYes true
  | StNo => match stat_file d (u ++ ext_user) with
            | StErr => ExErr        (* (true, err) in Go; every caller treats err first *)
            | StYes => ExYes false
            | StNo => ExNo
            end
  end.

Definition ext_of (admin : bool) : bytes := if admin then ext_admin else ext_user.

(* reading a hash file: a directory under that name cannot be read *)
Definition read_file (d : dirst) (fname : bytes) : option bytes :=
  match dlookup fname d with
  | Some (File c) => Some c
  | _ => None
  end.

Section WithKdf.
  Variable kdf : hasher -> bytes -> bytes -> option bytes.

  Inductive res := ROk | RErr.

  (* ---- writeHashStr ---- *)
  Definition write_hash (c : config) (d : dirst) (u pw : bytes) (admin mayCreate : bool)
             (o : oracle) : dirst * res :=
    match cfg_hasher c (default c) with
    | None => (d, RErr)
    | Some h =>
        match hash_generate kdf h (o_salt o) pw with
        | None => (d, RErr)
        | Some hs =>
            let fname := u ++ ext_of admin in
            (* OpenFile(O_RDONLY|O_EXCL[|O_CREATE]) *)
            let opened : option (dirst * option bytes) :=
              match dlookup fname d with
              | Some (File old) => if mayCreate then None else Some (d, Some old)
              | Some (Dir _) => if mayCreate then None else Some (d, None)  (* opens; reading fails *)
              | None => if mayCreate then Some (dset fname (File []) d, Some []) else None
              end in
            match opened with
            | None => (d, RErr)
            | Some (d1, old) =>
                (* getTempFile: MkdirAll(.tmp) then CreateTemp; the temp file is
                   renamed over the final name (or removed on failure), foreign
                   residue in .tmp is left alone *)
                match dlookup tmp_name d1 with
                | Some (File _) => (d, RErr)     (* .tmp is not a directory; the repaired code
                                                    removes the reservation it created *)
                | tn =>
                    let d2 := match tn with Some (Dir _) => d1 | _ => dset tmp_name (Dir []) d1 end in
                    match old with
                    | None => (d2, RErr)
                    | Some oldc =>
                        (dset fname (File (print_record h (o_ts o) (default c) hs ++ after_first_line oldc)) d2,
                         ROk)
                    end
                end
            end
        end
    end.

  (* ---- the API of store.Dir ---- *)
  Inductive op :=
  | OpAdd (u pw : bytes) (admin : bool)
  | OpUpdate (u pw : bytes)
  | OpSetAdmin (u : bytes) (admin : bool)
  | OpRemove (u : bytes)
  | OpInit (u pw : bytes)
  | OpExists (u : bytes)
  | OpAuth (u pw : bytes)
  | OpList
  | OpListFull
  | OpCheck
  | OpSetDefault (id : N).     (* not a store call: the harness switches Dir.Default *)

  Record user_info := { ui_admin : bool; ui_ts : Z }.
  Record user_full := { uf_admin : bool; uf_ts : Z; uf_valid : bool; uf_supported : bool;
                        uf_fmt : bytes; uf_pid : N }.

  Inductive obs :=
  | ORes (r : res)
  | OExists (e : exists_res)
  | OAuth (ok admin upgradeable : bool) (ts : Z)      (* fields meaningful when ok *)
  | OList (l : option (list (bytes * user_info)))      (* None = error *)
  | OListFull (l : option (list (bytes * user_full))).

  Definition add_user (c : config) (d : dirst) (u pw : bytes) (admin : bool) (o : oracle) : dirst * res :=
    if negb (valid_name u) then (d, RErr)
    else match user_exists d u with
         | ExNo => write_hash c d u pw admin true o
         | _ => (d, RErr)
         end.

  Definition update_user (c : config) (d : dirst) (u pw : bytes) (o : oracle) : dirst * res :=
    if negb (valid_name u) then (d, RErr)
    else match user_exists d u with
         | ExYes admin =>
             match read_file d (u ++ ext_of admin) with
             | Some content =>
                 if is_supported c content then write_hash c d u pw admin false o else (d, RErr)
             | None => (d, RErr)
             end
         | _ => (d, RErr)
         end.

  Definition set_admin (d : dirst) (u : bytes) (admin : bool) : dirst * res :=
    if negb (valid_name u) then (d, RErr)
    else match user_exists d u with
         | ExYes cur =>
             if Bool.eqb cur admin then (d, ROk)
             else
               (* os.Rename(old, new) *)
               let oldn := u ++ ext_of cur in
               let newn := u ++ ext_of admin in
               match dlookup oldn d with
               | Some n =>
                   if name_max <? len newn then (d, RErr)
                   else
                     let ok := match dlookup newn d, n with
                               | None, _ => true
                               | Some (File _), File _ => true
                               | Some (Dir []), Dir _ => true
                               | _, _ => false
                               end in
                     if ok then (dset newn n (dremove oldn d), ROk) else (d, RErr)
               | None => (d, RErr)
               end
         | _ => (d, RErr)
         end.

  (* os.OpRemove on a non-empty directory fails; on a file or empty dir succeeds *)
  Definition unlink (fname : bytes) (d : dirst) : dirst :=
    match dlookup fname d with
    | Some (Dir (_ :: _)) => d
    | Some _ => dremove fname d
    | None => d
    end.

  Definition remove_user (d : dirst) (u : bytes) : dirst :=
    if negb (valid_name u) then d
    else unlink (u ++ ext_user) (unlink (u ++ ext_admin) d).

  (* isDirEmpty: ReadDir(2) *)
  Definition dir_empty (d : dirst) : bool :=
    match d with
    | [] => true
    | [(n, Dir _)] => beq n tmp_name
    | _ => false
    end.

  Definition init_store (c : config) (d : dirst) (u pw : bytes) (o : oracle) : dirst * res :=
    if dir_empty d then add_user c d u pw true o else (d, RErr).

  Definition authenticate (c : config) (d : dirst) (u pw : bytes) : obs :=
    if negb (valid_name u) then OAuth false false false 0%Z
    else match user_exists d u with
         | ExYes admin =>
             match read_file d (u ++ ext_of admin) with
             | Some content =>
                 match auth_content kdf c content pw with
                 | AuthOk upg ts => OAuth true admin upg ts
                 | AuthNo => OAuth false false false 0%Z
                 end
             | None => OAuth false false false 0%Z
             end
         | _ => OAuth false false false 0%Z
         end.

  (* checkUserFile: Some (user, isAdmin) or None for an invalid extension.
     filepath.Ext = suffix from the last '.' of the name *)
  Definition check_user_file (fname : bytes) : option (bytes * bool) :=
    if has_suffix ext_admin fname then
      Some (firstn (length fname - length ext_admin) fname, true)
    else if has_suffix ext_user fname then
      Some (firstn (length fname - length ext_user) fname, false)
    else None.

  Definition node_content (n : node) : option bytes :=
    match n with File c => Some c | Dir _ => None end.

  Definition supp_of_node (c : config) (n : node) : supp_res :=
    match n with
    | File content => format_supported_full c content
    | Dir _ => SuppErr
    end.

  (* Dir.List: a map keyed by user; iteration in listing order; an entry with
     an invalid extension aborts with an error *)
  Fixpoint list_users (c : config) (d : dirst) (acc : list (bytes * user_info))
    : option (list (bytes * user_info)) :=
    match d with
    | [] => Some acc
    | (fname, n) :: r =>
        if beq fname tmp_name then list_users c r acc
        else match check_user_file fname with
             | None => None
             | Some (u, adm) =>
                 if negb (valid_name u) then list_users c r acc
                 else match supp_of_node c n with
                      | SuppInfo true _ ts _ =>
                          list_users c r (aset u {| ui_admin := adm; ui_ts := ts |} acc)
                      | _ => list_users c r acc
                      end
             end
    end.

  Fixpoint list_full (c : config) (d : dirst) (acc : list (bytes * user_full))
    : option (list (bytes * user_full)) :=
    match d with
    | [] => Some acc
    | (fname, n) :: r =>
        if beq fname tmp_name then list_full c r acc
        else match check_user_file fname with
             | None => None
             | Some (u, adm) =>
                 let e := match supp_of_node c n with
                          | SuppInfo s f ts pid =>
                              {| uf_admin := adm; uf_ts := ts; uf_valid := valid_name u;
                                 uf_supported := s; uf_fmt := f; uf_pid := pid |}
                          | SuppErr =>
                              {| uf_admin := adm; uf_ts := 0%Z; uf_valid := valid_name u;
                                 uf_supported := false; uf_fmt := []; uf_pid := 0 |}
                          end in
                 list_full c r (aset u e acc)
             end
    end.

  (* Dir.Check: true = nil error *)
  Fixpoint check_loop (c : config) (all : dirst) (d : dirst) (found : bool) : bool :=
    match d with
    | [] => found
    | (fname, n) :: r =>
        if beq fname tmp_name then check_loop c all r found
        else match check_user_file fname with
             | None => false
             | Some (u, adm) =>
                 if negb (valid_name u) then
                   (* repaired code: a file for an invalid user name counts for nothing *)
                   check_loop c all r found
                 else
                 let other := u ++ ext_of (negb adm) in
                 match stat_file all other with
                 | StNo =>
                     if adm then
                       check_loop c all r (found || match supp_of_node c n with
                                                    | SuppInfo true _ _ _ => true
                                                    | _ => false end)
                     else check_loop c all r found
                 | _ => false     (* both exist (or stat error counts as exists) *)
                 end
             end
    end.
  Definition check_store (c : config) (d : dirst) : bool := check_loop c d d false.

  Definition step (c : config) (d : dirst) (o : op) (orc : oracle) : config * dirst * obs :=
    match o with
    | OpAdd u pw adm => let (d', r) := add_user c d u pw adm orc in (c, d', ORes r)
    | OpUpdate u pw => let (d', r) := update_user c d u pw orc in (c, d', ORes r)
    | OpSetAdmin u adm => let (d', r) := set_admin d u adm in (c, d', ORes r)
    | OpRemove u => (c, remove_user d u, ORes ROk)
    | OpInit u pw => let (d', r) := init_store c d u pw orc in (c, d', ORes r)
    | OpExists u => (c, d, OExists (if valid_name u then user_exists d u else ExErr))
    | OpAuth u pw => (c, d, authenticate c d u pw)
    | OpList => (c, d, OList (list_users c (listing orc d) []))
    | OpListFull => (c, d, OListFull (list_full c (listing orc d) []))
    | OpCheck => (c, d, ORes (if check_loop c d (listing orc d) false then ROk else RErr))
    | OpSetDefault id => ({| params := params c; default := id |}, d, ORes ROk)
    end.
End WithKdf.
