(* Bytes_proofs.v — lemmas about the byte-string library of Bytes.v. *)
From Whawty Require Import Bytes.
From Coq Require Import ZifyN ZifyNat ZifyBool.
Open Scope N_scope.

Lemma beq_refl s : beq s s = true.
Admitted.

Lemma beq_eq a b : beq a b = true <-> a = b.
Admitted.

Lemma beq_neq a b : beq a b = false <-> a <> b.
Admitted.

Lemma contains_app sep a b : contains sep (a ++ b) = contains sep a || contains sep b.
Admitted.

Lemma contains_cons sep x a : contains sep (x :: a) = (x =? sep) || contains sep a.
Admitted.

Lemma contains_forallb sep a : contains sep a = false <-> forallb (fun b => negb (b =? sep)) a = true.
Admitted.

Lemma index_of_app_notin sep a b :
  contains sep a = false -> index_of sep (a ++ sep :: b) = Some (length a).
Admitted.

Lemma index_of_none sep a : contains sep a = false -> index_of sep a = None.
Admitted.

Lemma index_of_some_split sep s i :
  index_of sep s = Some i ->
  s = firstn i s ++ sep :: skipn (S i) s /\ contains sep (firstn i s) = false.
Admitted.

(* strings.SplitN *)
Lemma splitN_cons sep n a rest :
  contains sep a = false ->
  splitN sep (S (S n)) (a ++ sep :: rest) = a :: splitN sep (S n) rest.
Admitted.

Lemma splitN_one sep s : splitN sep 1 s = [s].
Admitted.

Lemma splitN_nosep sep n s : contains sep s = false -> splitN sep (S n) s = [s].
Admitted.

(* if SplitN(s, sep, 4) has exactly four parts, s is their join and the
   first three are separator-free *)
Lemma splitN4_inv sep s a b c d :
  splitN sep 4 s = [a; b; c; d] ->
  s = a ++ sep :: b ++ sep :: c ++ sep :: d /\
  contains sep a = false /\ contains sep b = false /\ contains sep c = false.
Admitted.

Lemma splitN3_inv sep s a b c :
  splitN sep 3 s = [a; b; c] ->
  s = a ++ sep :: b ++ sep :: c /\ contains sep a = false /\ contains sep b = false.
Admitted.

Lemma splitN2_inv sep s a b :
  splitN sep 2 s = [a; b] -> s = a ++ sep :: b /\ contains sep a = false.
Admitted.

(* strings.Split *)
Lemma split_all_nosep sep a : contains sep a = false -> split_all sep a = [a].
Admitted.

Lemma split_all_cons sep a rest :
  contains sep a = false -> split_all sep (a ++ sep :: rest) = a :: split_all sep rest.
Admitted.

Lemma split_all2_inv sep s a b :
  split_all sep s = [a; b] ->
  s = a ++ sep :: b /\ contains sep a = false /\ contains sep b = false.
Admitted.

(* decimal printing and parsing *)
Lemma dec_N_digits n : forallb is_digit (dec_N n) = true.
Admitted.

Lemma dec_N_nonempty n : dec_N n <> [].
Admitted.

Lemma digits_val_dec_N n : digits_val 0 (dec_N n) = Some n.
Admitted.

Lemma parse_uint64_dec n : n <= max_u64 -> parse_uint64 (dec_N n) = Some n.
Admitted.

Lemma parse_int64_dec z :
  (- (max_i64 + 1) <= z <= max_i64)%Z -> parse_int64 (dec_Z z) = Some z.
Admitted.

Lemma dec_Z_chars z : forallb (fun b => is_digit b || (b =? 45)) (dec_Z z) = true.
Admitted.

Lemma dec_N_no sep n : is_digit sep = false -> contains sep (dec_N n) = false.
Admitted.

Lemma dec_Z_no sep z : is_digit sep = false -> sep <> 45 -> contains sep (dec_Z z) = false.
Admitted.

(* association lists *)
Lemma alookup_aset_eq {A} k (v : A) m : alookup k (aset k v m) = Some v.
Admitted.

Lemma alookup_aset_ne {A} k k' (v : A) m : k <> k' -> alookup k' (aset k v m) = alookup k' m.
Admitted.

Lemma alookup_aremove_eq {A} k (m : list (bytes * A)) : alookup k (aremove k m) = None.
Admitted.

Lemma alookup_aremove_ne {A} k k' (m : list (bytes * A)) :
  k <> k' -> alookup k' (aremove k m) = alookup k' m.
Admitted.
