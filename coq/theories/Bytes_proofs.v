(* Bytes_proofs.v — lemmas about the byte-string library of Bytes.v. *)
From Whawty Require Import Bytes.
From Coq Require Import ZifyN ZifyNat ZifyBool.
Open Scope N_scope.

Local Ltac Zify.zify_post_hook ::= Z.div_mod_to_equations.

Lemma beq_refl s : beq s s = true.
Proof.
  induction s as [|x s IH]; cbn [beq]; auto.
  rewrite N.eqb_refl, IH. reflexivity.
Qed.

Lemma beq_eq a b : beq a b = true <-> a = b.
Proof.
  split.
  - revert b. induction a as [|x a IH]; intros [|y b] H; cbn [beq] in H;
      try discriminate; auto.
    apply andb_true_iff in H. destruct H as [H1 H2].
    apply N.eqb_eq in H1. apply IH in H2. subst. reflexivity.
  - intros ->. apply beq_refl.
Qed.

Lemma beq_neq a b : beq a b = false <-> a <> b.
Proof.
  split.
  - intros H E. apply beq_eq in E. congruence.
  - intros H. destruct (beq a b) eqn:E; auto.
    apply beq_eq in E. contradiction.
Qed.

Lemma contains_cons sep x a : contains sep (x :: a) = (x =? sep) || contains sep a.
Proof.
  unfold contains. cbn [index_of].
  destruct (x =? sep); cbn [orb]; auto.
  destruct (index_of sep a); auto.
Qed.

Lemma contains_nil sep : contains sep [] = false.
Proof. reflexivity. Qed.

Lemma contains_app sep a b : contains sep (a ++ b) = contains sep a || contains sep b.
Proof.
  induction a as [|x a IH]; cbn [app].
  - reflexivity.
  - rewrite !contains_cons, IH. apply orb_assoc.
Qed.

Lemma contains_forallb sep a : contains sep a = false <-> forallb (fun b => negb (b =? sep)) a = true.
Proof.
  induction a as [|x a IH].
  - cbn. tauto.
  - rewrite contains_cons. cbn [forallb].
    rewrite orb_false_iff, andb_true_iff, IH, negb_true_iff. tauto.
Qed.

Lemma index_of_app_notin sep a b :
  contains sep a = false -> index_of sep (a ++ sep :: b) = Some (length a).
Proof.
  induction a as [|x a IH]; intros H.
  - cbn [app index_of length]. rewrite N.eqb_refl. reflexivity.
  - rewrite contains_cons in H. apply orb_false_iff in H. destruct H as [H1 H2].
    cbn [app index_of length]. rewrite H1, (IH H2). reflexivity.
Qed.

Lemma index_of_none sep a : contains sep a = false -> index_of sep a = None.
Proof.
  unfold contains. destruct (index_of sep a); auto. discriminate.
Qed.

Lemma index_of_some_split sep s i :
  index_of sep s = Some i ->
  s = firstn i s ++ sep :: skipn (S i) s /\ contains sep (firstn i s) = false.
Proof.
  revert i. induction s as [|x s IH]; intros i H.
  - discriminate.
  - cbn [index_of] in H. destruct (x =? sep) eqn:E.
    + injection H as <-. apply N.eqb_eq in E. subst.
      cbn. auto.
    + destruct (index_of sep s) as [j|] eqn:Ej; [|discriminate].
      injection H as <-. destruct (IH j eq_refl) as [H1 H2].
      cbn [firstn app]. rewrite contains_cons, E, H2. split; auto.
      change (skipn (S (S j)) (x :: s)) with (skipn (S j) s).
      rewrite <- H1. reflexivity.
Qed.

(* strings.SplitN *)
Lemma splitN_cons sep n a rest :
  contains sep a = false ->
  splitN sep (S (S n)) (a ++ sep :: rest) = a :: splitN sep (S n) rest.
Proof.
  intros H. cbn [splitN]. rewrite (index_of_app_notin _ _ _ H).
  rewrite firstn_app, firstn_all, Nat.sub_diag. cbn [firstn]. rewrite app_nil_r.
  replace (skipn (S (length a)) (a ++ sep :: rest)) with rest; auto.
  rewrite skipn_app, skipn_all2 by lia.
  replace (S (length a) - length a)%nat with 1%nat by lia. reflexivity.
Qed.

Lemma splitN_one sep s : splitN sep 1 s = [s].
Proof. reflexivity. Qed.

Lemma splitN_nosep sep n s : contains sep s = false -> splitN sep (S n) s = [s].
Proof.
  intros H. destruct n; cbn [splitN]; auto.
  rewrite (index_of_none _ _ H). reflexivity.
Qed.

Lemma splitN_SS_inv sep n s a l :
  splitN sep (S (S n)) s = a :: l -> l <> [] ->
  exists rest, s = a ++ sep :: rest /\ contains sep a = false /\ l = splitN sep (S n) rest.
Proof.
  intros H Hl. cbn [splitN] in H.
  destruct (index_of sep s) as [i|] eqn:E.
  - injection H as H1 H2. destruct (index_of_some_split _ _ _ E) as [H3 H4].
    exists (skipn (S i) s). subst a. auto.
  - injection H as H1 H2. subst l. contradiction.
Qed.

Lemma splitN2_inv sep s a b :
  splitN sep 2 s = [a; b] -> s = a ++ sep :: b /\ contains sep a = false.
Proof.
  intros H. apply splitN_SS_inv in H; [|discriminate].
  destruct H as (r & H1 & H2 & H3). cbn [splitN] in H3. injection H3 as <-. auto.
Qed.

Lemma splitN3_inv sep s a b c :
  splitN sep 3 s = [a; b; c] ->
  s = a ++ sep :: b ++ sep :: c /\ contains sep a = false /\ contains sep b = false.
Proof.
  intros H. apply splitN_SS_inv in H; [|discriminate].
  destruct H as (r & H1 & H2 & H3). symmetry in H3. apply splitN2_inv in H3.
  destruct H3 as [H3 H4]. subst. auto.
Qed.

(* if SplitN(s, sep, 4) has exactly four parts, s is their join and the
   first three are separator-free *)
Lemma splitN4_inv sep s a b c d :
  splitN sep 4 s = [a; b; c; d] ->
  s = a ++ sep :: b ++ sep :: c ++ sep :: d /\
  contains sep a = false /\ contains sep b = false /\ contains sep c = false.
Proof.
  intros H. apply splitN_SS_inv in H; [|discriminate].
  destruct H as (r & H1 & H2 & H3). symmetry in H3. apply splitN3_inv in H3.
  destruct H3 as (H3 & H4 & H5). subst. auto.
Qed.

(* strings.Split *)
Lemma split_all_nosep sep a : contains sep a = false -> split_all sep a = [a].
Proof.
  induction a as [|x a IH]; intros H.
  - reflexivity.
  - rewrite contains_cons in H. apply orb_false_iff in H. destruct H as [H1 H2].
    cbn [split_all]. rewrite H1, (IH H2). reflexivity.
Qed.

Lemma split_all_cons sep a rest :
  contains sep a = false -> split_all sep (a ++ sep :: rest) = a :: split_all sep rest.
Proof.
  induction a as [|x a IH]; intros H.
  - cbn [app split_all]. rewrite N.eqb_refl. reflexivity.
  - rewrite contains_cons in H. apply orb_false_iff in H. destruct H as [H1 H2].
    cbn [app split_all]. rewrite H1, (IH H2). reflexivity.
Qed.

Lemma split_all_nonempty sep s : split_all sep s <> [].
Proof.
  destruct s as [|x s]; cbn [split_all]; [discriminate|].
  destruct (x =? sep); [discriminate|].
  destruct (split_all sep s); discriminate.
Qed.

Lemma split_all_inv sep s a l :
  split_all sep s = a :: l ->
  contains sep a = false /\
  (l = [] /\ s = a \/ exists rest, s = a ++ sep :: rest /\ l = split_all sep rest).
Proof.
  revert a l. induction s as [|x s IH]; intros a l H.
  - cbn in H. injection H as <- <-. cbn. auto.
  - cbn [split_all] in H. destruct (x =? sep) eqn:E.
    + injection H as <- <-. apply N.eqb_eq in E. subst x. split; [reflexivity|].
      right. exists s. auto.
    + destruct (split_all sep s) as [|p ps] eqn:Es.
      * exfalso. eapply split_all_nonempty; eauto.
      * injection H as <- <-. destruct (IH p ps eq_refl) as [H1 H2].
        rewrite contains_cons, E, H1. split; auto.
        destruct H2 as [[H2 H3]|(rest & H2 & H3)].
        -- left. subst. auto.
        -- right. exists rest. subst. auto.
Qed.

Lemma split_all2_inv sep s a b :
  split_all sep s = [a; b] ->
  s = a ++ sep :: b /\ contains sep a = false /\ contains sep b = false.
Proof.
  intros H. apply split_all_inv in H. destruct H as [H1 [[H2 _]|(rest & H2 & H3)]].
  - discriminate.
  - symmetry in H3. apply split_all_inv in H3.
    destruct H3 as [H3 [[_ H4]|(r2 & _ & H5)]].
    + subst. auto.
    + exfalso. eapply split_all_nonempty; eauto.
Qed.

(* decimal printing and parsing *)
Lemma is_digit_dec n : is_digit (48 + n mod 10) = true.
Proof. unfold is_digit. lia. Qed.

Lemma dec_N_fuel_digits f : forall n acc,
  forallb is_digit acc = true -> forallb is_digit (dec_N_fuel f n acc) = true.
Proof.
  induction f as [|f IH]; intros n acc H; cbn [dec_N_fuel]; auto.
  assert (H' : forallb is_digit ((48 + n mod 10) :: acc) = true).
  { cbn [forallb]. rewrite is_digit_dec, H. reflexivity. }
  destruct (n / 10 =? 0); auto.
Qed.

Lemma dec_N_digits n : forallb is_digit (dec_N n) = true.
Proof. apply dec_N_fuel_digits. reflexivity. Qed.

Lemma dec_N_fuel_nonempty f : forall n acc, acc <> [] -> dec_N_fuel f n acc <> [].
Proof.
  induction f as [|f IH]; intros n acc H; cbn [dec_N_fuel]; auto.
  destruct (n / 10 =? 0); [discriminate|]. apply IH. discriminate.
Qed.

Lemma dec_N_nonempty n : dec_N n <> [].
Proof.
  unfold dec_N. cbn [dec_N_fuel].
  destruct (n / 10 =? 0); [discriminate|]. apply dec_N_fuel_nonempty. discriminate.
Qed.

Lemma digits_val_dec_step a n acc :
  digits_val a ((48 + n mod 10) :: acc) = digits_val (a * 10 + n mod 10) acc.
Proof.
  cbn [digits_val]. rewrite is_digit_dec. f_equal. lia.
Qed.

Lemma dec_N_fuel_val f : forall n acc,
  n < 2 ^ N.of_nat (S f) ->
  digits_val 0 (dec_N_fuel (S f) n acc) = digits_val n acc.
Proof.
  induction f as [|f IH]; intros n acc H.
  - change (2 ^ N.of_nat 1) with 2 in H.
    cbn [dec_N_fuel]. assert (E : n / 10 =? 0 = true) by lia. rewrite E.
    rewrite digits_val_dec_step. f_equal. lia.
  - remember (S f) as f1. cbn [dec_N_fuel].
    destruct (n / 10 =? 0) eqn:E.
    + rewrite digits_val_dec_step. f_equal. lia.
    + subst f1. rewrite IH.
      * rewrite digits_val_dec_step. f_equal. lia.
      * replace (N.of_nat (S (S f))) with (N.succ (N.of_nat (S f))) in H by lia.
        rewrite N.pow_succ_r' in H. lia.
Qed.

Lemma digits_val_dec_N n : digits_val 0 (dec_N n) = Some n.
Proof.
  unfold dec_N. rewrite dec_N_fuel_val; [reflexivity|].
  destruct (N.eq_dec n 0) as [->|Hn].
  - reflexivity.
  - replace (N.of_nat (S (N.to_nat (N.log2 n)))) with (N.succ (N.log2 n)) by lia.
    apply N.log2_spec. lia.
Qed.

Lemma parse_uint64_dec n : n <= max_u64 -> parse_uint64 (dec_N n) = Some n.
Proof.
  intros H. unfold parse_uint64.
  destruct (dec_N n) eqn:E; [exfalso; eapply dec_N_nonempty; eauto|].
  rewrite <- E, digits_val_dec_N.
  apply N.leb_le in H. rewrite H. reflexivity.
Qed.

Lemma dec_N_head n : exists c r, dec_N n = c :: r /\ is_digit c = true.
Proof.
  pose proof (dec_N_digits n) as H. pose proof (dec_N_nonempty n) as H0.
  destruct (dec_N n) as [|c r]; [contradiction|].
  cbn [forallb] in H. apply andb_true_iff in H. destruct H. eauto.
Qed.

Lemma parse_int64_dec z :
  (- (max_i64 + 1) <= z <= max_i64)%Z -> parse_int64 (dec_Z z) = Some z.
Proof.
  intros H. unfold dec_Z. destruct (z <? 0)%Z eqn:Ez.
  - unfold parse_int64.
    change (45 =? 45) with true. change (45 =? 43) with false. cbn [orb].
    destruct (dec_N (Z.to_N (- z))) eqn:E; [exfalso; eapply dec_N_nonempty; eauto|].
    rewrite <- E, digits_val_dec_N. cbv zeta.
    assert (E1 : (Z.of_N (Z.to_N (- z)) <=? max_i64 + 1)%Z = true) by lia.
    rewrite E1. f_equal. lia.
  - destruct (dec_N_head (Z.to_N z)) as (c & r & E & Hc).
    unfold parse_int64. rewrite E.
    assert (E1 : c =? 43 = false) by (unfold is_digit in Hc; lia).
    assert (E2 : c =? 45 = false) by (unfold is_digit in Hc; lia).
    rewrite E1, E2. cbn [orb]. rewrite <- E, digits_val_dec_N. cbv zeta.
    assert (E3 : (Z.of_N (Z.to_N z) <=? max_i64)%Z = true) by lia.
    rewrite E3. f_equal. lia.
Qed.

Lemma forallb_weaken {A} (P Q : A -> bool) l :
  (forall x, P x = true -> Q x = true) -> forallb P l = true -> forallb Q l = true.
Proof.
  intros H. induction l as [|x l IH]; cbn [forallb]; auto.
  rewrite !andb_true_iff. intros [H1 H2]. auto.
Qed.

Lemma dec_Z_chars z : forallb (fun b => is_digit b || (b =? 45)) (dec_Z z) = true.
Proof.
  unfold dec_Z. destruct (z <? 0)%Z; cbn [forallb].
  - rewrite N.eqb_refl, orb_true_r. cbn [andb].
    eapply forallb_weaken; [|apply dec_N_digits]. intros x ->. reflexivity.
  - eapply forallb_weaken; [|apply dec_N_digits]. intros x ->. reflexivity.
Qed.

Lemma dec_N_no sep n : is_digit sep = false -> contains sep (dec_N n) = false.
Proof.
  intros H. apply contains_forallb.
  eapply forallb_weaken; [|apply dec_N_digits]. intros x Hx. cbv beta.
  apply negb_true_iff. apply N.eqb_neq. intros ->. congruence.
Qed.

Lemma dec_Z_no sep z : is_digit sep = false -> sep <> 45 -> contains sep (dec_Z z) = false.
Proof.
  intros H H0. unfold dec_Z. destruct (z <? 0)%Z.
  - rewrite contains_cons, dec_N_no by auto.
    apply N.eqb_neq in H0. rewrite N.eqb_sym, H0. reflexivity.
  - apply dec_N_no; auto.
Qed.

(* association lists *)
Lemma alookup_aset_eq {A} k (v : A) m : alookup k (aset k v m) = Some v.
Proof.
  induction m as [|[k' v'] m IH]; cbn [aset alookup].
  - rewrite beq_refl. reflexivity.
  - destruct (beq k k') eqn:E; cbn [alookup].
    + rewrite beq_refl. reflexivity.
    + rewrite E. exact IH.
Qed.

Lemma alookup_aset_ne {A} k k' (v : A) m : k <> k' -> alookup k' (aset k v m) = alookup k' m.
Proof.
  intros H. assert (Hk : beq k' k = false) by (apply beq_neq; congruence).
  induction m as [|[k2 v2] m IH]; cbn [aset alookup].
  - rewrite Hk. reflexivity.
  - destruct (beq k k2) eqn:E; cbn [alookup].
    + apply beq_eq in E. subst k2. rewrite Hk. reflexivity.
    + rewrite IH. reflexivity.
Qed.

Lemma alookup_aremove_eq {A} k (m : list (bytes * A)) : alookup k (aremove k m) = None.
Proof.
  induction m as [|[k' v'] m IH]; cbn [aremove alookup]; auto.
  destruct (beq k k') eqn:E; cbn [alookup]; auto.
  rewrite E. exact IH.
Qed.

Lemma alookup_aremove_ne {A} k k' (m : list (bytes * A)) :
  k <> k' -> alookup k' (aremove k m) = alookup k' m.
Proof.
  intros H.
  induction m as [|[k2 v2] m IH]; cbn [aremove alookup]; auto.
  destruct (beq k k2) eqn:E; cbn [alookup].
  - apply beq_eq in E. subst k2.
    assert (Hk : beq k' k = false) by (apply beq_neq; congruence).
    rewrite Hk. exact IH.
  - rewrite IH. reflexivity.
Qed.
