(* DurHist_proofs.v — soundness of the history-level durability checker of DurHist.v.
   STATEMENTS ARE FIXED; see the comment above each. *)
From Whawty Require Import Bytes Bytes_proofs Store StoreTrace Crash Crash_proofs CrashX_proofs DurHist.
Require Import Lia.
Open Scope N_scope.

Definition pend_names (p : list dirop) : list bytes :=
  map (fun o => match o with DLink n _ => n | DUnlink n => n end) p.

(* no two names of the work area share an inode (the store never makes hard links) *)
Definition tmp_inj (d : disk) : Prop :=
  forall t1 t2 i, elookup t1 (tmp_vol d) = Some i -> elookup t2 (tmp_vol d) = Some i -> t1 = t2.

(* the invariant that holds BETWEEN the operations of a history, whether they succeeded or failed:
   every file linked from the base directory is clean, and stable storage agrees with the running
   view on every name that has no pending entry change *)
Definition DInv (d : disk) : Prop :=
  links_ok d /\ tmp_inj d /\
  (forall g, ~ In g (pend_names (base_pend d)) -> elookup g (base_dur d) = elookup g (base_vol d)).

Lemma quiescent_DInv d : base_quiescent d -> tmp_inj d -> DInv d /\ pend_names (base_pend d) = [].
Proof.
  intros Hq Ht. pose proof (quiescent_links d Hq) as Hl.
  destruct Hq as (Hp & Hd & _). split.
  - split; [exact Hl|]. split; [exact Ht|]. intros g _. now rewrite Hd.
  - now rewrite Hp.
Qed.

(* ---------------- auxiliaries ---------------- *)
Lemma pend_names_app p q : pend_names (p ++ q) = pend_names p ++ pend_names q.
Proof. unfold pend_names. apply map_app. Qed.

Lemma fold_other g kept : forall e,
  ~ In g (pend_names kept) ->
  elookup g (fold_left (fun e o => apply_dirop o e) kept e) = elookup g e.
Proof.
  induction kept as [|o kept IH]; intros e Hn; [reflexivity|].
  cbn [fold_left]. rewrite IH.
  - assert (Hg : beq g (match o with DLink n _ => n | DUnlink n => n end) = false).
    { apply beq_neq. intros E. apply Hn. left. now subst. }
    destruct o; cbn [apply_dirop]; [rewrite elookup_eset | rewrite elookup_eremove]; now rewrite Hg.
  - intros H. apply Hn. right. exact H.
Qed.

Lemma subseq_names (kept l : list dirop) g :
  subseq kept l -> In g (pend_names kept) -> In g (pend_names l).
Proof.
  intros Hs Hin. unfold pend_names in *. apply in_map_iff in Hin. destruct Hin as (o & Ho & Hin).
  apply in_map_iff. exists o. split; auto. eapply subseq_In; eauto.
Qed.

(* T2: a name without pending entry change reads the same after any crash *)
Theorem clean_names_survive d c g :
  DInv d -> crash_of d c -> ~ In g (pend_names (base_pend d)) -> crashed_file c g = vol_file d g.
Proof.
  intros (Hl & _ & Hag) Hcr Hg.
  pose proof Hcr as ((kept & Hs & Hb) & _).
  assert (He : elookup g (c_base c) = elookup g (base_vol d)).
  { rewrite Hb, fold_other; [now apply Hag|]. intros H. apply Hg. eapply subseq_names; eauto. }
  unfold crashed_file, vol_file. rewrite He.
  destruct (elookup g (base_vol d)) as [i|] eqn:Ei; [|reflexivity].
  destruct Hl as (Hc & _). destruct (Hc g i Ei) as (n & Hn & Hdur). rewrite Hn. f_equal.
  eapply crash_content; eauto.
Qed.

(* ---------------- event-level preservation ---------------- *)
Lemma notin_names_app g p q :
  ~ In g (pend_names (p ++ q)) -> ~ In g (pend_names p) /\ ~ In g (pend_names q).
Proof.
  rewrite pend_names_app. intros H. split; intros H'; apply H, in_or_app; auto.
Qed.

Lemma notin_cons_beq g a (l : list bytes) : ~ In g (a :: l) -> beq g a = false /\ ~ In g l.
Proof.
  intros H. split.
  - apply beq_neq. intros ->. apply H. now left.
  - intros H'. apply H. now right.
Qed.

Definition tmp_has (t : bytes) (d : disk) : Prop :=
  forall i, elookup t (tmp_vol d) = Some i -> exists n, ilookup i (inodes d) = Some n.
Definition tmp_clean (t : bytes) (d : disk) : Prop :=
  forall i, elookup t (tmp_vol d) = Some i ->
    exists n, ilookup i (inodes d) = Some n /\ i_dur n = Some (i_vol n).

Lemma tmp_clean_has t d : tmp_clean t d -> tmp_has t d.
Proof. intros H i Hi. destruct (H i Hi) as (n & Hn & _). eauto. Qed.

Lemma neq_eqb (i j : nat) : i <> j -> Nat.eqb i j = false.
Proof. intros H. now apply Nat.eqb_neq. Qed.

Lemma DInv_create_file d g : DInv d -> DInv (exec_event d (ECreate (LFile g))).
Proof.
  intros ((Hc & Hil & Hbl & Htl & Hdj) & Hinj & Hag).
  cbn [exec_event new_file]. unfold with_base. fields.
  split; [|split].
  - unfold links_ok; fields. repeat apply conj.
    + intros f i Hf. rewrite elookup_eset in Hf. rewrite ilookup_iset. destruct (beq f g).
      * injection Hf as <-. rewrite Nat.eqb_refl. eexists; split; reflexivity.
      * pose proof (Hbl _ _ Hf). rewrite neq_eqb by lia. eauto.
    + intros i n Hi. rewrite ilookup_iset in Hi. destruct (Nat.eqb i (next_ino d)) eqn:E.
      * apply Nat.eqb_eq in E. lia.
      * apply Hil in Hi. lia.
    + intros f i Hf. rewrite elookup_eset in Hf. destruct (beq f g).
      * injection Hf as <-. lia.
      * apply Hbl in Hf. lia.
    + intros t i Ht. apply Htl in Ht. lia.
    + intros f t i Hf Ht. rewrite elookup_eset in Hf. destruct (beq f g).
      * injection Hf as <-. apply Htl in Ht. lia.
      * exact (Hdj _ _ _ Hf Ht).
  - exact Hinj.
  - fields. intros g' Hn. apply notin_names_app in Hn. destruct Hn as (Hn1 & Hn2).
    cbn [pend_names map] in Hn2. apply notin_cons_beq in Hn2. destruct Hn2 as (Hn2 & _).
    rewrite elookup_eset, Hn2. now apply Hag.
Qed.

Lemma DInv_create_tmp d t : DInv d -> DInv (exec_event d (ECreate (LTmpFile t))).
Proof.
  intros ((Hc & Hil & Hbl & Htl & Hdj) & Hinj & Hag).
  cbn [exec_event new_file]. unfold with_tmp. fields.
  split; [|split].
  - unfold links_ok; fields. repeat apply conj.
    + intros f i Hf. rewrite ilookup_iset.
      pose proof (Hbl _ _ Hf). rewrite neq_eqb by lia. eauto.
    + intros i n Hi. rewrite ilookup_iset in Hi. destruct (Nat.eqb i (next_ino d)) eqn:E.
      * apply Nat.eqb_eq in E. lia.
      * apply Hil in Hi. lia.
    + intros f i Hf. apply Hbl in Hf. lia.
    + intros t' i Ht. rewrite elookup_eset in Ht. destruct (beq t' t).
      * injection Ht as <-. lia.
      * apply Htl in Ht. lia.
    + intros f t' i Hf Ht. rewrite elookup_eset in Ht. destruct (beq t' t).
      * injection Ht as <-. apply Hbl in Hf. lia.
      * exact (Hdj _ _ _ Hf Ht).
  - unfold tmp_inj; fields. intros t1 t2 i H1 H2. rewrite elookup_eset in H1, H2.
    destruct (beq t1 t) eqn:E1; destruct (beq t2 t) eqn:E2.
    + apply beq_eq in E1, E2. congruence.
    + injection H1 as <-. apply Htl in H2. lia.
    + injection H2 as <-. apply Htl in H1. lia.
    + eauto.
  - exact Hag.
Qed.

Lemma DInv_iset d i n n' :
  DInv d -> ilookup i (inodes d) = Some n ->
  ((exists f, elookup f (base_vol d) = Some i) -> i_dur n' = Some (i_vol n')) ->
  DInv (with_inodes d (iset i n' (inodes d))).
Proof.
  intros ((Hc & Hil & Hbl & Htl & Hdj) & Hinj & Hag) Hi Hn'.
  unfold with_inodes. split; [|split; [exact Hinj|exact Hag]].
  unfold links_ok; fields. repeat apply conj; auto.
  - intros f j Hf. rewrite ilookup_iset. destruct (Nat.eqb j i) eqn:E.
    + apply Nat.eqb_eq in E. subst j. exists n'. split; [reflexivity|]. apply Hn'. eauto.
    + eauto.
  - intros j m Hj. rewrite ilookup_iset in Hj. destruct (Nat.eqb j i) eqn:E.
    + apply Nat.eqb_eq in E. subst j. eauto.
    + eauto.
Qed.

Lemma DInv_write_tmp d t data : DInv d -> DInv (exec_event d (EWrite (LTmpFile t) data)).
Proof.
  intros HD. cbn [exec_event lookup_loc].
  destruct (elookup t (tmp_vol d)) as [i|] eqn:Et; [|exact HD].
  destruct (ilookup i (inodes d)) as [n|] eqn:En; [|exact HD].
  eapply DInv_iset; eauto. intros (f & Hf). exfalso.
  destruct HD as ((_ & _ & _ & _ & Hdj) & _). exact (Hdj _ _ _ Hf Et).
Qed.

Lemma DInv_fsync d l : DInv d -> DInv (exec_event d (EFsync l)).
Proof.
  intros HD. destruct l as [g|t| |]; cbn [exec_event lookup_loc].
  - destruct (elookup g (base_vol d)) as [i|] eqn:Et; [|exact HD].
    destruct (ilookup i (inodes d)) as [n|] eqn:En; [|exact HD].
    eapply DInv_iset; eauto.
  - destruct (elookup t (tmp_vol d)) as [i|] eqn:Et; [|exact HD].
    destruct (ilookup i (inodes d)) as [n|] eqn:En; [|exact HD].
    eapply DInv_iset; eauto.
  - destruct HD as (Hl & Hinj & Hag). split; [|split; [exact Hinj|exact Hag]].
    eapply links_ok_sub; [..|exact Hl]; try reflexivity. fields. eauto.
  - destruct HD as (Hl & Hinj & Hag). split; [|split; [exact Hinj|]].
    + now apply links_ok_fsync_base.
    + fields. reflexivity.
Qed.

Lemma DInv_mkdir d l : DInv d -> DInv (exec_event d (EMkdir l)).
Proof.
  intros HD. destruct l; cbn [exec_event]; exact HD.
Qed.

Lemma DInv_unlink_file d a : DInv d -> DInv (exec_event d (EUnlink (LFile a))).
Proof.
  intros (Hl & Hinj & Hag). split; [now apply links_ok_unlink|].
  cbn [exec_event]. unfold with_base. split; [exact Hinj|]. fields.
  intros g Hn. apply notin_names_app in Hn. destruct Hn as (Hn1 & Hn2).
  cbn [pend_names map] in Hn2. apply notin_cons_beq in Hn2. destruct Hn2 as (Hn2 & _).
  rewrite elookup_eremove, Hn2. now apply Hag.
Qed.

Lemma DInv_rename_file d a b : DInv d -> DInv (exec_event d (ERename (LFile a) (LFile b))).
Proof.
  intros (Hl & Hinj & Hag). split; [now apply links_ok_rename|].
  cbn [exec_event]. destruct (elookup a (base_vol d)) as [i|] eqn:Ea; [|now split].
  unfold with_base. split; [exact Hinj|]. fields.
  intros g Hn. apply notin_names_app in Hn. destruct Hn as (Hn1 & Hn2).
  cbn [pend_names map] in Hn2. apply notin_cons_beq in Hn2. destruct Hn2 as (Hn2 & Hn3).
  apply notin_cons_beq in Hn3. destruct Hn3 as (Hn3 & _).
  rewrite elookup_eset, elookup_eremove, Hn2, Hn3. now apply Hag.
Qed.

Lemma DInv_unlink_tmp d t : DInv d -> DInv (exec_event d (EUnlink (LTmpFile t))).
Proof.
  intros ((Hc & Hil & Hbl & Htl & Hdj) & Hinj & Hag).
  cbn [exec_event]. unfold with_tmp. split; [|split; [|exact Hag]].
  - unfold links_ok; fields. repeat apply conj; auto.
    + intros t' i Ht. rewrite elookup_eremove in Ht. destruct (beq t' t); [discriminate|eauto].
    + intros f t' i Hf Ht. rewrite elookup_eremove in Ht. destruct (beq t' t); [discriminate|].
      exact (Hdj _ _ _ Hf Ht).
  - unfold tmp_inj; fields. intros t1 t2 i H1 H2. rewrite elookup_eremove in H1, H2.
    destruct (beq t1 t); [discriminate|]. destruct (beq t2 t); [discriminate|]. eauto.
Qed.

Lemma DInv_rename_tmp d t f :
  DInv d -> tmp_clean t d -> DInv (exec_event d (ERename (LTmpFile t) (LFile f))).
Proof.
  intros HD Hcl. cbn [exec_event].
  destruct (elookup t (tmp_vol d)) as [i|] eqn:Et; [|exact HD].
  destruct HD as ((Hc & Hil & Hbl & Htl & Hdj) & Hinj & Hag).
  destruct (Hcl i Et) as (n & Hn & Hdur).
  unfold with_base, with_tmp. fields. split; [|split].
  - unfold links_ok; fields. repeat apply conj; auto.
    + intros g j Hg. rewrite elookup_eset in Hg. destruct (beq g f).
      * injection Hg as <-. eauto.
      * eauto.
    + intros g j Hg. rewrite elookup_eset in Hg. destruct (beq g f).
      * injection Hg as <-. eauto.
      * eauto.
    + intros t' j Ht. rewrite elookup_eremove in Ht. destruct (beq t' t); [discriminate|eauto].
    + intros g t' j Hg Ht. rewrite elookup_eremove in Ht.
      destruct (beq t' t) eqn:Ett; [discriminate|].
      rewrite elookup_eset in Hg. destruct (beq g f).
      * injection Hg as <-. apply beq_neq in Ett. apply Ett. eapply Hinj; eauto.
      * exact (Hdj _ _ _ Hg Ht).
  - unfold tmp_inj; fields. intros t1 t2 j H1 H2. rewrite elookup_eremove in H1, H2.
    destruct (beq t1 t); [discriminate|]. destruct (beq t2 t); [discriminate|]. eauto.
  - fields. intros g Hn'. apply notin_names_app in Hn'. destruct Hn' as (Hn1 & Hn2).
    cbn [pend_names map] in Hn2. apply notin_cons_beq in Hn2. destruct Hn2 as (Hn2 & _).
    rewrite elookup_eset, Hn2. now apply Hag.
Qed.

(* events that preserve the invariant without any side condition *)
Definition safe_ev (e : event) : Prop :=
  match e with
  | ECreate (LFile _) | ECreate (LTmpFile _) | EMkdir _ | EWrite (LTmpFile _) _ | EFsync _
  | EUnlink (LFile _) | EUnlink (LTmpFile _) | ERename (LFile _) (LFile _) => True
  | _ => False
  end.

Lemma DInv_safe d e : DInv d -> safe_ev e -> DInv (exec_event d e).
Proof.
  intros HD Hs.
  destruct e as [[g|t| |]|l|[g|t| |] data|l|[g|t| |] [g2|t2| |]|[g|t| |]];
    try (exfalso; exact Hs).
  - now apply DInv_create_file.
  - now apply DInv_create_tmp.
  - now apply DInv_mkdir.
  - now apply DInv_write_tmp.
  - now apply DInv_fsync.
  - now apply DInv_rename_file.
  - now apply DInv_unlink_file.
  - now apply DInv_unlink_tmp.
Qed.

(* T3: both step shapes preserve the invariant - no premise about the target or the temp name *)
Theorem dir_only_preserves d evs :
  DInv d -> dir_only_b evs = true -> DInv (exec_events d evs).
Proof.
  revert d. induction evs as [|e evs IH]; intros d HD Hdo; [exact HD|].
  cbn [dir_only_b forallb] in Hdo. apply andb_prop in Hdo. destruct Hdo as (He & Hdo).
  change (exec_events d (e :: evs)) with (exec_events (exec_event d e) evs).
  apply IH; [|exact Hdo]. apply DInv_safe; [exact HD|].
  destruct e as [[g|t| |]|l|[g|t| |] data|[g|t| |]|[g|t| |] [g2|t2| |]|[g|t| |]];
    try discriminate He; exact I.
Qed.

(* what the write discipline knows about its temp file, per automaton state *)
Definition K (x : xstate) (d : disk) : Prop :=
  match x with
  | XRun (PTmp t) => tmp_has t d
  | XRun (PSynced t) => tmp_clean t d
  | _ => True
  end.

Lemma create_tmp_has d t : tmp_has t (exec_event d (ECreate (LTmpFile t))).
Proof.
  cbn [exec_event new_file]. unfold with_tmp, tmp_has. fields.
  intros i Hi. rewrite elookup_eset, beq_refl in Hi. injection Hi as <-.
  rewrite ilookup_iset, Nat.eqb_refl. eauto.
Qed.

Lemma write_tmp_has d t data : tmp_has t d -> tmp_has t (exec_event d (EWrite (LTmpFile t) data)).
Proof.
  intros Hh. cbn [exec_event lookup_loc].
  destruct (elookup t (tmp_vol d)) as [i|] eqn:Et; [|exact Hh].
  destruct (ilookup i (inodes d)) as [n|] eqn:En; [|exact Hh].
  unfold with_inodes, tmp_has. fields. intros j Hj. rewrite Et in Hj. injection Hj as <-.
  rewrite ilookup_iset, Nat.eqb_refl. eauto.
Qed.

Lemma fsync_tmp_clean d t : tmp_has t d -> tmp_clean t (exec_event d (EFsync (LTmpFile t))).
Proof.
  intros Hh. cbn [exec_event lookup_loc].
  destruct (elookup t (tmp_vol d)) as [i|] eqn:Et.
  - destruct (Hh i Et) as (n & Hn). rewrite Hn.
    unfold with_inodes, tmp_clean. fields. intros j Hj. rewrite Et in Hj. injection Hj as <-.
    rewrite ilookup_iset, Nat.eqb_refl. eexists. split; reflexivity.
  - intros j Hj. rewrite Et in Hj. discriminate.
Qed.

Ltac beq_subst :=
  repeat match goal with
         | H : andb _ _ = true |- _ => apply andb_prop in H; destruct H
         end;
  repeat match goal with
         | H : beq _ _ = true |- _ => apply beq_eq in H; subst
         end.

Lemma J_step f rv x x' e d :
  DInv d -> K x d -> proto_step_x f rv x e = Some x' ->
  DInv (exec_event d e) /\ K x' (exec_event d e).
Proof.
  intros HD HK Hs. destruct x as [st|[|]]; cbn [proto_step_x] in Hs.
  - destruct (proto_step f rv st e) as [st'|] eqn:Ep.
    + injection Hs as <-.
      destruct st as [[|]|t|t|t|t];
        destruct e as [[g|t'| |]|[g|t'| |]|[g|t'| |] data|[g|t'| |]|[g|t'| |] [g2|t2| |]|[g|t'| |]];
        cbn [proto_step] in Ep; try discriminate Ep; split_ifs Ep; injection Ep as <-; beq_subst;
        cbn [K] in *;
        (split; [first [apply DInv_safe; [assumption|exact I] | apply DInv_rename_tmp; assumption]
                |first [exact I | apply create_tmp_has | apply write_tmp_has; assumption
                       | apply fsync_tmp_clean; first [assumption|apply tmp_clean_has; assumption]]]).
    + destruct st as [[|]|t|t|t|t];
        destruct e as [[g|t'| |]|[g|t'| |]|[g|t'| |] data|[g|t'| |]|[g|t'| |] [g2|t2| |]|[g|t'| |]];
        cbn [abort_step] in Hs; try discriminate Hs; split_ifs Hs; injection Hs as <-;
        (split; [apply DInv_safe; [assumption|exact I]|exact I]).
  - destruct e as [[g|t'| |]|[g|t'| |]|[g|t'| |] data|[g|t'| |]|[g|t'| |] [g2|t2| |]|[g|t'| |]];
      try discriminate Hs; split_ifs Hs; injection Hs as <-;
      (split; [apply DInv_safe; [assumption|exact I]|exact I]).
  - discriminate Hs.
Qed.

Lemma proto_x_DInv f rv d :
  DInv d ->
  forall evs x, proto_run_x f rv (XRun (PStart false)) evs = Some x ->
                DInv (exec_events d evs) /\ K x (exec_events d evs).
Proof.
  intros HD evs. induction evs as [|e evs IH] using rev_ind; intros x Hrun.
  - cbn in Hrun. injection Hrun as <-. split; [exact HD|exact I].
  - rewrite proto_run_x_snoc in Hrun.
    destruct (proto_run_x f rv (XRun (PStart false)) evs) as [x0|] eqn:E0; [|discriminate].
    rewrite exec_events_app. cbn [exec_events fold_left].
    destruct (IH x0 eq_refl) as (HD0 & HK0).
    eapply J_step; eauto.
Qed.

Theorem prefix_x_preserves f rv d evs :
  DInv d -> protocol_prefix_x_ok f rv evs = true -> DInv (exec_events d evs).
Proof.
  intros HD Hok. unfold protocol_prefix_x_ok in Hok.
  destruct (proto_run_x f rv (XRun (PStart false)) evs) as [x|] eqn:Hrun; [|discriminate].
  eapply proto_x_DInv; eauto.
Qed.

Theorem step_preserves d s :
  DInv d -> step_shape_ok s = true -> DInv (exec_events d (h_evs s)).
Proof.
  intros HD Hs. unfold step_shape_ok in Hs. destruct (h_shape s) as [f rv|].
  - eapply prefix_x_preserves; eauto.
  - now apply dir_only_preserves.
Qed.

(* T4: the checker's dirty names cover the pending entry changes *)
Lemma incl_cons_app1 (l dn : list bytes) a : incl l dn -> incl (l ++ [a]) (a :: dn).
Proof.
  intros H x Hx. apply in_app_or in Hx. destruct Hx as [Hx|[<-|[]]]; [right; auto|now left].
Qed.

Lemma incl_cons_app2 (l dn : list bytes) a b : incl l dn -> incl (l ++ [a; b]) (a :: b :: dn).
Proof.
  intros H x Hx. apply in_app_or in Hx. destruct Hx as [Hx|[<-|[<-|[]]]].
  - right; right; auto.
  - now left.
  - right; now left.
Qed.

Theorem pend_names_dirty evs : forall d dn,
  incl (pend_names (base_pend d)) dn ->
  incl (pend_names (base_pend (exec_events d evs))) (dirty_names_after evs dn).
Proof.
  induction evs as [|e evs IH]; intros d dn Hin; [exact Hin|].
  change (exec_events d (e :: evs)) with (exec_events (exec_event d e) evs).
  destruct e as [[g|t'| |]|[g|t'| |]|[g|t'| |] data|[g|t'| |]|[g|t'| |] [g2|t2| |]|[g|t'| |]];
    cbn [dirty_names_after]; apply IH; cbn [exec_event lookup_loc new_file];
    repeat match goal with
           | |- context [match ?x with Some _ => _ | None => _ end] => destruct x
           end;
    unfold with_base, with_tmp, with_inodes; fields;
    rewrite ?pend_names_app; cbn [pend_names map];
    auto using incl_nil_l, incl_tl, incl_cons_app1, incl_cons_app2.
Qed.

Lemma bmem_In x l : bmem x l = true <-> In x l.
Proof.
  induction l as [|y l IH]; cbn [bmem In].
  - split; [discriminate|intros []].
  - rewrite Bool.orb_true_iff, IH, beq_eq. split; intros [H|H]; auto.
Qed.

Lemma hist_ok_app h1 : forall h2 dn,
  hist_ok (h1 ++ h2) dn =
  hist_ok h1 dn && hist_ok h2 (fold_left (fun dn s => dirty_names_after (h_evs s) dn) h1 dn).
Proof.
  induction h1 as [|s h1 IH]; intros h2 dn; [reflexivity|].
  cbn [app hist_ok fold_left]. rewrite IH. now rewrite Bool.andb_assoc.
Qed.

Lemma hist_events_cons s h : hist_events (s :: h) = h_evs s ++ hist_events h.
Proof. reflexivity. Qed.

Lemma hist_inv : forall h d dn,
  DInv d -> incl (pend_names (base_pend d)) dn -> hist_ok h dn = true ->
  DInv (exec_events d (hist_events h)) /\
  incl (pend_names (base_pend (exec_events d (hist_events h))))
       (fold_left (fun dn s => dirty_names_after (h_evs s) dn) h dn).
Proof.
  induction h as [|s h IH]; intros d dn HD Hin Hok.
  - cbn. auto.
  - cbn [hist_ok] in Hok. apply andb_prop in Hok. destruct Hok as (Hok & Hr).
    apply andb_prop in Hok. destruct Hok as (Hsh & _).
    rewrite hist_events_cons, exec_events_app. cbn [fold_left].
    apply IH; [now apply step_preserves|now apply pend_names_dirty|exact Hr].
Qed.

Lemma hist_clean_aux : forall d0 h g c,
  base_quiescent d0 -> tmp_inj d0 ->
  hist_ok h [] = true ->
  bmem g (fold_left (fun dn s => dirty_names_after (h_evs s) dn) h []) = false ->
  crash_of (exec_events d0 (hist_events h)) c ->
  crashed_file c g = vol_file (exec_events d0 (hist_events h)) g.
Proof.
  intros d0 h g c Hq Ht Hok Hg Hc.
  destruct (quiescent_DInv d0 Hq Ht) as (HD & Hp).
  destruct (hist_inv h d0 [] HD) as (HD' & Hin); [rewrite Hp; apply incl_refl|exact Hok|].
  apply clean_names_survive; auto.
  intros H. apply Hin in H. apply bmem_In in H. congruence.
Qed.

(* T5: the main theorem.  From a durable start, after ANY history accepted by the checker - with
   failed operations in it, each leaving whatever its trace left - every crash state that can
   follow an acknowledged mutating operation on user u shows under u's two names exactly what
   running processes saw when the operation returned. *)
Theorem history_acked_durable : forall d0 h s u c,
  base_quiescent d0 -> tmp_inj d0 ->
  hist_ok (h ++ [s]) [] = true -> h_ack s = Some u ->
  crash_of (exec_events d0 (hist_events (h ++ [s]))) c ->
  crashed_file c (u ++ ext_user) = vol_file (exec_events d0 (hist_events (h ++ [s]))) (u ++ ext_user) /\
  crashed_file c (u ++ ext_admin) = vol_file (exec_events d0 (hist_events (h ++ [s]))) (u ++ ext_admin).
Proof.
  intros d0 h s u c Hq Ht Hok Hack Hc.
  pose proof Hok as Hok'. rewrite hist_ok_app in Hok'. apply andb_prop in Hok'. destruct Hok' as (_ & Hs).
  cbn [hist_ok] in Hs. rewrite Bool.andb_true_r in Hs. apply andb_prop in Hs. destruct Hs as (_ & Hs).
  unfold ack_clean in Hs. rewrite Hack in Hs. apply andb_prop in Hs. destruct Hs as (H1 & H2).
  apply Bool.negb_true_iff in H1, H2.
  split; eapply hist_clean_aux; eauto; rewrite fold_left_app; cbn [fold_left]; assumption.
Qed.

(* and everything else that is clean survives as well *)
Theorem history_clean_names_durable : forall d0 h g c,
  base_quiescent d0 -> tmp_inj d0 ->
  hist_ok h [] = true ->
  bmem g (fold_left (fun dn s => dirty_names_after (h_evs s) dn) h []) = false ->
  crash_of (exec_events d0 (hist_events h)) c ->
  crashed_file c g = vol_file (exec_events d0 (hist_events h)) g.
Proof. exact hist_clean_aux. Qed.

(* a complete add / update ends with everything clean, whatever was dirty before *)
Lemma complete_cleans_gen f rv evs : forall st t dn,
  proto_run f rv st evs = Some (PDone t) ->
  dirty_names_after evs dn = [] \/ (exists t', st = PDone t' /\ dirty_names_after evs dn = dn).
Proof.
  induction evs as [|e evs IH]; intros st t dn Hrun.
  - cbn in Hrun. injection Hrun as ->. right. eauto.
  - cbn [proto_run] in Hrun.
    destruct (proto_step f rv st e) as [st'|] eqn:Ep; [|discriminate].
    destruct st as [[|]|t0|t0|t0|t0];
      destruct e as [[g|t'| |]|[g|t'| |]|[g|t'| |] data|[g|t'| |]|[g|t'| |] [g2|t2| |]|[g|t'| |]];
      cbn [proto_step] in Ep; try discriminate Ep; split_ifs Ep; injection Ep as <-;
      cbn [dirty_names_after];
      match goal with
      | |- dirty_names_after _ ?dn' = [] \/ _ =>
          destruct (IH _ t dn' Hrun) as [H|(t1 & H1 & H)]; try discriminate H1; auto
      end.
    + right. eauto.
Qed.

Theorem complete_cleans f rv evs dn :
  protocol_complete_ok f rv evs = true -> dirty_names_after evs dn = [].
Proof.
  unfold protocol_complete_ok. intros Hok.
  destruct (proto_run f rv (PStart false) evs) as [[r|t|t|t|t]|] eqn:Hrun; try discriminate Hok.
  destruct (complete_cleans_gen f rv evs (PStart false) t dn Hrun) as [H|(t' & H & _)]; [exact H|discriminate H].
Qed.

(* durability_ok from a dirty start = nothing dirty afterwards *)
Theorem clean_iff_synced evs : forall dn p,
  (p = false <-> dn = []) ->
  (dirty_names_after evs dn = [] <-> base_changes_synced evs p = true).
Proof.
  induction evs as [|e evs IH]; intros dn p Hp.
  - cbn [dirty_names_after base_changes_synced]. rewrite <- Hp. now destruct p.
  - assert (Hf : false = false <-> @nil bytes = []) by (split; reflexivity).
    assert (Ht : forall (a : bytes) l, true = false <-> a :: l = []) by (split; discriminate).
    destruct e as [[g|t'| |]|[g|t'| |]|[g|t'| |] data|[g|t'| |]|[g|t'| |] [g2|t2| |]|[g|t'| |]];
      cbn [dirty_names_after base_changes_synced]; apply IH; auto.
Qed.

(* The retry scenario that the property's "fault sequences" quantifier covers and that a
   set-admin which acknowledges "already in that state" WITHOUT a directory fsync fails:
   attempt 1 renames, its directory fsync fails, it reports the error; attempt 2 finds the
   flag as requested and reports success with no system call; power is lost. *)
Example retry_history_rejected :
  hist_ok [ {| h_shape := HDir; h_ack := None;
               h_evs := [ERename (LFile (str "u.user")) (LFile (str "u.admin"))] |};
            {| h_shape := HDir; h_ack := Some (str "u"); h_evs := [] |} ] [] = false.
Proof. vm_compute. reflexivity. Qed.

Example retry_history_with_sync_accepted :
  hist_ok [ {| h_shape := HDir; h_ack := None;
               h_evs := [ERename (LFile (str "u.user")) (LFile (str "u.admin"))] |};
            {| h_shape := HDir; h_ack := Some (str "u"); h_evs := [EFsync LBaseDir] |} ] [] = true.
Proof. vm_compute. reflexivity. Qed.

Theorem retry_without_sync_refuted :
  exists d0 c,
    base_quiescent d0 /\ tmp_inj d0 /\ vol_file d0 (str "u.user") = Some (str "rec") /\
    let h := [ {| h_shape := HDir; h_ack := None;
                  h_evs := [ERename (LFile (str "u.user")) (LFile (str "u.admin"))] |};
               {| h_shape := HDir; h_ack := Some (str "u"); h_evs := [] |} ] in
    vol_file (exec_events d0 (hist_events h)) (str "u.admin") = Some (str "rec") /\
    crash_of (exec_events d0 (hist_events h)) c /\
    crashed_file c (str "u.admin") = None.
Proof.
  exists bare_d0, bare_c. split; [exact bare_d0_quiescent|].
  split; [intros t1 t2 i H; discriminate H|].
  split; [vm_compute; reflexivity|].
  cbn zeta.
  split; [vm_compute; reflexivity|].
  split; [|vm_compute; reflexivity].
  unfold crash_of. repeat apply conj.
  - exists []. split; [apply subseq_nil_l|vm_compute; reflexivity].
  - exists []. split; [apply subseq_nil_l|vm_compute; reflexivity].
  - apply bare_content. vm_compute. reflexivity.
Qed.

Print Assumptions history_acked_durable.
Print Assumptions prefix_x_preserves.
