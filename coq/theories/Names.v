(* Names.v — the schema's user-name grammar  [A-Za-z0-9][-_.@A-Za-z0-9]*
   (store.userNameRe, anchored; Go's `$` without the m flag matches only at
   the very end of the text, so a trailing newline makes a name invalid). *)
From Whawty Require Import Bytes.
Open Scope N_scope.

Definition is_alnum (b : byte) : bool :=
  ((48 <=? b) && (b <=? 57)) || ((65 <=? b) && (b <=? 90)) || ((97 <=? b) && (b <=? 122)).

Definition is_name_char (b : byte) : bool :=
  is_alnum b || (b =? 45) || (b =? 95) || (b =? 46) || (b =? 64).   (* - _ . @ *)

Definition valid_name (u : bytes) : bool :=
  match u with
  | c :: r => is_alnum c && forallb is_name_char r
  | [] => false
  end.

(* the regular expression read as a grammar (the specification) *)
Inductive first_char : byte -> Prop :=
| FC_digit b : 48 <= b <= 57 -> first_char b
| FC_upper b : 65 <= b <= 90 -> first_char b
| FC_lower b : 97 <= b <= 122 -> first_char b.

Inductive rest_char : byte -> Prop :=
| RC_first b : first_char b -> rest_char b
| RC_dash : rest_char 45
| RC_under : rest_char 95
| RC_dot : rest_char 46
| RC_at : rest_char 64.

Inductive name_grammar : bytes -> Prop :=
| NG c r : first_char c -> Forall rest_char r -> name_grammar (c :: r).

(* the regex source the matcher above transcribes; Properties/C03.v proves
   Extracted.username_re_src equal to it *)
Definition expected_username_re : string := "^[A-Za-z0-9][-_.@A-Za-z0-9]*$"%string.
