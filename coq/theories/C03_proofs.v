(* C03_proofs.v — at the level of the store API (Store.step) a name outside
   the grammar is refused by every operation and nothing changes. *)
From Whawty Require Import Bytes Names Names_proofs Record Store Extracted.
Open Scope N_scope.

Definition op_name (o : op) : option bytes :=
  match o with
  | OpAdd u _ _ | OpUpdate u _ | OpSetAdmin u _ | OpRemove u | OpExists u | OpAuth u _ => Some u
  | _ => None
  end.

Definition refusal (o : op) : obs :=
  match o with
  | OpRemove _ => ORes ROk                      (* RemoveUser returns nothing; it is a no-op *)
  | OpExists _ => OExists ExErr
  | OpAuth _ _ => OAuth false false false 0%Z
  | _ => ORes RErr
  end.

Lemma invalid_name_refused kdf c d o orc u :
  op_name o = Some u -> valid_name u = false ->
  step kdf c d o orc = (c, d, refusal o).
Proof.
  intros Hn Hv. destruct o; cbn [op_name] in Hn; try discriminate; injection Hn as ->;
    cbn [step refusal]; unfold add_user, update_user, set_admin, remove_user, authenticate; rewrite Hv; reflexivity.
Qed.

(* the matcher transcribes the regular expression found in the source *)
Lemma regex_source_is_expected : Extracted.username_re_src = Names.expected_username_re.
Proof. reflexivity. Qed.
