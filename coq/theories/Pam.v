(* Pam.v — protocol logic of pam/pam_whawty.c (request encoder, response
   reader, result mapping).  C strings are NUL-terminated: a [cstr] here is
   the byte string *before* the terminator and is NUL-free by construction
   (the harness can only pass such values through the PAM API). *)
From Whawty Require Import Bytes SaslCodec.
Open Scope N_scope.

(* _whawty_send_request_part: l = min(strlen(part), MAX); htons(l); l bytes *)
Definition pam_clip (pmax : N) (s : bytes) : bytes := firstn (N.to_nat pmax) s.
Definition pam_part (pmax : N) (s : bytes) : bytes := enc_part (pam_clip pmax s).

(* _whawty_send_request: user, password, "" (service), "" (realm) *)
Definition pam_request (pmax : N) (user pw : bytes) : bytes :=
  pam_part pmax user ++ pam_part pmax pw ++ pam_part pmax [] ++ pam_part pmax [].

(* ------------------------------------------------------------------ *)
(* module options, password acquisition, response reader, result mapping *)

Inductive pam_code :=
| PAM_SUCCESS | PAM_AUTH_ERR | PAM_AUTHINFO_UNAVAIL | PAM_AUTHTOK_RECOVERY_ERR.

Record pam_opts := {
  po_try_first : bool; po_use_first : bool; po_not_set_pass : bool;
  po_sock : option bytes;          (* None = default path *)
  po_timeout : N                   (* seconds *)
}.

(* C atoi on the argument text: optional sign, leading digits (no overflow in
   the generated range) *)
Fixpoint digits_prefix (acc : N) (s : bytes) : N :=
  match s with
  | d :: r => if is_digit d then digits_prefix (acc * 10 + (d - 48)) r else acc
  | [] => acc
  end.
Definition c_atoi (s : bytes) : Z :=
  match s with
  | 45 :: r => (- Z.of_N (digits_prefix 0 r))%Z
  | 43 :: r => Z.of_N (digits_prefix 0 r)
  | _ => Z.of_N (digits_prefix 0 s)
  end.

Definition default_opts (tmo : N) : pam_opts :=
  {| po_try_first := false; po_use_first := false; po_not_set_pass := false; po_sock := None; po_timeout := tmo |}.

(* _whawty_parse_args, one argument *)
Definition parse_arg (o : pam_opts) (a : bytes) : pam_opts :=
  if beq a (str "try_first_pass") then
    {| po_try_first := true; po_use_first := po_use_first o; po_not_set_pass := po_not_set_pass o; po_sock := po_sock o; po_timeout := po_timeout o |}
  else if beq a (str "use_first_pass") then
    {| po_try_first := po_try_first o; po_use_first := true; po_not_set_pass := po_not_set_pass o; po_sock := po_sock o; po_timeout := po_timeout o |}
  else if beq a (str "not_set_pass") then
    {| po_try_first := po_try_first o; po_use_first := po_use_first o; po_not_set_pass := true; po_sock := po_sock o; po_timeout := po_timeout o |}
  else if has_prefix (str "sock=") a then
    (match skipn 5 a with
     | [] => o
     | p => {| po_try_first := po_try_first o; po_use_first := po_use_first o; po_not_set_pass := po_not_set_pass o; po_sock := Some p; po_timeout := po_timeout o |}
     end)
  else if has_prefix (str "timeout=") a then
    (match skipn 8 a with
     | [] => o
     | v => if (0 <? c_atoi v)%Z
            then {| po_try_first := po_try_first o; po_use_first := po_use_first o; po_not_set_pass := po_not_set_pass o; po_sock := po_sock o; po_timeout := Z.to_N (c_atoi v) |}
            else o
     end)
  else o.   (* "debug" and unknown arguments do not influence the result *)

Definition parse_args (tmo0 : N) (args : list bytes) : pam_opts :=
  fold_left parse_arg args (default_opts tmo0).

(* _whawty_get_password: password on the PAM stack / from the conversation *)
Definition get_password (o : pam_opts) (stack_pw conv_pw : option bytes) : bytes + pam_code :=
  let from_conv := match conv_pw with Some p => inl p | None => inr PAM_AUTHTOK_RECOVERY_ERR end in
  if po_use_first o || po_try_first o then
    match stack_pw with
    | Some p => inl p
    | None => if po_use_first o then inr PAM_AUTHTOK_RECOVERY_ERR else from_conv
    end
  else from_conv.

(* what the agent side does on the connection *)
Record server := {
  sv_connect : bool;                       (* the socket accepts the connection *)
  sv_chunks : list (N * bytes)             (* (silence before it in ms, bytes sent) *)
  (* after the chunks: closed or silent for ever - both end the same way *)
}.

(* _whawty_read_data: collect [need] bytes; every wait is bounded by the
   timeout; a close or a silence beyond the timeout gives a short count *)
Fixpoint read_n (tmo_ms : N) (need : nat) (cs : list (N * bytes)) {struct cs}
  : option (bytes * list (N * bytes)) :=
  match need with
  | O => Some ([], cs)
  | _ =>
      match cs with
      | [] => None
      | (d, b) :: r =>
          if tmo_ms <=? d then None
          else if Nat.leb (length b) need then
            match read_n tmo_ms (need - length b) r with
            | Some (x, rest) => Some (b ++ x, rest)
            | None => None
            end
          else Some (firstn need b, (0, skipn need b) :: r)
      end
  end.

Definition starts_with_ok (resp : bytes) : bool :=
  match resp with 79 :: 75 :: _ => true | _ => false end.

(* _whawty_check_password once user and password are known.
   Result and the request bytes put on the wire. *)
Definition pam_check (pmax : N) (o : pam_opts) (user pw : bytes) (sv : server) : pam_code * bytes :=
  if negb (sv_connect sv) then (PAM_AUTHINFO_UNAVAIL, [])
  else
    let req := pam_request pmax user pw in
    let tmo := po_timeout o * 1000 in
    match read_n tmo 2 (sv_chunks sv) with
    | Some ([a; b], rest) =>
        let l := N.min (a * 256 + b) pmax in
        match read_n tmo (N.to_nat l) rest with
        | Some (resp, _) => if starts_with_ok resp then (PAM_SUCCESS, req) else (PAM_AUTH_ERR, req)
        | None => (PAM_AUTHINFO_UNAVAIL, req)
        end
    | _ => (PAM_AUTHINFO_UNAVAIL, req)
    end.

Definition pam_authenticate (pmax tmo0 : N) (args : list bytes) (user : bytes)
           (stack_pw conv_pw : option bytes) (sv : server) : pam_code * bytes :=
  let o := parse_args tmo0 args in
  match get_password o stack_pw conv_pw with
  | inr code => (code, [])
  | inl pw => pam_check pmax o user pw sv
  end.
