(* Pam.v — protocol logic of pam/pam_whawty.c (request encoder, response
   reader, result mapping).  C strings are NUL-terminated: a [cstr] here is
   the byte string *before* the terminator and is NUL-free by construction
   (the harness can only pass such values through the PAM API). *)
From Whawty Require Import Bytes SaslCodec.
Open Scope N_scope.

(* _whawty_send_request_part: l = min(strlen(part), MAX); htons(l); l bytes *)
Definition pam_clip (pmax : N) (s : bytes) : bytes := firstn (N.to_nat pmax) s.
Definition pam_part (pmax : N) (s : bytes) : bytes := enc_part (pam_clip pmax s).

(* _whawty_send_request: user, password, "" (service), "" (realm) *)
Definition pam_request (pmax : N) (user pw : bytes) : bytes :=
  pam_part pmax user ++ pam_part pmax pw ++ pam_part pmax [] ++ pam_part pmax [].
