(* Bytes.v — byte strings as lists of N, and the small string library the
   models share (Go: strings.SplitN / Split / Cut, strconv.ParseInt/ParseUint,
   fmt %d).  Definitions only; lemmas live in Bytes_proofs.v so the model
   still evaluates when a proof breaks. *)
From Coq Require Export String Ascii.
From Coq Require Export List NArith ZArith Bool Lia.
Export ListNotations.
Open Scope N_scope.

Definition byte := N.
Definition bytes := list N.

Definition byte_wf (b : byte) : bool := b <? 256.
Definition bytes_wf (s : bytes) : bool := forallb byte_wf s.

Fixpoint beq (a b : bytes) : bool :=
  match a, b with
  | [], [] => true
  | x :: a', y :: b' => (x =? y) && beq a' b'
  | _, _ => false
  end.

Definition len (s : bytes) : N := N.of_nat (length s).

(* ---- literals used by the harness-written case files ---- *)
Definition hexval (c : ascii) : N :=
  let n := N_of_ascii c in
  if (48 <=? n) && (n <=? 57) then n - 48
  else if (97 <=? n) && (n <=? 102) then n - 87
  else if (65 <=? n) && (n <=? 70) then n - 55
  else 0.

Fixpoint hex (s : string) : bytes :=
  match s with
  | String a (String b rest) => (hexval a * 16 + hexval b) :: hex rest
  | _ => []
  end.

(* ASCII text literal (model constants such as ".user", "OK") *)
Fixpoint str (s : string) : bytes :=
  match s with
  | EmptyString => []
  | String a rest => N_of_ascii a :: str rest
  end.

(* ---- searching and splitting on a single separator byte ---- *)
Fixpoint index_of (sep : byte) (s : bytes) : option nat :=
  match s with
  | [] => None
  | x :: r => if x =? sep then Some O
              else match index_of sep r with Some i => Some (S i) | None => None end
  end.

Definition contains (sep : byte) (s : bytes) : bool :=
  match index_of sep s with Some _ => true | None => false end.

(* strings.Cut *)
Definition cut (sep : byte) (s : bytes) : bytes * bytes * bool :=
  match index_of sep s with
  | Some i => (firstn i s, skipn (S i) s, true)
  | None => (s, [], false)
  end.

(* strings.Split s sep  (sep one byte): always at least one element *)
Fixpoint split_all (sep : byte) (s : bytes) : list bytes :=
  match s with
  | [] => [[]]
  | x :: r =>
      if x =? sep then [] :: split_all sep r
      else match split_all sep r with
           | p :: ps => (x :: p) :: ps
           | [] => [[x]]
           end
  end.

(* strings.SplitN s sep n  for n >= 1 : at most n parts, last is the rest *)
Fixpoint splitN (sep : byte) (n : nat) (s : bytes) : list bytes :=
  match n with
  | O => []
  | S O => [s]
  | S n' => match index_of sep s with
            | Some i => firstn i s :: splitN sep n' (skipn (S i) s)
            | None => [s]
            end
  end.

(* ---- decimal numbers ---- *)
Definition is_digit (b : byte) : bool := (48 <=? b) && (b <=? 57).

Fixpoint digits_val (acc : N) (s : bytes) : option N :=
  match s with
  | [] => Some acc
  | d :: r => if is_digit d then digits_val (acc * 10 + (d - 48)) r else None
  end.

Definition max_u64 : N := 18446744073709551615.
Definition max_i64 : Z := 9223372036854775807%Z.

(* strconv.ParseUint(s, 10, 64): digits only, non-empty, no sign, no
   underscore (base 10 given explicitly), range error above 2^64-1.
   Unbounded accumulation is harmless: the value is compared at the end. *)
Definition parse_uint64 (s : bytes) : option N :=
  match s with
  | [] => None
  | _ => match digits_val 0 s with
         | Some v => if v <=? max_u64 then Some v else None
         | None => None
         end
  end.

(* strconv.ParseInt(s, 10, 64): optional single '+' or '-', then as above
   with range -2^63 .. 2^63-1 *)
Definition parse_int64 (s : bytes) : option Z :=
  match s with
  | [] => None
  | c :: r =>
      let neg := c =? 45 in
      let body := if (c =? 43) || (c =? 45) then r else s in
      match body with
      | [] => None
      | _ => match digits_val 0 body with
             | Some v =>
                 let z := Z.of_N v in
                 if neg then (if (z <=? max_i64 + 1)%Z then Some (- z)%Z else None)
                 else (if (z <=? max_i64)%Z then Some z else None)
             | None => None
             end
      end
  end.

(* fmt "%d" of a natural number, by fuel on the number of digits *)
Fixpoint dec_N_fuel (fuel : nat) (n : N) (acc : bytes) : bytes :=
  match fuel with
  | O => acc
  | S f => let acc' := (48 + n mod 10) :: acc in
           if n / 10 =? 0 then acc' else dec_N_fuel f (n / 10) acc'
  end.
Definition dec_N (n : N) : bytes := dec_N_fuel (S (N.to_nat (N.log2 n))) n [].
Definition dec_Z (z : Z) : bytes :=
  if (z <? 0)%Z then 45 :: dec_N (Z.to_N (- z)) else dec_N (Z.to_N z).

(* ---- misc ---- *)
Fixpoint has_prefix (p s : bytes) : bool :=
  match p, s with
  | [], _ => true
  | x :: p', y :: s' => (x =? y) && has_prefix p' s'
  | _, [] => false
  end.

Definition has_suffix (p s : bytes) : bool :=
  has_prefix (rev p) (rev s).

Definition strip_suffix (p s : bytes) : bytes :=
  if has_suffix p s then firstn (length s - length p) s else s.

Fixpoint repeat_byte (b : byte) (n : nat) : bytes :=
  match n with O => [] | S k => b :: repeat_byte b k end.

(* association lists keyed by byte strings *)
Fixpoint alookup {A} (k : bytes) (m : list (bytes * A)) : option A :=
  match m with
  | [] => None
  | (k', v) :: r => if beq k k' then Some v else alookup k r
  end.

(* map-style update of an association list: replace the value of an existing
   key in place, otherwise append *)
Fixpoint aset {A} (k : bytes) (v : A) (m : list (bytes * A)) : list (bytes * A) :=
  match m with
  | [] => [(k, v)]
  | (k', v') :: r => if beq k k' then (k, v) :: r else (k', v') :: aset k v r
  end.

Fixpoint aremove {A} (k : bytes) (m : list (bytes * A)) : list (bytes * A) :=
  match m with
  | [] => []
  | (k', v') :: r => if beq k k' then aremove k r else (k', v') :: aremove k r
  end.
