(* Names_proofs.v — the boolean matcher is exactly the regular expression's
   grammar; consequences used by C03. *)
From Whawty Require Import Bytes Bytes_proofs Names.
From Coq Require Import ZifyN ZifyNat ZifyBool.
Open Scope N_scope.

Lemma is_alnum_iff b : is_alnum b = true <-> first_char b.
Proof.
  unfold is_alnum. split.
  - intros H.
    destruct ((48 <=? b) && (b <=? 57)) eqn:E1; [apply FC_digit; lia|].
    destruct ((65 <=? b) && (b <=? 90)) eqn:E2; [apply FC_upper; lia|].
    apply FC_lower; lia.
  - intros H. destruct H as [b Hb|b Hb|b Hb]; lia.
Qed.

Lemma is_name_char_iff b : is_name_char b = true <-> rest_char b.
Proof.
  unfold is_name_char. split.
  - intros H.
    destruct (is_alnum b) eqn:E; [apply RC_first, is_alnum_iff; exact E|].
    cbn [orb] in H.
    destruct (b =? 45) eqn:E1; [apply N.eqb_eq in E1; subst b; apply RC_dash|].
    destruct (b =? 95) eqn:E2; [apply N.eqb_eq in E2; subst b; apply RC_under|].
    destruct (b =? 46) eqn:E3; [apply N.eqb_eq in E3; subst b; apply RC_dot|].
    destruct (b =? 64) eqn:E4; [apply N.eqb_eq in E4; subst b; apply RC_at|].
    discriminate.
  - intros H. destruct H as [b Hb| | | |]; try reflexivity.
    apply is_alnum_iff in Hb. rewrite Hb. reflexivity.
Qed.

Lemma forallb_name_char_iff r : forallb is_name_char r = true <-> Forall rest_char r.
Proof.
  rewrite forallb_forall, Forall_forall.
  split; intros H x Hx; apply is_name_char_iff, H, Hx.
Qed.

Theorem valid_name_iff_grammar u : valid_name u = true <-> name_grammar u.
Proof.
  unfold valid_name. split.
  - intros H. destruct u as [|c r]; [discriminate|].
    apply andb_true_iff in H. destruct H as [Hc Hr].
    apply NG; [apply is_alnum_iff; exact Hc|apply forallb_name_char_iff; exact Hr].
  - intros H. destruct H as [c r Hc Hr].
    apply andb_true_iff. split; [apply is_alnum_iff; exact Hc|apply forallb_name_char_iff; exact Hr].
Qed.

Lemma is_alnum_name_char b : is_alnum b = true -> is_name_char b = true.
Proof. intros H. unfold is_name_char. rewrite H. reflexivity. Qed.

Lemma valid_name_all_name_char u : valid_name u = true -> forallb is_name_char u = true.
Proof.
  unfold valid_name. destruct u as [|c r]; [discriminate|].
  intros H. apply andb_true_iff in H. destruct H as [Hc Hr].
  cbn [forallb]. rewrite (is_alnum_name_char c Hc), Hr. reflexivity.
Qed.

Lemma name_chars_no sep u :
  is_name_char sep = false -> forallb is_name_char u = true -> contains sep u = false.
Proof.
  intros Hs Hu. apply contains_forallb.
  eapply forallb_weaken; [|exact Hu].
  intros b Hb. cbv beta.
  destruct (b =? sep) eqn:E; [|reflexivity].
  apply N.eqb_eq in E. subst b. congruence.
Qed.

(* consequences: what an invalid or valid name can and cannot contain *)
Theorem valid_name_no_slash u : valid_name u = true -> contains 47 u = false.
Proof.
  intros H. apply name_chars_no; [reflexivity|apply valid_name_all_name_char; exact H].
Qed.

Theorem valid_name_no_nul u : valid_name u = true -> contains 0 u = false.
Proof.
  intros H. apply name_chars_no; [reflexivity|apply valid_name_all_name_char; exact H].
Qed.

Theorem valid_name_nonempty u : valid_name u = true -> u <> [].
Proof. destruct u; [discriminate|discriminate]. Qed.

Theorem valid_name_not_dot_start u c r : u = c :: r -> valid_name u = true ->
  c <> 46 /\ c <> 45 /\ c <> 95 /\ c <> 64.
Proof.
  intros -> H. unfold valid_name in H.
  apply andb_true_iff in H. destruct H as [Hc _].
  repeat split; intros ->; discriminate.
Qed.

Lemma is_name_char_wf b : is_name_char b = true -> byte_wf b = true.
Proof.
  unfold is_name_char, is_alnum, byte_wf. intros H. lia.
Qed.

Theorem valid_name_bytes u : valid_name u = true -> bytes_wf u = true.
Proof.
  intros H. apply valid_name_all_name_char in H. unfold bytes_wf.
  eapply forallb_weaken; [|exact H]. intros b Hb. apply is_name_char_wf. exact Hb.
Qed.

(* names the property text lists are all refused *)
Example invalid_examples :
  forallb (fun u => negb (valid_name u))
    [ []; str "../other/eve"; str "x/../bob"; str "/etc/passwd"; str "-x"; str ".x"; str "_x"; str "@x";
      str "a b"; str "bob" ++ [10]; str "b" ++ [0] ++ str "b"; str ".."; [255] ] = true.
Proof. vm_compute. reflexivity. Qed.
