(* StoreTrace_proofs.v — the system-call programs against the big-step
   model (no fault), under every single injected fault (C15), and their
   footprint (C03). *)
From Whawty Require Import Bytes Bytes_proofs Base64 Names Record Store StoreTrace StoreOps_proofs.
From Coq Require Import ZifyN ZifyNat ZifyBool.
Open Scope N_scope.

(* equality of directories up to the work area: same entries under every
   name other than .tmp, and .tmp holds the same files (an absent .tmp and an
   empty one are not told apart: MkdirAll may have created it) *)
Definition tmp_kids (d : dirst) : list (bytes * bytes) :=
  match dlookup tmp_name d with Some (Dir k) => k | _ => [] end.

Definition same_store (d d' : dirst) : Prop :=
  (forall f, f <> tmp_name -> dlookup f d' = dlookup f d) /\
  (forall t, alookup t (tmp_kids d') = alookup t (tmp_kids d)) /\
  (forall c, dlookup tmp_name d = Some (File c) -> dlookup tmp_name d' = Some (File c)).

(* os.CreateTemp picks a name that does not exist in the work area *)
Definition tmp_name_fresh (d : dirst) (o : oracle) : Prop :=
  alookup (o_tmp o) (tmp_kids d) = None.

Definition has_rename (evs : list event) : Prop := exists a b, In (ERename a b) evs.

(* ------------------------------------------------------------------ *)
(* Auxiliaries: one system call *)
Definition bump (k : kind) (s : tstate) : tstate :=
  {| t_dir := t_dir s; t_cnt := cnt_inc k (t_cnt s); t_ev := t_ev s |}.

Definition terr (f : option fault) (k : kind) (s : tstate) : option errno :=
  match f with
  | Some ft => if kind_eqb k (f_kind ft) && Nat.eqb (cnt_get k (t_cnt s)) (f_occ ft)
               then Some (f_errno ft) else None
  | None => None
  end.

Lemma tick_eq f k s : tick f k s = (terr f k s, bump k s).
Proof.
  unfold tick, terr, bump. destruct f as [ft|]; [|reflexivity].
  destruct (kind_eqb k (f_kind ft) && Nat.eqb (cnt_get k (t_cnt s)) (f_occ ft)); reflexivity.
Qed.

Lemma kind_eqb_refl k : kind_eqb k k = true.
Proof. destruct k; reflexivity. Qed.

Lemma kind_eqb_eq a b : kind_eqb a b = true -> a = b.
Proof. destruct a, b; cbn; intros H; try reflexivity; discriminate. Qed.

Lemma cnt_get_inc_eq k c : cnt_get k (cnt_inc k c) = S (cnt_get k c).
Proof.
  induction c as [|[k' n] c IH]; cbn [cnt_inc cnt_get].
  - now rewrite kind_eqb_refl.
  - destruct (kind_eqb k k') eqn:E; cbn [cnt_get]; rewrite E; auto.
Qed.

Lemma cnt_get_inc_ne k k' c : kind_eqb k' k = false -> cnt_get k' (cnt_inc k c) = cnt_get k' c.
Proof.
  intros H. induction c as [|[k2 n] c IH]; cbn [cnt_inc cnt_get].
  - now rewrite H.
  - destruct (kind_eqb k k2) eqn:E; cbn [cnt_get].
    + apply kind_eqb_eq in E. subst k2. now rewrite H.
    + now rewrite IH.
Qed.

(* the injected fault has already hit a call *)
Definition fired (ft : fault) (c : list (kind * nat)) : Prop :=
  (f_occ ft < cnt_get (f_kind ft) c)%nat.

(* no call from here on fails *)
Definition quiet (f : option fault) (c : list (kind * nat)) : Prop :=
  match f with Some ft => fired ft c | None => True end.

Lemma fired_inc ft k c : fired ft c -> fired ft (cnt_inc k c).
Proof.
  unfold fired. intros H. destruct (kind_eqb (f_kind ft) k) eqn:E.
  - apply kind_eqb_eq in E. subst k. rewrite cnt_get_inc_eq. lia.
  - now rewrite cnt_get_inc_ne.
Qed.

Lemma quiet_inc f k c : quiet f c -> quiet f (cnt_inc k c).
Proof. destruct f as [ft|]; cbn [quiet]; auto using fired_inc. Qed.

Lemma terr_quiet f k s : quiet f (t_cnt s) -> terr f k s = None.
Proof.
  destruct f as [ft|]; cbn [quiet terr]; [|reflexivity]. unfold fired. intros H.
  destruct (kind_eqb k (f_kind ft)) eqn:E; [|reflexivity].
  apply kind_eqb_eq in E. subst k. cbn [andb].
  destruct (Nat.eqb (cnt_get (f_kind ft) (t_cnt s)) (f_occ ft)) eqn:E2; [|reflexivity].
  apply Nat.eqb_eq in E2. lia.
Qed.

Lemma terr_some f k s e : terr f k s = Some e -> quiet f (cnt_inc k (t_cnt s)).
Proof.
  destruct f as [ft|]; cbn [quiet terr]; [|discriminate]. unfold fired.
  destruct (kind_eqb k (f_kind ft)) eqn:E; [|discriminate]. cbn [andb].
  destruct (Nat.eqb (cnt_get k (t_cnt s)) (f_occ ft)) eqn:E2; [|discriminate].
  intros _. apply kind_eqb_eq in E. subst k. apply Nat.eqb_eq in E2.
  rewrite cnt_get_inc_eq. lia.
Qed.

Lemma terr_none_None k s : terr None k s = None.
Proof. reflexivity. Qed.

(* ------------------------------------------------------------------ *)
(* Auxiliaries: directory algebra *)
Lemma dset_dset k v v' d : dset k v (dset k v' d) = dset k v d.
Proof.
  induction d as [|[k' w] d IH]; cbn [dset].
  - now rewrite beq_refl.
  - destruct (beq k k') eqn:E; cbn [dset].
    + now rewrite beq_refl.
    + now rewrite E, IH.
Qed.

Lemma same_store_refl d : same_store d d.
Proof. unfold same_store. auto. Qed.

Lemma same_store_trans a b c : same_store a b -> same_store b c -> same_store a c.
Proof.
  intros (A1 & A2 & A3) (B1 & B2 & B3). split; [|split].
  - intros f Hf. now rewrite B1, A1.
  - intros t. now rewrite B2, A2.
  - intros x Hx. auto.
Qed.

Lemma same_store_eq a b : a = b -> same_store a b.
Proof. intros ->. apply same_store_refl. Qed.

Lemma tmp_kids_dset_tmp k d : tmp_kids (dset tmp_name (Dir k) d) = k.
Proof. unfold tmp_kids. now rewrite dlookup_dset_eq. Qed.

Lemma tmp_kids_dset_ne f v d : f <> tmp_name -> tmp_kids (dset f v d) = tmp_kids d.
Proof. intros H. unfold tmp_kids. now rewrite dlookup_dset_ne. Qed.

Lemma tmp_kids_dremove_ne f d : f <> tmp_name -> tmp_kids (dremove f d) = tmp_kids d.
Proof. intros H. unfold tmp_kids. now rewrite dlookup_dremove_ne. Qed.

Lemma tmp_children_dset_tmp k d : tmp_children (dset tmp_name (Dir k) d) = Some k.
Proof. unfold tmp_children. now rewrite dlookup_dset_eq. Qed.

Lemma tmp_children_dset_ne f v d : f <> tmp_name -> tmp_children (dset f v d) = tmp_children d.
Proof. intros H. unfold tmp_children. now rewrite dlookup_dset_ne. Qed.

Lemma tmp_children_kids d k : tmp_children d = Some k -> tmp_kids d = k /\ dlookup tmp_name d = Some (Dir k).
Proof.
  unfold tmp_children, tmp_kids. destruct (dlookup tmp_name d) as [[x|x]|]; try discriminate.
  intros H. injection H as ->. auto.
Qed.

(* ------------------------------------------------------------------ *)
(* os.Remove *)
Definition rm_dir (l : loc) (d : dirst) : dirst :=
  match l with
  | LFile fname => dremove fname d
  | LTmpFile t => match tmp_children d with
                  | Some kids => dset tmp_name (Dir (aremove t kids)) d
                  | None => d end
  | _ => d
  end.

Lemma p_remove_cases f l s :
  exists c',
    (quiet f (t_cnt s) -> quiet f c') /\
    (p_remove f l s = {| t_dir := t_dir s; t_cnt := c'; t_ev := t_ev s |} \/
     p_remove f l s = {| t_dir := rm_dir l (t_dir s); t_cnt := c'; t_ev := EUnlink l :: t_ev s |}).
Proof.
  unfold p_remove. rewrite tick_eq. cbv beta iota zeta. rewrite tick_eq. cbv beta iota.
  cbn [t_dir bump].
  assert (Q1 : quiet f (t_cnt s) -> quiet f (cnt_inc KUnlink (t_cnt s))) by apply quiet_inc.
  assert (Q2 : quiet f (t_cnt s) -> quiet f (cnt_inc KUnlink (cnt_inc KUnlink (t_cnt s)))).
  { intros H. now apply quiet_inc, quiet_inc. }
  destruct l as [fname|t| |].
  - destruct (terr f KUnlink s) as [e1|].
    + exists (cnt_inc KUnlink (cnt_inc KUnlink (t_cnt s))). split; [exact Q2|].
      destruct (terr f KUnlink (bump KUnlink s)) as [e2|]; [left; reflexivity|].
      destruct (dlookup fname (t_dir s)) as [[x|[|y k]]|]; try (left; reflexivity).
      right. reflexivity.
    + destruct (dlookup fname (t_dir s)) as [[x|k]|].
      * exists (cnt_inc KUnlink (t_cnt s)). split; [exact Q1|]. right. reflexivity.
      * exists (cnt_inc KUnlink (cnt_inc KUnlink (t_cnt s))). split; [exact Q2|].
        destruct (terr f KUnlink (bump KUnlink s)) as [e2|]; [left; reflexivity|].
        destruct k; [right|left]; reflexivity.
      * exists (cnt_inc KUnlink (cnt_inc KUnlink (t_cnt s))). split; [exact Q2|].
        destruct (terr f KUnlink (bump KUnlink s)) as [e2|]; left; reflexivity.
  - cbn [rm_dir].
    destruct (terr f KUnlink s) as [e1|].
    + exists (cnt_inc KUnlink (cnt_inc KUnlink (t_cnt s))). split; [exact Q2|].
      destruct (terr f KUnlink (bump KUnlink s)) as [e2|]; left; reflexivity.
    + destruct (tmp_children (t_dir s)) as [kids|].
      * destruct (alookup t kids) as [x|].
        -- exists (cnt_inc KUnlink (t_cnt s)). split; [exact Q1|]. right. reflexivity.
        -- exists (cnt_inc KUnlink (cnt_inc KUnlink (t_cnt s))). split; [exact Q2|].
           destruct (terr f KUnlink (bump KUnlink s)) as [e2|]; left; reflexivity.
      * exists (cnt_inc KUnlink (cnt_inc KUnlink (t_cnt s))). split; [exact Q2|].
        destruct (terr f KUnlink (bump KUnlink s)) as [e2|]; left; reflexivity.
  - exists (cnt_inc KUnlink (cnt_inc KUnlink (t_cnt s))). split; [exact Q2|].
    destruct (terr f KUnlink s) as [e1|];
      destruct (terr f KUnlink (bump KUnlink s)) as [e2|]; left; reflexivity.
  - exists (cnt_inc KUnlink (cnt_inc KUnlink (t_cnt s))). split; [exact Q2|].
    destruct (terr f KUnlink s) as [e1|];
      destruct (terr f KUnlink (bump KUnlink s)) as [e2|]; left; reflexivity.
Qed.

Lemma p_remove_quiet f l s : quiet f (t_cnt s) -> quiet f (t_cnt (p_remove f l s)).
Proof.
  intros H. destruct (p_remove_cases f l s) as (c' & Q & [E|E]); rewrite E; cbn [t_cnt]; auto.
Qed.

Lemma p_remove_ev f l s :
  t_ev (p_remove f l s) = t_ev s \/ t_ev (p_remove f l s) = EUnlink l :: t_ev s.
Proof.
  destruct (p_remove_cases f l s) as (c' & Q & [E|E]); rewrite E; cbn [t_ev]; auto.
Qed.

Lemma p_remove_ev_in f l s e : In e (t_ev s) -> In e (t_ev (p_remove f l s)).
Proof. destruct (p_remove_ev f l s) as [E|E]; rewrite E; cbn [In]; auto. Qed.

Lemma p_remove_ev_forall (P : event -> Prop) f l s :
  P (EUnlink l) -> Forall P (t_ev s) -> Forall P (t_ev (p_remove f l s)).
Proof. intros Hl H. destruct (p_remove_ev f l s) as [E|E]; rewrite E; auto. Qed.

Lemma p_remove_dir f l s :
  t_dir (p_remove f l s) = t_dir s \/ t_dir (p_remove f l s) = rm_dir l (t_dir s).
Proof.
  destruct (p_remove_cases f l s) as (c' & Q & [E|E]); rewrite E; cbn [t_dir]; auto.
Qed.

(* with no failing call, os.Remove of <base>/<fname> is the model's unlink *)
Lemma p_remove_quiet_file f fname s :
  quiet f (t_cnt s) -> t_dir (p_remove f (LFile fname) s) = unlink fname (t_dir s).
Proof.
  intros Q. unfold p_remove. rewrite tick_eq. cbv beta iota zeta. rewrite tick_eq. cbv beta iota.
  rewrite (terr_quiet f KUnlink s Q).
  rewrite (terr_quiet f KUnlink (bump KUnlink s)) by (cbn [t_cnt bump]; now apply quiet_inc).
  cbn [t_dir bump]. unfold unlink.
  destruct (dlookup fname (t_dir s)) as [[x|[|y k]]|]; reflexivity.
Qed.

Definition rm_tmp (t : bytes) (d : dirst) : dirst :=
  match tmp_children d with
  | Some kids => match alookup t kids with
                 | Some _ => dset tmp_name (Dir (aremove t kids)) d
                 | None => d end
  | None => d
  end.

Lemma p_remove_quiet_tmp f t s :
  quiet f (t_cnt s) -> t_dir (p_remove f (LTmpFile t) s) = rm_tmp t (t_dir s).
Proof.
  intros Q. unfold p_remove. rewrite tick_eq. cbv beta iota zeta. rewrite tick_eq. cbv beta iota.
  rewrite (terr_quiet f KUnlink s Q).
  rewrite (terr_quiet f KUnlink (bump KUnlink s)) by (cbn [t_cnt bump]; now apply quiet_inc).
  cbn [t_dir bump]. unfold rm_tmp.
  destruct (tmp_children (t_dir s)) as [kids|]; [|reflexivity].
  destruct (alookup t kids); reflexivity.
Qed.

(* a temp file that is not there: nothing happens, fault or not *)
Lemma p_remove_tmp_absent f t s :
  (forall kids, tmp_children (t_dir s) = Some kids -> alookup t kids = None) ->
  t_dir (p_remove f (LTmpFile t) s) = t_dir s.
Proof.
  intros H. unfold p_remove. rewrite tick_eq. cbv beta iota zeta. rewrite tick_eq. cbv beta iota.
  cbn [t_dir bump].
  destruct (tmp_children (t_dir s)) as [kids|].
  - rewrite (H kids eq_refl).
    destruct (terr f KUnlink s); destruct (terr f KUnlink (bump KUnlink s)); reflexivity.
  - destruct (terr f KUnlink s); destruct (terr f KUnlink (bump KUnlink s)); reflexivity.
Qed.

(* ------------------------------------------------------------------ *)
(* fileExists / Exists *)
Lemma p_stat_eq f fname s :
  p_stat f fname s =
  (match terr f KStat s with Some _ => StErr | None => stat_file (t_dir s) fname end,
   bump KStat s).
Proof.
  unfold p_stat, stat_file. rewrite tick_eq. cbn [t_dir bump].
  destruct (name_max <? len fname); destruct (terr f KStat s); reflexivity.
Qed.

Lemma p_exists_spec f u s r s' :
  p_exists f u s = (r, s') ->
  t_dir s' = t_dir s /\ t_ev s' = t_ev s /\
  (r = user_exists (t_dir s) u \/ r = ExErr) /\
  (quiet f (t_cnt s) -> r = user_exists (t_dir s) u).
Proof.
  unfold p_exists, user_exists. rewrite p_stat_eq.
  destruct (terr f KStat s) as [e|] eqn:E1.
  - intros H. injection H as <- <-. cbn [t_dir t_ev bump]. repeat split; auto.
    intros Q. rewrite terr_quiet in E1 by exact Q. discriminate.
  - destruct (stat_file (t_dir s) (u ++ ext_admin)).
    + intros H. injection H as <- <-. cbn [t_dir t_ev bump]. repeat split; auto.
    + rewrite p_stat_eq. cbn [t_dir bump].
      destruct (terr f KStat (bump KStat s)) as [e|] eqn:E2.
      * intros H. injection H as <- <-. cbn [t_dir t_ev bump]. repeat split; auto.
        intros Q. rewrite terr_quiet in E2 by (cbn [t_cnt bump]; now apply quiet_inc). discriminate.
      * destruct (stat_file (t_dir s) (u ++ ext_user));
          intros H; injection H as <- <-; cbn [t_dir t_ev bump]; repeat split; auto.
    + intros H. injection H as <- <-. cbn [t_dir t_ev bump]. repeat split; auto.
Qed.

(* ------------------------------------------------------------------ *)
(* os.MkdirAll(<base>/.tmp) *)
Ltac terr_cases :=
  repeat match goal with
         | |- context [match terr ?f ?k ?s with _ => _ end] =>
             let E := fresh "E" in destruct (terr f k s) eqn:E
         end.

Ltac quiet_from_terr :=
  repeat match goal with
         | H : terr _ _ _ = Some _ |- _ => apply terr_some in H; cbn [t_cnt bump emit setdir] in H
         end;
  cbn [t_cnt bump emit setdir];
  repeat (assumption || apply quiet_inc).

Lemma p_mkdir_tmp_spec f s b s2 :
  p_mkdir_tmp f s = (b, s2) ->
  ((t_dir s2 = t_dir s /\ t_ev s2 = t_ev s) \/
   (dlookup tmp_name (t_dir s) = None /\ t_dir s2 = dset tmp_name (Dir []) (t_dir s) /\
    t_ev s2 = EMkdir LTmpDir :: t_ev s /\ b = true)) /\
  (b = true -> exists K, dlookup tmp_name (t_dir s2) = Some (Dir K)) /\
  (b = false -> (exists c, dlookup tmp_name (t_dir s) = Some (File c)) \/ quiet f (t_cnt s2)).
Proof.
  unfold p_mkdir_tmp. repeat (rewrite tick_eq; cbv beta iota zeta).
  cbn [t_dir bump].
  terr_cases; cbn [t_dir bump];
  destruct (dlookup tmp_name (t_dir s)) as [[x|k]|] eqn:El;
  terr_cases;
  intros H; injection H as <- <-; cbn [t_dir t_ev bump emit setdir];
    (split; [first [left; split; reflexivity | right; repeat split; reflexivity]|]);
    (split; [intros Hb; try discriminate; first [now eauto | rewrite dlookup_dset_eq; now eauto]|]);
    (intros Hb; try discriminate; first [left; now eauto | right; quiet_from_terr]).
Qed.

(* ------------------------------------------------------------------ *)
(* writeHashStr, cut into phases *)
Definition wfail (f : option fault) (fname : bytes) (reserve : bool) (sx : tstate) : res * tstate :=
  if reserve then (RErr, p_remove f (LFile fname) sx) else (RErr, sx).

Definition wfail_tmp (f : option fault) (fname : bytes) (reserve : bool) (t : bytes) (sx : tstate)
  : res * tstate :=
  wfail f fname reserve (p_remove f (LTmpFile t) sx).

Definition put_d (t data : bytes) (d : dirst) : dirst :=
  let kids := match tmp_children d with Some k => k | None => [] end in
  let cur := match alookup t kids with Some x => x | None => [] end in
  dset tmp_name (Dir (aset t (cur ++ data) kids)) d.

Definition wput (t data : bytes) (sx : tstate) : tstate :=
  emit (EWrite (LTmpFile t) data) (setdir (put_d t data (t_dir sx)) sx).

Definition ren_d (t fname : bytes) (d : dirst) : dirst :=
  let kids := match tmp_children d with Some k => k | None => [] end in
  let content := match alookup t kids with Some x => x | None => [] end in
  dset fname (File content) (dset tmp_name (Dir (aremove t kids)) d).

Definition wh_tail (f : option fault) (c : config) (h : hasher) (hs fname : bytes) (reserve : bool)
           (o : oracle) (old : option bytes) (s3' : tstate) : res * tstate :=
  let t := o_tmp o in
  let line := print_record h (o_ts o) (default c) hs in
  let ft := wfail_tmp f fname reserve t in
  match terr f KWrite s3' with
  | Some _ => ft (bump KWrite s3')
  | None =>
      let s4' := wput t line (bump KWrite s3') in
      match terr f KRead s4', old with
      | Some _, _ | _, None => ft (bump KRead s4')
      | None, Some oldc =>
          let s5 := bump KRead s4' in
          match terr f KWrite s5 with
          | Some _ => ft (bump KWrite s5)
          | None =>
              let s6 := bump KWrite s5 in
              let rest := after_first_line oldc in
              let s7 := bump KCopy s6 in
              let copy_fails := match terr f KCopy s6 with
                                | Some EIO => false
                                | Some _ => true
                                | None => false end in
              if copy_fails then ft (wput t rest s7)
              else
                match terr f KRead s7 with
                | Some _ => ft (wput t rest (bump KRead s7))
                | None =>
                    let s8 := bump KRead s7 in
                    let s8' := match rest with [] => s8 | _ => wput t rest s8 end in
                    match terr f KFsync s8' with
                    | Some _ => ft (bump KFsync s8')
                    | None =>
                        let s9' := emit (EFsync (LTmpFile t)) (bump KFsync s8') in
                        let s10 := bump KStat s9' in
                        match terr f KRename s10 with
                        | Some _ => ft (bump KRename s10)
                        | None =>
                            let s11 := bump KRename s10 in
                            let s11' := emit (ERename (LTmpFile t) (LFile fname))
                                             (setdir (ren_d t fname (t_dir s11)) s11) in
                            match terr f KOpen s11' with
                            | Some _ => ft (bump KOpen s11')
                            | None =>
                                let s12 := bump KOpen s11' in
                                match terr f KFsync s12 with
                                | Some _ => ft (bump KFsync s12)
                                | None => (ROk, p_remove f (LTmpFile t)
                                                         (emit (EFsync LBaseDir) (bump KFsync s12)))
                                end
                            end
                        end
                    end
                end
          end
      end
  end.

Definition wh_open (f : option fault) (fname : bytes) (reserve : bool) (s : tstate)
  : option (tstate * option bytes) :=
  match terr f KOpen s with
  | Some _ => None
  | None =>
      let s0 := bump KOpen s in
      match dlookup fname (t_dir s) with
      | Some (File old) => if reserve then None else Some (s0, Some old)
      | Some (Dir _) => if reserve then None else Some (s0, None)
      | None => if reserve
                then Some (emit (ECreate (LFile fname)) (setdir (dset fname (File []) (t_dir s)) s0), Some [])
                else None
      end
  end.

Definition wh_create (t : bytes) (s3 : tstate) : tstate :=
  let kids := match tmp_children (t_dir s3) with Some k => k | None => [] end in
  emit (ECreate (LTmpFile t)) (setdir (dset tmp_name (Dir (aset t [] kids)) (t_dir s3)) s3).

Lemma p_write_hash_eq f c h hs fname reserve o s :
  p_write_hash f c h hs fname reserve o s =
  match wh_open f fname reserve s with
  | None => (RErr, bump KOpen s)
  | Some (s1, old) =>
      let (okdir, s2) := p_mkdir_tmp f s1 in
      if negb okdir then wfail f fname reserve s2
      else match terr f KOpen s2 with
           | Some _ => wfail f fname reserve (bump KOpen s2)
           | None => wh_tail f c h hs fname reserve o old (wh_create (o_tmp o) (bump KOpen s2))
           end
  end.
Proof.
  unfold p_write_hash, wh_open. rewrite tick_eq. cbv beta iota zeta. cbn [t_dir bump].
  destruct (terr f KOpen s) as [e0|]; [reflexivity|].
  assert (G : forall s1 old,
    (let (okdir, s2) := p_mkdir_tmp f s1 in
       if negb okdir
       then if reserve then (RErr, p_remove f (LFile fname) s2) else (RErr, s2)
       else
        let (e3, s3) := tick f KOpen s2 in
        match e3 with
        | Some _ => if reserve then (RErr, p_remove f (LFile fname) s3) else (RErr, s3)
        | None => wh_tail f c h hs fname reserve o old (wh_create (o_tmp o) s3)
        end) =
    (let (okdir, s2) := p_mkdir_tmp f s1 in
     if negb okdir
     then wfail f fname reserve s2
     else
      match terr f KOpen s2 with
      | Some _ => wfail f fname reserve (bump KOpen s2)
      | None => wh_tail f c h hs fname reserve o old (wh_create (o_tmp o) (bump KOpen s2))
      end)).
  { intros s1 old. destruct (p_mkdir_tmp f s1) as [okdir s2]. rewrite tick_eq. reflexivity. }
  destruct (dlookup fname (t_dir s)) as [[x|k]|]; destruct reserve; try reflexivity.
  all: rewrite <- G; clear G.
  all: destruct (p_mkdir_tmp f _) as [okdir s2]; destruct okdir; cbn [negb]; try reflexivity.
  all: unfold wh_tail, wfail_tmp, wfail, wput, put_d, ren_d, wh_create.
  all: repeat (rewrite tick_eq; cbv beta iota zeta); cbn [t_dir bump emit setdir].
  all: terr_cases; try reflexivity.
Qed.

(* ------------------------------------------------------------------ *)
(* invariants of writeHashStr relative to the directory [d] it started from *)
Definition Lfr (d : dirst) (fname : bytes) (rv : bool) (dx : dirst) : Prop :=
  (forall f, f <> tmp_name -> f <> fname -> dlookup f dx = dlookup f d) /\
  (if rv then dlookup fname d = None /\ exists c, dlookup fname dx = Some (File c)
   else dlookup fname dx = dlookup fname d).

Definition no_tmp_file (d : dirst) : Prop := forall c, dlookup tmp_name d <> Some (File c).

Definition Linv (d : dirst) (fname : bytes) (rv : bool) (ok : bytes -> Prop) (dx : dirst) : Prop :=
  Lfr d fname rv dx /\ no_tmp_file d /\
  exists K, dlookup tmp_name dx = Some (Dir K) /\
            forall t', ok t' -> alookup t' K = alookup t' (tmp_kids d).

Definition Loose (d : dirst) (fname : bytes) (rv : bool) (dx : dirst) : Prop :=
  Lfr d fname rv dx /\ no_tmp_file d /\
  forall t', alookup t' (tmp_kids dx) = alookup t' (tmp_kids d).

Lemma Lfr_dset_tmp d fname rv dx v :
  fname <> tmp_name -> Lfr d fname rv dx -> Lfr d fname rv (dset tmp_name v dx).
Proof.
  intros Hn [F1 F2]. split.
  - intros f Hf Hf2. rewrite dlookup_dset_ne by congruence. auto.
  - destruct rv.
    + destruct F2 as [F2 [c F3]]. split; [exact F2|]. exists c.
      rewrite dlookup_dset_ne by congruence. exact F3.
    + rewrite dlookup_dset_ne by congruence. exact F2.
Qed.

Lemma Linv_put d fname rv t data dx :
  fname <> tmp_name ->
  Linv d fname rv (fun t' => t' <> t) dx -> Linv d fname rv (fun t' => t' <> t) (put_d t data dx).
Proof.
  intros Hn (F & NF & K & HK & HK2). unfold put_d, tmp_children. rewrite HK.
  split; [now apply Lfr_dset_tmp|]. split; [exact NF|].
  eexists. split; [apply dlookup_dset_eq|].
  intros t' Ht'. rewrite alookup_aset_ne by congruence. auto.
Qed.

Lemma Linv_ren d fname t dx :
  fname <> tmp_name ->
  Linv d fname true (fun t' => t' <> t) dx -> Linv d fname true (fun t' => t' <> t) (ren_d t fname dx).
Proof.
  intros Hn ([F1 [F2 F3]] & NF & K & HK & HK2). unfold ren_d, tmp_children. rewrite HK.
  split; [split|].
  - intros f Hf Hf2. rewrite !dlookup_dset_ne by congruence. auto.
  - split; [exact F2|]. eexists. apply dlookup_dset_eq.
  - split; [exact NF|]. eexists. split.
    + rewrite dlookup_dset_ne by congruence. apply dlookup_dset_eq.
    + intros t' Ht'. rewrite alookup_aremove_ne by congruence. auto.
Qed.

Lemma Linv_create d fname rv t dx :
  fname <> tmp_name ->
  Linv d fname rv (fun _ => True) dx ->
  Linv d fname rv (fun t' => t' <> t)
       (dset tmp_name (Dir (aset t [] (match tmp_children dx with Some k => k | None => [] end))) dx).
Proof.
  intros Hn (F & NF & K & HK & HK2). unfold tmp_children. rewrite HK.
  split; [now apply Lfr_dset_tmp|]. split; [exact NF|].
  eexists. split; [apply dlookup_dset_eq|].
  intros t' Ht'. rewrite alookup_aset_ne by congruence. auto.
Qed.

Lemma Linv_rm_tmp d fname rv t dx :
  fname <> tmp_name -> alookup t (tmp_kids d) = None ->
  Linv d fname rv (fun t' => t' <> t) dx -> Loose d fname rv (rm_tmp t dx).
Proof.
  intros Hn Hfresh (F & NF & K & HK & HK2). unfold rm_tmp, tmp_children. rewrite HK.
  assert (Heq : forall t', alookup t' (aremove t K) = alookup t' (tmp_kids d)).
  { intros t'. destruct (list_eq_dec N.eq_dec t' t) as [->|Hne].
    - now rewrite alookup_aremove_eq.
    - rewrite alookup_aremove_ne by congruence. auto. }
  destruct (alookup t K) as [x|] eqn:Ex.
  - split; [now apply Lfr_dset_tmp|]. split; [exact NF|].
    intros t'. rewrite tmp_kids_dset_tmp. apply Heq.
  - split; [exact F|]. split; [exact NF|].
    intros t'. unfold tmp_kids at 1. rewrite HK.
    destruct (list_eq_dec N.eq_dec t' t) as [->|Hne]; [congruence|auto].
Qed.

Lemma Linv_loose d fname rv dx : Linv d fname rv (fun _ => True) dx -> Loose d fname rv dx.
Proof.
  intros (F & NF & K & HK & HK2). split; [exact F|]. split; [exact NF|].
  intros t'. unfold tmp_kids at 1. rewrite HK. auto.
Qed.

Lemma Loose_same d fname dx : fname <> tmp_name -> Loose d fname false dx -> same_store d dx.
Proof.
  intros Hn ([F1 F2] & NF & HK). split; [|split].
  - intros f Hf. destruct (list_eq_dec N.eq_dec f fname) as [->|Hne]; auto.
  - exact HK.
  - intros c Hc. destruct (NF c Hc).
Qed.

Lemma Loose_same_rm d fname dx :
  fname <> tmp_name -> Loose d fname true dx -> same_store d (dremove fname dx).
Proof.
  intros Hn ([F1 [F2 F3]] & NF & HK). split; [|split].
  - intros f Hf. destruct (list_eq_dec N.eq_dec f fname) as [->|Hne].
    + now rewrite dlookup_dremove_eq.
    + rewrite dlookup_dremove_ne by congruence. auto.
  - intros t'. rewrite tmp_kids_dremove_ne by exact Hn. apply HK.
  - intros c Hc. destruct (NF c Hc).
Qed.

(* the failure exit before the temp file exists (or after it is gone) *)
Lemma wfail_same f d fname rv sx r s' :
  fname <> tmp_name -> quiet f (t_cnt sx) -> Loose d fname rv (t_dir sx) ->
  wfail f fname rv sx = (r, s') -> same_store d (t_dir s').
Proof.
  intros Hn Q L. unfold wfail. destruct rv; intros H; injection H as _ <-.
  - rewrite p_remove_quiet_file by exact Q.
    destruct L as ([F1 [F2 [c F3]]] & NF & HK) eqn:EL. unfold unlink. rewrite F3.
    now apply Loose_same_rm.
  - now apply Loose_same with (fname := fname).
Qed.

(* the failure exit with the deferred os.Remove(tmp) *)
Lemma wfail_tmp_same f d fname rv t sx r s' :
  fname <> tmp_name -> alookup t (tmp_kids d) = None ->
  quiet f (t_cnt sx) -> Linv d fname rv (fun t' => t' <> t) (t_dir sx) ->
  wfail_tmp f fname rv t sx = (r, s') -> same_store d (t_dir s').
Proof.
  intros Hn Hfresh Q L H. unfold wfail_tmp in H.
  eapply wfail_same; [exact Hn| | |exact H].
  - now apply p_remove_quiet.
  - rewrite p_remove_quiet_tmp by exact Q. now apply Linv_rm_tmp.
Qed.

(* events only accumulate *)
Lemma wfail_ev_in f fname rv sx r s' e :
  wfail f fname rv sx = (r, s') -> In e (t_ev sx) -> In e (t_ev s').
Proof.
  unfold wfail. destruct rv; intros H; injection H as _ <-; auto using p_remove_ev_in.
Qed.

Lemma wfail_tmp_ev_in f fname rv t sx r s' e :
  wfail_tmp f fname rv t sx = (r, s') -> In e (t_ev sx) -> In e (t_ev s').
Proof.
  unfold wfail_tmp. intros H Hin. eapply wfail_ev_in; [exact H|]. now apply p_remove_ev_in.
Qed.

Ltac linv_solve :=
  cbn [t_dir bump emit setdir wput];
  repeat first [ assumption | apply Linv_put; [assumption|] | apply Linv_ren; [assumption|] ].

Lemma wh_tail_err ft c h hs fname rv o oldc s3 s' d :
  fname <> tmp_name -> alookup (o_tmp o) (tmp_kids d) = None ->
  Linv d fname rv (fun t' => t' <> o_tmp o) (t_dir s3) ->
  wh_tail (Some ft) c h hs fname rv o (Some oldc) s3 = (RErr, s') ->
  (rv = false -> ~ exists a b, In (ERename a b) (t_ev s')) ->
  same_store d (t_dir s').
Proof.
  intros Hn Hfresh L H Hren. unfold wh_tail in H. cbv zeta in H.
  destruct (after_first_line oldc) as [|b rest'].
  all: repeat match type of H with
         | context [match terr ?f ?k ?s with _ => _ end] =>
             let E := fresh "E" in let e := fresh "e" in destruct (terr f k s) as [e|] eqn:E
         end.
  all: repeat match type of H with
         | context [match ?e with EIO => _ | _ => _ end] => destruct e
         end.
  all: try discriminate.
  all: (eapply wfail_tmp_same; [exact Hn|exact Hfresh| |  |exact H]; [quiet_from_terr|]).
  all: first [ solve [linv_solve]
             | destruct rv;
               [ solve [linv_solve]
               | exfalso; apply Hren; [reflexivity|]; do 2 eexists;
                 eapply wfail_tmp_ev_in; [exact H|]; cbn [t_ev bump emit setdir wput In];
                 left; reflexivity ] ].
Qed.

Lemma mkdir_Linv d fname rv d1 d2 K :
  fname <> tmp_name -> Lfr d fname rv d1 -> dlookup tmp_name d1 = dlookup tmp_name d ->
  (d2 = d1 \/ (dlookup tmp_name d1 = None /\ d2 = dset tmp_name (Dir []) d1)) ->
  dlookup tmp_name d2 = Some (Dir K) ->
  Linv d fname rv (fun _ => True) d2.
Proof.
  intros Hn F Ht [->|[Hnone ->]] HK.
  - split; [exact F|]. split.
    + intros c Hc. congruence.
    + exists K. split; [exact HK|]. intros t' _. unfold tmp_kids. now rewrite <- Ht, HK.
  - split; [now apply Lfr_dset_tmp|]. split.
    + intros c Hc. congruence.
    + exists K. split; [exact HK|]. intros t' _. unfold tmp_kids. rewrite <- Ht, Hnone.
      rewrite dlookup_dset_eq in HK. injection HK as <-. reflexivity.
Qed.

Lemma Lfr_refl d fname : Lfr d fname false d.
Proof. split; auto. Qed.

Lemma Lfr_reserve d fname :
  dlookup fname d = None -> Lfr d fname true (dset fname (File []) d).
Proof.
  intros H. split.
  - intros f _ Hf. apply dlookup_dset_ne. congruence.
  - split; [exact H|]. eexists. apply dlookup_dset_eq.
Qed.

(* C15 for writeHashStr under a single injected fault *)
Lemma p_write_hash_err ft c h hs fname rv o s s' :
  fname <> tmp_name -> alookup (o_tmp o) (tmp_kids (t_dir s)) = None ->
  (rv = true -> no_tmp_file (t_dir s)) ->
  (rv = false -> exists oldc, dlookup fname (t_dir s) = Some (File oldc)) ->
  p_write_hash (Some ft) c h hs fname rv o s = (RErr, s') ->
  (rv = false -> ~ exists a b, In (ERename a b) (t_ev s')) ->
  same_store (t_dir s) (t_dir s').
Proof.
  intros Hn Hfresh Hnf Hold. rewrite p_write_hash_eq. unfold wh_open.
  destruct (terr (Some ft) KOpen s) as [e0|] eqn:E0.
  { intros H _. injection H as <-. apply same_store_refl. }
  destruct rv.
  - specialize (Hnf eq_refl). clear Hold.
    destruct (dlookup fname (t_dir s)) as [[x|k]|] eqn:El;
      try (intros H _; injection H as <-; apply same_store_refl).
    destruct (p_mkdir_tmp _ _) as [b s2] eqn:Em.
    apply p_mkdir_tmp_spec in Em as (Hd & Ht & Hf). cbn [t_dir t_ev emit setdir bump] in Hd, Hf.
    assert (F : Lfr (t_dir s) fname true (dset fname (File []) (t_dir s))) by now apply Lfr_reserve.
    assert (Htmp : dlookup tmp_name (dset fname (File []) (t_dir s)) = dlookup tmp_name (t_dir s))
      by (apply dlookup_dset_ne; exact Hn).
    destruct b; cbn [negb].
    + destruct (Ht eq_refl) as [K HK].
      assert (L : Linv (t_dir s) fname true (fun _ => True) (t_dir s2)).
      { eapply mkdir_Linv; [exact Hn|exact F|exact Htmp| |exact HK].
        destruct Hd as [[Hd _]|(Hd1 & Hd2 & _)]; [left|right]; auto. }
      destruct (terr (Some ft) KOpen s2) as [e3|] eqn:E3.
      * intros H _. eapply wfail_same; [exact Hn| | |exact H].
        -- quiet_from_terr.
        -- cbn [t_dir bump]. now apply Linv_loose.
      * intros H Hr. eapply wh_tail_err; [exact Hn|exact Hfresh| |exact H|exact Hr].
        unfold wh_create. cbn [t_dir bump emit setdir]. now apply Linv_create.
    + destruct (Hf eq_refl) as [[c0 Hc]|Q].
      * rewrite Htmp in Hc. destruct (Hnf c0 Hc).
      * intros H _. eapply wfail_same; [exact Hn|exact Q| |exact H].
        destruct Hd as [[Hd _]|(_ & _ & _ & Hd)]; [|discriminate].
        rewrite Hd. split; [exact F|]. split; [exact Hnf|].
        intros t'. now rewrite tmp_kids_dset_ne.
  - clear Hnf. destruct (Hold eq_refl) as [oldc Hl]. rewrite Hl.
    destruct (p_mkdir_tmp _ _) as [b s2] eqn:Em.
    apply p_mkdir_tmp_spec in Em as (Hd & Ht & Hf). cbn [t_dir t_ev emit setdir bump] in Hd, Hf.
    destruct b; cbn [negb].
    + destruct (Ht eq_refl) as [K HK].
      assert (L : Linv (t_dir s) fname false (fun _ => True) (t_dir s2)).
      { eapply mkdir_Linv; [exact Hn|apply Lfr_refl|reflexivity| |exact HK].
        destruct Hd as [[Hd _]|(Hd1 & Hd2 & _)]; [left|right]; auto. }
      destruct (terr (Some ft) KOpen s2) as [e3|] eqn:E3.
      * intros H _. eapply wfail_same; [exact Hn| | |exact H].
        -- quiet_from_terr.
        -- cbn [t_dir bump]. now apply Linv_loose.
      * intros H Hr. eapply wh_tail_err; [exact Hn|exact Hfresh| |exact H|exact Hr].
        unfold wh_create. cbn [t_dir bump emit setdir]. now apply Linv_create.
    + intros H _. unfold wfail in H. injection H as <-.
      destruct Hd as [[Hd _]|(_ & _ & _ & Hd)]; [|discriminate].
      rewrite Hd. apply same_store_refl.
Qed.

(* ------------------------------------------------------------------ *)
(* the successful run of writeHashStr *)
Definition tail_dir (t fname line rest : bytes) (d3 : dirst) : dirst :=
  let d4 := put_d t line d3 in
  let d8 := match rest with [] => d4 | _ => put_d t rest d4 end in
  ren_d t fname d8.

Lemma ren_d_absent t fname d kids :
  fname <> tmp_name -> tmp_children (ren_d t fname d) = Some kids -> alookup t kids = None.
Proof.
  intros Hn. unfold ren_d. rewrite tmp_children_dset_ne by exact Hn.
  rewrite tmp_children_dset_tmp. intros H. injection H as <-. apply alookup_aremove_eq.
Qed.

Lemma wfail_tmp_not_ok f fname rv t sx s' : wfail_tmp f fname rv t sx <> (ROk, s').
Proof. unfold wfail_tmp, wfail. destruct rv; discriminate. Qed.

Lemma wfail_not_ok f fname rv sx s' : wfail f fname rv sx <> (ROk, s').
Proof. unfold wfail. destruct rv; discriminate. Qed.

Lemma wh_tail_ok f c h hs fname rv o old s3 s' :
  fname <> tmp_name ->
  wh_tail f c h hs fname rv o old s3 = (ROk, s') ->
  exists oldc, old = Some oldc /\
    t_dir s' = tail_dir (o_tmp o) fname (print_record h (o_ts o) (default c) hs)
                        (after_first_line oldc) (t_dir s3).
Proof.
  intros Hn H. unfold wh_tail in H. cbv zeta in H.
  destruct old as [oldc|].
  2:{ repeat match type of H with
         | context [match terr ?f ?k ?s with _ => _ end] =>
             let E := fresh "E" in let e := fresh "e" in destruct (terr f k s) as [e|] eqn:E
         end; destruct (wfail_tmp_not_ok _ _ _ _ _ _ H). }
  exists oldc. split; [reflexivity|]. unfold tail_dir.
  destruct (after_first_line oldc) as [|b rest'].
  all: repeat match type of H with
         | context [match terr ?f ?k ?s with _ => _ end] =>
             let E := fresh "E" in let e := fresh "e" in destruct (terr f k s) as [e|] eqn:E
         end.
  all: repeat match type of H with
         | context [match ?e with EIO => _ | _ => _ end] => destruct e
         end.
  all: try (destruct (wfail_tmp_not_ok _ _ _ _ _ _ H)).
  all: injection H as <-.
  all: rewrite p_remove_tmp_absent; [reflexivity|].
  all: cbn [t_dir bump emit setdir wput]; intros kids; now apply ren_d_absent.
Qed.

Lemma wh_tail_none_ok c h hs fname rv o oldc s3 :
  fst (wh_tail None c h hs fname rv o (Some oldc) s3) = ROk.
Proof. unfold wh_tail. cbn [terr]. destruct (after_first_line oldc); reflexivity. Qed.

Lemma wh_tail_none_dir c h hs fname rv o s3 :
  wh_tail None c h hs fname rv o None s3 =
  wfail_tmp None fname rv (o_tmp o)
            (bump KRead (wput (o_tmp o) (print_record h (o_ts o) (default c) hs) (bump KWrite s3))).
Proof. reflexivity. Qed.

Lemma p_mkdir_tmp_none s :
  p_mkdir_tmp None s =
  match dlookup tmp_name (t_dir s) with
  | Some (Dir _) => (true, bump KStat s)
  | Some (File _) => (false, bump KStat s)
  | None => (true, emit (EMkdir LTmpDir)
                        (setdir (dset tmp_name (Dir []) (t_dir s))
                                (bump KMkdir (bump KStat (bump KStat s)))))
  end.
Proof.
  unfold p_mkdir_tmp. repeat (rewrite tick_eq; cbv beta iota zeta). cbn [terr t_dir bump].
  destruct (dlookup tmp_name (t_dir s)) as [[x|k]|]; reflexivity.
Qed.

Lemma p_mkdir_tmp_sim f s1 s2 sn1 :
  p_mkdir_tmp f s1 = (true, s2) -> t_dir sn1 = t_dir s1 ->
  exists sn2, p_mkdir_tmp None sn1 = (true, sn2) /\ t_dir sn2 = t_dir s2.
Proof.
  intros H Hsn. apply p_mkdir_tmp_spec in H as (Hd & Ht & _).
  destruct (Ht eq_refl) as [K HK]. rewrite p_mkdir_tmp_none, Hsn.
  destruct Hd as [[Hd _]|(Hd1 & Hd2 & _)].
  - rewrite Hd in HK. rewrite HK. eexists. split; [reflexivity|]. cbn [t_dir bump]. congruence.
  - rewrite Hd1. eexists. split; [reflexivity|]. cbn [t_dir bump emit setdir]. congruence.
Qed.

Lemma wh_create_dir t s s0 : t_dir s0 = t_dir s -> t_dir (wh_create t s0) = t_dir (wh_create t s).
Proof. intros H. unfold wh_create. cbn [t_dir emit setdir]. now rewrite H. Qed.

(* a fault that lets writeHashStr succeed: same directory as the run without fault *)
Lemma p_write_hash_ok_sim f c h hs fname rv o s s' sn :
  fname <> tmp_name -> t_dir sn = t_dir s ->
  p_write_hash f c h hs fname rv o s = (ROk, s') ->
  exists s0, p_write_hash None c h hs fname rv o sn = (ROk, s0) /\ t_dir s0 = t_dir s'.
Proof.
  intros Hn Hsn. rewrite !p_write_hash_eq. unfold wh_open. cbn [terr]. rewrite Hsn.
  destruct (terr f KOpen s) as [e0|]; [discriminate|].
  assert (G : forall s1 sn1 old, t_dir sn1 = t_dir s1 ->
    (let (okdir, s2) := p_mkdir_tmp f s1 in
      if negb okdir then wfail f fname rv s2
      else match terr f KOpen s2 with
           | Some _ => wfail f fname rv (bump KOpen s2)
           | None => wh_tail f c h hs fname rv o old (wh_create (o_tmp o) (bump KOpen s2))
           end) = (ROk, s') ->
    exists s0,
      (let (okdir, s2) := p_mkdir_tmp None sn1 in
       if negb okdir then wfail None fname rv s2
       else wh_tail None c h hs fname rv o old (wh_create (o_tmp o) (bump KOpen s2))) = (ROk, s0)
      /\ t_dir s0 = t_dir s').
  { intros s1 sn1 old H1. destruct (p_mkdir_tmp f s1) as [b s2] eqn:Em.
    destruct b; cbn [negb]; [|intros H; destruct (wfail_not_ok _ _ _ _ _ H)].
    destruct (p_mkdir_tmp_sim _ _ _ _ Em H1) as (sn2 & Emn & Hd2). rewrite Emn. cbn [negb].
    destruct (terr f KOpen s2) as [e3|]; [intros H; destruct (wfail_not_ok _ _ _ _ _ H)|].
    intros H. apply wh_tail_ok in H as (oldc & -> & Hd'); [|exact Hn].
    destruct (wh_tail None c h hs fname rv o (Some oldc) (wh_create (o_tmp o) (bump KOpen sn2)))
      as [r0 s0] eqn:Et.
    pose proof (wh_tail_none_ok c h hs fname rv o oldc (wh_create (o_tmp o) (bump KOpen sn2))) as Hr.
    rewrite Et in Hr. cbn [fst] in Hr. subst r0.
    exists s0. split; [reflexivity|].
    apply wh_tail_ok in Et as (oldc' & Ho & Hd0); [|exact Hn]. injection Ho as <-.
    rewrite Hd0, Hd'. f_equal. apply wh_create_dir. cbn [t_dir bump]. exact Hd2. }
  destruct (dlookup fname (t_dir s)) as [[x|k]|]; destruct rv; try discriminate;
    apply G; cbn [t_dir bump emit setdir]; congruence.
Qed.

(* same_store facts for the run without fault *)
Lemma ss_dremove_dset fname v d :
  fname <> tmp_name -> dlookup fname d = None -> same_store d (dremove fname (dset fname v d)).
Proof.
  intros Hn Hl. split; [|split].
  - intros f Hf. destruct (list_eq_dec N.eq_dec f fname) as [->|Hne].
    + now rewrite dlookup_dremove_eq.
    + rewrite dlookup_dremove_ne, dlookup_dset_ne by congruence. reflexivity.
  - intros t. now rewrite tmp_kids_dremove_ne, tmp_kids_dset_ne.
  - intros c Hc. rewrite dlookup_dremove_ne, dlookup_dset_ne by congruence. exact Hc.
Qed.

Lemma tail_dir_same t fname line rest d2 K :
  fname <> tmp_name -> dlookup tmp_name d2 = Some (Dir K) -> alookup t K = None ->
  same_store (dset fname (File (line ++ rest)) d2)
             (tail_dir t fname line rest (dset tmp_name (Dir (aset t [] K)) d2)).
Proof.
  intros Hn HK Hfresh.
  assert (E : forall t' (v : bytes) m, t' <> t -> alookup t' (aset t v m) = alookup t' m).
  { intros t' v m Hne. apply alookup_aset_ne. congruence. }
  destruct rest as [|b rest]; [rewrite app_nil_r|];
  cbv beta zeta delta [tail_dir put_d ren_d]; cbv beta iota;
  repeat (progress (rewrite ?tmp_children_dset_tmp, ?alookup_aset_eq; cbv beta iota)); cbn [app].
  all: split; [|split].
  all: try (intros f Hf; destruct (list_eq_dec N.eq_dec f fname) as [->|Hne];
            [ now rewrite !dlookup_dset_eq | now rewrite !dlookup_dset_ne by congruence ]).
  all: try (intros c Hc; rewrite dlookup_dset_ne in Hc by exact Hn; congruence).
  all: intros t'; rewrite !(tmp_kids_dset_ne fname) by exact Hn; rewrite tmp_kids_dset_tmp;
       unfold tmp_kids; rewrite HK;
       destruct (list_eq_dec N.eq_dec t' t) as [->|Hne];
       [ now rewrite alookup_aremove_eq
       | rewrite alookup_aremove_ne by congruence; now rewrite !E ].
Qed.

(* ------------------------------------------------------------------ *)
(* footprint of writeHashStr: only <fname>, the work area, the base directory *)
Definition loc_local (fname : bytes) (l : loc) : Prop :=
  match l with LFile f => f = fname | _ => True end.

Definition ev_local (fname : bytes) (e : event) : Prop :=
  match e with
  | ECreate l | EMkdir l | EWrite l _ | EFsync l | EUnlink l => loc_local fname l
  | ERename a b => loc_local fname a /\ loc_local fname b
  end.

Ltac ev_solve HP :=
  repeat first
    [ assumption
    | apply p_remove_ev_forall; [apply HP; cbn; auto|]
    | apply Forall_cons; [apply HP; cbn; auto|]
    | progress cbn [t_ev bump emit setdir wput wh_create snd] ].

Lemma p_mkdir_tmp_ev (P : event -> Prop) f s :
  P (EMkdir LTmpDir) -> Forall P (t_ev s) -> Forall P (t_ev (snd (p_mkdir_tmp f s))).
Proof.
  intros HP H. destruct (p_mkdir_tmp f s) as [b s2] eqn:Em. cbn [snd].
  apply p_mkdir_tmp_spec in Em as ([[_ Hev]|(_ & _ & Hev & _)] & _); rewrite Hev; auto.
Qed.

Lemma wfail_ev (P : event -> Prop) f fname rv sx :
  (forall e, ev_local fname e -> P e) -> Forall P (t_ev sx) ->
  Forall P (t_ev (snd (wfail f fname rv sx))).
Proof. intros HP H. unfold wfail. destruct rv; ev_solve HP. Qed.

Lemma wfail_tmp_ev (P : event -> Prop) f fname rv t sx :
  (forall e, ev_local fname e -> P e) -> Forall P (t_ev sx) ->
  Forall P (t_ev (snd (wfail_tmp f fname rv t sx))).
Proof. intros HP H. unfold wfail_tmp. apply wfail_ev; [exact HP|]. ev_solve HP. Qed.

Lemma wh_tail_ev (P : event -> Prop) f c h hs fname rv o old s3 :
  (forall e, ev_local fname e -> P e) -> Forall P (t_ev s3) ->
  Forall P (t_ev (snd (wh_tail f c h hs fname rv o old s3))).
Proof.
  intros HP H. unfold wh_tail. cbv zeta.
  destruct old as [oldc|]; [destruct (after_first_line oldc) as [|b rest']|].
  all: repeat match goal with
         | |- context [match terr ?f ?k ?s with _ => _ end] =>
             let E := fresh "E" in let e := fresh "e" in destruct (terr f k s) as [e|] eqn:E
         end.
  all: repeat match goal with
         | |- context [match ?e with EIO => _ | _ => _ end] => destruct e
         end.
  all: cbv iota.
  all: try (apply wfail_tmp_ev; [exact HP|]).
  all: ev_solve HP.
Qed.

Lemma p_write_hash_ev (P : event -> Prop) f c h hs fname rv o s :
  (forall e, ev_local fname e -> P e) -> Forall P (t_ev s) ->
  Forall P (t_ev (snd (p_write_hash f c h hs fname rv o s))).
Proof.
  intros HP H. rewrite p_write_hash_eq. unfold wh_open.
  destruct (terr f KOpen s) as [e0|]; [ev_solve HP|].
  assert (G : forall s1 old, Forall P (t_ev s1) ->
    Forall P (t_ev (snd
      (let (okdir, s2) := p_mkdir_tmp f s1 in
       if negb okdir then wfail f fname rv s2
       else match terr f KOpen s2 with
            | Some _ => wfail f fname rv (bump KOpen s2)
            | None => wh_tail f c h hs fname rv o old (wh_create (o_tmp o) (bump KOpen s2))
            end)))).
  { intros s1 old H1.
    pose proof (p_mkdir_tmp_ev P f s1 (HP (EMkdir LTmpDir) I) H1) as H2.
    destruct (p_mkdir_tmp f s1) as [b s2]. cbn [snd] in H2.
    destruct b; cbn [negb]; [|now apply wfail_ev].
    destruct (terr f KOpen s2) as [e3|]; [apply wfail_ev; [exact HP|]; ev_solve HP|].
    apply wh_tail_ev; [exact HP|]. ev_solve HP. }
  destruct (dlookup fname (t_dir s)) as [[x|k]|]; destruct rv; try (ev_solve HP; fail);
    apply G; ev_solve HP.
Qed.

Section Programs.
  Variable kdf : hasher -> bytes -> bytes -> option bytes.

  (* writeHashStr without fault against the model's write_hash *)
  Lemma p_write_hash_nofault c h hs u pw admin rv o s :
    cfg_hasher c (default c) = Some h ->
    hash_generate kdf h (o_salt o) pw = Some hs ->
    u ++ ext_of admin <> tmp_name ->
    alookup (o_tmp o) (tmp_kids (t_dir s)) = None ->
    let '(r, s') := p_write_hash None c h hs (u ++ ext_of admin) rv o s in
    let '(d', r') := write_hash kdf c (t_dir s) u pw admin rv o in
    r = r' /\ same_store d' (t_dir s').
  Proof.
    intros Hh Hg Hn Hfresh. unfold write_hash. rewrite Hh, Hg.
    rewrite p_write_hash_eq. unfold wh_open. cbn [terr].
    set (fname := u ++ ext_of admin) in *. set (d := t_dir s) in *.
    set (line := print_record h (o_ts o) (default c) hs).
    assert (TOK : forall d2 K sx oldc,
      t_dir sx = d2 -> dlookup tmp_name d2 = Some (Dir K) -> alookup (o_tmp o) K = None ->
      let '(r, s') := wh_tail None c h hs fname rv o (Some oldc) (wh_create (o_tmp o) (bump KOpen sx)) in
      r = ROk /\ same_store (dset fname (File (line ++ after_first_line oldc)) d2) (t_dir s')).
    { intros d2 K sx oldc Hsx HK HKf.
      destruct (wh_tail None c h hs fname rv o (Some oldc) (wh_create (o_tmp o) (bump KOpen sx)))
        as [r s'] eqn:Et.
      pose proof (wh_tail_none_ok c h hs fname rv o oldc (wh_create (o_tmp o) (bump KOpen sx))) as Hr.
      rewrite Et in Hr. cbn [fst] in Hr. subst r. split; [reflexivity|].
      apply wh_tail_ok in Et as (oldc' & Ho & Hd'); [|exact Hn]. injection Ho as <-.
      rewrite Hd'. unfold wh_create. cbn [t_dir bump emit setdir]. rewrite Hsx.
      unfold tmp_children. rewrite HK. now apply tail_dir_same. }
    assert (TERR : forall d2 K sx,
      t_dir sx = d2 -> dlookup tmp_name d2 = Some (Dir K) -> alookup (o_tmp o) K = None ->
      let '(r, s') := wh_tail None c h hs fname false o None (wh_create (o_tmp o) (bump KOpen sx)) in
      r = RErr /\ same_store d2 (t_dir s')).
    { intros d2 K sx Hsx HK HKf. rewrite wh_tail_none_dir.
      destruct (wfail_tmp None fname false (o_tmp o) _) as [r s'] eqn:Et.
      split; [unfold wfail_tmp, wfail in Et; now injection Et as <- _|].
      eapply (wfail_tmp_same None); [exact Hn| |exact I| |exact Et].
      - unfold tmp_kids. rewrite HK. exact HKf.
      - cbn [t_dir bump wput emit setdir]. apply Linv_put; [exact Hn|].
        unfold wh_create. cbn [t_dir bump emit setdir]. rewrite Hsx.
        apply Linv_create; [exact Hn|].
        split; [apply Lfr_refl|]. split; [intros x Hx; congruence|].
        exists K. split; [exact HK|]. intros t' _. unfold tmp_kids. now rewrite HK. }
    assert (Hkids : forall K, dlookup tmp_name d = Some (Dir K) -> alookup (o_tmp o) K = None).
    { intros K HK. unfold tmp_kids in Hfresh. now rewrite HK in Hfresh. }
    destruct (dlookup fname d) as [[old|k]|] eqn:El; destruct rv;
      try (split; [reflexivity|apply same_store_refl]).
    - (* update of an existing regular file *)
      rewrite p_mkdir_tmp_none. cbn [t_dir bump]. fold d.
      destruct (dlookup tmp_name d) as [[x|K]|] eqn:Et; cbn [negb terr].
      + unfold wfail. split; [reflexivity|apply same_store_refl].
      + apply (TOK d K); [reflexivity|exact Et|now apply Hkids].
      + apply (TOK (dset tmp_name (Dir []) d) []); [reflexivity|apply dlookup_dset_eq|reflexivity].
    - (* a directory under the file's name *)
      rewrite p_mkdir_tmp_none. cbn [t_dir bump]. fold d.
      destruct (dlookup tmp_name d) as [[x|K]|] eqn:Et; cbn [negb terr].
      + unfold wfail. split; [reflexivity|apply same_store_refl].
      + apply (TERR d K); [reflexivity|exact Et|now apply Hkids].
      + apply (TERR (dset tmp_name (Dir []) d) []); [reflexivity|apply dlookup_dset_eq|reflexivity].
    - (* creation *)
      rewrite p_mkdir_tmp_none. cbn [t_dir bump emit setdir]. fold d.
      assert (Htmp : dlookup tmp_name (dset fname (File []) d) = dlookup tmp_name d)
        by (apply dlookup_dset_ne; exact Hn).
      destruct (dlookup tmp_name (dset fname (File []) d)) as [[x|K]|] eqn:Et; cbn [negb terr].
      + unfold wfail. split; [reflexivity|].
        rewrite p_remove_quiet_file by exact I. cbn [t_dir bump emit setdir].
        unfold unlink. rewrite dlookup_dset_eq. now apply ss_dremove_dset.
      + apply (TOK (dset fname (File []) d) K); [reflexivity|exact Et|].
        apply Hkids. congruence.
      + apply (TOK (dset tmp_name (Dir []) (dset fname (File []) d)) []);
          [reflexivity|apply dlookup_dset_eq|reflexivity].
  Qed.

  (* ---------------- no fault: the programs compute the big-step result ---------------- *)
  Theorem nofault_add c d u pw adm o :
    tmp_name_fresh d o ->
    let '(r, s) := p_add kdf None c d u pw adm o in
    let '(d', r') := add_user kdf c d u pw adm o in
    r = r' /\ same_store d' (t_dir s).
  Proof.
    intros Hfresh. unfold p_add, add_user.
    destruct (valid_name u) eqn:Hv; cbn [negb]; [|split; [reflexivity|apply same_store_refl]].
    destruct (p_exists None u (t0 d)) as [ex s1] eqn:Ex.
    apply p_exists_spec in Ex as (Hd & _ & _ & Hq). specialize (Hq I). cbn [t_dir t0] in Hd, Hq.
    subst ex.
    destruct (user_exists d u) eqn:Hex;
      try (rewrite Hd; split; [reflexivity|apply same_store_refl]).
    destruct (cfg_hasher c (default c)) as [h|] eqn:Hh.
    2:{ unfold write_hash. rewrite Hh, Hd. split; [reflexivity|apply same_store_refl]. }
    destruct (hash_generate kdf h (o_salt o) pw) as [hs|] eqn:Hg.
    2:{ unfold write_hash. rewrite Hh, Hg, Hd. split; [reflexivity|apply same_store_refl]. }
    pose proof (p_write_hash_nofault c h hs u pw adm true o s1 Hh Hg) as H.
    rewrite Hd in H. apply H; [now apply valid_not_tmp|exact Hfresh].
  Qed.

  Theorem nofault_update c d u pw o :
    tmp_name_fresh d o ->
    let '(r, s) := p_update kdf None c d u pw o in
    let '(d', r') := update_user kdf c d u pw o in
    r = r' /\ same_store d' (t_dir s).
  Proof.
    intros Hfresh. unfold p_update, update_user.
    destruct (valid_name u) eqn:Hv; cbn [negb]; [|split; [reflexivity|apply same_store_refl]].
    destruct (p_exists None u (t0 d)) as [ex s1] eqn:Ex.
    apply p_exists_spec in Ex as (Hd & _ & _ & Hq). specialize (Hq I). cbn [t_dir t0] in Hd, Hq.
    subst ex.
    destruct (user_exists d u) as [admin| |] eqn:Hex;
      try (rewrite Hd; split; [reflexivity|apply same_store_refl]).
    rewrite tick_eq. cbv beta iota. cbn [terr]. rewrite tick_eq. cbv beta iota. cbn [terr t_dir bump].
    rewrite Hd.
    destruct (read_file d (u ++ ext_of admin)) as [content|] eqn:Er;
      [|split; [reflexivity|cbn [t_dir bump]; rewrite Hd; apply same_store_refl]].
    destruct (is_supported c content);
      [|split; [reflexivity|cbn [t_dir bump]; rewrite Hd; apply same_store_refl]].
    destruct (cfg_hasher c (default c)) as [h|] eqn:Hh.
    2:{ unfold write_hash. rewrite Hh. split; [reflexivity|cbn [t_dir bump]; rewrite Hd; apply same_store_refl]. }
    destruct (hash_generate kdf h (o_salt o) pw) as [hs|] eqn:Hg.
    2:{ unfold write_hash. rewrite Hh, Hg. split; [reflexivity|cbn [t_dir bump]; rewrite Hd; apply same_store_refl]. }
    pose proof (p_write_hash_nofault c h hs u pw admin false o (bump KRead (bump KOpen s1)) Hh Hg) as H.
    cbn [t_dir bump] in H. rewrite Hd in H. apply H; [now apply valid_not_tmp|exact Hfresh].
  Qed.

  Theorem nofault_set_admin d u adm :
    let '(r, s) := p_set_admin None d u adm in
    let '(d', r') := set_admin d u adm in
    r = r' /\ t_dir s = d'.
  Proof.
    unfold p_set_admin, set_admin.
    destruct (valid_name u) eqn:Hv; cbn [negb]; [|split; reflexivity].
    destruct (p_exists None u (t0 d)) as [ex s1] eqn:Ex.
    apply p_exists_spec in Ex as (Hd & _ & _ & Hq). specialize (Hq I). cbn [t_dir t0] in Hd, Hq.
    subst ex.
    destruct (user_exists d u) as [cur| |] eqn:Hex; try (split; [reflexivity|exact Hd]).
    destruct (Bool.eqb cur adm).
    { repeat (rewrite tick_eq; cbv beta iota). cbn [terr t_dir bump emit].
      split; [reflexivity|exact Hd]. }
    repeat (rewrite tick_eq; cbv beta iota). cbn [terr t_dir bump]. rewrite Hd.
    destruct (dlookup (u ++ ext_of cur) d) as [n|];
      [|split; [reflexivity|cbn [t_dir bump]; exact Hd]].
    destruct (name_max <? len (u ++ ext_of adm)); cbn [negb andb];
      [split; [reflexivity|cbn [t_dir bump]; exact Hd]|].
    match goal with |- context [if ?b then _ else _] => destruct b end.
    - repeat (rewrite tick_eq; cbv beta iota). cbn [terr t_dir bump emit setdir].
      split; reflexivity.
    - split; [reflexivity|cbn [t_dir bump]; exact Hd].
  Qed.

  Theorem nofault_remove d u :
    t_dir (p_remove_user None d u) = remove_user d u.
  Proof.
    unfold p_remove_user, remove_user.
    destruct (valid_name u); cbn [negb]; [|reflexivity].
    repeat (rewrite tick_eq; cbv beta iota). cbn [terr t_dir bump emit].
    rewrite !p_remove_quiet_file by exact I. reflexivity.
  Qed.

  (* ---------------- C15: every single injected fault ---------------- *)
  (* add: whatever call fails with whatever errno, a reported failure leaves
     the store exactly as it was (the reservation is given back, the temp
     file is removed) *)
  (* (.tmp being a regular file makes the operation fail by itself after the
     reservation; a second, injected failure of the clean-up unlink would
     then leave the reservation - two failures, excluded here) *)
  Theorem faulty_add_unchanged ft c d u pw adm o s :
    tmp_name_fresh d o -> (forall x, dlookup tmp_name d <> Some (File x)) ->
    p_add kdf (Some ft) c d u pw adm o = (RErr, s) ->
    same_store d (t_dir s).
  Proof.
    intros Hfresh Hnf. unfold p_add.
    destruct (valid_name u) eqn:Hv; cbn [negb];
      [|intros H; injection H as <-; apply same_store_refl].
    destruct (p_exists (Some ft) u (t0 d)) as [ex s1] eqn:Ex.
    apply p_exists_spec in Ex as (Hd & _ & _ & _). cbn [t_dir t0] in Hd.
    assert (Hs1 : forall s, (RErr, s1) = (RErr, s) -> same_store d (t_dir s)).
    { intros s0 H. injection H as <-. rewrite Hd. apply same_store_refl. }
    destruct ex; try exact (Hs1 s).
    destruct (cfg_hasher c (default c)) as [h|]; [|exact (Hs1 s)].
    destruct (hash_generate kdf h (o_salt o) pw) as [hs|]; [|exact (Hs1 s)].
    intros H. rewrite <- Hd.
    eapply p_write_hash_err; [| | | |exact H|].
    - now apply valid_not_tmp.
    - rewrite Hd. exact Hfresh.
    - intros _. rewrite Hd. exact Hnf.
    - discriminate.
    - discriminate.
  Qed.

  (* update: a reported failure leaves the store as it was unless the rename
     had already been performed (fault in the open / fsync of the base
     directory that follows it) *)
  Theorem faulty_update_unchanged ft c d u pw o s :
    tmp_name_fresh d o ->
    p_update kdf (Some ft) c d u pw o = (RErr, s) ->
    ~ has_rename (events s) ->
    same_store d (t_dir s).
  Proof.
    intros Hfresh. unfold p_update.
    destruct (valid_name u) eqn:Hv; cbn [negb];
      [|intros H _; injection H as <-; apply same_store_refl].
    destruct (p_exists (Some ft) u (t0 d)) as [ex s1] eqn:Ex.
    apply p_exists_spec in Ex as (Hd & _ & _ & _). cbn [t_dir t0] in Hd.
    assert (Hs1 : forall sx s, t_dir sx = d -> (RErr, sx) = (RErr, s) -> same_store d (t_dir s)).
    { intros sx s0 Hx H. injection H as <-. rewrite Hx. apply same_store_refl. }
    destruct ex as [admin| |]; try (intros H _; exact (Hs1 s1 s Hd H)).
    rewrite tick_eq. cbv beta iota.
    destruct (terr (Some ft) KOpen s1) as [e2|]; [intros H _; exact (Hs1 (bump KOpen s1) s Hd H)|].
    rewrite tick_eq. cbv beta iota. cbn [t_dir bump].
    assert (Hs3 : forall s, (RErr, bump KRead (bump KOpen s1)) = (RErr, s) -> same_store d (t_dir s)).
    { intros s0. apply Hs1. exact Hd. }
    destruct (terr (Some ft) KRead (bump KOpen s1)) as [e3|]; [intros H _; exact (Hs3 s H)|].
    unfold read_file. rewrite Hd.
    destruct (dlookup (u ++ ext_of admin) d) as [[content|k]|] eqn:El;
      try (intros H _; exact (Hs3 s H)).
    destruct (is_supported c content); [|intros H _; exact (Hs3 s H)].
    destruct (cfg_hasher c (default c)) as [h|]; [|intros H _; exact (Hs3 s H)].
    destruct (hash_generate kdf h (o_salt o) pw) as [hs|]; [|intros H _; exact (Hs3 s H)].
    intros H Hnr.
    assert (Hd3 : t_dir (bump KRead (bump KOpen s1)) = d) by exact Hd.
    rewrite <- Hd3.
    eapply p_write_hash_err; [| | | |exact H|].
    - now apply valid_not_tmp.
    - rewrite Hd3. exact Hfresh.
    - discriminate.
    - intros _. rewrite Hd3. eauto.
    - intros _ (a & b & Hin). apply Hnr. exists a, b. unfold events. now apply in_rev in Hin.
  Qed.

  (* the full statement is false for update: the witness *)
  Theorem faulty_update_after_rename_refuted :
    exists ft c d u pw o s,
      tmp_name_fresh d o /\
      p_update (fun _ _ p => Some (1 :: p)) (Some ft) c d u pw o = (RErr, s) /\
      ~ same_store d (t_dir s).
  Proof.
    pose (hh := HArgon 1 1 1 1).
    pose (cfg := {| params := [(1, hh)]; default := 1 |}).
    pose (usr := str "a").
    pose (content := print_record hh 0%Z 1 (url_enc [1] ++ [colon] ++ url_enc [1; 2])).
    pose (dir0 := [(usr ++ ext_user, File content)] : dirst).
    pose (orc := {| o_ts := 5%Z; o_salt := [3]; o_tmp := str "x"; o_order := [] |}).
    pose (flt := {| f_kind := KFsync; f_occ := 1%nat; f_errno := EIO |}).
    exists flt, cfg, dir0, usr, [7], orc.
    exists (snd (p_update (fun _ _ p => Some (1 :: p)) (Some flt) cfg dir0 usr [7] orc)).
    split; [reflexivity|]. split; [vm_compute; reflexivity|].
    intros [H _]. specialize (H (usr ++ ext_user)).
    assert (Hn : usr ++ ext_user <> tmp_name) by (vm_compute; discriminate).
    specialize (H Hn). vm_compute in H. discriminate.
  Qed.

  Theorem faulty_set_admin_unchanged ft d u adm s :
    p_set_admin (Some ft) d u adm = (RErr, s) ->
    ~ has_rename (events s) ->
    t_dir s = d.
  Proof.
    unfold p_set_admin.
    destruct (valid_name u) eqn:Hv; cbn [negb]; [|intros H _; now injection H as <-].
    destruct (p_exists (Some ft) u (t0 d)) as [ex s1] eqn:Ex.
    apply p_exists_spec in Ex as (Hd & _ & _ & _). cbn [t_dir t0] in Hd.
    destruct ex as [cur| |]; try (intros H _; now injection H as <-).
    destruct (Bool.eqb cur adm).
    { repeat (rewrite tick_eq; cbv beta iota).
      terr_cases; intros H _; try discriminate; injection H as <-; cbn [t_dir bump]; exact Hd. }
    repeat (rewrite tick_eq; cbv beta iota). cbn [t_dir bump].
    destruct (terr (Some ft) KRename (bump KStat s1)) as [e3|];
      [intros H _; now injection H as <-|].
    destruct (dlookup (u ++ ext_of cur) (t_dir s1)) as [n|];
      [|intros H _; now injection H as <-].
    match goal with |- context [if ?b then _ else _] => destruct b end;
      [|intros H _; now injection H as <-].
    repeat (rewrite tick_eq; cbv beta iota).
    terr_cases; intros H Hnr; try discriminate; injection H as <-;
      exfalso; apply Hnr; do 2 eexists; unfold events; apply in_rev; rewrite rev_involutive;
      cbn [t_ev bump emit setdir In]; left; reflexivity.
  Qed.

  (* a fault that does not make the operation fail does not change its effect *)
  Theorem faulty_add_success_same ft c d u pw adm o s :
    tmp_name_fresh d o ->
    p_add kdf (Some ft) c d u pw adm o = (ROk, s) ->
    exists s0, p_add kdf None c d u pw adm o = (ROk, s0) /\ same_store (t_dir s0) (t_dir s).
  Proof.
    intros _. unfold p_add.
    destruct (valid_name u) eqn:Hv; cbn [negb]; [|discriminate].
    destruct (p_exists (Some ft) u (t0 d)) as [ex s1] eqn:Ex.
    destruct (p_exists None u (t0 d)) as [exn sn1] eqn:Exn.
    apply p_exists_spec in Ex as (Hd & _ & Hex & _).
    apply p_exists_spec in Exn as (Hdn & _ & _ & Hq). specialize (Hq I). cbn [t_dir t0] in *.
    destruct ex; try discriminate.
    destruct Hex as [Hex|Hex]; [|discriminate]. rewrite <- Hex in Hq. subst exn.
    destruct (cfg_hasher c (default c)) as [h|]; [|discriminate].
    destruct (hash_generate kdf h (o_salt o) pw) as [hs|]; [|discriminate].
    intros H.
    eapply p_write_hash_ok_sim with (sn := sn1) in H; [| now apply valid_not_tmp | congruence].
    destruct H as (s0 & H0 & Hd0). exists s0. split; [exact H0|]. now apply same_store_eq.
  Qed.

  Theorem faulty_update_success_same ft c d u pw o s :
    tmp_name_fresh d o ->
    p_update kdf (Some ft) c d u pw o = (ROk, s) ->
    exists s0, p_update kdf None c d u pw o = (ROk, s0) /\ same_store (t_dir s0) (t_dir s).
  Proof.
    intros _. unfold p_update.
    destruct (valid_name u) eqn:Hv; cbn [negb]; [|discriminate].
    destruct (p_exists (Some ft) u (t0 d)) as [ex s1] eqn:Ex.
    destruct (p_exists None u (t0 d)) as [exn sn1] eqn:Exn.
    apply p_exists_spec in Ex as (Hd & _ & Hex & _).
    apply p_exists_spec in Exn as (Hdn & _ & _ & Hq). specialize (Hq I). cbn [t_dir t0] in *.
    destruct ex as [admin| |]; try discriminate.
    destruct Hex as [Hex|Hex]; [|discriminate]. rewrite <- Hex in Hq. subst exn.
    repeat (rewrite tick_eq; cbv beta iota). rewrite !terr_none_None. cbv beta iota. cbn [t_dir bump].
    destruct (terr (Some ft) KOpen s1) as [e2|]; [discriminate|].
    destruct (terr (Some ft) KRead (bump KOpen s1)) as [e3|]; [discriminate|].
    rewrite Hd, Hdn.
    destruct (read_file d (u ++ ext_of admin)) as [content|]; [|discriminate].
    destruct (is_supported c content); [|discriminate].
    destruct (cfg_hasher c (default c)) as [h|]; [|discriminate].
    destruct (hash_generate kdf h (o_salt o) pw) as [hs|]; [|discriminate].
    intros H.
    eapply p_write_hash_ok_sim with (sn := bump KRead (bump KOpen sn1)) in H;
      [| now apply valid_not_tmp | cbn [t_dir bump]; congruence].
    destruct H as (s0 & H0 & Hd0). exists s0. split; [exact H0|]. now apply same_store_eq.
  Qed.

  (* ---------------- C03: footprint ---------------- *)
  Definition loc_allowed (u : bytes) (l : loc) : Prop :=
    match l with
    | LFile f => f = u ++ ext_user \/ f = u ++ ext_admin
    | LTmpFile _ | LTmpDir | LBaseDir => True
    end.

  Definition event_allowed (u : bytes) (e : event) : Prop :=
    match e with
    | ECreate l | EMkdir l | EWrite l _ | EFsync l | EUnlink l => loc_allowed u l
    | ERename a b => loc_allowed u a /\ loc_allowed u b
    end.

  Lemma loc_local_allowed u b l : loc_local (u ++ ext_of b) l -> loc_allowed u l.
  Proof. destruct l; cbn; auto. intros ->. destruct b; cbn [ext_of]; auto. Qed.

  Lemma ev_local_allowed u b e : ev_local (u ++ ext_of b) e -> event_allowed u e.
  Proof.
    destruct e; cbn [ev_local event_allowed]; try apply loc_local_allowed.
    intros [H1 H2]. split; eapply loc_local_allowed; eauto.
  Qed.

  Lemma footprint_wrap u (s : tstate) :
    (valid_name u = false -> t_ev s = []) -> Forall (event_allowed u) (t_ev s) ->
    (events s <> [] -> valid_name u = true) /\ Forall (event_allowed u) (events s).
  Proof.
    intros H1 H2. unfold events. split.
    - intros Hne. destruct (valid_name u); [reflexivity|]. rewrite H1 in Hne by reflexivity.
      now destruct Hne.
    - now apply Forall_rev.
  Qed.

  (* whatever the arguments, the directory content and the injected fault,
     every mutation concerns <u>.user, <u>.admin, the work area or the base
     directory itself - and u is a valid name *)
  Theorem footprint_add ft c d u pw adm o :
    let s := snd (p_add kdf ft c d u pw adm o) in
    (events s <> [] -> valid_name u = true) /\ Forall (event_allowed u) (events s).
  Proof.
    cbv zeta. apply footprint_wrap; unfold p_add.
    - intros ->. reflexivity.
    - destruct (valid_name u); cbn [negb snd]; [|constructor].
      destruct (p_exists ft u (t0 d)) as [ex s1] eqn:Ex.
      apply p_exists_spec in Ex as (_ & Hev & _). cbn [t_ev t0] in Hev.
      assert (H1 : Forall (event_allowed u) (t_ev s1)) by (rewrite Hev; constructor).
      destruct ex; try exact H1.
      destruct (cfg_hasher c (default c)) as [h|]; [|exact H1].
      destruct (hash_generate kdf h (o_salt o) pw) as [hs|]; [|exact H1].
      apply p_write_hash_ev; [apply ev_local_allowed|exact H1].
  Qed.

  Theorem footprint_update ft c d u pw o :
    let s := snd (p_update kdf ft c d u pw o) in
    (events s <> [] -> valid_name u = true) /\ Forall (event_allowed u) (events s).
  Proof.
    cbv zeta. apply footprint_wrap; unfold p_update.
    - intros ->. reflexivity.
    - destruct (valid_name u); cbn [negb snd]; [|constructor].
      destruct (p_exists ft u (t0 d)) as [ex s1] eqn:Ex.
      apply p_exists_spec in Ex as (_ & Hev & _). cbn [t_ev t0] in Hev.
      assert (H1 : Forall (event_allowed u) (t_ev s1)) by (rewrite Hev; constructor).
      destruct ex as [admin| |]; try exact H1.
      repeat (rewrite tick_eq; cbv beta iota).
      destruct (terr ft KOpen s1) as [e2|]; [exact H1|].
      destruct (terr ft KRead (bump KOpen s1)) as [e3|]; [exact H1|].
      destruct (read_file _ _) as [content|]; [|exact H1].
      destruct (is_supported c content); [|exact H1].
      destruct (cfg_hasher c (default c)) as [h|]; [|exact H1].
      destruct (hash_generate kdf h (o_salt o) pw) as [hs|]; [|exact H1].
      apply p_write_hash_ev; [apply ev_local_allowed|exact H1].
  Qed.

  Theorem footprint_set_admin ft d u adm :
    let s := snd (p_set_admin ft d u adm) in
    (events s <> [] -> valid_name u = true) /\ Forall (event_allowed u) (events s).
  Proof.
    cbv zeta. apply footprint_wrap; unfold p_set_admin.
    - intros ->. reflexivity.
    - destruct (valid_name u); cbn [negb snd]; [|constructor].
      destruct (p_exists ft u (t0 d)) as [ex s1] eqn:Ex.
      apply p_exists_spec in Ex as (_ & Hev & _). cbn [t_ev t0] in Hev.
      assert (H1 : Forall (event_allowed u) (t_ev s1)) by (rewrite Hev; constructor).
      destruct ex as [cur| |]; try exact H1.
      destruct (Bool.eqb cur adm).
      { repeat (rewrite tick_eq; cbv beta iota).
        terr_cases; cbn [snd t_ev bump emit]; try exact H1.
        apply Forall_cons; [exact I|exact H1]. }
      repeat (rewrite tick_eq; cbv beta iota).
      destruct (terr ft KRename (bump KStat s1)) as [e3|]; [exact H1|].
      destruct (dlookup _ _) as [n|]; [|exact H1].
      match goal with |- context [if ?b then _ else _] => destruct b end; [|exact H1].
      repeat (rewrite tick_eq; cbv beta iota).
      assert (HP : forall e, ev_local (u ++ ext_of cur) e \/ ev_local (u ++ ext_of adm) e \/
                             e = ERename (LFile (u ++ ext_of cur)) (LFile (u ++ ext_of adm)) ->
                             event_allowed u e).
      { intros e [H|[H| ->]]; try (eapply ev_local_allowed; exact H).
        split; eapply loc_local_allowed; reflexivity. }
      terr_cases; cbn [snd t_ev bump emit setdir];
        repeat (apply Forall_cons; [apply HP; cbn; auto|]); exact H1.
  Qed.

  Theorem footprint_remove ft d u :
    let s := p_remove_user ft d u in
    (events s <> [] -> valid_name u = true) /\ Forall (event_allowed u) (events s).
  Proof.
    cbv zeta. apply footprint_wrap; unfold p_remove_user.
    - intros ->. reflexivity.
    - destruct (valid_name u); cbn [negb]; [|constructor].
      repeat (rewrite tick_eq; cbv beta iota).
      assert (H2 : Forall (event_allowed u)
                     (t_ev (p_remove ft (LFile (u ++ ext_user))
                                     (p_remove ft (LFile (u ++ ext_admin)) (t0 d))))).
      { apply p_remove_ev_forall; [cbn; auto|]. apply p_remove_ev_forall; [cbn; auto|]. constructor. }
      terr_cases; cbn [t_ev bump emit]; try exact H2.
      apply Forall_cons; [exact I|exact H2].
  Qed.

  (* an invalid name: no system call at all *)
  Theorem invalid_name_no_syscall ft c d u pw adm o :
    valid_name u = false ->
    p_add kdf ft c d u pw adm o = (RErr, t0 d) /\
    p_update kdf ft c d u pw o = (RErr, t0 d) /\
    p_set_admin ft d u adm = (RErr, t0 d) /\
    p_remove_user ft d u = t0 d.
  Proof.
    intros H. unfold p_add, p_update, p_set_admin, p_remove_user. rewrite H. cbn [negb].
    repeat split; reflexivity.
  Qed.
End Programs.
