(* StoreTrace_proofs.v — the system-call programs against the big-step
   model (no fault), under every single injected fault (C15), and their
   footprint (C03). *)
From Whawty Require Import Bytes Bytes_proofs Base64 Names Record Store StoreTrace.
From Coq Require Import ZifyN ZifyNat ZifyBool.
Open Scope N_scope.

(* equality of directories up to the work area: same entries under every
   name other than .tmp, and .tmp holds the same files (an absent .tmp and an
   empty one are not told apart: MkdirAll may have created it) *)
Definition tmp_kids (d : dirst) : list (bytes * bytes) :=
  match dlookup tmp_name d with Some (Dir k) => k | _ => [] end.

Definition same_store (d d' : dirst) : Prop :=
  (forall f, f <> tmp_name -> dlookup f d' = dlookup f d) /\
  (forall t, alookup t (tmp_kids d') = alookup t (tmp_kids d)) /\
  (forall c, dlookup tmp_name d = Some (File c) -> dlookup tmp_name d' = Some (File c)).

(* os.CreateTemp picks a name that does not exist in the work area *)
Definition tmp_name_fresh (d : dirst) (o : oracle) : Prop :=
  alookup (o_tmp o) (tmp_kids d) = None.

Definition has_rename (evs : list event) : Prop := exists a b, In (ERename a b) evs.

Section Programs.
  Variable kdf : hasher -> bytes -> bytes -> option bytes.

  (* ---------------- no fault: the programs compute the big-step result ---------------- *)
  Theorem nofault_add c d u pw adm o :
    tmp_name_fresh d o ->
    let '(r, s) := p_add kdf None c d u pw adm o in
    let '(d', r') := add_user kdf c d u pw adm o in
    r = r' /\ same_store d' (t_dir s).
  Admitted.

  Theorem nofault_update c d u pw o :
    tmp_name_fresh d o ->
    let '(r, s) := p_update kdf None c d u pw o in
    let '(d', r') := update_user kdf c d u pw o in
    r = r' /\ same_store d' (t_dir s).
  Admitted.

  Theorem nofault_set_admin d u adm :
    let '(r, s) := p_set_admin None d u adm in
    let '(d', r') := set_admin d u adm in
    r = r' /\ t_dir s = d'.
  Admitted.

  Theorem nofault_remove d u :
    t_dir (p_remove_user None d u) = remove_user d u.
  Admitted.

  (* ---------------- C15: every single injected fault ---------------- *)
  (* add: whatever call fails with whatever errno, a reported failure leaves
     the store exactly as it was (the reservation is given back, the temp
     file is removed) *)
  (* (.tmp being a regular file makes the operation fail by itself after the
     reservation; a second, injected failure of the clean-up unlink would
     then leave the reservation - two failures, excluded here) *)
  Theorem faulty_add_unchanged ft c d u pw adm o s :
    tmp_name_fresh d o -> (forall x, dlookup tmp_name d <> Some (File x)) ->
    p_add kdf (Some ft) c d u pw adm o = (RErr, s) ->
    same_store d (t_dir s).
  Admitted.

  (* update: a reported failure leaves the store as it was unless the rename
     had already been performed (fault in the open / fsync of the base
     directory that follows it) *)
  Theorem faulty_update_unchanged ft c d u pw o s :
    tmp_name_fresh d o ->
    p_update kdf (Some ft) c d u pw o = (RErr, s) ->
    ~ has_rename (events s) ->
    same_store d (t_dir s).
  Admitted.

  (* the full statement is false for update: the witness *)
  Theorem faulty_update_after_rename_refuted :
    exists ft c d u pw o s,
      tmp_name_fresh d o /\
      p_update (fun _ _ p => Some (1 :: p)) (Some ft) c d u pw o = (RErr, s) /\
      ~ same_store d (t_dir s).
  Admitted.

  Theorem faulty_set_admin_unchanged ft d u adm s :
    p_set_admin (Some ft) d u adm = (RErr, s) ->
    ~ has_rename (events s) ->
    t_dir s = d.
  Admitted.

  (* a fault that does not make the operation fail does not change its effect *)
  Theorem faulty_add_success_same ft c d u pw adm o s :
    tmp_name_fresh d o ->
    p_add kdf (Some ft) c d u pw adm o = (ROk, s) ->
    exists s0, p_add kdf None c d u pw adm o = (ROk, s0) /\ same_store (t_dir s0) (t_dir s).
  Admitted.

  Theorem faulty_update_success_same ft c d u pw o s :
    tmp_name_fresh d o ->
    p_update kdf (Some ft) c d u pw o = (ROk, s) ->
    exists s0, p_update kdf None c d u pw o = (ROk, s0) /\ same_store (t_dir s0) (t_dir s).
  Admitted.

  (* ---------------- C03: footprint ---------------- *)
  Definition loc_allowed (u : bytes) (l : loc) : Prop :=
    match l with
    | LFile f => f = u ++ ext_user \/ f = u ++ ext_admin
    | LTmpFile _ | LTmpDir | LBaseDir => True
    end.

  Definition event_allowed (u : bytes) (e : event) : Prop :=
    match e with
    | ECreate l | EMkdir l | EWrite l _ | EFsync l | EUnlink l => loc_allowed u l
    | ERename a b => loc_allowed u a /\ loc_allowed u b
    end.

  (* whatever the arguments, the directory content and the injected fault,
     every mutation concerns <u>.user, <u>.admin, the work area or the base
     directory itself - and u is a valid name *)
  Theorem footprint_add ft c d u pw adm o :
    let s := snd (p_add kdf ft c d u pw adm o) in
    (events s <> [] -> valid_name u = true) /\ Forall (event_allowed u) (events s).
  Admitted.

  Theorem footprint_update ft c d u pw o :
    let s := snd (p_update kdf ft c d u pw o) in
    (events s <> [] -> valid_name u = true) /\ Forall (event_allowed u) (events s).
  Admitted.

  Theorem footprint_set_admin ft d u adm :
    let s := snd (p_set_admin ft d u adm) in
    (events s <> [] -> valid_name u = true) /\ Forall (event_allowed u) (events s).
  Admitted.

  Theorem footprint_remove ft d u :
    let s := p_remove_user ft d u in
    (events s <> [] -> valid_name u = true) /\ Forall (event_allowed u) (events s).
  Admitted.

  (* an invalid name: no system call at all *)
  Theorem invalid_name_no_syscall ft c d u pw adm o :
    valid_name u = false ->
    p_add kdf ft c d u pw adm o = (RErr, t0 d) /\
    p_update kdf ft c d u pw o = (RErr, t0 d) /\
    p_set_admin ft d u adm = (RErr, t0 d) /\
    p_remove_user ft d u = t0 d.
  Admitted.
End Programs.
