(* Writers_proofs.v — two concurrent writer processes.  STATEMENTS ARE FIXED. *)
From Whawty Require Import Bytes Bytes_proofs Store StoreTrace Crash Crash_proofs CrashX_proofs Writers.
Require Import Lia.
Open Scope N_scope.


(* ================= auxiliaries ================= *)
Notation Tl d t := (elookup t (tmp_vol d)).
Notation Bl d g := (elookup g (base_vol d)).
Notation Il d i := (ilookup i (inodes d)).

Inductive xstep (f : bytes) (rv : bool) : xstate -> event -> xstate -> Prop :=
| S_reserve : rv = true -> xstep f rv (XRun (PStart false)) (ECreate (LFile f)) (XRun (PStart true))
| S_mkdir r : xstep f rv (XRun (PStart r)) (EMkdir LTmpDir) (XRun (PStart r))
| S_create t : xstep f rv (XRun (PStart rv)) (ECreate (LTmpFile t)) (XRun (PTmp t))
| S_write t data : xstep f rv (XRun (PTmp t)) (EWrite (LTmpFile t) data) (XRun (PTmp t))
| S_fsync1 t : xstep f rv (XRun (PTmp t)) (EFsync (LTmpFile t)) (XRun (PSynced t))
| S_fsync2 t : xstep f rv (XRun (PSynced t)) (EFsync (LTmpFile t)) (XRun (PSynced t))
| S_rename t : xstep f rv (XRun (PSynced t)) (ERename (LTmpFile t) (LFile f)) (XRun (PRenamed t))
| S_fsb1 t : xstep f rv (XRun (PRenamed t)) (EFsync LBaseDir) (XRun (PDone t))
| S_fsb2 t : xstep f rv (XRun (PDone t)) (EFsync LBaseDir) (XRun (PDone t))
| S_unl t : xstep f rv (XRun (PDone t)) (EUnlink (LTmpFile t)) (XRun (PDone t))
| A_unres : xstep f rv (XRun (PStart true)) (EUnlink (LFile f)) (XAbort false)
| A_tmp1 t : xstep f rv (XRun (PTmp t)) (EUnlink (LTmpFile t)) (XAbort rv)
| A_tmp2 t : xstep f rv (XRun (PSynced t)) (EUnlink (LTmpFile t)) (XAbort rv)
| A_ren t : rv = true -> xstep f rv (XRun (PRenamed t)) (EUnlink (LFile f)) (XAbort false)
| A_res : xstep f rv (XAbort true) (EUnlink (LFile f)) (XAbort false).

Ltac split_ifs' H :=
  repeat match type of H with
         | context [if ?b then _ else _] => destruct b eqn:?; try discriminate H
         end.
Ltac beq_subst' :=
  repeat match goal with
         | H : andb _ _ = true |- _ => apply andb_prop in H; destruct H
         end;
  repeat match goal with
         | H : beq _ _ = true |- _ => apply beq_eq in H; subst
         | H : Bool.eqb _ _ = true |- _ => apply Bool.eqb_prop in H; subst
         end.

Lemma proto_step_x_inv f rv x e x' : proto_step_x f rv x e = Some x' -> xstep f rv x e x'.
Proof.
  intros Hs. destruct x as [st|[|]]; cbn [proto_step_x] in Hs.
  - destruct (proto_step f rv st e) as [st'|] eqn:Ep.
    + injection Hs as <-.
      destruct st as [[|]|t|t|t|t];
        destruct e as [[g|t'| |]|[g|t'| |]|[g|t'| |] data|[g|t'| |]|[g|t'| |] [g2|t2| |]|[g|t'| |]];
        cbn [proto_step] in Ep; try discriminate Ep; split_ifs' Ep; injection Ep as <-; beq_subst';
        try (constructor; fail); try (constructor; (assumption || reflexivity)).
    + destruct st as [[|]|t|t|t|t];
        destruct e as [[g|t'| |]|[g|t'| |]|[g|t'| |] data|[g|t'| |]|[g|t'| |] [g2|t2| |]|[g|t'| |]];
        cbn [abort_step] in Hs; try discriminate Hs; split_ifs' Hs; injection Hs as <-; beq_subst';
        try (constructor; fail); try (constructor; (assumption || reflexivity)).
  - destruct e as [[g|t'| |]|[g|t'| |]|[g|t'| |] data|[g|t'| |]|[g|t'| |] [g2|t2| |]|[g|t'| |]];
      try discriminate Hs; split_ifs' Hs; injection Hs as <-; beq_subst'; constructor.
  - discriminate Hs.
Qed.


Definition ev_tmp (e : event) : option bytes :=
  match e with
  | ECreate (LTmpFile t) | EUnlink (LTmpFile t) | ERename (LTmpFile t) _ => Some t
  | _ => None
  end.
Definition ev_base (e : event) : option bytes :=
  match e with
  | ECreate (LFile g) | EUnlink (LFile g) | ERename _ (LFile g) => Some g
  | _ => None
  end.
Definition ev_ino (d : disk) (e : event) : option ino :=
  match e with
  | EWrite (LTmpFile t) _ | EFsync (LTmpFile t) => Tl d t
  | _ => None
  end.

(* what an event of the discipline leaves alone *)
Definition Frame (ta ga : option bytes) (ja : option ino) (d d' : disk) : Prop :=
  (forall t, Some t <> ta -> Tl d' t = Tl d t) /\
  (forall g, Some g <> ga -> Bl d' g = Bl d g) /\
  (forall i, (i < next_ino d)%nat -> Some i <> ja -> Il d' i = Il d i) /\
  (next_ino d <= next_ino d')%nat.

Ltac lk := rewrite ?elookup_eset, ?elookup_eremove, ?ilookup_iset in *.
Ltac case_ifs :=
  repeat match goal with
         | |- context [if ?b then _ else _] => destruct b eqn:?
         | H : context [if ?b then _ else _] |- _ => destruct b eqn:?
         end.
Ltac norm_eq :=
  repeat match goal with
         | H : beq _ _ = true |- _ => apply beq_eq in H
         | H : beq _ _ = false |- _ => apply beq_neq in H
         | H : Nat.eqb _ _ = true |- _ => apply Nat.eqb_eq in H
         | H : Nat.eqb _ _ = false |- _ => apply Nat.eqb_neq in H
         end.
Ltac triv_neq := try match goal with H : _ <> _ |- _ => exfalso; apply H; reflexivity end.
Ltac unf := unfold with_base, with_tmp, with_inodes; fields.

Lemma frame_step f rv x e x' d :
  xstep f rv x e x' -> Frame (ev_tmp e) (ev_base e) (ev_ino d e) d (exec_event d e).
Proof.
  intros Hx. unfold Frame.
  destruct Hx; cbn [exec_event new_file lookup_loc ev_tmp ev_base ev_ino];
    try (destruct (Tl d t) as [j|] eqn:Et; [|repeat apply conj; intros; (reflexivity || lia)]);
    try (destruct (Il d j) as [n|] eqn:En; [|repeat apply conj; intros; (reflexivity || lia)]);
    unf; repeat apply conj; intros; lk; case_ifs; norm_eq; subst; triv_neq;
    try reflexivity; try congruence; try lia.
Qed.


Section TwoWriters.
Variable d0 : disk.
Notation N0 := (next_ino d0).

(* structural invariant of the disk, relative to the initial disk d0 *)
Definition Str (d : disk) : Prop :=
  (forall i n, Il d i = Some n -> (i < next_ino d)%nat) /\
  (forall g i, Bl d g = Some i -> (i < next_ino d)%nat) /\
  (forall t i, Tl d t = Some i -> (i < next_ino d)%nat) /\
  (N0 <= next_ino d)%nat /\
  (forall i, (i < N0)%nat -> Il d i = Il d0 i) /\
  (forall g t i, Bl d g = Some i -> Tl d t <> Some i) /\
  (forall t t' j, (N0 <= j)%nat -> Tl d t = Some j -> Tl d t' = Some j -> t = t').

(* what a writer knows about its temp file; dat = the data it has written so far *)
Definition W (rv : bool) (x : xstate) (dat : bytes) (d : disk) : Prop :=
  match x with
  | XRun (PStart r) => dat = [] /\ (r = true -> rv = true)
  | XRun (PTmp t) | XRun (PSynced t) =>
      exists j n, Tl d t = Some j /\ (N0 <= j)%nat /\ Il d j = Some n /\ i_vol n = dat
  | XAbort true => rv = true
  | _ => True
  end.

Lemma Str_step f rv x e x' dat d :
  Str d -> W rv x dat d -> xstep f rv x e x' -> Str (exec_event d e).
Proof.
  intros (C1 & C2 & C3 & C4 & C5 & C6 & C7) HW Hx.
  destruct Hx; cbn [W] in HW; try destruct HW as (j & n & Ht & Hj & Hn & Hv);
    cbn [exec_event new_file lookup_loc]; rewrite ?Ht, ?Hn; unf; unfold Str; fields;
    (repeat apply conj; try assumption; try lia);
    intros; lk; case_ifs; norm_eq; subst; triv_neq; try discriminate;
    try match goal with |- _ <> _ => intro end; try discriminate;
    repeat match goal with H : Some _ = Some _ |- _ => injection H as H; try subst end;
    repeat match goal with
           | H : ilookup ?i (inodes ?dd) = Some ?n |- _ => pose proof (C1 _ _ H); change (id (ilookup i (inodes dd) = Some n)) in H
           | H : elookup ?g (base_vol ?dd) = Some ?n |- _ => pose proof (C2 _ _ H); change (id (elookup g (base_vol dd) = Some n)) in H
           | H : elookup ?g (tmp_vol ?dd) = Some ?n |- _ => pose proof (C3 _ _ H); change (id (elookup g (tmp_vol dd) = Some n)) in H
           end; unfold id in *;
    try lia; eauto; try (eapply C6; eassumption);
    try (exfalso; match goal with H : _ <> _ |- _ => apply H; eapply C7; eassumption end).
Qed.

Lemma W_step f rv x e x' dat d :
  Str d -> W rv x dat d -> xstep f rv x e x' -> W rv x' (dat ++ tmp_data [e]) (exec_event d e).
Proof.
  intros (C1 & C2 & C3 & C4 & C5 & C6 & C7) HW Hx.
  destruct Hx; cbn [W tmp_data] in *; rewrite ?app_nil_r;
    try destruct HW as (j & n & Ht & Hj & Hn & Hv);
    cbn [exec_event new_file lookup_loc]; rewrite ?Ht, ?Hn; unf; try exact I;
    try tauto; try (destruct rv; auto; fail).
  - destruct HW as (-> & _). eexists _, _. lk. rewrite beq_refl, Nat.eqb_refl.
    repeat split; lia.
  - exists j. eexists. lk. rewrite Nat.eqb_refl. repeat split; auto. cbn. now subst.
  - exists j. eexists. lk. rewrite Nat.eqb_refl. repeat split; auto.
  - exists j. eexists. lk. rewrite Nat.eqb_refl. repeat split; auto.
Qed.

Definition tname (x : xstate) : option bytes :=
  match x with
  | XRun (PTmp t) | XRun (PSynced t) | XRun (PRenamed t) | XRun (PDone t) => Some t
  | _ => None
  end.
Definition ev_tname (e : event) : option bytes :=
  match e with
  | ECreate (LTmpFile t) | EUnlink (LTmpFile t) | ERename (LTmpFile t) _
  | EWrite (LTmpFile t) _ | EFsync (LTmpFile t) => Some t
  | _ => None
  end.

Lemma tname_step f rv x e x' t :
  xstep f rv x e x' -> tname x' = Some t -> tname x = Some t \/ e = ECreate (LTmpFile t).
Proof. intros Hx H. destruct Hx; cbn in *; try discriminate; auto; try (destruct rv; discriminate). injection H as ->. auto. Qed.

Lemma ev_tname_step f rv x e x' t :
  xstep f rv x e x' -> ev_tname e = Some t -> tname x = Some t \/ e = ECreate (LTmpFile t).
Proof. intros Hx H. destruct Hx; cbn in *; try discriminate; auto. injection H as ->. auto. Qed.

Lemma W_frame f rv x e x' d rv2 x2 dat2 :
  Str d -> xstep f rv x e x' -> W rv2 x2 dat2 d ->
  (forall t, ev_tname e = Some t -> tname x2 <> Some t) ->
  W rv2 x2 dat2 (exec_event d e).
Proof.
  intros HS Hx HW Hd. destruct (frame_step _ _ _ _ _ d Hx) as (F1 & F2 & F3 & F4).
  destruct HS as (C1 & C2 & C3 & C4 & C5 & C6 & C7).
  assert (HT : forall t2 j2, tname x2 = Some t2 -> Tl d t2 = Some j2 -> (N0 <= j2)%nat ->
                 Tl (exec_event d e) t2 = Some j2 /\ Il (exec_event d e) j2 = Il d j2).
  { intros t2 j2 Hn Ht Hj. split.
    - rewrite F1; auto. intro Heq.
      destruct Hx; cbn in Heq; try discriminate; injection Heq as <-; exact (Hd _ eq_refl Hn).
    - apply F3; [eauto|]. intro Heq.
      destruct Hx; cbn in Heq; try discriminate; symmetry in Heq;
        (assert (t = t2) by (eapply C7; eauto)); subst; exact (Hd _ eq_refl Hn). }
  destruct x2 as [[r|t2|t2|t2|t2]|[|]]; cbn [W] in *; auto;
    destruct HW as (j & n & Ht & Hj & Hn & Hv); destruct (HT t2 j eq_refl Ht Hj) as (E1 & E2);
    exists j, n; rewrite E1, E2; auto.
Qed.

(* the base directory: name g refers to a new inode with content c *)
Definition holds (d : disk) (g c : bytes) : Prop :=
  exists j n, Bl d g = Some j /\ (N0 <= j)%nat /\ Il d j = Some n /\ i_vol n = c.

Lemma base_frame f rv x e x' d g :
  Str d -> xstep f rv x e x' -> ev_base e <> Some g ->
  Bl (exec_event d e) g = Bl d g /\ (forall c, holds d g c -> holds (exec_event d e) g c).
Proof.
  intros HS Hx Hg. destruct (frame_step _ _ _ _ _ d Hx) as (F1 & F2 & F3 & F4).
  destruct HS as (C1 & C2 & C3 & C4 & C5 & C6 & C7).
  assert (E : Bl (exec_event d e) g = Bl d g) by (apply F2; congruence).
  split; [exact E|]. intros c (j & n & Hb & Hj & Hn & Hv). exists j, n. rewrite E, F3; eauto.
  intro Heq. destruct Hx; cbn in Heq; try discriminate; symmetry in Heq; eapply C6; eauto.
Qed.

Lemma ev_base_step f rv x e x' g : xstep f rv x e x' -> g <> f -> ev_base e <> Some g.
Proof. intros Hx Hg. destruct Hx; cbn; congruence. Qed.

Lemma rename_holds d t f j n :
  Tl d t = Some j -> (N0 <= j)%nat -> Il d j = Some n ->
  holds (exec_event d (ERename (LTmpFile t) (LFile f))) f (i_vol n).
Proof.
  intros Ht Hj Hn. cbn [exec_event]. rewrite Ht. unfold holds. unf. exists j, n. lk. rewrite beq_refl. auto.
Qed.

(* ---- distinct targets: the entry of a writer's own target ---- *)
Definition B (f : bytes) (rv : bool) (x : xstate) (dat : bytes) (d : disk) : Prop :=
  match x with
  | XRun (PStart r) => if r then holds d f [] else Bl d f = Bl d0 f
  | XRun (PTmp _) | XRun (PSynced _) => if rv then holds d f [] else Bl d f = Bl d0 f
  | XRun (PRenamed _) | XRun (PDone _) => holds d f dat
  | XAbort true => holds d f []
  | XAbort false => if rv then Bl d f = None else Bl d f = Bl d0 f
  end.

Lemma B_frame f rv x e x' d f2 rv2 x2 dat2 :
  Str d -> xstep f rv x e x' -> f2 <> f -> B f2 rv2 x2 dat2 d -> B f2 rv2 x2 dat2 (exec_event d e).
Proof.
  intros HS Hx Hf HB.
  destruct (base_frame _ _ _ _ _ d f2 HS Hx (ev_base_step _ _ _ _ _ _ Hx Hf)) as (E & Hh).
  destruct x2 as [[[|]|t2|t2|t2|t2]|[|]]; cbn [B] in *; try destruct rv2; rewrite ?E; auto.
Qed.

Lemma B_step f rv x e x' dat d :
  Str d -> W rv x dat d -> B f rv x dat d -> xstep f rv x e x' ->
  B f rv x' (dat ++ tmp_data [e]) (exec_event d e).
Proof.
  intros HS HW HB Hx.
  assert (HF : ev_base e <> Some f ->
     Bl (exec_event d e) f = Bl d f /\ (forall c, holds d f c -> holds (exec_event d e) f c))
    by (apply (base_frame _ _ _ _ _ d f HS Hx)).
  destruct Hx; cbn [W B tmp_data ev_base] in *; rewrite ?app_nil_r.
  all: try (destruct HF as (E & Hh); [discriminate|]; try destruct rv; rewrite ?E; auto; fail).
  - clear HF. destruct HS as (C1 & C2 & C3 & C4 & C5 & C6 & C7).
    cbn [exec_event new_file]. unfold holds. unf. eexists _, _. lk.
    rewrite beq_refl, Nat.eqb_refl. repeat split; lia.
  - destruct HW as (j & n & Ht & Hj & Hn & Hv). rewrite <- Hv. now apply (rename_holds d t f j n).
  - destruct HW as (_ & Hr). rewrite (Hr eq_refl). cbn [exec_event]. unf. lk. now rewrite beq_refl.
  - rewrite H. cbn [exec_event]. unf. lk. now rewrite beq_refl.
  - rewrite HW. cbn [exec_event]. unf. lk. now rewrite beq_refl.
Qed.

(* ---- same target, two updates ---- *)
Definition renamed (x : xstate) : Prop :=
  match x with XRun (PRenamed _) | XRun (PDone _) => True | _ => False end.

Definition BF (f : bytes) (x1 : xstate) (dat1 : bytes) (x2 : xstate) (dat2 : bytes) (d : disk) : Prop :=
  Bl d f = Bl d0 f \/ (renamed x1 /\ holds d f dat1) \/ (renamed x2 /\ holds d f dat2).

Lemma BF_sym f x1 dat1 x2 dat2 d : BF f x1 dat1 x2 dat2 d -> BF f x2 dat2 x1 dat1 d.
Proof. unfold BF. tauto. Qed.

Lemma BF_step f x e x' dat d x2 dat2 :
  Str d -> W false x dat d -> BF f x dat x2 dat2 d -> xstep f false x e x' ->
  BF f x' (dat ++ tmp_data [e]) x2 dat2 (exec_event d e).
Proof.
  intros HS HW HB Hx.
  assert (HF : ev_base e <> Some f ->
     Bl (exec_event d e) f = Bl d f /\ (forall c, holds d f c -> holds (exec_event d e) f c))
    by (apply (base_frame _ _ _ _ _ d f HS Hx)).
  remember false as rv eqn:Erv.
  destruct Hx; cbn [W tmp_data ev_base] in *; rewrite ?app_nil_r; subst rv; try discriminate.
  all: try (destruct HF as (E & Hh); [discriminate|]; unfold BF in *; rewrite E; cbn [renamed] in *;
            pose proof (Hh dat); pose proof (Hh dat2); tauto).
  - destruct HW as (j & n & Ht & Hj & Hn & Hv). right; left. split; [exact I|].
    rewrite <- Hv. now apply (rename_holds d t f j n).
  - destruct HW as (_ & Hr). discriminate (Hr eq_refl).
Qed.

(* ---- the interleaving ---- *)
Definition Dj (x1 : xstate) (evs1 : list event) (x2 : xstate) (evs2 : list event) : Prop :=
  forall t1 t2, (tname x1 = Some t1 \/ In (ECreate (LTmpFile t1)) evs1) ->
                (tname x2 = Some t2 \/ In (ECreate (LTmpFile t2)) evs2) -> t1 <> t2.

Lemma tmp_data_cons e l : tmp_data (e :: l) = tmp_data [e] ++ tmp_data l.
Proof. change (e :: l) with ([e] ++ l). apply tmp_data_app. Qed.

Lemma merge_inv (I : xstate -> bytes -> xstate -> bytes -> disk -> Prop) f1 rv1 f2 rv2 :
  (forall x1 dat1 x2 dat2 d e x1', I x1 dat1 x2 dat2 d -> xstep f1 rv1 x1 e x1' ->
      (forall t, ev_tname e = Some t -> tname x2 <> Some t) ->
      I x1' (dat1 ++ tmp_data [e]) x2 dat2 (exec_event d e)) ->
  (forall x1 dat1 x2 dat2 d e x2', I x1 dat1 x2 dat2 d -> xstep f2 rv2 x2 e x2' ->
      (forall t, ev_tname e = Some t -> tname x1 <> Some t) ->
      I x1 dat1 x2' (dat2 ++ tmp_data [e]) (exec_event d e)) ->
  forall evs1 evs2 evs, merge evs1 evs2 evs ->
  forall x1 dat1 x2 dat2 d x1' x2', I x1 dat1 x2 dat2 d ->
    proto_run_x f1 rv1 x1 evs1 = Some x1' -> proto_run_x f2 rv2 x2 evs2 = Some x2' ->
    Dj x1 evs1 x2 evs2 ->
    I x1' (dat1 ++ tmp_data evs1) x2' (dat2 ++ tmp_data evs2) (exec_events d evs).
Proof.
  intros HL HR evs1 evs2 evs Hm.
  induction Hm as [|e l1 l2 l Hm IH|e l1 l2 l Hm IH]; intros x1 dat1 x2 dat2 d x1' x2' HI H1 H2 HD.
  - cbn in *. injection H1 as <-. injection H2 as <-. now rewrite !app_nil_r.
  - cbn [proto_run_x] in H1. destruct (proto_step_x f1 rv1 x1 e) as [y|] eqn:Es; [|discriminate].
    apply proto_step_x_inv in Es.
    change (exec_events d (e :: l)) with (exec_events (exec_event d e) l).
    rewrite (tmp_data_cons e l1), app_assoc.
    eapply IH; eauto.
    + eapply HL; eauto. intros t Ht Hn.
      destruct (ev_tname_step _ _ _ _ _ _ Es Ht) as [A|A].
      * exact (HD t t (or_introl A) (or_introl Hn) eq_refl).
      * subst e. exact (HD t t (or_intror (or_introl eq_refl)) (or_introl Hn) eq_refl).
    + intros t1 t2 [A|A] Hb.
      * destruct (tname_step _ _ _ _ _ _ Es A) as [A'|A'].
        -- apply HD; auto.
        -- subst e. apply HD; auto. right. now left.
      * apply HD; auto. right. now right.
  - cbn [proto_run_x] in H2. destruct (proto_step_x f2 rv2 x2 e) as [y|] eqn:Es; [|discriminate].
    apply proto_step_x_inv in Es.
    change (exec_events d (e :: l)) with (exec_events (exec_event d e) l).
    rewrite (tmp_data_cons e l2), app_assoc.
    eapply IH; eauto.
    + eapply HR; eauto. intros t Ht Hn.
      destruct (ev_tname_step _ _ _ _ _ _ Es Ht) as [A|A].
      * exact (HD t t (or_introl Hn) (or_introl A) eq_refl).
      * subst e. exact (HD t t (or_introl Hn) (or_intror (or_introl eq_refl)) eq_refl).
    + intros t1 t2 Ha [A|A].
      * destruct (tname_step _ _ _ _ _ _ Es A) as [A'|A'].
        -- apply HD; auto.
        -- subst e. apply HD; auto. right. now left.
      * apply HD; auto. right. now right.
Qed.

Definition I1 (f : bytes) (x1 : xstate) (dat1 : bytes) (x2 : xstate) (dat2 : bytes) (d : disk) : Prop :=
  Str d /\ W false x1 dat1 d /\ W false x2 dat2 d /\ BF f x1 dat1 x2 dat2 d /\
  (forall g, g <> f -> Bl d g = Bl d0 g).

Lemma I1_sym f x1 dat1 x2 dat2 d : I1 f x1 dat1 x2 dat2 d -> I1 f x2 dat2 x1 dat1 d.
Proof. intros (HS & W1 & W2 & HB & HO). repeat (split; [assumption|]). split; [now apply BF_sym|exact HO]. Qed.

Lemma I1_left f x1 dat1 x2 dat2 d e x1' :
  I1 f x1 dat1 x2 dat2 d -> xstep f false x1 e x1' ->
  (forall t, ev_tname e = Some t -> tname x2 <> Some t) ->
  I1 f x1' (dat1 ++ tmp_data [e]) x2 dat2 (exec_event d e).
Proof.
  intros (HS & W1 & W2 & HB & HO) Hx Hd. split; [|split; [|split; [|split]]].
  - exact (Str_step _ _ _ _ _ _ _ HS W1 Hx).
  - exact (W_step _ _ _ _ _ _ _ HS W1 Hx).
  - exact (W_frame _ _ _ _ _ _ _ _ _ HS Hx W2 Hd).
  - exact (BF_step _ _ _ _ _ _ _ _ HS W1 HB Hx).
  - intros g Hg.
    destruct (base_frame _ _ _ _ _ d g HS Hx (ev_base_step _ _ _ _ _ _ Hx Hg)) as (E & _).
    rewrite E. auto.
Qed.

Definition I2 (f1 : bytes) (rv1 : bool) (f2 : bytes) (rv2 : bool)
    (x1 : xstate) (dat1 : bytes) (x2 : xstate) (dat2 : bytes) (d : disk) : Prop :=
  Str d /\ W rv1 x1 dat1 d /\ W rv2 x2 dat2 d /\ B f1 rv1 x1 dat1 d /\ B f2 rv2 x2 dat2 d /\
  (forall g, g <> f1 -> g <> f2 -> Bl d g = Bl d0 g).

Lemma I2_sym f1 rv1 f2 rv2 x1 dat1 x2 dat2 d :
  I2 f1 rv1 f2 rv2 x1 dat1 x2 dat2 d -> I2 f2 rv2 f1 rv1 x2 dat2 x1 dat1 d.
Proof. intros (HS & W1 & W2 & B1 & B2 & HO). repeat (split; [assumption|]). auto. Qed.

Lemma I2_left f1 rv1 f2 rv2 x1 dat1 x2 dat2 d e x1' :
  f1 <> f2 ->
  I2 f1 rv1 f2 rv2 x1 dat1 x2 dat2 d -> xstep f1 rv1 x1 e x1' ->
  (forall t, ev_tname e = Some t -> tname x2 <> Some t) ->
  I2 f1 rv1 f2 rv2 x1' (dat1 ++ tmp_data [e]) x2 dat2 (exec_event d e).
Proof.
  intros Hf (HS & W1 & W2 & B1 & B2 & HO) Hx Hd. split; [|split; [|split; [|split; [|split]]]].
  - exact (Str_step _ _ _ _ _ _ _ HS W1 Hx).
  - exact (W_step _ _ _ _ _ _ _ HS W1 Hx).
  - exact (W_frame _ _ _ _ _ _ _ _ _ HS Hx W2 Hd).
  - exact (B_step _ _ _ _ _ _ _ HS W1 B1 Hx).
  - apply (B_frame _ _ _ _ _ _ _ _ _ _ HS Hx); auto.
  - intros g Hg1 Hg2.
    destruct (base_frame _ _ _ _ _ d g HS Hx (ev_base_step _ _ _ _ _ _ Hx Hg1)) as (E & _).
    rewrite E. auto.
Qed.

(* ---- reading the result ---- *)
Lemma Str_init : base_quiescent d0 -> Str d0.
Proof.
  intros (_ & _ & _ & Hi & Hb & Ht & Hdj). unfold Str. repeat apply conj; auto.
  intros t t' j Hj H1 _. apply Ht in H1. lia.
Qed.

Lemma vol_unch d g :
  base_quiescent d0 -> Str d -> Bl d g = Bl d0 g -> vol_file d g = vol_file d0 g.
Proof.
  intros (_ & _ & _ & _ & Hb & _) (C1 & C2 & C3 & C4 & C5 & C6 & C7) E.
  unfold vol_file. rewrite E. destruct (Bl d0 g) as [i|] eqn:Eg; [|reflexivity].
  rewrite C5; eauto.
Qed.

Lemma vol_holds d g c : holds d g c -> vol_file d g = Some c.
Proof. intros (j & n & Hb & _ & Hn & Hv). unfold vol_file. now rewrite Hb, Hn, Hv. Qed.

Definition expect (f : bytes) (rv : bool) (x : xstate) (dat : bytes) : option bytes :=
  match x with
  | XRun (PStart r) => if r then Some [] else vol_file d0 f
  | XRun (PTmp _) | XRun (PSynced _) => if rv then Some [] else vol_file d0 f
  | XRun (PRenamed _) | XRun (PDone _) => Some dat
  | XAbort true => Some []
  | XAbort false => if rv then None else vol_file d0 f
  end.

Lemma B_expect f rv x dat d :
  base_quiescent d0 -> Str d -> B f rv x dat d -> vol_file d f = expect f rv x dat.
Proof.
  intros Hq HS HB.
  destruct x as [[[|]|t|t|t|t]|[|]]; cbn [B expect] in *; try destruct rv;
    try (now apply vol_holds); try (now apply vol_unch).
  unfold vol_file. now rewrite HB.
Qed.
End TwoWriters.

Lemma renamed_run f rv evs : forall x x',
  proto_run_x f rv x evs = Some x' -> renamed x' -> renamed x \/ renamed_into f evs.
Proof.
  induction evs as [|a evs IH]; intros x x' H Hr; cbn [proto_run_x] in H.
  - injection H as <-. auto.
  - destruct (proto_step_x f rv x a) as [y|] eqn:Es; [|discriminate].
    destruct (IH _ _ H Hr) as [Hy|(t & Hin)].
    + apply proto_step_x_inv in Es. destruct Es; cbn [renamed] in *; try contradiction; auto.
      right. exists t. now left.
    + right. exists t. now right.
Qed.

Lemma merge_nil_r {A} (l : list A) : merge l [] l.
Proof. induction l; constructor; auto. Qed.
Lemma merge_nil_l {A} (l : list A) : merge [] l l.
Proof. induction l; constructor; auto. Qed.

Lemma Dj_init evs1 evs2 :
  tmp_disjoint evs1 evs2 -> Dj (XRun (PStart false)) evs1 (XRun (PStart false)) evs2.
Proof.
  intros Hdj t1 t2 [A|A] [A'|A']; try discriminate. intros ->. exact (Hdj _ A A').
Qed.


(* Two UPDATES of the same user's file f, system calls interleaved in any way, each stopped at any
   point (both traces are arbitrary prefixes of the discipline, clean-up included): at every
   instant a reader finds under f the complete old record, or the complete record of one of the
   two writers - never a mixture - and every other file is untouched. *)
Theorem two_updaters_kill_safe : forall f d0 evs1 evs2 evs,
  base_quiescent d0 -> target_pre f false d0 ->
  protocol_prefix_x_ok f false evs1 = true -> protocol_prefix_x_ok f false evs2 = true ->
  tmp_fresh evs1 d0 -> tmp_fresh evs2 d0 -> tmp_disjoint evs1 evs2 ->
  merge evs1 evs2 evs ->
  ( vol_file (exec_events d0 evs) f = vol_file d0 f
    \/ (renamed_into f evs1 /\ vol_file (exec_events d0 evs) f = Some (tmp_data evs1))
    \/ (renamed_into f evs2 /\ vol_file (exec_events d0 evs) f = Some (tmp_data evs2)) )
  /\ (forall g, g <> f -> vol_file (exec_events d0 evs) g = vol_file d0 g).
Proof.
  intros f d0 evs1 evs2 evs Hq _ H1 H2 _ _ Hdj Hm.
  unfold protocol_prefix_x_ok in H1, H2.
  destruct (proto_run_x f false (XRun (PStart false)) evs1) as [x1'|] eqn:R1; [|discriminate].
  destruct (proto_run_x f false (XRun (PStart false)) evs2) as [x2'|] eqn:R2; [|discriminate].
  assert (HI : I1 d0 f x1' ([] ++ tmp_data evs1) x2' ([] ++ tmp_data evs2) (exec_events d0 evs)).
  { apply (merge_inv (I1 d0 f) f false f false) with (evs1 := evs1) (evs2 := evs2)
      (x1 := XRun (PStart false)) (x2 := XRun (PStart false)); auto.
    - intros. eapply I1_left; eauto.
    - intros. apply I1_sym. eapply I1_left; eauto. now apply I1_sym.
    - split; [now apply Str_init|]. repeat split; try discriminate. now left.
    - now apply Dj_init. }
  cbn [app] in HI. destruct HI as (HS & _ & _ & HB & HO). split.
  - destruct HB as [E|[(Hr & Hh)|(Hr & Hh)]].
    + left. now apply (vol_unch d0).
    + right; left. split; [|now apply (vol_holds d0)].
      destruct (renamed_run _ _ _ _ _ R1 Hr) as [[]|]; auto.
    + right; right. split; [|now apply (vol_holds d0)].
      destruct (renamed_run _ _ _ _ _ R2 Hr) as [[]|]; auto.
  - intros g Hg. apply (vol_unch d0); auto.
Qed.

(* Two writers of DIFFERENT files (add or update each): each file has exactly the possibilities
   it has when its writer runs alone, every third file is untouched. *)
Theorem two_writers_distinct_kill_safe : forall f1 rv1 f2 rv2 d0 evs1 evs2 evs,
  base_quiescent d0 -> f1 <> f2 -> target_pre f1 rv1 d0 -> target_pre f2 rv2 d0 ->
  protocol_prefix_x_ok f1 rv1 evs1 = true -> protocol_prefix_x_ok f2 rv2 evs2 = true ->
  tmp_fresh evs1 d0 -> tmp_fresh evs2 d0 -> tmp_disjoint evs1 evs2 ->
  merge evs1 evs2 evs ->
  vol_file (exec_events d0 evs) f1 = vol_file (exec_events d0 evs1) f1 /\
  vol_file (exec_events d0 evs) f2 = vol_file (exec_events d0 evs2) f2 /\
  (forall g, g <> f1 -> g <> f2 -> vol_file (exec_events d0 evs) g = vol_file d0 g).
Proof.
  intros f1 rv1 f2 rv2 d0 evs1 evs2 evs Hq Hf _ _ H1 H2 _ _ Hdj Hm.
  unfold protocol_prefix_x_ok in H1, H2.
  destruct (proto_run_x f1 rv1 (XRun (PStart false)) evs1) as [x1'|] eqn:R1; [|discriminate].
  destruct (proto_run_x f2 rv2 (XRun (PStart false)) evs2) as [x2'|] eqn:R2; [|discriminate].
  assert (G : forall e1 e2 e y1 y2, merge e1 e2 e ->
            proto_run_x f1 rv1 (XRun (PStart false)) e1 = Some y1 ->
            proto_run_x f2 rv2 (XRun (PStart false)) e2 = Some y2 ->
            tmp_disjoint e1 e2 ->
            I2 d0 f1 rv1 f2 rv2 y1 ([] ++ tmp_data e1) y2 ([] ++ tmp_data e2) (exec_events d0 e)).
  { intros e1 e2 e y1 y2 Gm G1 G2 Gd.
    apply (merge_inv (I2 d0 f1 rv1 f2 rv2) f1 rv1 f2 rv2) with (evs1 := e1) (evs2 := e2)
      (x1 := XRun (PStart false)) (x2 := XRun (PStart false)); auto.
    - intros. eapply I2_left; eauto.
    - intros. apply I2_sym. eapply I2_left; eauto. now apply I2_sym.
    - split; [now apply Str_init|]. repeat split; try discriminate; auto.
    - now apply Dj_init. }
  cbn [app] in G.
  destruct (G _ _ _ _ _ Hm R1 R2 Hdj) as (HS & _ & _ & B1 & B2 & HO).
  assert (D1 : tmp_disjoint evs1 []) by (intros t _ []).
  assert (D2 : tmp_disjoint [] evs2) by (intros t []).
  destruct (G _ _ _ _ _ (merge_nil_r evs1) R1 eq_refl D1) as (HS1 & _ & _ & B11 & _ & _).
  destruct (G _ _ _ _ _ (merge_nil_l evs2) eq_refl R2 D2) as (HS2 & _ & _ & _ & B22 & _).
  split; [|split].
  - rewrite (B_expect d0 _ _ _ _ _ Hq HS B1), (B_expect d0 _ _ _ _ _ Hq HS1 B11). reflexivity.
  - rewrite (B_expect d0 _ _ _ _ _ Hq HS B2), (B_expect d0 _ _ _ _ _ Hq HS2 B22). reflexivity.
  - intros g Hg1 Hg2. apply (vol_unch d0); auto.
Qed.

(* non-vacuity: a concrete interleaving of two complete updates *)
Example two_updaters_example :
  let f := str "u.user" in
  let w (t data : bytes) := [ECreate (LTmpFile t); EWrite (LTmpFile t) data; EFsync (LTmpFile t);
                   ERename (LTmpFile t) (LFile f); EFsync LBaseDir; EUnlink (LTmpFile t)] in
  protocol_prefix_x_ok f false (w (str "t1") (str "one")) = true /\
  protocol_prefix_x_ok f false (w (str "t2") (str "two")) = true /\
  tmp_disjoint (w (str "t1") (str "one")) (w (str "t2") (str "two")).
Proof.
  cbv zeta. split; [vm_compute; reflexivity|]. split; [vm_compute; reflexivity|].
  intros t A A'. cbn [In] in A, A'.
  destruct A as [A|[A|[A|[A|[A|[A|[]]]]]]]; try discriminate A.
  destruct A' as [A'|[A'|[A'|[A'|[A'|[A'|[]]]]]]]; try discriminate A'.
  rewrite <- A' in A. vm_compute in A. discriminate A.
Qed.

Print Assumptions two_updaters_kill_safe.
Print Assumptions two_writers_distinct_kill_safe.
