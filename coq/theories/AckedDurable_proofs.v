(* AckedDurable_proofs.v — an operation that REPORTS SUCCESS has made its
   change durable, whatever single fault was injected.

   Crash_proofs.v shows, for the undisturbed programs only, that add / update
   run the complete write discipline and that set-admin / remove fsync the
   base directory after their entry changes.  CrashX_proofs.v shows that under
   every fault the programs stay inside the (extended) discipline, but says
   nothing about how far they got.  Here: under every fault, a result ROk
   means the program went all the way - the trace is a COMPLETE protocol run
   (add, update), and every entry change of the base directory is followed by
   an fsync of the base directory (all four operations). *)
From Whawty Require Import Bytes Bytes_proofs Base64 Names Record Record_proofs Store StoreTrace Crash Crash_proofs.
From Whawty Require Import StoreOps_proofs StoreTrace_proofs CrashX_proofs.
From Coq Require Import ZifyN ZifyNat ZifyBool.
Open Scope N_scope.

(* ---------------- the durability checker ---------------- *)
(* a trace that ends with the fsync of the base directory leaves nothing pending *)
Lemma bcs_snoc_fsync l : forall b, base_changes_synced (l ++ [EFsync LBaseDir]) b = true.
Proof.
  induction l as [|e l IH]; intros b; [reflexivity|].
  cbn [app].
  destruct e as [[g|t| |]|[g|t| |]|[g|t| |] data|[g|t| |]|[g|t| |] [g'|t'| |]|[g|t| |]];
    cbn [base_changes_synced]; apply IH.
Qed.

Lemma durable_emit_fsync s : durability_ok (events (emit (EFsync LBaseDir) s)) = true.
Proof. unfold durability_ok, events. cbn [t_ev emit rev]. apply bcs_snoc_fsync. Qed.

(* a COMPLETE protocol run is durable: after the last fsync of the base
   directory the discipline allows only further such fsyncs and the removal of
   the temp file *)
Lemma proto_done_synced f rv evs : forall st b t,
  proto_run f rv st evs = Some (PDone t) ->
  (b = false \/ forall t', st <> PDone t') ->
  base_changes_synced evs b = true.
Proof.
  induction evs as [|e evs IH]; intros st b t Hrun Hb.
  - cbn [proto_run] in Hrun. injection Hrun as ->.
    destruct Hb as [->|Hnd]; [reflexivity|]. exfalso. exact (Hnd t eq_refl).
  - cbn [proto_run] in Hrun.
    destruct (proto_step f rv st e) as [st1|] eqn:Hstep; [|discriminate Hrun].
    destruct st as [r|t0|t0|t0|t0];
      destruct e as [[g|t1| |]|[g|t1| |]|[g|t1| |] data|[g|t1| |]|[g|t1| |] [g'|t1'| |]|[g|t1| |]];
      try (destruct r); cbn [proto_step] in Hstep; try discriminate Hstep;
      repeat match type of Hstep with
             | (if ?c then _ else _) = _ => destruct c; try discriminate Hstep
             end;
      injection Hstep as <-; cbn [base_changes_synced];
      try (eapply IH; [exact Hrun|]; first [left; reflexivity | right; discriminate]).
    all: destruct Hb as [->|Hnd]; [|exfalso; eapply Hnd; reflexivity].
    all: eapply IH; [exact Hrun|left; reflexivity].
Qed.

Theorem complete_durable f rv evs :
  protocol_complete_ok f rv evs = true -> durability_ok evs = true.
Proof.
  unfold protocol_complete_ok, durability_ok.
  destruct (proto_run f rv (PStart false) evs) as [[r|t|t|t|t]|] eqn:Hrun; try discriminate.
  intros _. eapply proto_done_synced; [exact Hrun|]. right. discriminate.
Qed.

(* ---------------- from the extended automaton back to the plain one ---------------- *)
Lemma abort_step_abort f rv st e x : abort_step f rv st e = Some x -> exists r, x = XAbort r.
Proof.
  destruct st as [r|t|t|t|t];
    destruct e as [[g|t1| |]|[g|t1| |]|[g|t1| |] data|[g|t1| |]|[g|t1| |] [g'|t1'| |]|[g|t1| |]];
    try (destruct r); cbn [abort_step]; try discriminate;
    repeat match goal with
           | |- (if ?c then _ else _) = _ -> _ => destruct c; try discriminate
           end;
    intros H; injection H as <-; eauto.
Qed.

Lemma proto_run_x_abort f rv evs : forall r st, proto_run_x f rv (XAbort r) evs <> Some (XRun st).
Proof.
  induction evs as [|e evs IH]; intros r st; [discriminate|].
  cbn [proto_run_x proto_step_x].
  destruct r; [|discriminate].
  destruct e as [l|l|l data|l|a b|[g|t1| |]]; try discriminate.
  destruct (beq g f); [apply IH|discriminate].
Qed.

Lemma proto_run_of_x f rv evs : forall st st',
  proto_run_x f rv (XRun st) evs = Some (XRun st') -> proto_run f rv st evs = Some st'.
Proof.
  induction evs as [|e evs IH]; intros st st' Hrun.
  - cbn [proto_run_x] in Hrun. injection Hrun as <-. reflexivity.
  - cbn [proto_run_x proto_step_x] in Hrun. cbn [proto_run].
    destruct (proto_step f rv st e) as [st1|]; [now apply IH|].
    destruct (abort_step f rv st e) as [x|] eqn:Ha; [|discriminate Hrun].
    apply abort_step_abort in Ha as (r & ->).
    exfalso. exact (proto_run_x_abort _ _ _ _ _ Hrun).
Qed.

Lemma acc_done_complete fname rv t s :
  acc fname rv (XRun (PDone t)) s -> protocol_complete_ok fname rv (events s) = true.
Proof.
  unfold acc, protocol_complete_ok, events. intros H.
  now rewrite (proto_run_of_x _ _ _ _ _ H).
Qed.

(* ---------------- writeHashStr: ROk means it ran to the end ---------------- *)
Lemma done_acc_done ft fname rv t sx :
  acc fname rv (XRun (PDone t)) sx -> acc fname rv (XRun (PDone t)) (p_remove ft (LTmpFile t) sx).
Proof.
  intros Hacc. destruct (p_remove_ev ft (LTmpFile t) sx) as [E|E].
  - eapply acc_same; eauto.
  - eapply acc_cons; [exact E|exact Hacc|].
    cbn [proto_step_x proto_step]. now rewrite beq_refl.
Qed.

Lemma wh_tail_done ft c h hs fname rv o old s3 s' :
  acc fname rv (XRun (PTmp (o_tmp o))) s3 ->
  wh_tail ft c h hs fname rv o old s3 = (ROk, s') ->
  acc fname rv (XRun (PDone (o_tmp o))) s'.
Proof.
  intros Hacc H. unfold wh_tail in H. cbv zeta in H.
  destruct old as [oldc|]; [destruct (after_first_line oldc) as [|b rest']|].
  all: repeat match type of H with
         | context [match terr ?f ?k ?s with _ => _ end] =>
             let E := fresh "E" in let e := fresh "e" in destruct (terr f k s) as [e|] eqn:E
         end.
  all: repeat match type of H with
         | context [match ?e with EIO => _ | _ => _ end] => destruct e
         end.
  all: cbv iota in H.
  all: try (destruct (wfail_tmp_not_ok _ _ _ _ _ _ H)).
  all: injection H as <-; apply done_acc_done; acc_solve Hacc.
Qed.

Lemma p_write_hash_done ft c h hs fname rv o s s' :
  t_ev s = [] ->
  p_write_hash ft c h hs fname rv o s = (ROk, s') ->
  acc fname rv (XRun (PDone (o_tmp o))) s'.
Proof.
  intros Hev. rewrite p_write_hash_eq. unfold wh_open.
  assert (Hacc0 : acc fname rv (XRun (PStart false)) s).
  { unfold acc. now rewrite Hev. }
  destruct (terr ft KOpen s) as [e0|]; [discriminate|].
  assert (G : forall s1 old,
    acc fname rv (XRun (PStart rv)) s1 ->
    (let (okdir, s2) := p_mkdir_tmp ft s1 in
      if negb okdir then wfail ft fname rv s2
      else match terr ft KOpen s2 with
           | Some _ => wfail ft fname rv (bump KOpen s2)
           | None => wh_tail ft c h hs fname rv o old (wh_create (o_tmp o) (bump KOpen s2))
           end) = (ROk, s') ->
    acc fname rv (XRun (PDone (o_tmp o))) s').
  { intros s1 old Hacc1.
    destruct (p_mkdir_tmp ft s1) as [b s2] eqn:Em.
    apply p_mkdir_tmp_spec in Em as (Hd & _ & _).
    assert (Hacc2 : acc fname rv (XRun (PStart rv)) s2).
    { destruct Hd as [(_ & Hev2)|(_ & _ & Hev2 & _)].
      - eapply acc_same; eauto.
      - eapply acc_cons; [exact Hev2|exact Hacc1|]. destruct rv; reflexivity. }
    destruct b; cbn [negb]; [|intros H; destruct (wfail_not_ok _ _ _ _ _ H)].
    destruct (terr ft KOpen s2) as [e3|]; [intros H; destruct (wfail_not_ok _ _ _ _ _ H)|].
    intros H. eapply wh_tail_done; [|exact H].
    unfold wh_create. eapply acc_cons; [reflexivity| |].
    - apply acc_setdir, acc_bump. exact Hacc2.
    - cbn [proto_step_x proto_step]. rewrite Bool.eqb_reflx.
      destruct rv; reflexivity. }
  destruct (dlookup fname (t_dir s)) as [[x|k]|]; destruct rv; try discriminate.
  - apply G. now apply acc_bump.
  - apply G. now apply acc_bump.
  - apply G.
    eapply acc_cons; [reflexivity| |].
    + apply acc_setdir, acc_bump. exact Hacc0.
    + cbn [proto_step_x proto_step andb]. now rewrite beq_refl.
Qed.

(* ---------------- the four operations ---------------- *)
Theorem acked_remove_durable ft d u :
  p_remove_user_res ft d u = ROk -> durability_ok (events (p_remove_user ft d u)) = true.
Proof.
  unfold p_remove_user_res, p_remove_user.
  destruct (negb (valid_name u)); [reflexivity|].
  repeat (rewrite tick_eq; cbv beta iota zeta).
  destruct (terr ft KOpen _) as [e3|].
  { rewrite Bool.orb_true_r. discriminate. }
  destruct (terr ft KFsync _) as [e4|].
  { rewrite Bool.orb_true_r. discriminate. }
  intros _. apply durable_emit_fsync.
Qed.

Theorem acked_set_admin_durable ft d u adm s :
  p_set_admin ft d u adm = (ROk, s) -> durability_ok (events s) = true.
Proof.
  unfold p_set_admin.
  destruct (negb (valid_name u)); [discriminate|].
  destruct (p_exists ft u (t0 d)) as [ex s1] eqn:Ex.
  apply p_exists_spec in Ex as (_ & Hev & _). cbn [t_ev t0] in Hev.
  destruct ex as [cur| |]; try discriminate.
  destruct (Bool.eqb cur adm).
  { repeat (rewrite tick_eq; cbv beta iota zeta).
    destruct (terr ft KOpen _) as [e4|]; [discriminate|].
    destruct (terr ft KFsync _) as [e5|]; [discriminate|].
    intros H. injection H as <-. apply durable_emit_fsync. }
  repeat (rewrite tick_eq; cbv beta iota zeta).
  destruct (terr ft KRename _) as [e3|]; [discriminate|].
  destruct (dlookup (u ++ ext_of cur) _) as [n|]; [|discriminate].
  match goal with |- (if ?c then _ else _) = _ -> _ => destruct c end; [|discriminate].
  repeat (rewrite tick_eq; cbv beta iota zeta).
  destruct (terr ft KOpen _) as [e4|]; [discriminate|].
  destruct (terr ft KFsync _) as [e5|]; [discriminate|].
  intros H. injection H as <-. apply durable_emit_fsync.
Qed.

Section Programs.
  Variable kdf : hasher -> bytes -> bytes -> option bytes.

  Theorem acked_add_complete ft c d u pw adm o s :
    p_add kdf ft c d u pw adm o = (ROk, s) ->
    protocol_complete_ok (u ++ ext_of adm) true (events s) = true /\ durability_ok (events s) = true.
  Proof.
    intros H.
    assert (Hc : protocol_complete_ok (u ++ ext_of adm) true (events s) = true).
    { revert H. unfold p_add.
      destruct (valid_name u) eqn:Hv; cbn [negb]; [|discriminate].
      destruct (p_exists ft u (t0 d)) as [ex s1] eqn:Ex.
      apply p_exists_spec in Ex as (_ & Hev & _). cbn [t_ev t0] in Hev.
      destruct ex; try discriminate.
      destruct (cfg_hasher c (default c)) as [h|]; [|discriminate].
      destruct (hash_generate kdf h (o_salt o) pw) as [hs|]; [|discriminate].
      intros H. apply p_write_hash_done in H; [|exact Hev].
      eapply acc_done_complete; eauto. }
    split; [exact Hc|]. eapply complete_durable; eauto.
  Qed.

  Theorem acked_update_complete ft c d u pw o s adm :
    p_update kdf ft c d u pw o = (ROk, s) -> user_exists d u = ExYes adm ->
    protocol_complete_ok (u ++ ext_of adm) false (events s) = true /\ durability_ok (events s) = true.
  Proof.
    intros H Hex.
    assert (Hc : protocol_complete_ok (u ++ ext_of adm) false (events s) = true).
    { revert H. unfold p_update.
      destruct (valid_name u) eqn:Hv; cbn [negb]; [|discriminate].
      destruct (p_exists ft u (t0 d)) as [ex s1] eqn:Ex.
      apply p_exists_spec in Ex as (_ & Hev & Hr & _). cbn [t_ev t_dir t0] in Hev, Hr.
      rewrite Hex in Hr.
      destruct Hr as [-> | ->]; [|discriminate].
      repeat (rewrite tick_eq; cbv beta iota).
      destruct (terr ft KOpen s1) as [e2|]; [discriminate|].
      destruct (terr ft KRead (bump KOpen s1)) as [e3|]; [discriminate|].
      destruct (read_file _ _) as [content|]; [|discriminate].
      destruct (is_supported c content); [|discriminate].
      destruct (cfg_hasher c (default c)) as [h|]; [|discriminate].
      destruct (hash_generate kdf h (o_salt o) pw) as [hs|]; [|discriminate].
      intros H. apply p_write_hash_done in H; [|exact Hev].
      eapply acc_done_complete; eauto. }
    split; [exact Hc|]. eapply complete_durable; eauto.
  Qed.

  (* the side condition of the update theorem is no restriction: an
     acknowledged update found the user, under the name the undisturbed lookup
     finds *)
  Lemma acked_update_user_exists ft c d u pw o s :
    p_update kdf ft c d u pw o = (ROk, s) -> exists adm, user_exists d u = ExYes adm.
  Proof.
    unfold p_update.
    destruct (valid_name u) eqn:Hv; cbn [negb]; [|discriminate].
    destruct (p_exists ft u (t0 d)) as [ex s1] eqn:Ex.
    apply p_exists_spec in Ex as (_ & _ & Hr & _). cbn [t_dir t0] in Hr.
    destruct Hr as [-> | ->]; [|discriminate].
    destruct (user_exists d u) as [a| |]; try discriminate. eauto.
  Qed.

  Corollary acked_update_durable ft c d u pw o s :
    p_update kdf ft c d u pw o = (ROk, s) -> durability_ok (events s) = true.
  Proof.
    intros H. destruct (acked_update_user_exists _ _ _ _ _ _ _ H) as (adm & Hex).
    exact (proj2 (acked_update_complete _ _ _ _ _ _ _ _ H Hex)).
  Qed.
End Programs.

(* ---------------- non-vacuity ---------------- *)
Module Examples.
  Definition kdf0 : hasher -> bytes -> bytes -> option bytes := fun _ s p => Some (s ++ p).
  Definition c0 : config := {| params := [(1, HArgon 1 64 1 32)]; default := 1 |}.
  Definition o0 : oracle :=
    {| o_ts := 1700000000%Z; o_salt := str "salt"; o_tmp := str "x1"; o_order := [] |}.
  Definition alice : bytes := str "alice".
  Definition secret : bytes := str "secret".
  Definition d_alice : dirst := [(alice ++ ext_user, File (written (HArgon 1 64 1 32) 5%Z 1 (str "s0") (str "s0old") (str "aux-data" ++ [lf])))].

  (* faults that hit a call of the run and are tolerated by it *)
  Definition f_stat_tmp : fault := {| f_kind := KStat; f_occ := 2; f_errno := EIO |}.     (* Stat(.tmp) in MkdirAll *)
  Definition f_copy : fault := {| f_kind := KCopy; f_occ := 0; f_errno := EIO |}.         (* copy_file_range -> fallback *)
  Definition f_unlink_tmp : fault := {| f_kind := KUnlink; f_occ := 0; f_errno := EROFS |}. (* deferred os.Remove(tmp) *)
  (* remove: the unlink of the (absent) .admin name fails, rmdir says ENOENT *)
  Definition f_unlink_admin : fault := {| f_kind := KUnlink; f_occ := 0; f_errno := EIO |}.
  Definition f_fsync0 : fault := {| f_kind := KFsync; f_occ := 0; f_errno := EIO |}.

  (* remove under a tolerated fault: acknowledged, the unlink is in the trace and is synced *)
  Example remove_acked_durable :
    p_remove_user_res (Some f_unlink_admin) d_alice alice = ROk /\
    events (p_remove_user (Some f_unlink_admin) d_alice alice)
      = [EUnlink (LFile (alice ++ ext_user)); EFsync LBaseDir] /\
    durability_ok (events (p_remove_user (Some f_unlink_admin) d_alice alice)) = true.
  Proof. repeat split; vm_compute; reflexivity. Qed.

  Example remove_by_theorem :
    durability_ok (events (p_remove_user (Some f_unlink_admin) d_alice alice)) = true.
  Proof. apply acked_remove_durable. vm_compute. reflexivity. Qed.

  (* failure is reported although the unlink took effect: the fsync of the
     base directory fails after the user's file has been removed *)
  Example remove_err_after_unlink :
    p_remove_user_res (Some f_fsync0) d_alice alice = RErr /\
    events (p_remove_user (Some f_fsync0) d_alice alice) = [EUnlink (LFile (alice ++ ext_user))] /\
    t_dir (p_remove_user (Some f_fsync0) d_alice alice) = [] /\
    durability_ok (events (p_remove_user (Some f_fsync0) d_alice alice)) = false.
  Proof. repeat split; vm_compute; reflexivity. Qed.

  (* add into the empty directory, without fault and under tolerated ones *)
  Example add_acked_complete :
    Forall (fun ft =>
      let r := p_add kdf0 ft c0 [] alice secret true o0 in
      fst r = ROk /\
      protocol_complete_ok (alice ++ ext_of true) true (events (snd r)) = true /\
      durability_ok (events (snd r)) = true)
      [None; Some f_stat_tmp; Some f_copy; Some f_unlink_tmp].
  Proof. repeat (apply Forall_cons; [(split; [|split]); vm_compute; reflexivity|]). apply Forall_nil. Qed.

  Example add_by_theorem :
    exists s, p_add kdf0 (Some f_stat_tmp) c0 [] alice secret true o0 = (ROk, s) /\
              protocol_complete_ok (alice ++ ext_of true) true (events s) = true /\
              durability_ok (events s) = true.
  Proof.
    destruct (p_add kdf0 (Some f_stat_tmp) c0 [] alice secret true o0) as [r s] eqn:E.
    assert (r = ROk) as -> by (apply (f_equal fst) in E; vm_compute in E; congruence).
    exists s. split; [reflexivity|]. exact (acked_add_complete kdf0 _ _ _ _ _ _ _ _ E).
  Qed.

  (* the converse direction is not claimed: an add that fails at the fsync of
     the base directory reports RErr *)
  Example add_fsync_base_fails :
    fst (p_add kdf0 (Some {| f_kind := KFsync; f_occ := 1; f_errno := EIO |}) c0 [] alice secret true o0) = RErr.
  Proof. vm_compute. reflexivity. Qed.

  (* set-admin and update, likewise *)
  Example set_admin_acked_durable :
    exists s, p_set_admin (Some {| f_kind := KStat; f_occ := 2; f_errno := EACCES |}) d_alice alice true = (ROk, s) /\
              events s = [ERename (LFile (alice ++ ext_user)) (LFile (alice ++ ext_admin)); EFsync LBaseDir] /\
              durability_ok (events s) = true.
  Proof. eexists. repeat split; vm_compute; reflexivity. Qed.

  Example update_acked_complete :
    let r := p_update kdf0 (Some f_copy) c0 d_alice alice secret o0 in
    fst r = ROk /\
    protocol_complete_ok (alice ++ ext_of false) false (events (snd r)) = true /\
    durability_ok (events (snd r)) = true.
  Proof. repeat split; vm_compute; reflexivity. Qed.
End Examples.

Print Assumptions acked_remove_durable.
Print Assumptions acked_set_admin_durable.
Print Assumptions acked_add_complete.
Print Assumptions acked_update_complete.
