(* Agent_proofs.v — C10 (the agent never wedges) and C11 (requests behave as
   if executed one at a time, in an order consistent with real time). *)
From Whawty Require Import Bytes Bytes_proofs Names Record Record_proofs Store StoreOps_proofs StoreSpec Store_proofs StoreInv_proofs Agent.
From Coq Require Import ZifyN ZifyNat ZifyBool.
Open Scope N_scope.

Section A.
  Variable kdf : hasher -> bytes -> bytes -> option bytes.
  Variable policy_ok : bytes -> bytes -> bool.
  Variable orc : nat -> oracle.
  Variable ac : agent_cfg.

  Notation astep := (astep kdf policy_ok orc ac).
  Notation reach := (reach kdf policy_ok orc ac).
  Notation runs := (runs kdf policy_ok orc ac).

  (* every channel has room for at least one element *)
  Definition caps_ok : Prop := (forall q, 1 <= cap ac q)%nat /\ (1 <= cap_notify ac)%nat /\ (1 <= cap_remote ac)%nat.

  (* ---------------- auxiliaries ---------------- *)
  Lemma qid_eqb_spec a b : reflect (a = b) (qid_eqb a b).
  Proof. destruct a, b; cbn [qid_eqb]; constructor; congruence. Qed.

  Lemma set_q_same q k v : set_q q k v k = v.
  Proof. unfold set_q. destruct (qid_eqb_spec k k) as [_|N]; [reflexivity|now elim N]. Qed.

  Lemma set_q_other q k v k' : k <> k' -> set_q q k v k' = q k'.
  Proof. intros H. unfold set_q. destruct (qid_eqb_spec k k') as [E|_]; [contradiction|reflexivity]. Qed.

  Lemma set_cl_same cl c v : set_cl cl c v c = v.
  Proof. unfold set_cl. now rewrite Nat.eqb_refl. Qed.

  Lemma set_cl_other cl c v c' : c <> c' -> set_cl cl c v c' = cl c'.
  Proof. intros H. unfold set_cl. destruct (Nat.eqb_spec c c') as [E|_]; [contradiction|reflexivity]. Qed.

  Lemma qid_eq_dec (a b : qid) : {a = b} + {a <> b}.
  Proof. decide equality. Qed.

  (* the result of [after_handle], field by field *)
  Lemma after_handle_fields s q' c' d' oc r res notify upg :
    let s' := after_handle ac s q' c' d' oc r res notify upg in
    a_cfg s' = c' /\ a_dir s' = d' /\ a_n s' = S (a_n s) /\ a_log s' = (oc, r, res) :: a_log s /\
    a_notify s' = a_notify s.
  Proof.
    unfold after_handle.
    destruct upg as [[u pw]|]; [destruct (upgrade_send_blocking ac); [|destruct (mode ac)]|];
      repeat match goal with |- context [if ?b then _ else _] => destruct b end;
      cbn [a_cfg a_dir a_n a_log a_notify]; auto.
  Qed.

  Lemma after_handle_q s q' c' d' oc r res notify upg :
    let s' := after_handle ac s q' c' d' oc r res notify upg in
    a_q s' = q' \/
    exists u pw, upg = Some (u, pw) /\ upgrade_send_blocking ac = false /\ mode ac = ULocal /\
      (length (q' QUpdate) < cap ac QUpdate)%nat /\
      a_q s' = set_q q' QUpdate (q' QUpdate ++ [(None, RUpdate u pw)]).
  Proof.
    unfold after_handle.
    destruct upg as [[u pw]|].
    - destruct (upgrade_send_blocking ac) eqn:Eb; [cbn [a_q]; auto|].
      destruct (mode ac) eqn:Em.
      + destruct notify; cbn [a_q]; auto.
      + destruct (Nat.ltb_spec (length (q' QUpdate)) (cap ac QUpdate)) as [Hlt|Hge].
        * right. exists u, pw. destruct notify; cbn [a_q]; auto 10.
        * destruct notify; cbn [a_q]; auto.
      + destruct (a_remote s <? cap_remote ac)%nat; destruct notify; cbn [a_q]; auto.
    - destruct notify; cbn [a_q]; auto.
  Qed.

  Lemma after_handle_remote s q' c' d' oc r res notify upg :
    let s' := after_handle ac s q' c' d' oc r res notify upg in
    a_remote s' = a_remote s \/ ((a_remote s < cap_remote ac)%nat /\ a_remote s' = S (a_remote s)).
  Proof.
    unfold after_handle.
    destruct upg as [[u pw]|].
    - destruct (upgrade_send_blocking ac) eqn:Eb; [cbn [a_remote]; auto|].
      destruct (mode ac) eqn:Em.
      + destruct notify; cbn [a_remote]; auto.
      + destruct (length (q' QUpdate) <? cap ac QUpdate)%nat; destruct notify; cbn [a_remote]; auto.
      + destruct (Nat.ltb_spec (a_remote s) (cap_remote ac)) as [Hlt|Hge];
          destruct notify; cbn [a_remote]; auto.
    - destruct notify; cbn [a_remote]; auto.
  Qed.

  Lemma after_handle_disp s q' c' d' oc r res notify upg :
    let s' := after_handle ac s q' c' d' oc r res notify upg in
    (a_disp s' = DIdle /\ a_cl s' = reply (a_cl s) oc r res) \/
    (a_disp s' = DNotify oc r res /\ a_cl s' = a_cl s) \/
    (exists u pw, upg = Some (u, pw) /\ upgrade_send_blocking ac = true /\
                  a_disp s' = DUpgradeSend oc res u pw /\ a_cl s' = a_cl s).
  Proof.
    unfold after_handle.
    destruct upg as [[u pw]|].
    - destruct (upgrade_send_blocking ac) eqn:Eb.
      + right. right. exists u, pw. cbn [a_disp a_cl]. auto.
      + destruct (mode ac) eqn:Em;
          repeat match goal with |- context [if ?b then _ else _] => destruct b end;
          cbn [a_disp a_cl]; auto.
    - destruct notify; cbn [a_disp a_cl]; auto.
  Qed.

  Lemma after_handle_disp_nb s q' c' d' oc r res notify upg :
    upgrade_send_blocking ac = false ->
    let s' := after_handle ac s q' c' d' oc r res notify upg in
    (a_disp s' = DIdle /\ a_cl s' = reply (a_cl s) oc r res) \/
    (a_disp s' = DNotify oc r res /\ a_cl s' = a_cl s).
  Proof.
    intros Hb s'. destruct (after_handle_disp s q' c' d' oc r res notify upg) as [H|[H|(u & pw & _ & E & _)]];
      [auto|auto|congruence].
  Qed.

  Lemma handle_req_upg c d n r c' d' res notify u0 pw0 :
    handle_req kdf policy_ok orc ac c d n r = (c', d', res, notify, Some (u0, pw0)) -> r = RAuth u0 pw0.
  Proof.
    unfold handle_req. destruct r; cbn [gated op_of];
      try (destruct (negb (policy_ok _ _)); [discriminate|]);
      destruct (step kdf c d _ (orc n)) as [[c1 d1] ob]; try discriminate.
    intros H. injection H as _ _ _ _ H.
    destruct ob as [x|x|ok adm upg ts|x|x]; try discriminate.
    destruct ok, upg, (mode ac); try discriminate; injection H as -> ->; reflexivity.
  Qed.

  Lemma reach_inv (P : astate -> Prop) c d :
    P (ainit c d) -> (forall s l s', P s -> astep s l s' -> P s') ->
    forall s tr, reach c d s tr -> P s.
  Proof. intros H0 Hs s tr R. induction R as [|s tr l s' R IH St]; [exact H0|eauto]. Qed.

  (* ---------------- queue membership through the two queue updates ---------------- *)
  Lemma pop_in (Q : qid -> list qitem) q it rest x k :
    Q q = it :: rest -> In x (set_q Q q rest k) -> In x (Q k).
  Proof.
    intros HQ H. destruct (qid_eq_dec q k) as [<-|N].
    - rewrite set_q_same in H. rewrite HQ. now right.
    - now rewrite set_q_other in H.
  Qed.

  Lemma in_pop (Q : qid -> list qitem) q it rest x k :
    Q q = it :: rest -> In x (Q k) -> (k = q /\ x = it) \/ In x (set_q Q q rest k).
  Proof.
    intros HQ H. destruct (qid_eq_dec q k) as [<-|N].
    - rewrite set_q_same. rewrite HQ in H. destruct H as [H|H]; auto.
    - rewrite set_q_other by exact N. auto.
  Qed.

  Lemma after_handle_in_inv s q' c' d' oc r res notify upg x k :
    In x (a_q (after_handle ac s q' c' d' oc r res notify upg) k) ->
    In x (q' k) \/ exists u pw, x = (None, RUpdate u pw).
  Proof.
    destruct (after_handle_q s q' c' d' oc r res notify upg) as [->|(u & pw & _ & _ & _ & _ & ->)]; [auto|].
    intros H. destruct (qid_eq_dec QUpdate k) as [<-|N].
    - rewrite set_q_same in H. apply in_app_or in H as [H|[H|[]]]; eauto.
    - rewrite set_q_other in H by exact N. auto.
  Qed.

  Lemma after_handle_in s q' c' d' oc r res notify upg x k :
    In x (q' k) -> In x (a_q (after_handle ac s q' c' d' oc r res notify upg) k).
  Proof.
    destruct (after_handle_q s q' c' d' oc r res notify upg) as [->|(u & pw & _ & _ & _ & _ & ->)]; [auto|].
    intros H. destruct (qid_eq_dec QUpdate k) as [<-|N].
    - rewrite set_q_same. apply in_or_app. auto.
    - now rewrite set_q_other by exact N.
  Qed.

  (* ---------------- invariants of reachable states ---------------- *)
  Definition bounded (s : astate) : Prop :=
    (forall q, length (a_q s q) <= cap ac q)%nat /\ (a_notify s <= cap_notify ac)%nat /\ (a_remote s <= cap_remote ac)%nat.

  Lemma bounded_step s l s' : bounded s -> astep s l s' -> bounded s'.
  Proof.
    intros (Bq & Bn & Br) Hstep.
    assert (Hah : forall q it rest c' d' oc r res notify upg, a_q s q = it :: rest ->
              bounded (after_handle ac s (set_q (a_q s) q rest) c' d' oc r res notify upg)).
    { intros q it rest c' d' oc r res notify upg HQ.
      assert (Bq' : forall k, (length (set_q (a_q s) q rest k) <= cap ac k)%nat).
      { intros k. specialize (Bq k). destruct (qid_eq_dec q k) as [<-|N].
        - rewrite set_q_same. rewrite HQ in Bq. cbn [length] in Bq. lia.
        - now rewrite set_q_other by exact N. }
      destruct (after_handle_fields s (set_q (a_q s) q rest) c' d' oc r res notify upg) as (_ & _ & _ & _ & En).
      unfold bounded. rewrite En. split; [|split; [exact Bn|]].
      - destruct (after_handle_q s (set_q (a_q s) q rest) c' d' oc r res notify upg)
          as [->|(u & pw & _ & _ & _ & Hlt & ->)]; [exact Bq'|].
        intros k. destruct (qid_eq_dec QUpdate k) as [<-|N].
        + rewrite set_q_same, app_length. cbn [length]. lia.
        + rewrite set_q_other by exact N. apply Bq'.
      - destruct (after_handle_remote s (set_q (a_q s) q rest) c' d' oc r res notify upg) as [->|[Hlt ->]]; lia. }
    inversion Hstep; subst; try (eapply Hah; eassumption);
      unfold bounded; cbn [a_q a_notify a_remote]; (split; [|split]); try assumption; try lia.
    - intros k. destruct (qid_eq_dec (qof r) k) as [<-|N].
      + rewrite set_q_same, app_length. cbn [length]. lia.
      + rewrite set_q_other by exact N. apply Bq.
    - intros k. destruct (qid_eq_dec QUpdate k) as [<-|N].
      + rewrite set_q_same, app_length. cbn [length]. lia.
      + rewrite set_q_other by exact N. apply Bq.
  Qed.

  Theorem queues_bounded c d s tr :
    reach c d s tr ->
    (forall q, length (a_q s q) <= cap ac q)%nat /\ (a_notify s <= cap_notify ac)%nat /\ (a_remote s <= cap_remote ac)%nat.
  Proof.
    apply (reach_inv bounded).
    - unfold bounded, ainit. cbn [a_q a_notify a_remote length]. repeat split; lia.
    - apply bounded_step.
  Qed.

  (* a waiting client's request is in exactly one place: a queue or the dispatcher's hands *)
  Definition held_by_disp (s : astate) (c : cid) (r : req) : Prop :=
    match a_disp s with
    | DNotify (Some c') r' _ => c' = c /\ r' = r
    | DUpgradeSend (Some c') _ u pw => c' = c /\ r = RAuth u pw
    | _ => False
    end.

  Definition clients (l : list qitem) : list cid :=
    flat_map (fun it : qitem => match fst it with Some c => [c] | None => [] end) l.

  Lemma in_clients c r l : In (Some c, r) l -> In c (clients l).
  Proof. intros H. unfold clients. apply in_flat_map. exists (Some c, r). split; [exact H|cbn; auto]. Qed.

  Lemma clients_in c l : In c (clients l) -> exists r, In (Some c, r) l.
  Proof.
    unfold clients. intros H. apply in_flat_map in H as ([[c'|] r] & Hin & Hc); cbn [fst In] in Hc.
    - destruct Hc as [->|[]]. eauto.
    - destruct Hc.
  Qed.

  Lemma clients_app l1 l2 : clients (l1 ++ l2) = clients l1 ++ clients l2.
  Proof. apply flat_map_app. Qed.

  Lemma clients_none x : clients [(None, x)] = [].
  Proof. reflexivity. Qed.

  Lemma clients_some c x : clients [(Some c, x)] = [c].
  Proof. reflexivity. Qed.

  Lemma clients_cons oc x l : clients ((oc, x) :: l) = match oc with Some c => [c] | None => [] end ++ clients l.
  Proof. reflexivity. Qed.

  Lemma nodup_snoc {A} (l : list A) x : NoDup l -> ~ In x l -> NoDup (l ++ [x]).
  Proof.
    induction l as [|a l IH]; cbn [app]; intros Hn Hi.
    - constructor; [intros []|constructor].
    - inversion Hn as [|a' l' Ha Hl]; subst. constructor.
      + rewrite in_app_iff. cbn [In]. intros [H|[H|[]]]; [contradiction|subst; apply Hi; now left].
      + apply IH; [exact Hl|]. intros H; apply Hi; now right.
  Qed.

  Record cinv (s : astate) : Prop := {
    ci_q : forall q cl r, In (Some cl, r) (a_q s q) -> q = qof r /\ a_cl s cl = CWait r;
    ci_nd : forall q, NoDup (clients (a_q s q));
    ci_held : forall cl r, held_by_disp s cl r ->
                a_cl s cl = CWait r /\ forall q r', ~ In (Some cl, r') (a_q s q);
    ci_wait : forall cl r, a_cl s cl = CWait r -> In (Some cl, r) (a_q s (qof r)) \/ held_by_disp s cl r
  }.

  Lemma cinv_ext s s' :
    cinv s -> a_q s' = a_q s -> a_disp s' = a_disp s -> a_cl s' = a_cl s -> cinv s'.
  Proof.
    intros [Iq Ind Ih Iw] Eq Ed Ec.
    split; unfold held_by_disp in *; rewrite ?Eq, ?Ed, ?Ec; assumption.
  Qed.

  Lemma cinv_setcl s s' c v :
    cinv s -> (forall r, a_cl s c <> CWait r) -> (forall r, v <> CWait r) ->
    a_q s' = a_q s -> a_disp s' = a_disp s -> a_cl s' = set_cl (a_cl s) c v -> cinv s'.
  Proof.
    intros [Iq Ind Ih Iw] Hold Hnew Eq Ed Ec.
    assert (Hcl : forall cl r, a_cl s cl = CWait r <-> a_cl s' cl = CWait r).
    { intros cl r. rewrite Ec. destruct (Nat.eq_dec c cl) as [<-|N].
      - rewrite set_cl_same. split; intros H; [elim (Hold _ H)|elim (Hnew _ H)].
      - rewrite set_cl_other by exact N. tauto. }
    split; unfold held_by_disp in *; rewrite ?Eq, ?Ed.
    - intros q cl r H. rewrite <- Hcl. now apply Iq.
    - exact Ind.
    - intros cl r H. rewrite <- Hcl. now apply Ih.
    - intros cl r H. apply Iw. now apply Hcl.
  Qed.

  Lemma cinv_release s s' oc r res :
    cinv s ->
    (forall cl r', held_by_disp s cl r' -> oc = Some cl /\ r' = r) ->
    (match oc with Some c => held_by_disp s c r | None => True end) ->
    a_disp s' = DIdle -> a_cl s' = reply (a_cl s) oc r res ->
    (forall k, a_q s' k = a_q s k \/ exists x, a_q s' k = a_q s k ++ [(None, x)]) ->
    cinv s'.
  Proof.
    intros [Iq Ind Ih Iw] Honly Hheld Ed Ec Eq.
    assert (Hin : forall cl r' k, In (Some cl, r') (a_q s' k) <-> In (Some cl, r') (a_q s k)).
    { intros cl r' k. destruct (Eq k) as [->|[x ->]]; [tauto|]. rewrite in_app_iff. cbn [In].
      split; [intros [H|[H|[]]]; [exact H|discriminate]|auto]. }
    assert (Hcl : forall cl, oc <> Some cl -> a_cl s' cl = a_cl s cl).
    { intros cl N. rewrite Ec. destruct oc as [c|]; cbn [reply]; [|reflexivity]. apply set_cl_other. congruence. }
    assert (Hno : forall cl r' k, In (Some cl, r') (a_q s k) -> oc <> Some cl).
    { intros cl r' k H E. subst oc. destruct (Ih _ _ Hheld) as [_ Hn]. exact (Hn _ _ H). }
    split.
    - intros q cl r' H. apply Hin in H. rewrite (Hcl cl (Hno _ _ _ H)). now apply Iq.
    - intros k. destruct (Eq k) as [->|[x ->]]; [apply Ind|].
      rewrite clients_app, clients_none, app_nil_r. apply Ind.
    - intros cl r'. unfold held_by_disp. rewrite Ed. intros [].
    - intros cl r' H. left. apply Hin.
      assert (N : oc <> Some cl).
      { intros ->. rewrite Ec in H. cbn [reply] in H. rewrite set_cl_same in H. discriminate. }
      rewrite (Hcl _ N) in H. destruct (Iw _ _ H) as [Hi|Hh]; [exact Hi|].
      apply Honly in Hh as [E _]. contradiction.
  Qed.

  Lemma cinv_handle s q oc r rest c' d' res notify upg :
    cinv s -> a_disp s = DIdle -> a_q s q = (oc, r) :: rest ->
    (forall u pw, upg = Some (u, pw) -> r = RAuth u pw) ->
    cinv (after_handle ac s (set_q (a_q s) q rest) c' d' oc r res notify upg).
  Proof.
    intros [Iq Ind Ih Iw] Hd HQ Hupg.
    set (q' := set_q (a_q s) q rest).
    set (s' := after_handle ac s q' c' d' oc r res notify upg).
    assert (F1 : forall cl r' k, In (Some cl, r') (a_q s' k) -> In (Some cl, r') (q' k)).
    { intros cl r' k H. apply after_handle_in_inv in H as [H|(u & pw & E)]; [exact H|discriminate]. }
    assert (F2 : forall x k, In x (q' k) -> In x (a_q s' k)) by (intros; now apply after_handle_in).
    assert (F3 : forall k, clients (a_q s' k) = clients (q' k)).
    { intros k. subst s'.
      destruct (after_handle_q s q' c' d' oc r res notify upg) as [->|(u & pw & _ & _ & _ & _ & ->)]; [reflexivity|].
      destruct (qid_eq_dec QUpdate k) as [<-|N].
      - rewrite set_q_same, clients_app, clients_none, app_nil_r. reflexivity.
      - now rewrite set_q_other. }
    assert (P1 : forall x k, In x (q' k) -> In x (a_q s k)) by (intros x k; apply (pop_in _ _ _ _ _ _ HQ)).
    assert (P2 : forall x k, In x (a_q s k) -> (k = q /\ x = (oc, r)) \/ In x (q' k))
      by (intros x k; apply (in_pop _ _ _ _ _ _ HQ)).
    assert (Hnoheld : forall cl r', ~ held_by_disp s cl r') by (intros cl r'; unfold held_by_disp; rewrite Hd; auto).
    assert (Qnd : forall k, NoDup (clients (q' k))).
    { intros k. unfold q'. destruct (qid_eq_dec q k) as [<-|N].
      - rewrite set_q_same. specialize (Ind q). rewrite HQ, clients_cons in Ind.
        destruct oc; cbn [app] in Ind; [now inversion Ind|exact Ind].
      - rewrite set_q_other by exact N. apply Ind. }
    assert (K : forall c, oc = Some c -> a_cl s c = CWait r /\ forall k r', ~ In (Some c, r') (q' k)).
    { intros c ->. assert (Hhead : In (Some c, r) (a_q s q)) by (rewrite HQ; now left).
      destruct (Iq _ _ _ Hhead) as [Eq0 Hw]. split; [exact Hw|].
      intros k r' H. destruct (qid_eq_dec q k) as [<-|N].
      - unfold q' in H. rewrite set_q_same in H. specialize (Ind q). rewrite HQ, clients_cons in Ind.
        cbn [app] in Ind. inversion Ind as [|x l Hni _]; subst. apply Hni. eapply in_clients; eauto.
      - apply P1 in H. destruct (Iq _ _ _ H) as [Ek Hw']. rewrite Hw in Hw'. injection Hw' as <-. congruence. }
    assert (Hcl : forall cl, oc <> Some cl -> reply (a_cl s) oc r res cl = a_cl s cl).
    { intros cl N. destruct oc as [c|]; cbn [reply]; [|reflexivity]. apply set_cl_other. congruence. }
    assert (Hkeep : a_cl s' = a_cl s ->
                    (forall cl r', held_by_disp s' cl r' <-> oc = Some cl /\ r' = r) -> cinv s').
    { intros Ec Hh. split.
      - intros k cl r' H. apply F1, P1 in H. rewrite Ec. now apply Iq.
      - intros k. rewrite F3. apply Qnd.
      - intros cl r' H. apply Hh in H as [-> ->]. destruct (K _ eq_refl) as [Hw Kn]. rewrite Ec.
        split; [exact Hw|]. intros k r'' H. apply F1 in H. exact (Kn _ _ H).
      - intros cl r' H. rewrite Ec in H. destruct (Iw _ _ H) as [Hi|Hh']; [|elim (Hnoheld _ _ Hh')].
        apply P2 in Hi as [[_ E]|Hi].
        + right. apply Hh. injection E as E1 E2. auto.
        + left. apply F2, Hi. }
    destruct (after_handle_disp s q' c' d' oc r res notify upg) as [[Ed Ec]|[[Ed Ec]|(u & pw & Eu & _ & Ed & Ec)]];
      fold s' in Ed, Ec.
    - split.
      + intros k cl r' H. apply F1 in H. pose proof (P1 _ _ H) as H0.
        destruct (Iq _ _ _ H0) as [E Hw]. split; [exact E|].
        rewrite Ec, Hcl; [exact Hw|]. intros ->. destruct (K _ eq_refl) as [_ Kn]. exact (Kn _ _ H).
      + intros k. rewrite F3. apply Qnd.
      + intros cl r'. unfold held_by_disp. rewrite Ed. intros [].
      + intros cl r' H. rewrite Ec in H. left.
        assert (N : oc <> Some cl).
        { intros ->. cbn [reply] in H. rewrite set_cl_same in H. discriminate. }
        rewrite Hcl in H by exact N. destruct (Iw _ _ H) as [Hi|Hh]; [|elim (Hnoheld _ _ Hh)].
        apply P2 in Hi as [[_ E]|Hi]; [injection E as E _; congruence|apply F2; exact Hi].
    - apply Hkeep; [exact Ec|]. intros cl r'. unfold held_by_disp. rewrite Ed.
      destruct oc; intuition congruence.
    - apply Hkeep; [exact Ec|]. intros cl r'. unfold held_by_disp. rewrite Ed.
      rewrite (Hupg _ _ Eu). destruct oc; intuition congruence.
  Qed.

  Lemma cinv_enq s s' c r :
    cinv s -> a_cl s c = CWant r ->
    a_q s' = set_q (a_q s) (qof r) (a_q s (qof r) ++ [(Some c, r)]) ->
    a_disp s' = a_disp s -> a_cl s' = set_cl (a_cl s) c (CWait r) -> cinv s'.
  Proof.
    intros [Iq Ind Ih Iw] Hc Eq Ed Ec.
    assert (Hnoc : forall k r', ~ In (Some c, r') (a_q s k)).
    { intros k r' H. destruct (Iq _ _ _ H) as [_ Hw]. congruence. }
    assert (Hin : forall x k, In x (a_q s' k) <-> In x (a_q s k) \/ (k = qof r /\ x = (Some c, r))).
    { intros x k. rewrite Eq. destruct (qid_eq_dec (qof r) k) as [<-|N].
      - rewrite set_q_same, in_app_iff. cbn [In]. intuition congruence.
      - rewrite set_q_other by exact N. intuition congruence. }
    split.
    - intros k cl r' H. apply Hin in H as [H|[-> E]].
      + destruct (Iq _ _ _ H) as [E Hw]. split; [exact E|]. rewrite Ec, set_cl_other; [exact Hw|].
        intros <-. congruence.
      + injection E as -> ->. split; [reflexivity|]. rewrite Ec. apply set_cl_same.
    - intros k. rewrite Eq. destruct (qid_eq_dec (qof r) k) as [<-|N].
      + rewrite set_q_same, clients_app, clients_some. apply nodup_snoc; [apply Ind|].
        intros H. apply clients_in in H as [r' H]. exact (Hnoc _ _ H).
      + rewrite set_q_other by exact N. apply Ind.
    - intros cl r' H. unfold held_by_disp in H. rewrite Ed in H. destruct (Ih _ _ H) as [Hw Hn].
      assert (N : c <> cl) by (intros <-; congruence).
      split; [rewrite Ec, set_cl_other; assumption|].
      intros k r'' Hi. apply Hin in Hi as [Hi|[_ E]]; [exact (Hn _ _ Hi)|congruence].
    - intros cl r' H. rewrite Ec in H. destruct (Nat.eq_dec c cl) as [<-|N].
      + rewrite set_cl_same in H. injection H as <-. left. apply Hin. auto.
      + rewrite set_cl_other in H by exact N. destruct (Iw _ _ H) as [Hi|Hh].
        * left. apply Hin. auto.
        * right. unfold held_by_disp. rewrite Ed. exact Hh.
  Qed.

  Lemma cinv_step s l s' : cinv s -> astep s l s' -> cinv s'.
  Proof.
    intros I Hstep.
    inversion Hstep as [s0 c0 r0 Hc | s0 c0 r0 Hc Hlen
                        | s0 q c0 r0 rest c' d' res notify upg Hd HQ Hh
                        | s0 q u pw rest c' d' res notify Hd HQ Hh
                        | s0 oc res u pw Hd Hm Hlen | s0 oc res u pw Hd Hm Hlen
                        | s0 oc res r0 Hd Hlen | s0 Hpos | s0 Hpos | s0 c0 r0 res Hc]; subst.
    - apply (cinv_setcl s _ c0 (CWant r0) I); try reflexivity; [intros r1; rewrite Hc|intros r1]; discriminate.
    - apply (cinv_enq s _ c0 r0 I Hc); reflexivity.
    - apply cinv_handle; try assumption. intros u pw ->. eapply handle_req_upg; eauto.
    - apply cinv_handle; try assumption. discriminate.
    - apply (cinv_release s _ oc (RAuth u pw) res I); try reflexivity.
      + intros cl r'. unfold held_by_disp. rewrite Hd. destruct oc; intuition congruence.
      + destruct oc; [|exact Logic.I]. unfold held_by_disp. rewrite Hd. auto.
      + intros k. cbn [a_q]. destruct (qid_eq_dec QUpdate k) as [<-|N].
        * right. rewrite set_q_same. eauto.
        * left. now rewrite set_q_other.
    - apply (cinv_release s _ oc (RAuth u pw) res I); try reflexivity.
      + intros cl r'. unfold held_by_disp. rewrite Hd. destruct oc; intuition congruence.
      + destruct oc; [|exact Logic.I]. unfold held_by_disp. rewrite Hd. auto.
      + intros k. now left.
    - apply (cinv_release s _ oc r0 res I); try reflexivity.
      + intros cl r'. unfold held_by_disp. rewrite Hd. destruct oc; intuition congruence.
      + destruct oc; [|exact Logic.I]. unfold held_by_disp. rewrite Hd. auto.
      + intros k. now left.
    - apply (cinv_ext s _ I); reflexivity.
    - apply (cinv_ext s _ I); reflexivity.
    - apply (cinv_setcl s _ c0 CIdle I); try reflexivity; [intros r1; rewrite Hc|intros r1]; discriminate.
  Qed.

  Lemma cinv_init c d : cinv (ainit c d).
  Proof.
    split; unfold held_by_disp, ainit; cbn [a_q a_disp a_cl].
    - intros q cl r [].
    - intros q. constructor.
    - intros cl r [].
    - intros cl r H. discriminate.
  Qed.

  Lemma reach_cinv c d s tr : reach c d s tr -> cinv s.
  Proof. apply (reach_inv cinv); [apply cinv_init|apply cinv_step]. Qed.

  Theorem waiting_is_queued c d s tr cl r :
    reach c d s tr -> a_cl s cl = CWait r ->
    In (Some cl, r) (a_q s (qof r)) \/ held_by_disp s cl r.
  Proof. intros R. apply (ci_wait _ (reach_cinv _ _ _ _ R)). Qed.

  Theorem queued_is_waiting c d s tr q cl r :
    reach c d s tr -> In (Some cl, r) (a_q s q) -> q = qof r /\ a_cl s cl = CWait r.
  Proof. intros R. apply (ci_q _ (reach_cinv _ _ _ _ R)). Qed.

  (* internal items are always upgrade requests *)
  Definition ninv (s : astate) : Prop :=
    forall q r, In (None, r) (a_q s q) -> exists u pw, r = RUpdate u pw.

  Lemma ninv_step s l s' : ninv s -> astep s l s' -> ninv s'.
  Proof.
    intros I Hstep.
    inversion Hstep as [s0 c0 r0 Hc | s0 c0 r0 Hc Hlen
                        | s0 q c0 r0 rest c' d' res notify upg Hd HQ Hh
                        | s0 q u pw rest c' d' res notify Hd HQ Hh
                        | s0 oc res u pw Hd Hm Hlen | s0 oc res u pw Hd Hm Hlen
                        | s0 oc res r0 Hd Hlen | s0 Hpos | s0 Hpos | s0 c0 r0 res Hc]; subst;
      unfold ninv; cbn [a_q]; try exact I.
    - intros k r H. destruct (qid_eq_dec (qof r0) k) as [<-|N].
      + rewrite set_q_same in H. apply in_app_or in H as [H|[H|[]]]; [eauto|discriminate].
      + rewrite set_q_other in H by exact N. eauto.
    - intros k r H. apply after_handle_in_inv in H as [H|(u & pw & E)].
      + apply (pop_in _ _ _ _ _ _ HQ) in H. eauto.
      + injection E as ->. eauto.
    - intros k r H. apply after_handle_in_inv in H as [H|(u1 & pw1 & E)].
      + apply (pop_in _ _ _ _ _ _ HQ) in H. eauto.
      + injection E as ->. eauto.
    - intros k r H. destruct (qid_eq_dec QUpdate k) as [<-|N].
      + rewrite set_q_same in H. apply in_app_or in H as [H|[H|[]]]; [eauto|]. injection H as <-. eauto.
      + rewrite set_q_other in H by exact N. eauto.
  Qed.

  Lemma reach_ninv c d s tr : reach c d s tr -> ninv s.
  Proof. apply (reach_inv ninv); [intros q r []|apply ninv_step]. Qed.

  (* never a blocking send to a channel only the dispatcher itself receives from *)
  Theorem no_self_wait c d s tr :
    upgrade_send_blocking ac = false -> reach c d s tr ->
    match a_disp s with DUpgradeSend _ _ _ _ => False | _ => True end.
  Proof.
    intros Hb.
    apply (reach_inv (fun s => match a_disp s with DUpgradeSend _ _ _ _ => False | _ => True end)).
    - exact I.
    - intros s0 l s' I Hstep.
      inversion Hstep; subst; cbn [a_disp]; try exact I; try exact Logic.I;
        match goal with |- context [after_handle ac ?s ?q ?c ?d ?oc ?r ?res ?n ?u] =>
          destruct (after_handle_disp_nb s q c d oc r res n u Hb) as [[-> _]|[-> _]]; exact Logic.I end.
  Qed.

  (* ---------------- C10 ---------------- *)
  Theorem deadlock_free c d s tr :
    caps_ok -> upgrade_send_blocking ac = false ->
    reach c d s tr -> pending s ->
    exists l s', system_label l = true /\ astep s l s'.
  Proof.
    intros (Cq & Cn & Cr) Hb R Hp.
    pose proof (reach_cinv _ _ _ _ R) as I. pose proof (reach_ninv _ _ _ _ R) as NI.
    pose proof (no_self_wait _ _ _ _ Hb R) as NS.
    assert (Hq : forall q, a_q s q <> [] -> a_disp s = DIdle ->
                           exists l s', system_label l = true /\ astep s l s').
    { intros q Hne Hd. destruct (a_q s q) as [|[[cl|] r] rest] eqn:HQ; [now elim Hne| |].
      - destruct (handle_req kdf policy_ok orc ac (a_cfg s) (a_dir s) (a_n s) r)
          as [[[[c' d'] res] notify] upg] eqn:Hh.
        eexists (LHandle q (Some cl)), _. split; [reflexivity|]. eapply StHandleClient; eauto.
      - destruct (NI q r) as (u & pw & ->); [rewrite HQ; now left|].
        destruct (handle_upgrade kdf policy_ok orc ac (a_cfg s) (a_dir s) (a_n s) u pw)
          as [[[c' d'] res] notify] eqn:Hh.
        eexists (LHandle q None), _. split; [reflexivity|]. eapply StHandleUpgrade; eauto. }
    destruct (a_disp s) as [|oc res u pw|oc r res] eqn:Hd.
    - destruct Hp as [Hp|[[q Hq']|[cl Hc]]]; [now elim Hp|eauto|].
      destruct (a_cl s cl) as [|r|r|r res] eqn:Ec; [elim Hc| | |].
      + destruct (Nat.lt_ge_cases (length (a_q s (qof r))) (cap ac (qof r))) as [Hlt|Hge].
        * eexists (LEnq cl), _. split; [reflexivity|]. eapply StEnq; eauto.
        * apply (Hq (qof r)); [|reflexivity]. intros E. rewrite E in Hge. cbn [length] in Hge.
          specialize (Cq (qof r)). lia.
      + destruct (ci_wait _ I _ _ Ec) as [Hi|Hh].
        * apply (Hq (qof r)); [|reflexivity]. intros E. rewrite E in Hi. destruct Hi.
        * unfold held_by_disp in Hh. rewrite Hd in Hh. destruct Hh.
      + eexists (LRet cl r res), _. split; [reflexivity|]. now apply StRet.
    - destruct NS.
    - destruct (Nat.lt_ge_cases (a_notify s) (cap_notify ac)) as [Hlt|Hge].
      + eexists LNotify, _. split; [reflexivity|]. eapply StNotify; eauto.
      + eexists LHookDrain, _. split; [reflexivity|]. apply StHookDrain. lia.
  Qed.

  Theorem dispatcher_returns_to_select c d s tr :
    caps_ok -> upgrade_send_blocking ac = false ->
    reach c d s tr -> a_disp s <> DIdle ->
    exists ls s', (length ls <= 2)%nat /\ forallb system_label ls = true /\ runs s ls s' /\ a_disp s' = DIdle.
  Proof.
    intros (Cq & Cn & Cr) Hb R Hne.
    pose proof (no_self_wait _ _ _ _ Hb R) as NS.
    destruct (queues_bounded _ _ _ _ R) as (Bq & Bn & Br).
    destruct (a_disp s) as [|oc res u pw|oc r res] eqn:Hd; [now elim Hne|destruct NS|].
    destruct (Nat.lt_ge_cases (a_notify s) (cap_notify ac)) as [Hlt|Hge].
    - eexists [LNotify], _. split; [cbn [length]; lia|]. split; [reflexivity|]. split.
      + cbn [Agent.runs]. eexists. split; [eapply StNotify; eauto|reflexivity].
      + reflexivity.
    - eexists [LHookDrain; LNotify], _. split; [cbn [length]; lia|]. split; [reflexivity|]. split.
      + cbn [Agent.runs]. eexists. split; [apply StHookDrain; lia|].
        eexists. split; [|reflexivity]. eapply StNotify; cbn [a_disp a_notify]; [exact Hd|lia].
      + reflexivity.
  Qed.

  (* The blocking variant in local mode wedges *)
  Lemma wedge_step s l s' oc res u pw :
    mode ac = ULocal ->
    a_disp s = DUpgradeSend oc res u pw -> (cap ac QUpdate <= length (a_q s QUpdate))%nat ->
    astep s l s' ->
    a_disp s' = DUpgradeSend oc res u pw /\ (cap ac QUpdate <= length (a_q s' QUpdate))%nat.
  Proof.
    intros Hm Hd Hfull Hstep.
    inversion Hstep; subst; cbn [a_disp a_q]; try congruence; try (split; assumption); try lia.
    split; [assumption|].
    destruct (qid_eq_dec (qof r) QUpdate) as [E|N].
    - rewrite E, set_q_same, app_length. lia.
    - now rewrite set_q_other.
  Qed.

  Theorem blocking_local_upgrade_wedges s oc res u pw :
    upgrade_send_blocking ac = true -> mode ac = ULocal ->
    a_disp s = DUpgradeSend oc res u pw -> (cap ac QUpdate <= length (a_q s QUpdate))%nat ->
    wedged kdf policy_ok orc ac s.
  Proof.
    intros _ Hm Hd Hfull. split; [congruence|].
    intros tr. revert s Hd Hfull.
    induction tr as [|l tr IH]; intros s Hd Hfull s' Hr; cbn [Agent.runs] in Hr.
    - now subst.
    - destruct Hr as (mid & Hstep & Hr).
      destruct (wedge_step _ _ _ _ _ _ _ Hm Hd Hfull Hstep) as [Hd' Hfull'].
      rewrite (IH _ Hd' Hfull' _ Hr). congruence.
  Qed.

  (* FIFO service *)
  Theorem handle_takes_head s q oc s' :
    astep s (LHandle q oc) s' ->
    exists r rest res, a_q s q = (oc, r) :: rest /\
      a_log s' = (oc, r, res) :: a_log s /\
      (forall q', q' <> QUpdate -> a_q s' q' = if qid_eqb q q' then rest else a_q s q') /\
      (exists extra, a_q s' QUpdate = (if qid_eqb q QUpdate then rest else a_q s QUpdate) ++ extra).
  Proof.
    intros Hstep.
    assert (Hgen : forall r rest c' d' res notify upg,
               a_q s q = (oc, r) :: rest ->
               s' = after_handle ac s (set_q (a_q s) q rest) c' d' oc r res notify upg ->
               exists r rest res, a_q s q = (oc, r) :: rest /\
                 a_log s' = (oc, r, res) :: a_log s /\
                 (forall q', q' <> QUpdate -> a_q s' q' = if qid_eqb q q' then rest else a_q s q') /\
                 (exists extra, a_q s' QUpdate = (if qid_eqb q QUpdate then rest else a_q s QUpdate) ++ extra)).
    { intros r rest c' d' res notify upg HQ ->. exists r, rest, res. split; [exact HQ|].
      destruct (after_handle_fields s (set_q (a_q s) q rest) c' d' oc r res notify upg) as (_ & _ & _ & El & _).
      split; [exact El|].
      destruct (after_handle_q s (set_q (a_q s) q rest) c' d' oc r res notify upg)
        as [->|(u & pw & _ & _ & _ & _ & ->)].
      - split; [intros k _; reflexivity|]. exists []. now rewrite app_nil_r.
      - split.
        + intros k N. rewrite set_q_other by congruence. reflexivity.
        + rewrite set_q_same. eexists. reflexivity. }
    inversion Hstep; subst; eapply Hgen; eauto.
  Qed.

  Theorem other_steps_keep_queue_prefix s l s' q :
    astep s l s' -> (forall q0 oc, l <> LHandle q0 oc) ->
    exists extra, a_q s' q = a_q s q ++ extra.
  Proof.
    intros Hstep Hl.
    inversion Hstep; subst; cbn [a_q]; try (now elim (Hl _ _ eq_refl));
      try (exists []; now rewrite app_nil_r).
    - destruct (qid_eq_dec (qof r) q) as [<-|N].
      + rewrite set_q_same. eauto.
      + rewrite set_q_other by exact N. exists []. now rewrite app_nil_r.
    - destruct (qid_eq_dec QUpdate q) as [<-|N].
      + rewrite set_q_same. eauto.
      + rewrite set_q_other by exact N. exists []. now rewrite app_nil_r.
  Qed.

  (* ---------------- C11 ---------------- *)
  Lemma obs_beq_refl x : obs_beq x x = true.
  Proof.
    destruct x as [r|e|o a u t|l|l]; cbn [obs_beq].
    - destruct r; reflexivity.
    - destruct e as [b| |]; cbn [exists_beq]; [destruct b|..]; reflexivity.
    - rewrite !Bool.eqb_reflx, Z.eqb_refl. reflexivity.
    - destruct l as [l|]; [|reflexivity]. rewrite Nat.eqb_refl. cbn [andb].
      induction l as [|x l IH]; [reflexivity|]. cbn [combine forallb fst snd].
      rewrite beq_refl, Bool.eqb_reflx, Z.eqb_refl, IH. reflexivity.
    - destruct l as [l|]; [|reflexivity]. rewrite Nat.eqb_refl. cbn [andb].
      induction l as [|x l IH]; [reflexivity|]. cbn [combine forallb fst snd].
      rewrite !beq_refl, !Bool.eqb_reflx, Z.eqb_refl, N.eqb_refl, IH. reflexivity.
  Qed.

  Lemma seq_replay_app c d n l1 l2 :
    seq_replay kdf policy_ok orc ac c d n (l1 ++ l2) =
    match seq_replay kdf policy_ok orc ac c d n l1 with
    | Some (c', d') => seq_replay kdf policy_ok orc ac c' d' (n + length l1) l2
    | None => None
    end.
  Proof.
    revert c d n. induction l1 as [|[[oc r] res] l1 IH]; intros c d n; cbn [app Agent.seq_replay length].
    - now rewrite Nat.add_0_r.
    - destruct oc as [cl|].
      + destruct (handle_req kdf policy_ok orc ac c d n r) as [[[[c' d'] res'] nt] upg].
        destruct (obs_beq res res'); [|reflexivity]. rewrite IH. now rewrite Nat.add_succ_r.
      + destruct r; try reflexivity.
        destruct (handle_upgrade kdf policy_ok orc ac c d n u pw) as [[[c' d'] res'] nt].
        destruct (obs_beq res res'); [|reflexivity]. rewrite IH. now rewrite Nat.add_succ_r.
  Qed.

  Definition sinv (c : config) (d : dirst) (s : astate) : Prop :=
    seq_replay kdf policy_ok orc ac c d O (rev (a_log s)) = Some (a_cfg s, a_dir s) /\ a_n s = length (a_log s).

  Lemma sinv_step c d s l s' : sinv c d s -> astep s l s' -> sinv c d s'.
  Proof.
    intros [Hseq Hn] Hstep.
    inversion Hstep as [s0 c0 r0 Hc | s0 c0 r0 Hc Hlen
                        | s0 q c0 r0 rest c' d' res notify upg Hd HQ Hh
                        | s0 q u pw rest c' d' res notify Hd HQ Hh
                        | s0 oc res u pw Hd Hm Hlen | s0 oc res u pw Hd Hm Hlen
                        | s0 oc res r0 Hd Hlen | s0 Hpos | s0 Hpos | s0 c0 r0 res Hc]; subst;
      unfold sinv; cbn [a_log a_cfg a_dir a_n]; try (split; assumption).
    - destruct (after_handle_fields s (set_q (a_q s) q rest) c' d' (Some c0) r0 res notify upg)
        as (-> & -> & -> & -> & _).
      cbn [rev length]. split; [|now rewrite Hn].
      rewrite seq_replay_app, Hseq. cbn [Agent.seq_replay]. rewrite rev_length, Nat.add_0_l, <- Hn, Hh.
      now rewrite obs_beq_refl.
    - destruct (after_handle_fields s (set_q (a_q s) q rest) c' d' None (RUpdate u pw) res notify None)
        as (-> & -> & -> & -> & _).
      cbn [rev length]. split; [|now rewrite Hn].
      rewrite seq_replay_app, Hseq. cbn [Agent.seq_replay]. rewrite rev_length, Nat.add_0_l, <- Hn, Hh.
      now rewrite obs_beq_refl.
  Qed.

  Theorem log_is_sequential c d s tr :
    reach c d s tr ->
    seq_replay kdf policy_ok orc ac c d O (rev (a_log s)) = Some (a_cfg s, a_dir s) /\ a_n s = length (a_log s).
  Proof.
    apply (reach_inv (sinv c d)); [split; reflexivity|apply sinv_step].
  Qed.

  (* what the dispatcher holds and what a client has been told are logged *)
  Definition linv (s : astate) : Prop :=
    (forall oc r res, a_disp s = DNotify oc r res -> In (oc, r, res) (a_log s)) /\
    (forall oc res u pw, a_disp s = DUpgradeSend oc res u pw -> In (oc, RAuth u pw, res) (a_log s)) /\
    (forall cl r res, a_cl s cl = CDone r res -> In (Some cl, r, res) (a_log s)).

  Lemma linv_setcl s s' c v :
    linv s -> (forall r res, v <> CDone r res) ->
    a_disp s' = a_disp s -> a_cl s' = set_cl (a_cl s) c v -> a_log s' = a_log s -> linv s'.
  Proof.
    intros (L1 & L2 & L3) Hv Ed Ec El. unfold linv. rewrite Ed, Ec, El.
    split; [exact L1|split; [exact L2|]].
    intros cl r res H. destruct (Nat.eq_dec c cl) as [<-|N].
    - rewrite set_cl_same in H. elim (Hv _ _ H).
    - rewrite set_cl_other in H by exact N. eauto.
  Qed.

  Lemma linv_release s s' oc r res :
    linv s -> In (oc, r, res) (a_log s) ->
    a_disp s' = DIdle -> a_cl s' = reply (a_cl s) oc r res -> a_log s' = a_log s -> linv s'.
  Proof.
    intros (L1 & L2 & L3) Hin Ed Ec El. unfold linv. rewrite Ed, Ec, El.
    split; [discriminate|split; [discriminate|]].
    intros cl r1 res1 H. destruct oc as [c0|]; cbn [reply] in H; [|eauto].
    destruct (Nat.eq_dec c0 cl) as [<-|N].
    - rewrite set_cl_same in H. injection H as <- <-. exact Hin.
    - rewrite set_cl_other in H by exact N. eauto.
  Qed.

  Lemma linv_handle s q' c' d' oc r res notify upg :
    linv s -> (forall u pw, upg = Some (u, pw) -> r = RAuth u pw) ->
    linv (after_handle ac s q' c' d' oc r res notify upg).
  Proof.
    intros (L1 & L2 & L3) Hupg. unfold linv.
    destruct (after_handle_fields s q' c' d' oc r res notify upg) as (_ & _ & _ & -> & _).
    destruct (after_handle_disp s q' c' d' oc r res notify upg)
      as [[-> ->]|[[-> ->]|(u & pw & Eu & _ & -> & ->)]].
    - split; [discriminate|split; [discriminate|]].
      intros cl r1 res1 H. destruct oc as [c0|]; cbn [reply] in H; [|right; eauto].
      destruct (Nat.eq_dec c0 cl) as [<-|N].
      + rewrite set_cl_same in H. injection H as <- <-. now left.
      + rewrite set_cl_other in H by exact N. right; eauto.
    - split; [|split; [discriminate|]].
      + intros oc1 r1 res1 H. injection H as <- <- <-. now left.
      + intros cl r1 res1 H. right; eauto.
    - split; [discriminate|split].
      + intros oc1 res1 u1 pw1 H. injection H as <- <- <- <-. rewrite <- (Hupg _ _ Eu). now left.
      + intros cl r1 res1 H. right; eauto.
  Qed.

  Lemma linv_step s l s' : linv s -> astep s l s' -> linv s'.
  Proof.
    intros L Hstep.
    inversion Hstep as [s0 c0 r0 Hc | s0 c0 r0 Hc Hlen
                        | s0 q c0 r0 rest c' d' res notify upg Hd HQ Hh
                        | s0 q u pw rest c' d' res notify Hd HQ Hh
                        | s0 oc res u pw Hd Hm Hlen | s0 oc res u pw Hd Hm Hlen
                        | s0 oc res r0 Hd Hlen | s0 Hpos | s0 Hpos | s0 c0 r0 res Hc]; subst.
    - apply (linv_setcl s _ c0 (CWant r0) L); try reflexivity. discriminate.
    - apply (linv_setcl s _ c0 (CWait r0) L); try reflexivity. discriminate.
    - apply linv_handle; [exact L|]. intros u pw ->. eapply handle_req_upg; eauto.
    - apply linv_handle; [exact L|]. discriminate.
    - apply (linv_release s _ oc (RAuth u pw) res L); try reflexivity. destruct L as (_ & L2 & _). eauto.
    - apply (linv_release s _ oc (RAuth u pw) res L); try reflexivity. destruct L as (_ & L2 & _). eauto.
    - apply (linv_release s _ oc r0 res L); try reflexivity. destruct L as (L1 & _ & _). eauto.
    - exact L.
    - exact L.
    - apply (linv_setcl s _ c0 CIdle L); try reflexivity. discriminate.
  Qed.

  Lemma reach_linv c d s tr : reach c d s tr -> linv s.
  Proof.
    apply (reach_inv linv); [|apply linv_step].
    unfold linv, ainit; cbn [a_disp a_cl a_log]. repeat split; intros; discriminate.
  Qed.

  Theorem done_matches_log c d s tr cl r res :
    reach c d s tr -> a_cl s cl = CDone r res -> In (Some cl, r, res) (a_log s).
  Proof. intros R. destruct (reach_linv _ _ _ _ R) as (_ & _ & L3). apply L3. Qed.

  Lemma log_mono s l s' x : astep s l s' -> In x (a_log s) -> In x (a_log s').
  Proof.
    intros Hstep H. inversion Hstep; subst; cbn [a_log]; try exact H;
      match goal with |- context [after_handle ac ?s ?q ?c ?d ?oc ?r ?res ?n ?u] =>
        destruct (after_handle_fields s q c d oc r res n u) as (_ & _ & _ & -> & _); now right end.
  Qed.

  (* every answer a client receives is the logged result of its own request *)
  Theorem ret_matches_log c d s tr cl r res :
    reach c d s tr -> In (LRet cl r res) tr -> In (Some cl, r, res) (a_log s).
  Proof.
    intros R. induction R as [|s tr l s' R IH Hstep]; [intros []|].
    intros H. apply in_app_or in H as [H|[H|[]]].
    - eapply log_mono; eauto.
    - subst l. inversion Hstep; subst; cbn [a_log]. eapply done_matches_log; eauto.
  Qed.

  (* ---------------- the per-client protocol ---------------- *)
  Definition phase_step (p : nat) (l : label) : option nat :=
    match p, l with
    | O, LCall _ _ => Some 1%nat
    | 1%nat, LEnq _ => Some 2%nat
    | 2%nat, LHandle _ _ => Some 3%nat
    | 3%nat, LRet _ _ _ => Some O
    | _, _ => None
    end.

  Fixpoint phase_after (p : nat) (ls : list label) : option nat :=
    match ls with
    | [] => Some p
    | l :: r => match phase_step p l with Some p' => phase_after p' r | None => None end
    end.

  Lemma phase_after_ok ls : forall p p', phase_after p ls = Some p' -> client_ok p ls = true.
  Proof.
    induction ls as [|l ls IH]; intros p p' H; [reflexivity|].
    cbn [phase_after] in H. destruct (phase_step p l) as [p1|] eqn:E; [|discriminate].
    destruct p as [|[|[|[|p]]]]; destruct l; cbn [phase_step] in E; try discriminate;
      injection E as <-; cbn [client_ok]; eapply IH; eauto.
  Qed.

  Lemma phase_after_app p l1 l2 :
    phase_after p (l1 ++ l2) =
    match phase_after p l1 with Some p' => phase_after p' l2 | None => None end.
  Proof.
    revert p. induction l1 as [|l l1 IH]; intros p; cbn [app phase_after]; [reflexivity|].
    destruct (phase_step p l); [apply IH|reflexivity].
  Qed.

  Definition phase_rel (s : astate) (cl : cid) (p : nat) : Prop :=
    match a_cl s cl with
    | CIdle => p = 0%nat
    | CWant _ => p = 1%nat
    | CWait r => (In (Some cl, r) (a_q s (qof r)) /\ p = 2%nat) \/ (held_by_disp s cl r /\ p = 3%nat)
    | CDone _ _ => p = 3%nat
    end.

  Lemma phase_rel_mono s s' cl p :
    a_cl s' cl = a_cl s cl ->
    (forall r, In (Some cl, r) (a_q s (qof r)) -> In (Some cl, r) (a_q s' (qof r))) ->
    (forall r, held_by_disp s cl r -> held_by_disp s' cl r) ->
    phase_rel s cl p -> phase_rel s' cl p.
  Proof.
    intros Ec Hq Hh. unfold phase_rel. rewrite Ec. destruct (a_cl s cl); auto.
    intros [[H ->]|[H ->]]; auto.
  Qed.

  Lemma reply_other (cls : cid -> cstate) oc r res cl : oc <> Some cl -> reply cls oc r res cl = cls cl.
  Proof. intros N. destruct oc as [c0|]; cbn [reply]; [|reflexivity]. apply set_cl_other. congruence. Qed.

  Lemma phase_handle_other s q oc r rest c' d' res notify upg cl p :
    a_disp s = DIdle -> a_q s q = (oc, r) :: rest -> oc <> Some cl ->
    phase_rel s cl p ->
    phase_rel (after_handle ac s (set_q (a_q s) q rest) c' d' oc r res notify upg) cl p.
  Proof.
    intros Hd HQ N. apply phase_rel_mono.
    - destruct (after_handle_disp s (set_q (a_q s) q rest) c' d' oc r res notify upg)
        as [[_ ->]|[[_ ->]|(u & pw & _ & _ & _ & ->)]]; try reflexivity. now apply reply_other.
    - intros r1 H. apply (in_pop _ _ _ _ _ _ HQ) in H as [[_ E]|H].
      + injection E as E _. congruence.
      + now apply after_handle_in.
    - intros r1. unfold held_by_disp at 1. rewrite Hd. intros [].
  Qed.

  Lemma phase_release s s' oc r res cl p :
    cinv s ->
    (forall cl r', held_by_disp s cl r' -> oc = Some cl /\ r' = r) ->
    (match oc with Some c => held_by_disp s c r | None => True end) ->
    a_disp s' = DIdle -> a_cl s' = reply (a_cl s) oc r res ->
    (forall k x, In x (a_q s k) -> In x (a_q s' k)) ->
    phase_rel s cl p -> phase_rel s' cl p.
  Proof.
    intros I Honly Hheld Ed Ec Eq Hp.
    destruct oc as [c0|]; [destruct (Nat.eq_dec c0 cl) as [->|N]|].
    - destruct (ci_held _ I _ _ Hheld) as [Hw Hno].
      unfold phase_rel in *. rewrite Ec. cbn [reply]. rewrite set_cl_same. rewrite Hw in Hp.
      destruct Hp as [[H _]|[_ ->]]; [elim (Hno _ _ H)|reflexivity].
    - revert Hp. apply phase_rel_mono.
      + rewrite Ec. apply reply_other. congruence.
      + intros r1. apply Eq.
      + intros r1 H. apply Honly in H as [E _]. congruence.
    - revert Hp. apply phase_rel_mono.
      + rewrite Ec. reflexivity.
      + intros r1. apply Eq.
      + intros r1 H. apply Honly in H as [E _]. discriminate.
  Qed.

  Lemma phase_step_ok s l s' cl p :
    cinv s -> astep s l s' -> phase_rel s cl p ->
    if concerns cl l then exists p', phase_step p l = Some p' /\ phase_rel s' cl p'
    else phase_rel s' cl p.
  Proof.
    intros I Hstep Hp.
    inversion Hstep as [s0 c0 r0 Hc | s0 c0 r0 Hc Hlen
                        | s0 q c0 r0 rest c' d' res notify upg Hd HQ Hh
                        | s0 q u pw rest c' d' res notify Hd HQ Hh
                        | s0 oc res u pw Hd Hm Hlen | s0 oc res u pw Hd Hm Hlen
                        | s0 oc res r0 Hd Hlen | s0 Hpos | s0 Hpos | s0 c0 r0 res Hc]; subst;
      cbn [concerns].
    - (* Call *)
      destruct (Nat.eqb_spec cl c0) as [->|N].
      + unfold phase_rel in *. rewrite Hc in Hp. subst p. exists 1%nat. split; [reflexivity|].
        cbn [a_cl]. now rewrite set_cl_same.
      + revert Hp. apply phase_rel_mono; cbn [a_cl a_q]; auto. apply set_cl_other. congruence.
    - (* Enq *)
      destruct (Nat.eqb_spec cl c0) as [->|N].
      + unfold phase_rel in *. rewrite Hc in Hp. subst p. exists 2%nat. split; [reflexivity|].
        cbn [a_cl a_q]. rewrite set_cl_same. left. split; [|reflexivity].
        rewrite set_q_same. apply in_or_app. right. now left.
      + revert Hp. apply phase_rel_mono; cbn [a_cl a_q]; auto.
        * apply set_cl_other. congruence.
        * intros r1 H. destruct (qid_eq_dec (qof r0) (qof r1)) as [E|N'].
          -- rewrite <- E, set_q_same. apply in_or_app. left. rewrite E. exact H.
          -- now rewrite set_q_other.
    - (* HandleClient *)
      destruct (Nat.eqb_spec cl c0) as [->|N].
      + assert (Hhead : In (Some c0, r0) (a_q s q)) by (rewrite HQ; now left).
        destruct (ci_q _ I _ _ _ Hhead) as [_ Hw].
        unfold phase_rel in Hp. rewrite Hw in Hp.
        destruct Hp as [[_ ->]|[Hheld _]]; [|unfold held_by_disp in Hheld; rewrite Hd in Hheld; destruct Hheld].
        exists 3%nat. split; [reflexivity|]. unfold phase_rel, held_by_disp.
        destruct (after_handle_disp s (set_q (a_q s) q rest) c' d' (Some c0) r0 res notify upg)
          as [[-> ->]|[[-> ->]|(u & pw & Eu & _ & -> & ->)]].
        * cbn [reply]. now rewrite set_cl_same.
        * rewrite Hw. right. auto.
        * rewrite Hw. right. subst upg. apply handle_req_upg in Hh. auto.
      + apply phase_handle_other; auto. congruence.
    - (* HandleUpgrade *)
      apply phase_handle_other; auto. discriminate.
    - (* UpgradeSendLocal *)
      revert Hp. apply (phase_release s _ oc (RAuth u pw) res); try reflexivity; try exact I.
      + intros cl1 r'. unfold held_by_disp. rewrite Hd. destruct oc; intuition congruence.
      + destruct oc; [|exact Logic.I]. unfold held_by_disp. rewrite Hd. auto.
      + intros k x H. cbn [a_q]. destruct (qid_eq_dec QUpdate k) as [<-|N].
        * rewrite set_q_same. apply in_or_app. now left.
        * now rewrite set_q_other.
    - revert Hp. apply (phase_release s _ oc (RAuth u pw) res); try reflexivity; try exact I.
      + intros cl1 r'. unfold held_by_disp. rewrite Hd. destruct oc; intuition congruence.
      + destruct oc; [|exact Logic.I]. unfold held_by_disp. rewrite Hd. auto.
      + auto.
    - revert Hp. apply (phase_release s _ oc r0 res); try reflexivity; try exact I.
      + intros cl1 r'. unfold held_by_disp. rewrite Hd. destruct oc; intuition congruence.
      + destruct oc; [|exact Logic.I]. unfold held_by_disp. rewrite Hd. auto.
      + auto.
    - revert Hp. apply phase_rel_mono; auto.
    - revert Hp. apply phase_rel_mono; auto.
    - (* Ret *)
      destruct (Nat.eqb_spec cl c0) as [->|N].
      + unfold phase_rel in *. rewrite Hc in Hp. subst p. exists 0%nat. split; [reflexivity|].
        cbn [a_cl]. now rewrite set_cl_same.
      + revert Hp. apply phase_rel_mono; cbn [a_cl a_q]; auto. apply set_cl_other. congruence.
  Qed.

  Lemma reach_phase c d s tr cl :
    reach c d s tr -> exists p, phase_after O (filter (concerns cl) tr) = Some p /\ phase_rel s cl p.
  Proof.
    intros R. induction R as [|s tr l s' R (p & Hp & Hr) Hstep].
    - exists O. split; reflexivity.
    - pose proof (phase_step_ok _ _ _ cl p (reach_cinv _ _ _ _ R) Hstep Hr) as H.
      rewrite filter_app, phase_after_app, Hp. cbn [filter].
      destruct (concerns cl l).
      + destruct H as (p' & E & Hr'). exists p'. cbn [phase_after]. rewrite E. auto.
      + exists p. auto.
  Qed.

  Theorem client_protocol c d s tr cl :
    reach c d s tr -> client_ok O (filter (concerns cl) tr) = true.
  Proof.
    intros R. destruct (reach_phase _ _ _ _ cl R) as (p & Hp & _). eapply phase_after_ok; eauto.
  Qed.

  Theorem handled_once c d s tr :
    reach c d s tr ->
    length (a_log s) = length (filter (fun l => match l with LHandle _ _ => true | _ => false end) tr).
  Proof.
    intros R. induction R as [|s tr l s' R IH Hstep]; [reflexivity|].
    rewrite filter_app, app_length, <- IH.
    inversion Hstep; subst; cbn [filter a_log length]; try lia;
      match goal with |- context [after_handle ac ?s ?q ?c ?d ?oc ?r ?res ?n ?u] =>
        destruct (after_handle_fields s q c d oc r res n u) as (_ & _ & _ & -> & _); cbn [length]; lia end.
  Qed.
End A.

(* ---------------- never undone by an internal upgrade ---------------- *)
Section Upgrade.
  Variable kdf : hasher -> bytes -> bytes -> option bytes.
  Variable sha256 : bytes -> bytes.
  Variable policy_ok : bytes -> bytes -> bool.
  Variable orc : nat -> oracle.
  Variable ac : agent_cfg.
  Hypothesis kdf_out : forall h s p d, kdf h s p = Some d -> bytes_wf d = true /\ d <> [].
  Hypothesis kdf_inj : forall h s p q d,
      kdf h s p = Some d -> kdf h s q = Some d -> keyeq sha256 h p q = true.
  Hypothesis kdf_resp : forall h s p q, keyeq sha256 h p q = true -> kdf h s p = kdf h s q.

  Definition verdict_of (o : obs) : option bool :=     (* Some admin = accepted *)
    match o with OAuth true adm _ _ => Some adm | _ => None end.

  (* authentication reads only the two files of the user *)
  Lemma authenticate_ext c d d' u p :
    (valid_name u = true -> forall b, dlookup (u ++ ext_of b) d' = dlookup (u ++ ext_of b) d) ->
    authenticate kdf c d' u p = authenticate kdf c d u p.
  Proof.
    intros H. unfold authenticate. destruct (valid_name u) eqn:Hv; cbn [negb]; [|reflexivity].
    specialize (H eq_refl).
    assert (Eex : user_exists d' u = user_exists d u).
    { unfold user_exists, stat_file. pose proof (H true) as Ha. pose proof (H false) as Hu.
      cbn [ext_of] in Ha, Hu. rewrite Ha, Hu. reflexivity. }
    rewrite Eex. destruct (user_exists d u) as [adm| |]; try reflexivity.
    unfold read_file. rewrite (H adm). reflexivity.
  Qed.

  Theorem upgrade_never_undoes c d n u pw c' d' res notify :
    local_upgrade_reauth ac = true ->
    cfg_wf c -> oracle_ok (orc n) -> wf_store d ->
    handle_upgrade kdf policy_ok orc ac c d n u pw = (c', d', res, notify) ->
    c' = c /\
    (forall u' p, u' <> u -> authenticate kdf c d' u' p = authenticate kdf c d u' p) /\
    (d' = d \/
     (exists adm, verdict_of (authenticate kdf c d u pw) = Some adm /\
                  verdict_of (authenticate kdf c d' u pw) = Some adm /\
                  forall p a, verdict_of (authenticate kdf c d' u p) = Some a ->
                    a = adm /\ exists h, cfg_hasher c (default c) = Some h /\ keyeq sha256 h p pw = true)).
  Proof using kdf_out kdf_inj kdf_resp.
    (* [kdf_resp] is not needed by the proof; it is kept so that the closed
       theorem takes the same section hypotheses as its statement's section. *)
    intros Hre Hc (Ots & Ows & Ons) Hwf H.
    unfold handle_upgrade in H. rewrite Hre in H.
    destruct (authenticate kdf c d u pw) as [x|x|ok adm0 upg ts|x|x] eqn:Ha;
      try (injection H as <- <- _ _; (split; [reflexivity|split; [intros; reflexivity|left; reflexivity]])).
    destruct ok; [|injection H as <- <- _ _; (split; [reflexivity|split; [intros; reflexivity|left; reflexivity]])].
    destruct upg; [|injection H as <- <- _ _; (split; [reflexivity|split; [intros; reflexivity|left; reflexivity]])].
    destruct (negb (policy_ok pw u)); [injection H as <- <- _ _; (split; [reflexivity|split; [intros; reflexivity|left; reflexivity]])|].
    cbn [step] in H.
    destruct (update_user kdf c d u pw (orc n)) as [d1 r] eqn:Eu. injection H as <- <- _ _.
    destruct r; [|apply failed_update_unchanged in Eu; subst d1; (split; [reflexivity|split; [intros; reflexivity|left; reflexivity]])].
    apply wf_store_iff in Hwf as [Hnd Hw].
    destruct (update_ok_lk kdf c d u pw (orc n) d1 Hw Eu)
      as (adm & old & h & dig & Hv & Hl & El & Hs & Hnone & Hh & K & HL).
    destruct (kdf_out _ _ _ _ K) as [Wd Nd].
    assert (Hdef : default c <= max_u64).
    { apply (Hc (default c) h). apply plookup_In. exact Hh. }
    (* the verdict on [u] before: the flag is the one of the file rewritten *)
    assert (Eadm : adm0 = adm).
    { unfold authenticate in Ha. rewrite Hv in Ha. cbn [negb] in Ha.
      destruct (user_exists d u) as [a0| |] eqn:Ex; try discriminate.
      destruct (read_file d (u ++ ext_of a0)) as [ct|]; [|discriminate].
      destruct (auth_content kdf c ct pw); [|discriminate].
      injection Ha as -> _ _.
      apply user_exists_yes in Ex as [[nd Hnd0] _].
      destruct adm0, adm; try reflexivity; cbn [negb] in Hnone; congruence. }
    subst adm0.
    assert (Hauth1 : forall p, authenticate kdf c d1 u p =
               match kdf h (o_salt (orc n)) p with
               | Some x => if beq x dig then OAuth true adm false (o_ts (orc n)) else OAuth false false false 0%Z
               | None => OAuth false false false 0%Z
               end).
    { intros p. unfold authenticate. rewrite Hv. cbn [negb].
      rewrite (user_exists_ext d d1 u).
      - assert (Ex : user_exists d u = ExYes adm).
        { unfold authenticate in Ha. rewrite Hv in Ha. cbn [negb] in Ha.
          destruct (user_exists d u) as [a0| |]; try discriminate.
          destruct (read_file d (u ++ ext_of a0)) as [ct|]; [|discriminate].
          destruct (auth_content kdf c ct pw); [|discriminate]. injection Ha as -> _ _. reflexivity. }
        rewrite Ex. unfold read_file. rewrite HL, beq_refl.
        rewrite (auth_content_written kdf c h (o_ts (orc n)) (default c) (o_salt (orc n)) dig _ p
                   Ots Hdef Hh Ows Wd).
        rewrite N.eqb_refl. cbn [negb].
        destruct (kdf h (o_salt (orc n)) p) as [x|]; [|reflexivity]. destruct (beq x dig); reflexivity.
      - intros b. rewrite HL.
        destruct (beq_spec (u ++ ext_of b) (u ++ ext_of adm)) as [E|NE].
        + rewrite E, El. split; discriminate.
        + destruct (beq_spec (u ++ ext_of b) tmp_name) as [E|_];
            [exfalso; revert E; apply valid_not_tmp; exact Hv|reflexivity]. }
    split; [reflexivity|]. split.
    - intros u' p Hne. apply authenticate_ext. intros Hv' b. rewrite HL.
      destruct (beq_spec (u' ++ ext_of b) (u ++ ext_of adm)) as [E|_].
      + apply ext_inj in E as [E _]. contradiction.
      + destruct (beq_spec (u' ++ ext_of b) tmp_name) as [E|_];
          [exfalso; revert E; apply valid_not_tmp; exact Hv'|reflexivity].
    - right. exists adm. split; [reflexivity|]. split.
      + rewrite Hauth1, K, beq_refl. reflexivity.
      + intros p a Hp. rewrite Hauth1 in Hp.
        destruct (kdf h (o_salt (orc n)) p) as [x|] eqn:Kp; [|discriminate].
        destruct (beq_spec x dig) as [->|_]; [|discriminate].
        injection Hp as <-. split; [reflexivity|]. exists h. split; [exact Hh|].
        eapply kdf_inj; eauto.
  Qed.
End Upgrade.

(* Without re-authentication (the code before its repair) an upgrade that was
   queued before an acknowledged password change re-stores the old password *)
Theorem stale_upgrade_refuted :
  exists kdf (c : config) (d : dirst) (o1 o2 : oracle),
    let ac := {| cap := fun _ => 10%nat; cap_notify := 32%nat; cap_remote := 10%nat; mode := ULocal;
                 upgrade_send_blocking := false; local_upgrade_reauth := false |} in
    let orcs := fun n => match n with O => o1 | _ => o2 end in
    (* update(u, new) acknowledged ... *)
    let '(c1, d1, r1, _, _) := handle_req kdf (fun _ _ => true) orcs ac c d O (RUpdate (str "u") (str "new")) in
    (* ... then the queued upgrade(u, old) is handled *)
    let '(c2, d2, r2, _) := handle_upgrade kdf (fun _ _ => true) orcs ac c1 d1 1 (str "u") (str "old") in
    r1 = ORes ROk /\
    verdict_of (authenticate kdf c1 d1 (str "u") (str "new")) = Some false /\
    verdict_of (authenticate kdf c2 d2 (str "u") (str "new")) = None /\
    verdict_of (authenticate kdf c2 d2 (str "u") (str "old")) = Some false.
Proof.
  exists (fun _ s p => Some (7 :: p ++ s)).
  exists {| params := [(1, HArgon 1 1 1 1); (2, HArgon 2 2 2 2)]; default := 2 |}.
  exists [(str "u.user", File (written (HArgon 1 1 1 1) 5%Z 1 [1; 2] (7 :: str "old" ++ [1; 2]) []))].
  exists {| o_ts := 10%Z; o_salt := [3]; o_tmp := []; o_order := [] |}.
  exists {| o_ts := 20%Z; o_salt := [4]; o_tmp := []; o_order := [] |}.
  vm_compute. repeat split.
Qed.
