(* SaslServer.v — sasl.Server.handleConnection: decode one request from the
   connection, call the callback at most once, send one reply, close.
   [clip] is the repaired behaviour (KNOWN_FINDINGS D3): the message is cut so
   that the reply's text never exceeds MaxRequestLength and stays decodable
   by every client. *)
From Whawty Require Import Bytes SaslCodec.
Open Scope N_scope.

(* callback result: (ok, message, error text option) *)
Record cb_result := { cb_ok : bool; cb_msg : bytes; cb_err : option bytes }.

Inductive reply :=
| NoReply                              (* nothing is ever written (connection still open and silent) *)
| Reply (ok : bool) (msg : option bytes) (wire : option bytes).
   (* msg = None: "Error decoding request: ..." (text not modelled);
      wire = the bytes written, when the text is determined *)

Definition clip_msg (max : N) (m : bytes) : bytes := firstn (N.to_nat (max - 3)) m.

Section Serve.
  Variable max : N.
  Variable cb : request -> cb_result.

  Definition serve (evs : list ev) : list request * reply :=
    match decode_request_events max evs with
    | RqBlocked => ([], NoReply)
    | RqErr => ([], Reply false None None)
    | RqOk r =>
        let res := cb r in
        let '(ok, msg) := match cb_err res with
                          | Some e => (false, e)
                          | None => (cb_ok res, cb_msg res)
                          end in
        let m := clip_msg max msg in
        ([r], Reply ok (Some m) (encode_response ok m))
    end.
End Serve.

(* the PAM module's reading of a reply: 2-byte length, min(len, pmax) bytes
   into a zeroed buffer, strncmp("OK", buf, 2) *)
Definition pam_accepts (pmax : N) (wire : bytes) : bool :=
  match wire with
  | a :: b :: rest =>
      let l := N.min (a * 256 + b) pmax in
      if len rest <? l then false          (* short read *)
      else match firstn (N.to_nat l) rest with
           | 79 :: 75 :: _ => true
           | _ => false
           end
  | _ => false
  end.
