(* Session.v — cmd/whawty-auth/web_session.go: token plaintext format and
   parser, the text layer (two base64url fields), the time window, and the
   factory as the LOG of what it sealed.

   AES-GCM is idealised: [aead_open] is a lookup in the log of (nonce,
   ciphertext, plaintext) triples sealed under this factory's key - "a
   ciphertext opens iff it was sealed by this instance".  The nonces are an
   oracle (crypto/rand). *)
From Whawty Require Import Bytes Base64.
Open Scope N_scope.

Definition colon : byte := 58.

Record sealed := { s_nonce : bytes; s_ct : bytes; s_pt : bytes }.
Definition slog := list sealed.

Definition flag_text (adm : bool) : bytes := if adm then str "true" else str "false".

(* fmt.Sprintf("%s:%t:%d", username, isAdmin, time.Now().Unix()) *)
Definition format_token (u : bytes) (adm : bool) (t : Z) : bytes :=
  u ++ [colon] ++ flag_text adm ++ [colon] ++ dec_Z t.

(* strings.SplitN(token, ":", 3), strict flag spelling, ParseInt *)
Definition parse_token (pt : bytes) : option (bytes * bool * Z) :=
  match splitN colon 3 pt with
  | [u; f; t] =>
      let flag := if beq f (str "true") then Some true
                  else if beq f (str "false") then Some false else None in
      match flag, parse_int64 t with
      | Some a, Some ts => Some (u, a, ts)
      | _, _ => None
      end
  | _ => None
  end.

(* the session text: base64url(nonce) ":" base64url(ciphertext) *)
Definition token_text (nonce ct : bytes) : bytes := url_enc nonce ++ [colon] ++ url_enc ct.

Definition decode_text (s : bytes) : option (bytes * bytes) :=
  match splitN colon 2 s with
  | [a; b] => match url_dec a, url_dec b with
              | Some n, Some c => Some (n, c)
              | _, _ => None
              end
  | _ => None
  end.

Fixpoint aead_open (l : slog) (nonce ct : bytes) : option bytes :=
  match l with
  | [] => None
  | e :: r => if beq (s_nonce e) nonce && beq (s_ct e) ct then Some (s_pt e) else aead_open r nonce ct
  end.

Inductive verdict :=
| Accept (u : bytes) (adm : bool)
| Reject400          (* malformed, undecodable, from the future *)
| Reject401.         (* not sealed by this instance, or expired *)

Definition nonce_size : nat := 12.

(* time.Unix(sec, 0) adds the offset between year 1 and 1970 to [sec] in
   int64 arithmetic and wraps: a second count within 62135596800 of the int64
   maximum becomes a date far in the past. *)
Definition unix_to_internal : Z := 62135596800%Z.
Definition wrap_i64 (z : Z) : Z := ((z + 9223372036854775808) mod 18446744073709551616 - 9223372036854775808)%Z.
Definition go_unix_sec (ts : Z) : Z := (wrap_i64 (ts + unix_to_internal) - unix_to_internal)%Z.

(* [now_ns]: wall clock in nanoseconds; [life_ns]: session lifetime.
   time.Since saturates instead of wrapping; with unbounded integers the
   comparisons below give the same answers. *)
Definition window (now_ns life_ns : Z) (ts : Z) : option bool :=
  let age := (now_ns - go_unix_sec ts * 1000000000)%Z in
  if (age <? 0)%Z then None                 (* from the future *)
  else Some (age <=? life_ns)%Z.

Definition check (l : slog) (life_ns now_ns : Z) (session : bytes) : verdict :=
  match decode_text session with
  | None => Reject400
  | Some (nonce, ct) =>
      (* the repaired code refuses a nonce of the wrong size before calling
         Open (cipher.AEAD.Open panics on it) *)
      if negb (Nat.eqb (length nonce) nonce_size) then Reject400
      else match aead_open l nonce ct with
           | None => Reject401
           | Some pt =>
               match parse_token pt with
               | None => Reject400
               | Some (u, a, ts) =>
                   match window now_ns life_ns ts with
                   | None => Reject400
                   | Some true => Accept u a
                   | Some false => Reject401
                   end
               end
           end
  end.

(* Generate: the new log entry and the text handed to the client *)
Definition generate (l : slog) (u : bytes) (adm : bool) (now_s : Z) (nonce ct : bytes) : slog * bytes :=
  (l ++ [{| s_nonce := nonce; s_ct := ct; s_pt := format_token u adm now_s |}], token_text nonce ct).
