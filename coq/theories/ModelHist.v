(* ModelHist.v — histories of the MODEL's own operations, each under an arbitrary optional fault,
   as steps for the history-level durability checker of DurHist.v. *)
From Whawty Require Import Bytes Names Record Store StoreTrace Crash DurHist.
Open Scope N_scope.

Inductive mop :=
| MAdd (u pw : bytes) (adm : bool)
| MUpdate (u pw : bytes)
| MSetAdmin (u : bytes) (adm : bool)
| MRemove (u : bytes).

Definition ack_of (r : res) (u : bytes) : option bytes :=
  match r with ROk => Some u | RErr => None end.

Section Model.
  Variable kdf : hasher -> bytes -> bytes -> option bytes.
  Variable c : config.

  (* one operation from directory d: the directory it leaves and the step the checker sees *)
  Definition mstep (d : dirst) (x : mop * option fault * oracle) : dirst * hstep :=
    let '(o, ft, orc) := x in
    match o with
    | MAdd u pw adm =>
        let (r, s) := p_add kdf ft c d u pw adm orc in
        (t_dir s, {| h_shape := HWrite (u ++ ext_of adm) true; h_ack := ack_of r u; h_evs := events s |})
    | MUpdate u pw =>
        let (r, s) := p_update kdf ft c d u pw orc in
        (t_dir s, {| h_shape := match user_exists d u with
                                | ExYes adm => HWrite (u ++ ext_of adm) false
                                | _ => HDir end;
                     h_ack := ack_of r u; h_evs := events s |})
    | MSetAdmin u adm =>
        let (r, s) := p_set_admin ft d u adm in
        (t_dir s, {| h_shape := HDir; h_ack := ack_of r u; h_evs := events s |})
    | MRemove u =>
        let s := p_remove_user ft d u in
        (* removing a name outside the grammar is a no-op, not a mutation *)
        (t_dir s, {| h_shape := HDir;
                     h_ack := if valid_name u then ack_of (p_remove_user_res ft d u) u else None;
                     h_evs := events s |})
    end.

  Fixpoint mrun (d : dirst) (xs : list (mop * option fault * oracle)) : list hstep :=
    match xs with
    | [] => []
    | x :: r => let (d', s) := mstep d x in s :: mrun d' r
    end.
End Model.
