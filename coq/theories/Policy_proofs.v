(* Policy_proofs.v — C17: the condition parser is exactly the documented
   grammar; the gate on every write path of the agent. *)
From Whawty Require Import Bytes Bytes_proofs Record Store StoreOps_proofs Policy Agent.
From Coq Require Import ZifyN ZifyNat ZifyBool.
Open Scope N_scope.

(* ---- auxiliary: characterisation of [fields] ---- *)
Definition nosp (w : bytes) : Prop := forallb (fun c => negb (is_space c)) w = true.

Lemma nosp_cons c w : nosp (c :: w) <-> is_space c = false /\ nosp w.
Proof.
  unfold nosp. cbn [forallb]. rewrite andb_true_iff, negb_true_iff. tauto.
Qed.

Lemma nosp_app a b : nosp a -> nosp b -> nosp (a ++ b).
Proof.
  unfold nosp. intros Ha Hb. rewrite forallb_app. apply andb_true_iff. split; [exact Ha|exact Hb].
Qed.

Lemma nosp_rev w : nosp w -> nosp (rev w).
Proof.
  induction w as [|c w IH]; intros H; [exact H|].
  apply nosp_cons in H. destruct H as [Hc Hw]. cbn [rev].
  apply nosp_app; [auto|]. apply nosp_cons. split; [exact Hc|reflexivity].
Qed.

Lemma fields_aux_word w : forall rest cur, nosp w ->
  fields_aux (w ++ rest) cur = fields_aux rest (rev w ++ cur).
Proof.
  induction w as [|c w IH]; intros rest cur H; [reflexivity|].
  apply nosp_cons in H. destruct H as [Hc Hw].
  cbn [app fields_aux rev]. rewrite Hc. rewrite IH by exact Hw.
  rewrite <- app_assoc. reflexivity.
Qed.

Lemma fields_aux_ws sp : forall r, ws sp -> fields_aux (sp ++ r) [] = fields_aux r [].
Proof.
  induction sp as [|c sp IH]; intros r H; [reflexivity|].
  inversion H as [|c' r' Hc Hr]; subst c' r'.
  cbn [app fields_aux]. rewrite Hc. apply IH. exact Hr.
Qed.

Lemma fields_aux_ws_cur sp r cur : ws sp -> sp <> [] -> cur <> [] ->
  fields_aux (sp ++ r) cur = rev cur :: fields_aux r [].
Proof.
  intros H Hne Hc. destruct sp as [|c sp]; [congruence|].
  inversion H as [|c' r' Hsp Hr]; subst c' r'.
  cbn [app fields_aux]. rewrite Hsp. destruct cur as [|x cur]; [congruence|].
  rewrite fields_aux_ws by exact Hr. reflexivity.
Qed.

Lemma rev_not_nil (w : bytes) : w <> [] -> rev w <> [].
Proof.
  intros H E. apply H. rewrite <- (rev_involutive w), E. reflexivity.
Qed.

Lemma fields_aux_word_sep w sp r : nonspace w -> ws sp -> sp <> [] ->
  fields_aux (w ++ sp ++ r) [] = w :: fields_aux r [].
Proof.
  intros [Hne Hw] Hsp Hspne. rewrite fields_aux_word by exact Hw.
  rewrite app_nil_r. rewrite fields_aux_ws_cur; auto using rev_not_nil.
  rewrite rev_involutive. reflexivity.
Qed.

Lemma fields_aux_word_end w sp : nonspace w -> ws sp ->
  fields_aux (w ++ sp) [] = [w].
Proof.
  intros Hw Hsp. destruct sp as [|c sp].
  - destruct Hw as [Hne Hw]. rewrite fields_aux_word by exact Hw.
    cbn [fields_aux]. rewrite app_nil_r.
    destruct (rev w) as [|x y] eqn:E; [exfalso; exact (rev_not_nil w Hne E)|].
    rewrite <- E, rev_involutive. reflexivity.
  - rewrite <- (app_nil_r (c :: sp)).
    rewrite fields_aux_word_sep; [reflexivity|exact Hw|exact Hsp|discriminate].
Qed.

Lemma fields_three s0 k s1 op s2 t s3 :
  ws s0 -> nonspace k -> ws s1 -> s1 <> [] -> nonspace op -> ws s2 -> s2 <> [] ->
  nonspace t -> ws s3 ->
  fields (s0 ++ k ++ s1 ++ op ++ s2 ++ t ++ s3) = [k; op; t].
Proof.
  intros H0 Hk H1 H1n Hop H2 H2n Ht H3. unfold fields.
  rewrite fields_aux_ws by exact H0.
  rewrite fields_aux_word_sep by assumption.
  rewrite fields_aux_word_sep by assumption.
  rewrite fields_aux_word_end by assumption. reflexivity.
Qed.

(* inversion: the result of [fields] splits the input *)
Fixpoint fsplit_tail (l : list bytes) (s : bytes) : Prop :=
  match l with
  | [] => ws s
  | w :: l' => exists sp rest, ws sp /\ sp <> [] /\ nonspace w /\ s = sp ++ w ++ rest /\ fsplit_tail l' rest
  end.
Definition fsplit (l : list bytes) (s : bytes) : Prop :=
  match l with
  | [] => ws s
  | w :: l' => exists sp rest, ws sp /\ nonspace w /\ s = sp ++ w ++ rest /\ fsplit_tail l' rest
  end.

Lemma fsplit_space l r c : is_space c = true -> fsplit l r -> fsplit l (c :: r).
Proof.
  intros Hc. destruct l as [|w l]; cbn [fsplit].
  - intros H. constructor; assumption.
  - intros (sp & rest & Hsp & Hw & Hs & Ht). exists (c :: sp), rest.
    split; [constructor; assumption|]. split; [exact Hw|]. split; [|exact Ht].
    rewrite Hs. reflexivity.
Qed.

Lemma fsplit_tail_space l r c : is_space c = true -> fsplit l r -> fsplit_tail l (c :: r).
Proof.
  intros Hc. destruct l as [|w l]; cbn [fsplit fsplit_tail].
  - intros H. constructor; assumption.
  - intros (sp & rest & Hsp & Hw & Hs & Ht). exists (c :: sp), rest.
    split; [constructor; assumption|]. split; [discriminate|]. split; [exact Hw|].
    split; [|exact Ht]. rewrite Hs. reflexivity.
Qed.

Lemma fields_aux_split s : forall cur, nosp cur ->
  fsplit (fields_aux s cur) (rev cur ++ s).
Proof.
  induction s as [|c r IH]; intros cur Hcur.
  - cbn [fields_aux]. destruct cur as [|x cur].
    + cbn [fsplit rev app]. constructor.
    + cbn [fsplit]. exists [], []. split; [constructor|]. split.
      * split; [apply rev_not_nil; discriminate|]. apply nosp_rev. exact Hcur.
      * split; [reflexivity|]. cbn [fsplit_tail]. constructor.
  - cbn [fields_aux]. destruct (is_space c) eqn:Hc.
    + pose proof (IH [] eq_refl) as Hr. cbn [rev app] in Hr.
      destruct cur as [|x cur].
      * cbn [rev app]. apply fsplit_space; assumption.
      * cbn [fsplit]. exists [], (c :: r). split; [constructor|]. split.
        -- split; [apply rev_not_nil; discriminate|]. apply nosp_rev. exact Hcur.
        -- split; [reflexivity|]. apply fsplit_tail_space; assumption.
    + assert (Hcur' : nosp (c :: cur)) by (apply nosp_cons; auto).
      specialize (IH (c :: cur) Hcur'). cbn [rev] in IH.
      rewrite <- app_assoc in IH. exact IH.
Qed.

Lemma fields_split s : fsplit (fields s) s.
Proof. exact (fields_aux_split s [] eq_refl). Qed.

Lemma nonspace_score : nonspace (str "score").
Proof. split; [discriminate|reflexivity]. Qed.
Lemma nonspace_entropy : nonspace (str "entropy").
Proof. split; [discriminate|reflexivity]. Qed.
Lemma nonspace_time : nonspace (str "time").
Proof. split; [discriminate|reflexivity]. Qed.
Lemma nonspace_ge : nonspace (str ">=").
Proof. split; [discriminate|reflexivity]. Qed.
Lemma beq_entropy_score : beq (str "entropy") (str "score") = false.
Proof. reflexivity. Qed.
Lemma beq_time_score : beq (str "time") (str "score") = false.
Proof. reflexivity. Qed.
Lemma beq_time_entropy : beq (str "time") (str "entropy") = false.
Proof. reflexivity. Qed.

(* soundness and completeness of the parser w.r.t. the grammar *)
Theorem parse_condition_sound s p :
  parse_condition s = Some p -> condition_grammar s p.
Proof.
  unfold parse_condition. intros H.
  pose proof (fields_split s) as Hs.
  destruct (fields s) as [|k [|op [|t [|x l]]]]; try discriminate.
  cbn [fsplit fsplit_tail] in Hs.
  destruct Hs as (s0 & r0 & Hs0 & Hk & Es & s1 & r1 & Hs1 & Hs1n & Hop & Er0 &
                  s2 & r2 & Hs2 & Hs2n & Ht & Er1 & Hs3).
  destruct (beq op (str ">=")) eqn:Eop; [|discriminate]. apply beq_eq in Eop.
  destruct (parse_uint64 t) as [thr|] eqn:Ep; [|discriminate].
  subst s r0 r1 op.
  destruct (beq k (str "score")) eqn:E1.
  - apply beq_eq in E1. destruct (thr <=? 4) eqn:E4; [|discriminate]. apply N.leb_le in E4.
    assert (Hp : p = {| p_kind := KScore; p_thr := thr |}) by congruence. subst p.
    apply CG; auto.
  - destruct (beq k (str "entropy")) eqn:E2.
    + apply beq_eq in E2.
      assert (Hp : p = {| p_kind := KEntropy; p_thr := thr |}) by congruence. subst p.
      apply CG; auto.
    + destruct (beq k (str "time")) eqn:E3; [|discriminate].
      apply beq_eq in E3.
      assert (Hp : p = {| p_kind := KTime; p_thr := thr |}) by congruence. subst p.
      apply CG; auto.
Qed.

Theorem parse_condition_complete s p :
  condition_grammar s p -> parse_condition s = Some p.
Proof.
  intros H. destruct H as [s0 k s1 s2 t s3 kind thr H0 H1 H1n H2 H2n H3 Ht Hp Hk].
  unfold parse_condition.
  destruct Hk as [(Hk & Hkind & Hthr)|[(Hk & Hkind)|(Hk & Hkind)]]; subst k kind.
  - rewrite fields_three by auto using nonspace_score, nonspace_ge.
    rewrite beq_refl, Hp, beq_refl.
    assert (E : (thr <=? 4) = true) by (apply N.leb_le; exact Hthr).
    rewrite E. reflexivity.
  - rewrite fields_three by auto using nonspace_entropy, nonspace_ge.
    rewrite beq_refl, Hp, beq_entropy_score, beq_refl. reflexivity.
  - rewrite fields_three by auto using nonspace_time, nonspace_ge.
    rewrite beq_refl, Hp, beq_time_score, beq_time_entropy, beq_refl. reflexivity.
Qed.

(* anything else - including unknown policy types - stops the agent from starting *)
Theorem bad_policy_no_start ty cond :
  ty <> [] -> (ty <> str "zxcvbn" \/ forall p, ~ condition_grammar cond p) ->
  new_policy ty cond = None.
Proof.
  intros Hne Hor. unfold new_policy. destruct ty as [|b ty']; [congruence|].
  destruct (beq (b :: ty') (str "zxcvbn")) eqn:E; [|reflexivity].
  apply beq_eq in E.
  destruct (parse_condition cond) as [p|] eqn:Ep; [|reflexivity].
  apply parse_condition_sound in Ep.
  destruct Hor as [Hty|Hno]; [congruence|]. exfalso. exact (Hno p Ep).
Qed.

Theorem empty_type_is_no_policy cond : new_policy [] cond = Some PNone.
Proof. reflexivity. Qed.

(* a score threshold above 4 can never be met and is refused at start *)
Theorem score_threshold_bounded s p :
  parse_condition s = Some p -> p_kind p = KScore -> p_thr p <= 4.
Proof.
  intros H Hkind. apply parse_condition_sound in H.
  destruct H as [s0 k s1 s2 t s3 kind thr H0 H1 H1n H2 H2n H3 Ht Hp Hk].
  cbn [p_kind p_thr] in *.
  destruct Hk as [(Hk & Hkd & Hthr)|[(Hk & Hkd)|(Hk & Hkd)]]; [exact Hthr|congruence|congruence].
Qed.

Section Gate.
  Variable kdf : hasher -> bytes -> bytes -> option bytes.
  Variable policy_ok : bytes -> bytes -> bool.
  Variable orc : nat -> oracle.
  Variable ac : agent_cfg.

  (* no password failing the policy is stored through any write request of
     the dispatcher - init, add, update - and the refused request leaves
     configuration and directory exactly as they were, notifies no hook and
     queues no upgrade *)
  Theorem policy_refusal_changes_nothing c d n r pw u :
    gated r = Some (pw, u) -> policy_ok pw u = false ->
    handle_req kdf policy_ok orc ac c d n r = (c, d, ORes RErr, false, None).
  Proof.
    intros Hg Hp. unfold handle_req. rewrite Hg, Hp. reflexivity.
  Qed.

  (* the same for the internal hash upgrade *)
  Theorem policy_refusal_upgrade c d n u pw c' d' res notify :
    policy_ok pw u = false ->
    handle_upgrade kdf policy_ok orc ac c d n u pw = (c', d', res, notify) ->
    c' = c /\ d' = d /\ notify = false.
  Proof.
    intros Hp H. unfold handle_upgrade in H. rewrite Hp in H. cbn [negb] in H.
    assert (Hr : (c, d, ORes RErr, false) = (c', d', res, notify)).
    { repeat match type of H with
             | context [match ?x with _ => _ end] => destruct x
             end; exact H. }
    repeat split; congruence.
  Qed.

  (* requests that carry no new password never consult the policy *)
  Theorem ungated_requests r :
    gated r = None <-> match r with RInit _ _ | RAdd _ _ _ | RUpdate _ _ => False | _ => True end.
  Proof.
    destruct r; cbn [gated]; split; intros H; try discriminate; try exact I;
      try contradiction; reflexivity.
  Qed.

  (* a password that satisfies the policy is not refused on policy grounds:
     the outcome is exactly the store's *)
  Theorem policy_pass_is_store_result c d n r pw u :
    gated r = Some (pw, u) -> policy_ok pw u = true ->
    let '(c', d', ob) := step kdf c d (op_of r) (orc n) in
    exists notify, handle_req kdf policy_ok orc ac c d n r = (c', d', ob, notify, None).
  Proof.
    intros Hg Hp. unfold handle_req. rewrite Hg, Hp. cbn [negb].
    destruct (step kdf c d (op_of r) (orc n)) as [[c' d'] ob].
    eexists. reflexivity.
  Qed.

  (* every stored record was written for a password that passed: a change of
     the directory by a gated request implies policy_ok *)
  Theorem stored_implies_passed c d n r pw u c' d' ob notify upg :
    gated r = Some (pw, u) ->
    handle_req kdf policy_ok orc ac c d n r = (c', d', ob, notify, upg) ->
    d' <> d -> policy_ok pw u = true.
  Proof.
    intros Hg H Hd. destruct (policy_ok pw u) eqn:E; [reflexivity|].
    rewrite (policy_refusal_changes_nothing c d n r pw u Hg E) in H.
    exfalso. apply Hd. congruence.
  Qed.
End Gate.
