(* C13_proofs.v — the C13 statements, proved generically and instantiated at
   the constants extracted from the source tree. *)
From Whawty Require Import Bytes SaslCodec SaslCodec_proofs Pam Extracted.
From Coq Require Import ZifyN ZifyNat ZifyBool.
Open Scope N_scope.

Notation max := Extracted.max_request_length.

(* side conditions on the extracted constants, discharged by computation *)
Lemma max_le_u16 : max <= 65535.
Proof. vm_compute. discriminate. Qed.
Lemma max_ge_3 : 3 <= max.
Proof. vm_compute. discriminate. Qed.

Lemma C13_format_exact_request_proof : forall r,
  encode_request max r =
  if fields_ok max r then Some (concat (map enc_part (req_fields r))) else None.
Proof. intros r. apply encode_request_exact. exact max_le_u16. Qed.

Lemma response_text_len ok msg :
  len (response_text ok msg) = 2 + match msg with [] => 0 | _ => 1 + len msg end.
Proof.
  unfold response_text. rewrite len_app. destruct ok, msg; cbn [str]; rewrite ?len_cons, ?len_nil;
    unfold len; cbn [length]; lia.
Qed.

Lemma C13_format_exact_response_proof : forall ok msg,
  len msg <= 65532 ->
  encode_response ok msg =
  Some (enc_part ((if ok then str "OK" else str "NO") ++
                  match msg with [] => [] | _ => 32 :: msg end)).
Proof.
  intros ok msg H. unfold encode_response. rewrite encode_parts_ok.
  - cbn [map concat]. rewrite app_nil_r. reflexivity.
  - cbn [forallb]. rewrite andb_true_r. rewrite response_text_len.
    destruct msg; lia.
Qed.

Lemma decode_request_spec evs :
  wb O evs ->
  decode_request_events max evs =
  match spec_res max 4 (fst (stream evs)) (snd (stream evs)) with
  | DOk ps => request_of_parts ps
  | DErr => RqErr
  | DBlocked => RqBlocked
  end.
Proof.
  intros H. unfold decode_request_events. rewrite fragment_independent by (auto; lia).
  reflexivity.
Qed.

Lemma C13_roundtrip_request_proof : forall r w tail evs,
  encode_request max r = Some w -> login r <> [] -> password r <> [] ->
  wb O evs -> fst (stream evs) = w ++ tail ->
  decode_request_events max evs = RqOk r.
Proof.
  intros r w tail evs He Hl Hp Hwb Hs.
  rewrite C13_format_exact_request_proof in He.
  destruct (fields_ok max r) eqn:F; [|discriminate].
  assert (Hw : concat (map enc_part (req_fields r)) = w) by congruence. subst w. clear He.
  rewrite decode_request_spec by exact Hwb. rewrite Hs. unfold spec_res.
  destruct (parse_parts_encode max (req_fields r) tail max_le_u16 F) as (k & Hk & _).
  change (length (req_fields r)) with 4%nat in Hk. rewrite Hk.
  destruct r as [l p s rr]. cbn in *. destruct l; [contradiction|]. destruct p; [contradiction|].
  reflexivity.
Qed.

Lemma C13_empty_credentials_refused_proof : forall r w tail evs,
  encode_request max r = Some w -> (login r = [] \/ password r = []) ->
  wb O evs -> fst (stream evs) = w ++ tail ->
  decode_request_events max evs = RqErr.
Proof.
  intros r w tail evs He Hlp Hwb Hs.
  rewrite C13_format_exact_request_proof in He.
  destruct (fields_ok max r) eqn:F; [|discriminate].
  assert (Hw : concat (map enc_part (req_fields r)) = w) by congruence. subst w. clear He.
  rewrite decode_request_spec by exact Hwb. rewrite Hs. unfold spec_res.
  destruct (parse_parts_encode max (req_fields r) tail max_le_u16 F) as (k & Hk & _).
  change (length (req_fields r)) with 4%nat in Hk. rewrite Hk.
  destruct r as [l p s rr]. cbn in *. destruct Hlp as [-> | ->]; [reflexivity|].
  destruct l; reflexivity.
Qed.

Lemma C13_roundtrip_response_proof : forall ok msg w tail evs,
  len msg + 3 <= max ->
  encode_response ok msg = Some w ->
  wb O evs -> fst (stream evs) = w ++ tail ->
  decode_response_events max evs = RsOk ok msg.
Proof.
  intros ok msg w tail evs Hm He Hwb Hs.
  pose proof max_le_u16 as Hmax.
  rewrite C13_format_exact_response_proof in He by lia.
  match type of He with Some ?x = _ => assert (Hw : x = w) by congruence end. subst w. clear He.
  unfold decode_response_events. rewrite fragment_independent by (auto; lia).
  rewrite Hs. unfold spec_res.
  set (t := (if ok then str "OK" else str "NO") ++ match msg with [] => [] | _ => 32 :: msg end).
  assert (Ht : len t <= max).
  { subst t. change ((if ok then str "OK" else str "NO") ++ match msg with [] => [] | _ => 32 :: msg end)
      with (response_text ok msg). rewrite response_text_len. destruct msg; lia. }
  destruct (parse_parts_encode max [t] tail Hmax) as (k & Hk & _).
  { cbn [forallb]. rewrite andb_true_r. lia. }
  cbn [length map concat] in Hk. rewrite app_nil_r in Hk. rewrite Hk.
  subst t. destruct ok, msg; reflexivity.
Qed.

Lemma C13_overlimit_encoder_proof : forall r,
  fields_ok max r = false -> encode_request max r = None.
Proof. intros r F. rewrite C13_format_exact_request_proof, F. reflexivity. Qed.

Lemma C13_overlimit_decoder_proof : forall n evs ps,
  decode_events max n [] Cont evs = DOk ps ->
  forallb (fun f => len f <=? max) ps = true.
Proof.
  intros n evs ps H. apply decode_events_sound in H. destruct H as [k H].
  eapply parse_parts_parts_le; eauto.
Qed.

Lemma C13_overlimit_prefix_refused_proof : forall n evs,
  (0 < n)%nat -> wb O evs -> parse_parts max n (fst (stream evs)) = PBad ->
  decode_events max n [] Cont evs = DErr.
Proof.
  intros n evs Hn Hwb H. rewrite fragment_independent by assumption.
  unfold spec_res. rewrite H. reflexivity.
Qed.

Lemma C13_reencode_consumed_proof : forall evs r,
  bytes_wf (alldata evs) = true ->
  decode_request_events max evs = RqOk r ->
  exists w k, encode_request max r = Some w /\ w = firstn k (alldata evs).
Proof.
  intros evs r W H. unfold decode_request_events in H.
  destruct (decode_events max 4 [] Cont evs) as [ps| |] eqn:D; try discriminate.
  pose proof (decode_events_sound _ _ _ _ _ _ D) as [k Hk]. cbn [app] in Hk.
  pose proof (parse_parts_parts_le _ _ _ _ _ Hk) as Hle.
  destruct (reencode_consumed _ _ _ _ _ W Hk) as [Hre Hlen].
  destruct ps as [|l [|p [|s [|rr [|x ps]]]]]; try discriminate.
  cbn [request_of_parts] in H.
  destruct l; [discriminate|]. destruct p; [discriminate|]. injection H as <-.
  rewrite C13_format_exact_request_proof. unfold fields_ok.
  change (req_fields {| login := n :: l; password := n0 :: p; service := s; realm := rr |})
    with [n :: l; n0 :: p; s; rr].
  eexists. exists k.
  match goal with |- (if ?c then _ else _) = _ /\ _ => replace c with true by (symmetry; exact Hle) end.
  split; [reflexivity|]. exact Hre.
Qed.

Lemma C13_fragment_independent_proof : forall n evs,
  (0 < n)%nat -> wb O evs ->
  decode_events max n [] Cont evs =
  spec_res max n (fst (stream evs)) (snd (stream evs)).
Proof. intros. apply fragment_independent; assumption. Qed.

Lemma C13_fragment_independent_pair_proof : forall n evs1 evs2,
  (0 < n)%nat -> wb O evs1 -> wb O evs2 -> stream evs1 = stream evs2 ->
  decode_events max n [] Cont evs1 = decode_events max n [] Cont evs2.
Proof. intros. apply fragment_independent_pair; assumption. Qed.

Lemma C13_early_decision_proof : forall n s e ps k,
  parse_parts max n s = POk ps k -> parse_parts max n (s ++ e) = POk ps k.
Proof. intros. apply parse_parts_mono_ok. assumption. Qed.

Lemma C13_pam_limits_agree_proof : Extracted.pam_max_partlen = Extracted.max_request_length.
Proof. vm_compute. reflexivity. Qed.

Lemma pam_clip_len pmax s : len (pam_clip pmax s) <= pmax.
Proof. unfold pam_clip, len. rewrite firstn_length. lia. Qed.

Lemma C13_pam_equals_go_proof : forall u p,
  encode_request max {| login := pam_clip Extracted.pam_max_partlen u;
                        password := pam_clip Extracted.pam_max_partlen p;
                        service := []; realm := [] |}
  = Some (pam_request Extracted.pam_max_partlen u p).
Proof.
  intros u p. rewrite C13_format_exact_request_proof. unfold fields_ok.
  cbn [req_fields login password service realm forallb].
  pose proof (pam_clip_len Extracted.pam_max_partlen u) as Hu.
  pose proof (pam_clip_len Extracted.pam_max_partlen p) as Hp.
  assert (E : Extracted.pam_max_partlen <= max) by (rewrite C13_pam_limits_agree_proof; lia).
  replace (len (pam_clip Extracted.pam_max_partlen u) <=? max) with true by lia.
  replace (len (pam_clip Extracted.pam_max_partlen p) <=? max) with true by lia.
  cbn [andb]. replace (len [] <=? max) with true by (vm_compute; reflexivity).
  cbn [andb]. unfold pam_request, pam_part.
  assert (Hnil : pam_clip Extracted.pam_max_partlen [] = []) by (unfold pam_clip; apply firstn_nil).
  rewrite Hnil. cbn [req_fields login password service realm map concat].
  rewrite app_nil_r. reflexivity.
Qed.
