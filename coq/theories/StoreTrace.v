(* StoreTrace.v — the mutating store operations as system-call programs.

   Each program follows the Go code call by call (userhash.go writeHashStr,
   Exists, Update, SetAdmin, Remove; store.go getTempFile / os.MkdirAll /
   os.CreateTemp / os.Rename / os.Remove as observed with strace), over the
   same directory state as Store.v.  A run takes an optional single FAULT
   (kind of call, occurrence within the operation, errno) and produces
     - the result and the final directory (C15: failures change nothing),
     - the list of mutation-relevant EVENTS in program order (C03
       footprint, C08 / C09 crash model in Crash.v).
   Without a fault the programs compute exactly Store.v's big-step result
   (lemmas nofault_... in StoreTrace_proofs). *)
From Whawty Require Import Bytes Base64 Names Record Store.
Open Scope N_scope.

Inductive kind := KStat | KOpen | KMkdir | KWrite | KRead | KCopy | KFsync | KRename | KUnlink.
Inductive errno := ENOSPC | EIO | EACCES | EMFILE | EXDEV | EDQUOT | EROFS.

Definition kind_eqb (a b : kind) : bool :=
  match a, b with
  | KStat, KStat | KOpen, KOpen | KMkdir, KMkdir | KWrite, KWrite | KRead, KRead
  | KCopy, KCopy | KFsync, KFsync | KRename, KRename | KUnlink, KUnlink => true
  | _, _ => false
  end.

Record fault := { f_kind : kind; f_occ : nat; f_errno : errno }.

(* where a path points: the store only ever builds these *)
Inductive loc :=
| LFile (fname : bytes)        (* <base>/<fname> *)
| LTmpFile (tname : bytes)     (* <base>/.tmp/<tname> *)
| LTmpDir                      (* <base>/.tmp *)
| LBaseDir.                    (* <base> *)

(* mutation-relevant events (successful calls only), in program order *)
Inductive event :=
| ECreate (l : loc)                      (* open(O_CREAT|O_EXCL) created an empty file *)
| EMkdir (l : loc)
| EWrite (l : loc) (data : bytes)        (* data appended to the file *)
| EFsync (l : loc)
| ERename (src dst : loc)
| EUnlink (l : loc).

Record tstate := {
  t_dir : dirst;
  t_cnt : list (kind * nat);             (* calls made so far, per kind *)
  t_ev : list event                      (* reversed *)
}.

Fixpoint cnt_get (k : kind) (c : list (kind * nat)) : nat :=
  match c with
  | [] => O
  | (k', n) :: r => if kind_eqb k k' then n else cnt_get k r
  end.
Fixpoint cnt_inc (k : kind) (c : list (kind * nat)) : list (kind * nat) :=
  match c with
  | [] => [(k, 1%nat)]
  | (k', n) :: r => if kind_eqb k k' then (k', S n) :: r else (k', n) :: cnt_inc k r
  end.

(* one system call of kind k: does the injected fault hit it? *)
Definition tick (f : option fault) (k : kind) (s : tstate) : option errno * tstate :=
  let n := cnt_get k (t_cnt s) in
  let s' := {| t_dir := t_dir s; t_cnt := cnt_inc k (t_cnt s); t_ev := t_ev s |} in
  match f with
  | Some ft => if kind_eqb k (f_kind ft) && Nat.eqb n (f_occ ft) then (Some (f_errno ft), s') else (None, s')
  | None => (None, s')
  end.

Definition emit (e : event) (s : tstate) : tstate :=
  {| t_dir := t_dir s; t_cnt := t_cnt s; t_ev := e :: t_ev s |}.
Definition setdir (d : dirst) (s : tstate) : tstate :=
  {| t_dir := d; t_cnt := t_cnt s; t_ev := t_ev s |}.

Definition tmp_children (d : dirst) : option (list (bytes * bytes)) :=
  match dlookup tmp_name d with Some (Dir k) => Some k | _ => None end.

(* ---- fileExists / Exists ---- *)
Definition p_stat (f : option fault) (fname : bytes) (s : tstate) : stat_res * tstate :=
  if name_max <? len fname then
    (* ENAMETOOLONG from the kernel; still one call *)
    let (_, s1) := tick f KStat s in (StErr, s1)
  else
    let (e, s1) := tick f KStat s in
    match e with
    | Some _ => (StErr, s1)
    | None => (match dlookup fname (t_dir s1) with Some _ => StYes | None => StNo end, s1)
    end.

Definition p_exists (f : option fault) (u : bytes) (s : tstate) : exists_res * tstate :=
  let (r1, s1) := p_stat f (u ++ ext_admin) s in
  match r1 with
  | StErr => (ExErr, s1)
  | StYes => (ExYes true, s1)
  | StNo =>
      let (r2, s2) := p_stat f (u ++ ext_user) s1 in
      match r2 with
      | StErr => (ExErr, s2)
      | StYes => (ExYes false, s2)
      | StNo => (ExNo, s2)
      end
  end.

(* os.Remove(path): unlinkat(path, 0); if that fails unlinkat(path, AT_REMOVEDIR).
   A regular file goes with the first call, an empty directory with the second. *)
Definition p_remove (f : option fault) (l : loc) (s : tstate) : tstate :=
  let (e1, s1) := tick f KUnlink s in
  let is_file : bool :=
    match l with
    | LFile fname => match dlookup fname (t_dir s1) with Some (File _) => true | _ => false end
    | LTmpFile t => match tmp_children (t_dir s1) with
                    | Some kids => match alookup t kids with Some _ => true | None => false end
                    | None => false end
    | _ => false
    end in
  let is_empty_dir : bool :=
    match l with
    | LFile fname => match dlookup fname (t_dir s1) with Some (Dir []) => true | _ => false end
    | _ => false
    end in
  let removed (sx : tstate) : tstate :=
    match l with
    | LFile fname => emit (EUnlink l) (setdir (dremove fname (t_dir sx)) sx)
    | LTmpFile t =>
        match tmp_children (t_dir sx) with
        | Some kids => emit (EUnlink l) (setdir (dset tmp_name (Dir (aremove t kids)) (t_dir sx)) sx)
        | None => sx
        end
    | _ => sx
    end in
  match e1, is_file with
  | None, true => removed s1
  | _, _ =>
      let (e2, s2) := tick f KUnlink s1 in
      match e2, is_empty_dir with
      | None, true => removed s2
      | _, _ => s2
      end
  end.

Section WithKdf.
  Variable kdf : hasher -> bytes -> bytes -> option bytes.

  (* os.MkdirAll(<base>/.tmp): true = usable directory *)
  Definition p_mkdir_tmp (f : option fault) (s : tstate) : bool * tstate :=
    let (e, s1) := tick f KStat s in                       (* Stat(.tmp) *)
    let known_dir := match e, dlookup tmp_name (t_dir s1) with
                     | None, Some (Dir _) => Some true
                     | None, Some (File _) => Some false
                     | _, _ => None end in
    match known_dir with
    | Some b => (b, s1)
    | None =>
        (* slow path: MkdirAll(parent) = Stat(base) [a failing stat only makes
           it climb further and come back], then Mkdir(.tmp) *)
        let (e2, s2) := tick f KStat s1 in
        let s2' := match e2 with
                   | Some _ => let (_, sa) := tick f KStat s2 in      (* Stat(parent of base) *)
                               let (_, sb) := tick f KMkdir sa in     (* Mkdir(base) -> EEXIST *)
                               let (_, sc) := tick f KStat sb in sc   (* Lstat(base) *)
                   | None => s2 end in
        let (e3, s3) := tick f KMkdir s2' in
        match e3, dlookup tmp_name (t_dir s3) with
        | None, None => (true, emit (EMkdir LTmpDir) (setdir (dset tmp_name (Dir []) (t_dir s3)) s3))
        | _, _ =>
            (* EEXIST or injected error: Lstat decides *)
            let (e4, s4) := tick f KStat s3 in
            match e4, dlookup tmp_name (t_dir s4) with
            | None, Some (Dir _) => (true, s4)
            | _, _ => (false, s4)
            end
        end
    end.

  (* writeHashStr after the hasher produced [hs]; [reserve] = mayCreate *)
  Definition p_write_hash (f : option fault) (c : config) (h : hasher) (hs : bytes)
             (fname : bytes) (reserve : bool) (o : oracle) (s : tstate) : res * tstate :=
    (* OpenFile(final, O_RDONLY|O_EXCL[|O_CREATE]) *)
    let (e0, s0) := tick f KOpen s in
    let opened : option (tstate * option bytes) :=
      match e0 with
      | Some _ => None
      | None =>
          match dlookup fname (t_dir s0) with
          | Some (File old) => if reserve then None else Some (s0, Some old)
          | Some (Dir _) => if reserve then None else Some (s0, None)
          | None => if reserve
                    then Some (emit (ECreate (LFile fname)) (setdir (dset fname (File []) (t_dir s0)) s0), Some [])
                    else None
          end
      end in
    match opened with
    | None => (RErr, s0)
    | Some (s1, old) =>
        (* the repaired code gives the reservation back when anything below fails *)
        let fail (sx : tstate) : res * tstate :=
          if reserve then (RErr, p_remove f (LFile fname) sx) else (RErr, sx) in
        let (okdir, s2) := p_mkdir_tmp f s1 in
        if negb okdir then fail s2
        else
          (* os.CreateTemp *)
          let (e3, s3) := tick f KOpen s2 in
          match e3 with
          | Some _ => fail s3
          | None =>
              let t := o_tmp o in
              let kids := match tmp_children (t_dir s3) with Some k => k | None => [] end in
              let s3' := emit (ECreate (LTmpFile t)) (setdir (dset tmp_name (Dir (aset t [] kids)) (t_dir s3)) s3) in
              (* from here on the deferred os.Remove(tmp) runs on every exit *)
              let fail_tmp (sx : tstate) : res * tstate := fail (p_remove f (LTmpFile t) sx) in
              let line := print_record h (o_ts o) (default c) hs in
              let put (data : bytes) (sx : tstate) : tstate :=
                let kids := match tmp_children (t_dir sx) with Some k => k | None => [] end in
                let cur := match alookup t kids with Some x => x | None => [] end in
                emit (EWrite (LTmpFile t) data)
                     (setdir (dset tmp_name (Dir (aset t (cur ++ data) kids)) (t_dir sx)) sx) in
              let (e4, s4) := tick f KWrite s3' in                 (* first line *)
              match e4 with
              | Some _ => fail_tmp s4
              | None =>
                  let s4' := put line s4 in
                  let (e5, s5) := tick f KRead s4' in              (* ReadString('\n') *)
                  match e5, old with
                  | Some _, _ | _, None => fail_tmp s5
                  | None, Some oldc =>
                      let (e6, s6) := tick f KWrite s5 in          (* writeBuf: buffered remainder *)
                      match e6 with
                      | Some _ => fail_tmp s6
                      | None =>
                          let rest := after_first_line oldc in
                          let (e7, s7) := tick f KCopy s6 in       (* copy_file_range *)
                          let copy_fails := match e7 with
                                            | Some EIO => false    (* poll.CopyFileRange falls back to read/write *)
                                            | Some _ => true
                                            | None => false end in
                          if copy_fails then fail_tmp (put rest s7)
                          else
                            let (e8, s8) := tick f KRead s7 in     (* final read returning 0 *)
                            match e8 with
                            | Some _ => fail_tmp (put rest s8)
                            | None =>
                                let s8' := match rest with [] => s8 | _ => put rest s8 end in
                                let (e9, s9) := tick f KFsync s8' in
                                match e9 with
                                | Some _ => fail_tmp s9
                                | None =>
                                    let s9' := emit (EFsync (LTmpFile t)) s9 in
                                    let (_, s10) := tick f KStat s9' in      (* Lstat(final): error ignored *)
                                    let (e11, s11) := tick f KRename s10 in
                                    match e11 with
                                    | Some _ => fail_tmp s11
                                    | None =>
                                        let kids := match tmp_children (t_dir s11) with Some k => k | None => [] end in
                                        let content := match alookup t kids with Some x => x | None => [] end in
                                        let d' := dset fname (File content)
                                                       (dset tmp_name (Dir (aremove t kids)) (t_dir s11)) in
                                        let s11' := emit (ERename (LTmpFile t) (LFile fname)) (setdir d' s11) in
                                        let (e12, s12) := tick f KOpen s11' in   (* open base dir *)
                                        match e12 with
                                        | Some _ => fail_tmp s12
                                        | None =>
                                            let (e13, s13) := tick f KFsync s12 in
                                            match e13 with
                                            | Some _ => fail_tmp s13
                                            | None =>
                                                let s13' := emit (EFsync LBaseDir) s13 in
                                                (ROk, p_remove f (LTmpFile t) s13')
                                            end
                                        end
                                    end
                                end
                            end
                      end
                  end
              end
          end
    end.

  Definition t0 (d : dirst) : tstate := {| t_dir := d; t_cnt := []; t_ev := [] |}.

  Definition p_add (f : option fault) (c : config) (d : dirst) (u pw : bytes) (admin : bool) (o : oracle)
    : res * tstate :=
    let s := t0 d in
    if negb (valid_name u) then (RErr, s)
    else
      let (ex, s1) := p_exists f u s in
      match ex with
      | ExNo =>
          match cfg_hasher c (default c) with
          | None => (RErr, s1)
          | Some h =>
              match hash_generate kdf h (o_salt o) pw with
              | None => (RErr, s1)
              | Some hs => p_write_hash f c h hs (u ++ ext_of admin) true o s1
              end
          end
      | _ => (RErr, s1)
      end.

  Definition p_update (f : option fault) (c : config) (d : dirst) (u pw : bytes) (o : oracle)
    : res * tstate :=
    let s := t0 d in
    if negb (valid_name u) then (RErr, s)
    else
      let (ex, s1) := p_exists f u s in
      match ex with
      | ExYes admin =>
          let fname := u ++ ext_of admin in
          (* isFormatSupported: open + read *)
          let (e2, s2) := tick f KOpen s1 in
          match e2 with
          | Some _ => (RErr, s2)
          | None =>
              let (e3, s3) := tick f KRead s2 in
              match e3, read_file (t_dir s3) fname with
              | None, Some content =>
                  if is_supported c content then
                    match cfg_hasher c (default c) with
                    | None => (RErr, s3)
                    | Some h =>
                        match hash_generate kdf h (o_salt o) pw with
                        | None => (RErr, s3)
                        | Some hs => p_write_hash f c h hs fname false o s3
                        end
                    end
                  else (RErr, s3)
              | _, _ => (RErr, s3)
              end
          end
      | _ => (RErr, s1)
      end.

  (* SetAdmin: rename, then (repaired code) fsync of the base directory *)
  (* What Remove reports (it reported nothing before the repair of b74e4b4): os.Remove(name) is
     unlink then rmdir; its error is rmdir's unless that is ENOTDIR, then unlink's; a missing
     file (ENOENT) is not an error.  Both names and the directory sync are always attempted,
     the first error is returned.  [remove_err f l s]: does os.Remove on [l] from state [s]
     return an error other than "does not exist"? *)
  Definition remove_err (f : option fault) (l : loc) (s : tstate) : bool :=
    match l with
    | LFile fname =>
        let (e1, s1) := tick f KUnlink s in
        if name_max <? len fname then true               (* ENAMETOOLONG from both calls *)
        else
        match dlookup fname (t_dir s1) with
        | Some (File _) =>
            match e1 with
            | None => false                              (* unlinked *)
            | Some _ => true                             (* unlink failed; rmdir says ENOTDIR (or is the injected call) *)
            end
        | Some (Dir kids) =>
            let (e2, _) := tick f KUnlink s1 in
            match e2, kids with
            | None, [] => false                          (* rmdir removed the empty directory *)
            | _, _ => true                               (* injected error on rmdir, or ENOTEMPTY *)
            end
        | None =>
            let (e2, _) := tick f KUnlink s1 in
            match e2 with
            | None => false                              (* ENOENT from rmdir: not an error *)
            | Some _ => true
            end
        end
    | _ => false
    end.

  Definition p_remove_user_res (f : option fault) (d : dirst) (u : bytes) : res :=
    let s := t0 d in
    if negb (valid_name u) then ROk
    else
      let ea := remove_err f (LFile (u ++ ext_admin)) s in
      let s1 := p_remove f (LFile (u ++ ext_admin)) s in
      let eu := remove_err f (LFile (u ++ ext_user)) s1 in
      let s2 := p_remove f (LFile (u ++ ext_user)) s1 in
      let (e3, s3) := tick f KOpen s2 in
      let esync := match e3 with
                   | Some _ => true
                   | None => let (e4, _) := tick f KFsync s3 in match e4 with Some _ => true | None => false end
                   end in
      if ea || eu || esync then RErr else ROk.

  Definition p_set_admin (f : option fault) (d : dirst) (u : bytes) (admin : bool) : res * tstate :=
    let s := t0 d in
    if negb (valid_name u) then (RErr, s)
    else
      let (ex, s1) := p_exists f u s in
      match ex with
      | ExYes cur =>
          if Bool.eqb cur admin then
            (* nothing to rename; the repaired code (5ef5850) still flushes the base directory before it
               acknowledges: an earlier attempt may have renamed and then failed to flush *)
            let (e4, s4) := tick f KOpen s1 in
            match e4 with
            | Some _ => (RErr, s4)
            | None =>
                let (e5, s5) := tick f KFsync s4 in
                match e5 with
                | Some _ => (RErr, s5)
                | None => (ROk, emit (EFsync LBaseDir) s5)
                end
            end
          else
            let oldn := u ++ ext_of cur in
            let newn := u ++ ext_of admin in
            let (_, s2) := tick f KStat s1 in                       (* Lstat(new): error ignored *)
            let (e3, s3) := tick f KRename s2 in
            match e3, dlookup oldn (t_dir s3) with
            | None, Some n =>
                let ok := negb (name_max <? len newn) &&
                          match dlookup newn (t_dir s3), n with
                          | None, _ => true
                          | Some (File _), File _ => true
                          | Some (Dir []), Dir _ => true
                          | _, _ => false
                          end in
                if ok then
                  let s3' := emit (ERename (LFile oldn) (LFile newn))
                                  (setdir (dset newn n (dremove oldn (t_dir s3))) s3) in
                  let (e4, s4) := tick f KOpen s3' in
                  match e4 with
                  | Some _ => (RErr, s4)
                  | None =>
                      let (e5, s5) := tick f KFsync s4 in
                      match e5 with
                      | Some _ => (RErr, s5)
                      | None => (ROk, emit (EFsync LBaseDir) s5)
                      end
                  end
                else (RErr, s3)
            | _, _ => (RErr, s3)
            end
      | _ => (RErr, s1)
      end.

  (* Remove: two os.Remove calls, then (repaired code) fsync of the base directory *)
  Definition p_remove_user (f : option fault) (d : dirst) (u : bytes) : tstate :=
    let s := t0 d in
    if negb (valid_name u) then s
    else
      let s1 := p_remove f (LFile (u ++ ext_admin)) s in
      let s2 := p_remove f (LFile (u ++ ext_user)) s1 in
      let (e3, s3) := tick f KOpen s2 in
      match e3 with
      | Some _ => s3
      | None =>
          let (e4, s4) := tick f KFsync s3 in
          match e4 with
          | Some _ => s4
          | None => emit (EFsync LBaseDir) s4
          end
      end.

  Definition events (s : tstate) : list event := rev (t_ev s).
End WithKdf.
