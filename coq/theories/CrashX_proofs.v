(* CrashX_proofs.v — crash safety of FAILING operations: the write discipline
   together with the clean-up a failing add / update performs (Crash.v,
   proto_step_x).  The theorems of Crash_proofs.v for protocol_prefix_ok are
   re-proved for protocol_prefix_x_ok, and the model's own programs, run with
   an arbitrary single fault, are shown to follow the extended discipline. *)
From Whawty Require Import Bytes Bytes_proofs Base64 Names Record Store StoreTrace Crash Crash_proofs.
From Whawty Require Import StoreOps_proofs StoreTrace_proofs.
From Coq Require Import ZifyN ZifyNat ZifyBool.
Open Scope N_scope.

(* ---------------- the extended automaton ---------------- *)
Lemma proto_run_x_app f reserve l1 : forall x l2,
  proto_run_x f reserve x (l1 ++ l2) =
  match proto_run_x f reserve x l1 with Some x' => proto_run_x f reserve x' l2 | None => None end.
Proof.
  induction l1 as [|e l1 IH]; intros x l2; [reflexivity|].
  cbn [app proto_run_x]. destruct (proto_step_x f reserve x e); [apply IH|reflexivity].
Qed.

Lemma proto_run_x_snoc f reserve x l e :
  proto_run_x f reserve x (l ++ [e]) =
  match proto_run_x f reserve x l with Some x' => proto_step_x f reserve x' e | None => None end.
Proof.
  rewrite proto_run_x_app. destruct (proto_run_x f reserve x l) as [x'|]; [|reflexivity].
  cbn [proto_run_x]. now destruct (proto_step_x f reserve x' e).
Qed.

Lemma proto_run_x_of_run f reserve evs : forall st st',
  proto_run f reserve st evs = Some st' ->
  proto_run_x f reserve (XRun st) evs = Some (XRun st').
Proof.
  induction evs as [|e evs IH]; intros st st' Hrun.
  - cbn in Hrun. injection Hrun as <-. reflexivity.
  - cbn [proto_run] in Hrun. cbn [proto_run_x proto_step_x].
    destruct (proto_step f reserve st e) as [st1|]; [|discriminate].
    now apply IH.
Qed.

Lemma protocol_prefix_x_of_prefix f reserve evs :
  protocol_prefix_ok f reserve evs = true -> protocol_prefix_x_ok f reserve evs = true.
Proof.
  unfold protocol_prefix_ok, protocol_prefix_x_ok. intros Hok.
  destruct (proto_run f reserve (PStart false) evs) as [st|] eqn:Hrun; [|discriminate].
  now rewrite (proto_run_x_of_run _ _ _ _ _ Hrun).
Qed.

Lemma protocol_prefix_x_closed f reserve l1 l2 :
  protocol_prefix_x_ok f reserve (l1 ++ l2) = true -> protocol_prefix_x_ok f reserve l1 = true.
Proof.
  unfold protocol_prefix_x_ok. rewrite proto_run_x_app.
  now destruct (proto_run_x f reserve (XRun (PStart false)) l1).
Qed.

(* ---------------- the summary, extended through the clean-up ---------------- *)
(* as [summary], but the pending entry changes of the base directory may also
   contain the withdrawal of the final name (add only) *)
Definition summary_x (f : bytes) (reserve : bool) (d0 : disk) (evs : list event) (d : disk) : Prop :=
  (forall j, (j < next_ino d0)%nat -> ilookup j (inodes d) = ilookup j (inodes d0)) /\
  (exists kv, (forall g, elookup g (base_vol d) = basev f d0 kv g) /\ good f reserve d0 evs d kv) /\
  (base_dur d = base_dur d0 \/ (base_dur d = base_vol d /\ base_pend d = [])) /\
  (forall o, In o (base_pend d) ->
     (exists i, o = DLink f i /\ good f reserve d0 evs d (Some i)) \/ (o = DUnlink f /\ reserve = true)).

Lemma summary_x_of_summary f reserve d0 evs d :
  summary f reserve d0 evs d -> summary_x f reserve d0 evs d.
Proof.
  intros (Hold & Hkv & Hdur & Hpend). repeat apply conj; auto.
Qed.

(* clean-up in progress: nothing of the base directory has been made durable *)
Definition aborting (f : bytes) (reserve : bool) (d0 : disk) (evs : list event) (d : disk) : Prop :=
  summary_x f reserve d0 evs d /\ base_dur d = base_dur d0.

Lemma good_mono f reserve d0 evs d e d' k :
  inodes d' = inodes d -> tmp_data [e] = [] ->
  good f reserve d0 evs d k -> good f reserve d0 (evs ++ [e]) d' k.
Proof.
  intros Hi He [->|[(-> & Hres & Hi0)|(-> & (n & Hn & Hv & Hd) & (t & Hren))]].
  - now left.
  - right; left. rewrite Hi. auto.
  - right; right. repeat apply conj; auto.
    + exists n. rewrite Hi. repeat apply conj; auto.
      rewrite tmp_data_app, He, app_nil_r. exact Hv.
    + exists t. apply in_or_app. now left.
Qed.

Lemma abort_unlink_tmp f reserve d0 t evs d :
  aborting f reserve d0 evs d ->
  aborting f reserve d0 (evs ++ [EUnlink (LTmpFile t)]) (exec_event d (EUnlink (LTmpFile t))).
Proof.
  intros ((Hold & (kv & Hkv & Hg) & Hdur & Hpend) & Hbd).
  unfold aborting, summary_x, exec_event, with_tmp. fields.
  repeat apply conj; auto.
  - exists kv. split; [exact Hkv|]. eapply good_mono; eauto.
  - intros o Ho. destruct (Hpend o Ho) as [(i & -> & Hgi)|H]; [left|now right].
    exists i. split; [reflexivity|]. eapply good_mono; eauto.
Qed.

Lemma abort_unlink_file f d0 evs d :
  elookup f (base_vol d0) = None ->
  aborting f true d0 evs d ->
  aborting f true d0 (evs ++ [EUnlink (LFile f)]) (exec_event d (EUnlink (LFile f))).
Proof.
  intros Hpre ((Hold & (kv & Hkv & Hg) & Hdur & Hpend) & Hbd).
  unfold aborting, summary_x, exec_event, with_base. fields.
  repeat apply conj; auto.
  - exists None. split; [|now left].
    intros g. rewrite elookup_eremove, Hkv. cbn [basev].
    destruct (beq g f) eqn:E.
    + apply beq_eq in E. subst g. now rewrite Hpre.
    + unfold basev. destruct kv; [now rewrite E|reflexivity].
  - intros o Ho. apply in_app_or in Ho. destruct Ho as [Ho|[<-|[]]]; [|now right].
    destruct (Hpend o Ho) as [(i & -> & Hgi)|H]; [left|now right].
    exists i. split; [reflexivity|]. eapply good_mono; eauto.
Qed.

(* before the final fsync the durable base directory is still the old one *)
Lemma PInv_not_done_dur f reserve d0 st evs d :
  PInv f reserve d0 st evs d ->
  (forall t, st <> PDone t) -> base_dur d = base_dur d0.
Proof.
  intros Hinv Hnd. destruct st as [r|t|t|t|t]; cbn [PInv] in Hinv.
  - now destruct Hinv as (_ & _ & _ & _ & Hbd & _).
  - now destruct Hinv as (_ & _ & _ & Hbd & _).
  - now destruct Hinv as (_ & _ & _ & Hbd & _).
  - now destruct Hinv as (_ & _ & _ & (Hbd & _) & _).
  - exfalso. exact (Hnd t eq_refl).
Qed.

Lemma PInv_aborting f reserve d0 st evs d :
  PInv f reserve d0 st evs d -> (forall t, st <> PDone t) -> aborting f reserve d0 evs d.
Proof.
  intros Hinv Hnd. split.
  - apply summary_x_of_summary. eapply PInv_summary; eauto.
  - eapply PInv_not_done_dur; eauto.
Qed.

Definition XInv (f : bytes) (reserve : bool) (d0 : disk) (x : xstate) (evs : list event) (d : disk) : Prop :=
  match x with
  | XRun st => PInv f reserve d0 st evs d
  | XAbort r => aborting f reserve d0 evs d /\ (r = true -> reserve = true)
  end.

Lemma XInv_step f reserve d0 x x' e evs d :
  target_pre f reserve d0 ->
  XInv f reserve d0 x evs d ->
  proto_step_x f reserve x e = Some x' ->
  XInv f reserve d0 x' (evs ++ [e]) (exec_event d e).
Proof.
  intros Hpre Hinv Hstep. destruct x as [st|r]; cbn [XInv proto_step_x] in *.
  - destruct (proto_step f reserve st e) as [st'|] eqn:Hps.
    + injection Hstep as <-. cbn [XInv]. eapply PInv_step; eauto.
    + clear Hps.
      destruct st as [r|t|t|t|t]; try discriminate Hstep.
      * (* PStart true, EUnlink f *)
        destruct r; [|discriminate Hstep].
        destruct e as [l|l|l data|l|s dd|[g|t'| |]]; try discriminate Hstep.
        cbn [abort_step] in Hstep. destruct (beq g f) eqn:E; [|discriminate Hstep].
        apply beq_eq in E. subst g. injection Hstep as <-. cbn [XInv].
        assert (Hres : reserve = true).
        { cbn [PInv] in Hinv. destruct Hinv as (Hr & _). now apply Hr. }
        subst reserve. split; [|discriminate].
        apply abort_unlink_file; [exact Hpre|].
        eapply PInv_aborting; eauto. discriminate.
      * (* PTmp, EUnlink tmp *)
        destruct e as [l|l|l data|l|s dd|[g|t'| |]]; try discriminate Hstep.
        cbn [abort_step] in Hstep. destruct (beq t t'); [|discriminate Hstep].
        injection Hstep as <-. cbn [XInv]. split; [|auto].
        apply abort_unlink_tmp. eapply PInv_aborting; eauto. discriminate.
      * (* PSynced, EUnlink tmp *)
        destruct e as [l|l|l data|l|s dd|[g|t'| |]]; try discriminate Hstep.
        cbn [abort_step] in Hstep. destruct (beq t t'); [|discriminate Hstep].
        injection Hstep as <-. cbn [XInv]. split; [|auto].
        apply abort_unlink_tmp. eapply PInv_aborting; eauto. discriminate.
      * (* PRenamed, EUnlink f (add) *)
        destruct e as [l|l|l data|l|s dd|[g|t'| |]]; try discriminate Hstep.
        cbn [abort_step] in Hstep.
        destruct reserve eqn:Hres; cbn [andb] in Hstep; [|discriminate Hstep].
        destruct (beq g f) eqn:E; [|discriminate Hstep].
        apply beq_eq in E. subst g. injection Hstep as <-. cbn [XInv].
        split; [|discriminate].
        apply abort_unlink_file; [exact Hpre|].
        eapply PInv_aborting; eauto. discriminate.
  - destruct Hinv as (Hab & Hr). destruct r; [|discriminate Hstep].
    destruct e as [l|l|l data|l|s dd|[g|t'| |]]; try discriminate Hstep.
    destruct (beq g f) eqn:E; [|discriminate Hstep].
    apply beq_eq in E. subst g. injection Hstep as <-. cbn [XInv].
    specialize (Hr eq_refl). subst reserve. split; [|discriminate].
    apply abort_unlink_file; [exact Hpre|exact Hab].
Qed.

Lemma proto_x_inv f reserve d0 :
  base_quiescent d0 -> target_pre f reserve d0 ->
  forall evs x, proto_run_x f reserve (XRun (PStart false)) evs = Some x ->
                XInv f reserve d0 x evs (exec_events d0 evs).
Proof.
  intros Hq Hpre evs. induction evs as [|e evs IH] using rev_ind; intros x Hrun.
  - cbn in Hrun. injection Hrun as <-. cbn [XInv]. now apply PInv_init.
  - rewrite proto_run_x_snoc in Hrun.
    destruct (proto_run_x f reserve (XRun (PStart false)) evs) as [x0|] eqn:E0; [|discriminate].
    rewrite exec_events_app. cbn [exec_events fold_left].
    eapply XInv_step; eauto.
Qed.

Lemma XInv_summary f reserve d0 x evs d :
  XInv f reserve d0 x evs d -> summary_x f reserve d0 evs d.
Proof.
  destruct x as [st|r]; cbn [XInv].
  - intros Hinv. apply summary_x_of_summary. eapply PInv_summary; eauto.
  - now intros ((Hs & _) & _).
Qed.

(* ---------------- crash states of the extended summary ---------------- *)
Definition fold_res (f : bytes) (e : entries) (k : option (option ino)) (g : bytes) : option ino :=
  match k with
  | Some v => if beq g f then v else elookup g e
  | None => elookup g e
  end.

Lemma fold_links_x f e kept :
  (forall o, In o kept -> (exists i, o = DLink f i) \/ o = DUnlink f) ->
  exists k,
    (forall g, elookup g (fold_left (fun e o => apply_dirop o e) kept e) = fold_res f e k g) /\
    (k = None \/ (exists i, k = Some (Some i) /\ In (DLink f i) kept) \/
     (k = Some None /\ In (DUnlink f) kept)).
Proof.
  induction kept as [|o kept IH] using rev_ind; intros Hall.
  - exists None. split; [reflexivity|now left].
  - destruct IH as (k & Hk & _).
    { intros o' Ho'. apply Hall. apply in_or_app. now left. }
    destruct (Hall o) as [(i & ->)| ->]. { apply in_or_app. right. now left. }
    + exists (Some (Some i)). split.
      * intros g. rewrite fold_left_app. cbn [fold_left apply_dirop fold_res].
        rewrite elookup_eset, Hk. destruct (beq g f) eqn:E; [reflexivity|].
        unfold fold_res. destruct k; [now rewrite E|reflexivity].
      * right; left. exists i. split; [reflexivity|]. apply in_or_app. right. now left.
    + exists (Some None). split.
      * intros g. rewrite fold_left_app. cbn [fold_left apply_dirop fold_res].
        rewrite elookup_eremove, Hk. destruct (beq g f) eqn:E; [reflexivity|].
        unfold fold_res. destruct k; [now rewrite E|reflexivity].
      * right; right. split; [reflexivity|]. apply in_or_app. right. now left.
Qed.

Lemma crash_view_x f reserve d0 evs d c :
  base_quiescent d0 -> target_pre f reserve d0 -> summary_x f reserve d0 evs d -> crash_of d c ->
  exists k, (forall g, elookup g (c_base c) = basev f d0 k g) /\ good f reserve d0 evs d k.
Proof.
  intros Hq Hpre (Hold & (kv & Hkv & Hgkv) & Hdur & Hpend) ((kept & Hs & Hb) & _).
  destruct Hdur as [Hdur|(Hdur & Hp)].
  - destruct (fold_links_x f (base_dur d) kept) as (k & Hk & Hkk).
    { intros o Ho. destruct (Hpend o) as [(i & Hi & _)|(Hi & _)]; eauto using subseq_In. }
    assert (Hbd0 : base_dur d0 = base_vol d0) by now destruct Hq as (_ & H & _).
    destruct Hkk as [->|[(i & -> & Hin)|(-> & Hin)]].
    + exists None. split; [|now left].
      intros g. rewrite Hb, Hk, Hdur, Hbd0. reflexivity.
    + exists (Some i). split.
      * intros g. rewrite Hb, Hk, Hdur, Hbd0. reflexivity.
      * destruct (Hpend (DLink f i)) as [(i' & Hi' & Hg)|(Hi' & _)]; eauto using subseq_In.
        -- injection Hi' as <-. exact Hg.
        -- discriminate Hi'.
    + exists None. split; [|now left].
      destruct (Hpend (DUnlink f)) as [(i' & Hi' & _)|(_ & Hres)]; eauto using subseq_In.
      { discriminate Hi'. }
      subst reserve. unfold target_pre in Hpre.
      intros g. rewrite Hb, Hk, Hdur, Hbd0. cbn [fold_res basev].
      destruct (beq g f) eqn:E; [|reflexivity].
      apply beq_eq in E. subst g. now rewrite Hpre.
  - rewrite Hp in Hs. apply subseq_nil_r in Hs. subst kept. cbn [fold_left] in Hb.
    exists kv. split; auto. intros g. now rewrite Hb, Hdur.
Qed.

(* ---------------- C08 for failing operations ---------------- *)
Theorem crash_safe_prefix_x f reserve d0 evs c :
  base_quiescent d0 -> target_pre f reserve d0 -> tmp_fresh evs d0 ->
  protocol_prefix_x_ok f reserve evs = true ->
  crash_of (exec_events d0 evs) c ->
  ( (reserve = true /\ crashed_file c f = None)
    \/ (reserve = true /\ crashed_file c f = Some [])
    \/ (reserve = false /\ crashed_file c f = vol_file d0 f)
    \/ ((exists t, In (ERename (LTmpFile t) (LFile f)) evs) /\ crashed_file c f = Some (tmp_data evs)) )
  /\ (forall g, g <> f -> crashed_file c g = vol_file d0 g).
Proof.
  intros Hq Hpre _ Hok Hc. unfold protocol_prefix_x_ok in Hok.
  destruct (proto_run_x f reserve (XRun (PStart false)) evs) as [x|] eqn:Hrun; [|discriminate].
  pose proof (XInv_summary _ _ _ _ _ _ (proto_x_inv f reserve d0 Hq Hpre evs x Hrun)) as Hsum.
  destruct (crash_view_x _ _ _ _ _ _ Hq Hpre Hsum Hc) as (k & Hk & Hg).
  destruct Hsum as (Hold & _).
  split.
  - destruct Hg as [->|[(-> & Hres & Hi0)|(-> & (n & Hn & Hv & Hd) & Hren)]].
    + destruct reserve eqn:Hres; unfold target_pre in Hpre.
      * left. split; [reflexivity|]. unfold crashed_file. rewrite Hk. cbn [basev]. now rewrite Hpre.
      * right; right; left. split; [reflexivity|].
        eapply old_file_crash; eauto.
    + right; left. split; [exact Hres|]. unfold crashed_file. rewrite Hk. cbn [basev].
      rewrite beq_refl. f_equal. eapply crash_content; eauto.
    + right; right; right. split; [exact Hren|]. unfold crashed_file. rewrite Hk. cbn [basev].
      rewrite beq_refl. f_equal. rewrite <- Hv. eapply crash_content; eauto.
  - intros g Hgf. eapply old_file_crash; eauto. rewrite Hk. now apply basev_other.
Qed.

Theorem kill_safe_prefix_x f reserve d0 evs :
  base_quiescent d0 -> target_pre f reserve d0 -> tmp_fresh evs d0 ->
  protocol_prefix_x_ok f reserve evs = true ->
  ( (reserve = true /\ vol_file (exec_events d0 evs) f = None)
    \/ (reserve = true /\ vol_file (exec_events d0 evs) f = Some [])
    \/ (reserve = false /\ vol_file (exec_events d0 evs) f = vol_file d0 f)
    \/ ((exists t, In (ERename (LTmpFile t) (LFile f)) evs) /\ vol_file (exec_events d0 evs) f = Some (tmp_data evs)) )
  /\ (forall g, g <> f -> vol_file (exec_events d0 evs) g = vol_file d0 g).
Proof.
  intros Hq Hpre _ Hok. unfold protocol_prefix_x_ok in Hok.
  destruct (proto_run_x f reserve (XRun (PStart false)) evs) as [x|] eqn:Hrun; [|discriminate].
  pose proof (XInv_summary _ _ _ _ _ _ (proto_x_inv f reserve d0 Hq Hpre evs x Hrun)) as Hsum.
  destruct Hsum as (Hold & (k & Hk & Hg) & _).
  split.
  - destruct Hg as [->|[(-> & Hres & Hi0)|(-> & (n & Hn & Hv & Hd) & Hren)]].
    + destruct reserve eqn:Hres; unfold target_pre in Hpre.
      * left. split; [reflexivity|]. unfold vol_file. rewrite Hk. cbn [basev]. now rewrite Hpre.
      * right; right; left. split; [reflexivity|].
        eapply old_file_vol; eauto.
    + right; left. split; [exact Hres|]. unfold vol_file. rewrite Hk. cbn [basev].
      rewrite beq_refl, Hi0. reflexivity.
    + right; right; right. split; [exact Hren|]. unfold vol_file. rewrite Hk. cbn [basev].
      rewrite beq_refl, Hn. now rewrite Hv.
  - intros g Hgf. eapply old_file_vol; eauto. rewrite Hk. now apply basev_other.
Qed.

(* ---------------- the model's failing programs follow the extended discipline ---------------- *)
(* [acc x s]: the events emitted so far are accepted and lead to state x *)
Definition acc (fname : bytes) (rv : bool) (x : xstate) (s : tstate) : Prop :=
  proto_run_x fname rv (XRun (PStart false)) (rev (t_ev s)) = Some x.

Lemma acc_ok fname rv x s : acc fname rv x s -> protocol_prefix_x_ok fname rv (events s) = true.
Proof. unfold acc, protocol_prefix_x_ok, events. now intros ->. Qed.

Lemma acc_same fname rv x s s' : t_ev s' = t_ev s -> acc fname rv x s -> acc fname rv x s'.
Proof. unfold acc. now intros ->. Qed.

Lemma acc_cons fname rv x x' e s s' :
  t_ev s' = e :: t_ev s -> acc fname rv x s -> proto_step_x fname rv x e = Some x' ->
  acc fname rv x' s'.
Proof.
  unfold acc. intros -> Hacc Hstep. cbn [rev]. now rewrite proto_run_x_snoc, Hacc.
Qed.

Lemma acc_bump fname rv x k s : acc fname rv x s -> acc fname rv x (bump k s).
Proof. now apply acc_same. Qed.

Lemma acc_setdir fname rv x d s : acc fname rv x s -> acc fname rv x (setdir d s).
Proof. now apply acc_same. Qed.

Lemma acc_wput fname rv t data s :
  acc fname rv (XRun (PTmp t)) s -> acc fname rv (XRun (PTmp t)) (wput t data s).
Proof.
  intros H. eapply acc_cons; [reflexivity|exact H|].
  cbn [proto_step_x proto_step]. now rewrite beq_refl.
Qed.

Lemma acc_fsync fname rv t s :
  acc fname rv (XRun (PTmp t)) s -> acc fname rv (XRun (PSynced t)) (emit (EFsync (LTmpFile t)) s).
Proof.
  intros H. eapply acc_cons; [reflexivity|exact H|].
  cbn [proto_step_x proto_step]. now rewrite beq_refl.
Qed.

Lemma acc_rename fname rv t s :
  acc fname rv (XRun (PSynced t)) s ->
  acc fname rv (XRun (PRenamed t)) (emit (ERename (LTmpFile t) (LFile fname)) s).
Proof.
  intros H. eapply acc_cons; [reflexivity|exact H|].
  cbn [proto_step_x proto_step]. now rewrite !beq_refl.
Qed.

Lemma acc_fsbase fname rv t s :
  acc fname rv (XRun (PRenamed t)) s -> acc fname rv (XRun (PDone t)) (emit (EFsync LBaseDir) s).
Proof.
  intros H. eapply acc_cons; [reflexivity|exact H|]. reflexivity.
Qed.

Ltac acc_solve Hacc :=
  repeat lazymatch goal with
         | |- acc _ _ _ (bump _ _) => apply acc_bump
         | |- acc _ _ _ (wput _ _ _) => apply acc_wput
         | |- acc _ _ _ (emit (EFsync (LTmpFile _)) _) => apply acc_fsync
         | |- acc _ _ _ (emit (EFsync LBaseDir) _) => apply acc_fsbase
         | |- acc _ _ _ (emit (ERename _ _) _) => apply acc_rename
         | |- acc _ _ _ (setdir _ _) => apply acc_setdir
         | |- acc _ _ _ _ => exact Hacc
         end.

(* the temp file is there *)
Definition has_tmp (t : bytes) (d : dirst) : Prop :=
  exists K x, tmp_children d = Some K /\ alookup t K = Some x.

Lemma has_tmp_put t data d : has_tmp t (put_d t data d).
Proof.
  unfold has_tmp, put_d. do 2 eexists. split; [apply tmp_children_dset_tmp|apply alookup_aset_eq].
Qed.

Lemma has_tmp_create t s : has_tmp t (t_dir (wh_create t s)).
Proof.
  unfold has_tmp, wh_create. cbn [t_dir emit setdir].
  do 2 eexists. split; [apply tmp_children_dset_tmp|apply alookup_aset_eq].
Qed.

(* os.Remove of the temp file: with no failing call it goes *)
Lemma p_remove_tmp_emits f t s :
  quiet f (t_cnt s) -> has_tmp t (t_dir s) ->
  t_ev (p_remove f (LTmpFile t) s) = EUnlink (LTmpFile t) :: t_ev s.
Proof.
  intros Q (K & x & HK & Hx). unfold p_remove. rewrite tick_eq. cbv beta iota zeta.
  rewrite tick_eq. cbv beta iota.
  rewrite (terr_quiet f KUnlink s Q). cbn [t_dir bump]. rewrite HK, Hx. reflexivity.
Qed.

(* ... and when it is not there nothing is recorded, fault or not *)
Lemma p_remove_tmp_absent_ev f t s :
  (forall kids, tmp_children (t_dir s) = Some kids -> alookup t kids = None) ->
  t_ev (p_remove f (LTmpFile t) s) = t_ev s.
Proof.
  intros H. unfold p_remove. rewrite tick_eq. cbv beta iota zeta. rewrite tick_eq. cbv beta iota.
  cbn [t_dir bump].
  destruct (tmp_children (t_dir s)) as [kids|].
  - rewrite (H kids eq_refl).
    destruct (terr f KUnlink s); destruct (terr f KUnlink (bump KUnlink s)); reflexivity.
  - destruct (terr f KUnlink s); destruct (terr f KUnlink (bump KUnlink s)); reflexivity.
Qed.

(* the failure exits *)
Lemma wfail_acc ft fname rv sx r s' x :
  wfail ft fname rv sx = (r, s') ->
  acc fname rv x sx ->
  (rv = true -> exists x', proto_step_x fname rv x (EUnlink (LFile fname)) = Some x') ->
  exists x', acc fname rv x' s'.
Proof.
  unfold wfail. intros H Hacc Hst. destruct rv; injection H as _ <-; [|eauto].
  destruct (Hst eq_refl) as (x' & Hx').
  destruct (p_remove_ev ft (LFile fname) sx) as [E|E].
  - exists x. eapply acc_same; eauto.
  - exists x'. eapply acc_cons; eauto.
Qed.

Lemma wfail_tmp_acc_pre ft fname rv t st sx r s' :
  wfail_tmp ft fname rv t sx = (r, s') ->
  acc fname rv (XRun st) sx ->
  (st = PTmp t \/ st = PSynced t) ->
  (rv = true -> quiet ft (t_cnt sx) /\ has_tmp t (t_dir sx)) ->
  exists x, acc fname rv x s'.
Proof.
  unfold wfail_tmp. intros H Hacc Hst Hq.
  assert (Hstep : proto_step_x fname rv (XRun st) (EUnlink (LTmpFile t)) = Some (XAbort rv)).
  { destruct Hst as [-> | ->]; cbn [proto_step_x proto_step abort_step]; now rewrite beq_refl. }
  destruct rv.
  - destruct (Hq eq_refl) as (Q & Ht).
    pose proof (p_remove_tmp_emits ft t sx Q Ht) as Hev.
    eapply wfail_acc; [exact H| |].
    + eapply acc_cons; [exact Hev|exact Hacc|exact Hstep].
    + intros _. eexists. cbn [proto_step_x]. now rewrite beq_refl.
  - unfold wfail in H. injection H as _ <-.
    destruct (p_remove_ev ft (LTmpFile t) sx) as [E|E].
    + eexists. eapply acc_same; eauto.
    + eexists. eapply acc_cons; eauto.
Qed.

Lemma wfail_tmp_acc_post ft fname rv t sx r s' :
  wfail_tmp ft fname rv t sx = (r, s') ->
  acc fname rv (XRun (PRenamed t)) sx ->
  (forall kids, tmp_children (t_dir sx) = Some kids -> alookup t kids = None) ->
  exists x, acc fname rv x s'.
Proof.
  unfold wfail_tmp. intros H Hacc Habs.
  eapply wfail_acc; [exact H| |].
  - eapply acc_same; [|exact Hacc]. now apply p_remove_tmp_absent_ev.
  - intros ->. eexists. cbn [proto_step_x proto_step abort_step andb]. now rewrite beq_refl.
Qed.

Lemma done_acc ft fname rv t sx :
  acc fname rv (XRun (PDone t)) sx -> exists x, acc fname rv x (p_remove ft (LTmpFile t) sx).
Proof.
  intros Hacc. destruct (p_remove_ev ft (LTmpFile t) sx) as [E|E].
  - eexists. eapply acc_same; eauto.
  - eexists. eapply acc_cons; [exact E|exact Hacc|].
    cbn [proto_step_x proto_step]. now rewrite beq_refl.
Qed.

Lemma wh_tail_x ft c h hs fname rv o old s3 r s' :
  fname <> tmp_name ->
  acc fname rv (XRun (PTmp (o_tmp o))) s3 ->
  has_tmp (o_tmp o) (t_dir s3) ->
  (rv = true -> old <> None) ->
  wh_tail ft c h hs fname rv o old s3 = (r, s') ->
  exists x, acc fname rv x s'.
Proof.
  intros Hn Hacc Htmp Hold H. unfold wh_tail in H. cbv zeta in H.
  destruct old as [oldc|]; [destruct (after_first_line oldc) as [|b rest']|].
  all: repeat match type of H with
         | context [match terr ?f ?k ?s with _ => _ end] =>
             let E := fresh "E" in let e := fresh "e" in destruct (terr f k s) as [e|] eqn:E
         end.
  all: repeat match type of H with
         | context [match ?e with EIO => _ | _ => _ end] => destruct e
         end.
  all: cbv iota in H.
  all: first
    [ solve [ eapply wfail_tmp_acc_pre;
              [ exact H
              | acc_solve Hacc
              | first [left; reflexivity | right; reflexivity]
              | intros Hrv;
                first [ exfalso; exact (Hold Hrv eq_refl)
                      | split;
                        [ quiet_from_terr
                        | cbn [t_dir bump emit setdir wput];
                          first [apply has_tmp_put | exact Htmp] ] ] ] ]
    | solve [ eapply wfail_tmp_acc_post;
              [ exact H
              | acc_solve Hacc
              | cbn [t_dir bump emit setdir wput]; intros kids; apply ren_d_absent; exact Hn ] ]
    | solve [ injection H as _ <-; apply done_acc; acc_solve Hacc ] ].
Qed.

Lemma p_write_hash_x ft c h hs fname rv o s r s' :
  fname <> tmp_name -> t_ev s = [] ->
  p_write_hash ft c h hs fname rv o s = (r, s') ->
  exists x, acc fname rv x s'.
Proof.
  intros Hn Hev. rewrite p_write_hash_eq. unfold wh_open.
  assert (Hacc0 : acc fname rv (XRun (PStart false)) s).
  { unfold acc. now rewrite Hev. }
  destruct (terr ft KOpen s) as [e0|].
  { intros H. injection H as _ <-. eexists. apply acc_bump. exact Hacc0. }
  assert (G : forall s1 old,
    acc fname rv (XRun (PStart rv)) s1 -> (rv = true -> old <> None) ->
    (let (okdir, s2) := p_mkdir_tmp ft s1 in
      if negb okdir then wfail ft fname rv s2
      else match terr ft KOpen s2 with
           | Some _ => wfail ft fname rv (bump KOpen s2)
           | None => wh_tail ft c h hs fname rv o old (wh_create (o_tmp o) (bump KOpen s2))
           end) = (r, s') ->
    exists x, acc fname rv x s').
  { intros s1 old Hacc1 Hold.
    destruct (p_mkdir_tmp ft s1) as [b s2] eqn:Em.
    apply p_mkdir_tmp_spec in Em as (Hd & _ & _).
    assert (Hacc2 : acc fname rv (XRun (PStart rv)) s2).
    { destruct Hd as [(_ & Hev2)|(_ & _ & Hev2 & _)].
      - eapply acc_same; eauto.
      - eapply acc_cons; [exact Hev2|exact Hacc1|]. destruct rv; reflexivity. }
    assert (Hst : rv = true ->
              exists x', proto_step_x fname rv (XRun (PStart rv)) (EUnlink (LFile fname)) = Some x').
    { intros ->. eexists. cbn [proto_step_x proto_step abort_step]. now rewrite beq_refl. }
    destruct b; cbn [negb].
    - destruct (terr ft KOpen s2) as [e3|].
      + intros H. eapply wfail_acc; [exact H| |exact Hst]. now apply acc_bump.
      + intros H. eapply wh_tail_x; [exact Hn| | |exact Hold|exact H].
        * unfold wh_create. eapply acc_cons; [reflexivity| |].
          -- apply acc_setdir, acc_bump. exact Hacc2.
          -- cbn [proto_step_x proto_step]. rewrite Bool.eqb_reflx.
             destruct rv; reflexivity.
        * apply has_tmp_create.
    - intros H. eapply wfail_acc; [exact H|exact Hacc2|exact Hst]. }
  destruct (dlookup fname (t_dir s)) as [[x|k]|]; destruct rv;
    try (intros H; injection H as _ <-; eexists; apply acc_bump; exact Hacc0).
  - apply G; [now apply acc_bump|discriminate].
  - apply G; [now apply acc_bump|discriminate].
  - apply G; [|discriminate].
    eapply acc_cons; [reflexivity| |].
    + apply acc_setdir, acc_bump. exact Hacc0.
    + cbn [proto_step_x proto_step andb]. now rewrite beq_refl.
Qed.

Section ProgramsX.
  Variable kdf : hasher -> bytes -> bytes -> option bytes.

  (* whatever the single fault (or none) and whatever the result *)
  Theorem add_follows_protocol_x ft c d u pw adm o r s :
    p_add kdf ft c d u pw adm o = (r, s) ->
    protocol_prefix_x_ok (u ++ ext_of adm) true (events s) = true.
  Proof.
    unfold p_add.
    destruct (valid_name u) eqn:Hv; cbn [negb]; [|intros H; injection H as _ <-; reflexivity].
    destruct (p_exists ft u (t0 d)) as [ex s1] eqn:Ex.
    apply p_exists_spec in Ex as (_ & Hev & _). cbn [t_ev t0] in Hev.
    assert (H1 : forall r s, (RErr, s1) = (r, s) ->
                   protocol_prefix_x_ok (u ++ ext_of adm) true (events s) = true).
    { intros r0 s0 H. injection H as _ <-. unfold events. now rewrite Hev. }
    destruct ex; try exact (H1 r s).
    destruct (cfg_hasher c (default c)) as [h|]; [|exact (H1 r s)].
    destruct (hash_generate kdf h (o_salt o) pw) as [hs|]; [|exact (H1 r s)].
    intros H. apply p_write_hash_x in H as (x & Hx); [|now apply valid_not_tmp|exact Hev].
    eapply acc_ok; eauto.
  Qed.

  Theorem failed_add_follows_protocol_x ft c d u pw adm o s :
    p_add kdf ft c d u pw adm o = (RErr, s) ->
    protocol_prefix_x_ok (u ++ ext_of adm) true (events s) = true.
  Proof. apply add_follows_protocol_x. Qed.

  Theorem update_follows_protocol_x ft c d u pw o r s adm :
    p_update kdf ft c d u pw o = (r, s) -> user_exists d u = ExYes adm ->
    protocol_prefix_x_ok (u ++ ext_of adm) false (events s) = true.
  Proof.
    unfold p_update. intros H Hex. revert H.
    destruct (valid_name u) eqn:Hv; cbn [negb]; [|intros H; injection H as _ <-; reflexivity].
    destruct (p_exists ft u (t0 d)) as [ex s1] eqn:Ex.
    apply p_exists_spec in Ex as (_ & Hev & Hr & _). cbn [t_ev t_dir t0] in Hev, Hr.
    assert (H1 : forall sx r s, t_ev sx = [] -> (RErr, sx) = (r, s) ->
                   protocol_prefix_x_ok (u ++ ext_of adm) false (events s) = true).
    { intros sx r0 s0 Hx H. injection H as _ <-. unfold events. now rewrite Hx. }
    rewrite Hex in Hr.
    destruct Hr as [-> | ->]; [|exact (H1 s1 r s Hev)].
    repeat (rewrite tick_eq; cbv beta iota).
    destruct (terr ft KOpen s1) as [e2|]; [apply H1; exact Hev|].
    destruct (terr ft KRead (bump KOpen s1)) as [e3|]; [apply H1; exact Hev|].
    destruct (read_file _ _) as [content|]; [|apply H1; exact Hev].
    destruct (is_supported c content); [|apply H1; exact Hev].
    destruct (cfg_hasher c (default c)) as [h|]; [|apply H1; exact Hev].
    destruct (hash_generate kdf h (o_salt o) pw) as [hs|]; [|apply H1; exact Hev].
    intros H. apply p_write_hash_x in H as (x & Hx); [|now apply valid_not_tmp|exact Hev].
    eapply acc_ok; eauto.
  Qed.

  Theorem failed_update_follows_protocol_x ft c d u pw o s adm :
    p_update kdf ft c d u pw o = (RErr, s) -> user_exists d u = ExYes adm ->
    protocol_prefix_x_ok (u ++ ext_of adm) false (events s) = true.
  Proof. apply update_follows_protocol_x. Qed.
End ProgramsX.
