(* StateInst.v — the state the models know about, against the state the code declares.

   Every model in this development describes an object by a fixed set of state components and keeps
   NO other state between operations: the store is a function of (directory, configured parameter
   sets); the agent of (configuration / directory, policy, hooks caller, request queues); a session
   factory of (AEAD key, lifetime); the hooks caller of (queues, directories, rate limit, pending
   counter); the saslauthd server of (socket, callback, listener); a codec value of its fields.
   tools/facts lists, on every run, the package-level variables of the three Go packages and the
   fields of these structs (the definitions Extracted.state_...).  The lemmas below pin them to what the models were
   written against: a cache, a pool, a counter, a remembered pointer or a new field added anywhere
   makes this file - and with it every Properties file that imports it - fail to check.  Such a
   failure says "the model's state space no longer matches the code's", not "the property is
   violated": the check then looks for a failing input and reports no-failing-input-found when
   it finds none. *)
From Coq Require Import String.
From Whawty Require Import Extracted.
Open Scope string_scope.

Lemma state_store_package_vars_known : Extracted.state_store_package_vars = "errNoSupportedHash = errors.New(...); userNameRe = regexp.MustCompile(...); wl = log.New(...)".
Proof. reflexivity. Qed.

Lemma state_store_Dir_known : Extracted.state_store_Dir = "BaseDir string; Default uint; Params map[uint]Hasher".
Proof. reflexivity. Qed.

Lemma state_store_UserHash_known : Extracted.state_store_UserHash = "store *Dir; user string".
Proof. reflexivity. Qed.

Lemma state_store_Argon2IDHasher_known : Extracted.state_store_Argon2IDHasher = "(embedded) Argon2IDParams".
Proof. reflexivity. Qed.

Lemma state_store_ScryptAuthHasher_known : Extracted.state_store_ScryptAuthHasher = "saCtx *scryptauth.Context".
Proof. reflexivity. Qed.

Lemma state_sasl_package_vars_known : Extracted.state_sasl_package_vars = "".
Proof. reflexivity. Qed.

Lemma state_sasl_Server_known : Extracted.state_sasl_Server = "sockPath string; cb AuthCB; ln net.Listener".
Proof. reflexivity. Qed.

Lemma state_sasl_Client_known : Extracted.state_sasl_Client = "sockPath string".
Proof. reflexivity. Qed.

Lemma state_sasl_Request_known : Extracted.state_sasl_Request = "Login string; Password string; Service string; Realm string".
Proof. reflexivity. Qed.

Lemma state_sasl_Response_known : Extracted.state_sasl_Response = "Result bool; Message string".
Proof. reflexivity. Qed.

Lemma state_main_package_vars_known : Extracted.state_main_package_vars = "wdl = log.New(...); wl = log.New(...)".
Proof. reflexivity. Qed.

Lemma state_main_store_known : Extracted.state_main_store = "configfile string; dir *lib.Dir; policy PolicyChecker; hooks *HooksCaller; initChan chan initRequest; checkChan chan checkRequest; addChan chan addRequest; removeChan chan removeRequest; updateChan chan updateRequest; setAdminChan chan setAdminRequest; listChan chan listRequest; listFullChan chan listFullRequest; authenticateChan chan authenticateRequest; upgradeChan chan updateRequest".
Proof. reflexivity. Qed.

Lemma state_main_Store_known : Extracted.state_main_Store = "initChan chan<- initRequest; checkChan chan<- checkRequest; addChan chan<- addRequest; removeChan chan<- removeRequest; updateChan chan<- updateRequest; setAdminChan chan<- setAdminRequest; listChan chan<- listRequest; listFullChan chan<- listFullRequest; authenticateChan chan<- authenticateRequest".
Proof. reflexivity. Qed.

Lemma state_main_webSessionFactory_known : Extracted.state_main_webSessionFactory = "aesgcm cipher.AEAD; lifetime time.Duration".
Proof. reflexivity. Qed.

Lemma state_main_HooksCaller_known : Extracted.state_main_HooksCaller = "Notify chan bool; NewStore chan string; dir string; store string; rateLimit time.Duration; pending uint".
Proof. reflexivity. Qed.

Lemma state_main_zxcvbnPolicy_known : Extracted.state_main_zxcvbnPolicy = "condition func(score scoring.MinEntropyMatch, threshold uint64) bool; threshold uint64".
Proof. reflexivity. Qed.

Definition store_state_inventory : Prop :=
  Extracted.state_store_package_vars = "errNoSupportedHash = errors.New(...); userNameRe = regexp.MustCompile(...); wl = log.New(...)" /\
  Extracted.state_store_Dir = "BaseDir string; Default uint; Params map[uint]Hasher" /\
  Extracted.state_store_UserHash = "store *Dir; user string" /\
  Extracted.state_store_Argon2IDHasher = "(embedded) Argon2IDParams" /\
  Extracted.state_store_ScryptAuthHasher = "saCtx *scryptauth.Context".
Lemma store_state_inventory_holds : store_state_inventory.
Proof. unfold store_state_inventory. repeat split; reflexivity. Qed.

Definition sasl_state_inventory : Prop :=
  Extracted.state_sasl_package_vars = "" /\
  Extracted.state_sasl_Server = "sockPath string; cb AuthCB; ln net.Listener" /\
  Extracted.state_sasl_Client = "sockPath string" /\
  Extracted.state_sasl_Request = "Login string; Password string; Service string; Realm string" /\
  Extracted.state_sasl_Response = "Result bool; Message string".
Lemma sasl_state_inventory_holds : sasl_state_inventory.
Proof. unfold sasl_state_inventory. repeat split; reflexivity. Qed.

Definition agent_state_inventory : Prop :=
  Extracted.state_main_package_vars = "wdl = log.New(...); wl = log.New(...)" /\
  Extracted.state_main_store = "configfile string; dir *lib.Dir; policy PolicyChecker; hooks *HooksCaller; initChan chan initRequest; checkChan chan checkRequest; addChan chan addRequest; removeChan chan removeRequest; updateChan chan updateRequest; setAdminChan chan setAdminRequest; listChan chan listRequest; listFullChan chan listFullRequest; authenticateChan chan authenticateRequest; upgradeChan chan updateRequest" /\
  Extracted.state_main_Store = "initChan chan<- initRequest; checkChan chan<- checkRequest; addChan chan<- addRequest; removeChan chan<- removeRequest; updateChan chan<- updateRequest; setAdminChan chan<- setAdminRequest; listChan chan<- listRequest; listFullChan chan<- listFullRequest; authenticateChan chan<- authenticateRequest".
Lemma agent_state_inventory_holds : agent_state_inventory.
Proof. unfold agent_state_inventory. repeat split; reflexivity. Qed.

Definition session_state_inventory : Prop :=
  Extracted.state_main_webSessionFactory = "aesgcm cipher.AEAD; lifetime time.Duration".
Lemma session_state_inventory_holds : session_state_inventory.
Proof. unfold session_state_inventory. repeat split; reflexivity. Qed.

Definition hooks_state_inventory : Prop :=
  Extracted.state_main_HooksCaller = "Notify chan bool; NewStore chan string; dir string; store string; rateLimit time.Duration; pending uint".
Lemma hooks_state_inventory_holds : hooks_state_inventory.
Proof. unfold hooks_state_inventory. repeat split; reflexivity. Qed.

Definition policy_state_inventory : Prop :=
  Extracted.state_main_zxcvbnPolicy = "condition func(score scoring.MinEntropyMatch, threshold uint64) bool; threshold uint64".
Lemma policy_state_inventory_holds : policy_state_inventory.
Proof. unfold policy_state_inventory. repeat split; reflexivity. Qed.
