(* WebApi_proofs.v — C06: management actions over the HTTP API require the
   right session or password. *)
From Whawty Require Import Bytes Bytes_proofs Base64 Names Record Store StoreOps_proofs Session Session_proofs WebApi.
From Coq Require Import ZifyN ZifyNat ZifyBool.
Open Scope N_scope.

Section W.
  Variable kdf : hasher -> bytes -> bytes -> option bytes.
  Variable life_ms : N.

  Notation handle := (handle kdf life_ms).
  Notation authorised := (authorised kdf life_ms).

  (* ---- proof automation ---- *)
  Ltac step :=
    match goal with
    | |- context[is_empty ?x] => destruct (is_empty x) eqn:?; cbn [orb andb negb]
    | |- context[beq ?u ?v] => destruct (beq u v) eqn:?; cbn [orb andb negb]
    | |- context[negb ?a] => is_var a; destruct a; cbn [orb andb negb]
    | |- context[match ?x with _ => _ end] =>
        lazymatch x with
        | context[match _ with _ => _ end] => fail
        | _ => destruct x eqn:?
        end
    end.

  Ltac open_handle :=
    unfold WebApi.handle, WebApi.authorised, admin_gate, session_of, status_of;
    repeat step.

  Ltac failed_ops :=
    repeat match goal with
    | H : add_user _ _ _ _ _ _ _ = (_, RErr) |- _ => apply failed_add_unchanged in H; subst
    | H : update_user _ _ _ _ _ _ = (_, RErr) |- _ => apply failed_update_unchanged in H; subst
    | H : set_admin _ _ _ = (_, RErr) |- _ => apply failed_set_admin_unchanged in H; subst
    end.

  Ltac rsimp := unfold resp; cbn [with_dir w_dir w_cfg w_log r_status r_list r_session fst snd].
  Ltac rsimp_all := unfold resp in *; cbn [with_dir w_dir w_cfg w_log r_status r_list r_session fst snd] in *.

  Lemma with_dir_same s : with_dir s (w_dir s) = s.
  Proof. destruct s as [c d l]. reflexivity. Qed.

  (* a body that does not decode: 400, nothing changes, nothing disclosed *)
  Theorem malformed_refused s ep o :
    handle s ep None o = (resp 400, s).
  Proof. reflexivity. Qed.

  (* every request that is not authorised gets a non-success status, no list,
     no session token, and leaves the whole state (store, configuration,
     sessions) exactly as it was *)
  Theorem unauthorised_refused s ep b o :
    authorised s ep b o = false ->
    exists st, handle s ep (Some b) o = (resp st, s) /\ st <> 200.
  Proof.
    destruct ep; open_handle; intros Ha; try discriminate Ha;
      (eexists; split; [reflexivity|discriminate]).
  Qed.

  (* empty-field requests are refused whatever credential they carry *)
  Definition has_empty_field (ep : endpoint) (b : body) : bool :=
    match ep with
    | EAuth => is_empty (b_username b) || is_empty (b_password b)
    | EAdd => is_empty (b_session b) || is_empty (b_username b) || is_empty (b_password b)
    | ERemove | ESetAdmin => is_empty (b_session b) || is_empty (b_username b)
    | EList | EListFull => is_empty (b_session b)
    | EUpdate => is_empty (b_username b) ||
                 (is_empty (b_session b) && is_empty (b_old b)) ||       (* neither credential *)
                 (negb (is_empty (b_session b)) && negb (is_empty (b_old b))) ||   (* both *)
                 (negb (is_empty (b_session b)) && is_empty (b_new b))
    end.

  Theorem empty_field_refused s ep b o :
    has_empty_field ep b = true -> handle s ep (Some b) o = (resp 400, s).
  Proof.
    destruct ep; unfold has_empty_field; open_handle; intros He; try discriminate He; reflexivity.
  Qed.

  (* hence: an effect on the store implies an authorised request *)
  Theorem effect_only_if_authorised s ep bd o rp s' :
    handle s ep bd o = (rp, s') -> w_dir s' <> w_dir s ->
    exists b, bd = Some b /\ authorised s ep b o = true /\ has_empty_field ep b = false.
  Proof.
    destruct bd as [b|]; [|cbn; intros [= <- <-] Hd; now elim Hd].
    intros H Hd. exists b. split; [reflexivity|]. revert H Hd.
    destruct ep; unfold has_empty_field; open_handle; intros [= <- <-] Hd; failed_ops;
      cbn [with_dir w_dir] in Hd; try (now elim Hd);
      (split; reflexivity).
  Qed.

  (* a user list is disclosed only to an admin session *)
  Theorem list_only_to_admin s ep bd o rp s' :
    handle s ep bd o = (rp, s') -> r_list rp = true ->
    exists b u, bd = Some b /\ (ep = EList \/ ep = EListFull) /\
                check (w_log s) (session_life_ns life_ms) (wo_now_ns o) (b_session b) = Accept u true.
  Proof.
    open_handle; intros [= <- <-] Hl; rsimp_all; try discriminate Hl;
      unfold chk in *; eauto 10.
  Qed.

  (* the effect of an authorised request is exactly the store operation *)
  Theorem add_effect s b o rp s' :
    handle s EAdd (Some b) o = (rp, s') -> r_status rp = 200 ->
    (w_dir s', ROk) = add_user kdf (w_cfg s) (w_dir s) (b_username b) (b_password b) (b_admin b) (wo_store o) /\
    w_cfg s' = w_cfg s /\ w_log s' = w_log s.
  Proof.
    open_handle; intros [= <- <-] Hst; rsimp_all; try discriminate Hst; auto.
  Qed.

  Theorem update_effect s b o rp s' :
    handle s EUpdate (Some b) o = (rp, s') -> w_dir s' <> w_dir s ->
    (w_dir s', ROk) = update_user kdf (w_cfg s) (w_dir s) (b_username b) (b_new b) (wo_store o) /\
    w_cfg s' = w_cfg s /\ w_log s' = w_log s.
  Proof.
    open_handle; intros [= <- <-] Hd; failed_ops; rsimp_all; try (now elim Hd); auto.
  Qed.

  Theorem remove_effect s b o rp s' :
    handle s ERemove (Some b) o = (rp, s') -> r_status rp = 200 ->
    w_dir s' = remove_user (w_dir s) (b_username b) /\ w_cfg s' = w_cfg s /\ w_log s' = w_log s.
  Proof.
    open_handle; intros [= <- <-] Hst; rsimp_all; try discriminate Hst; auto.
  Qed.

  Theorem set_admin_effect s b o rp s' :
    handle s ESetAdmin (Some b) o = (rp, s') -> r_status rp = 200 ->
    (w_dir s', ROk) = set_admin (w_dir s) (b_username b) (b_admin b) /\ w_cfg s' = w_cfg s /\ w_log s' = w_log s.
  Proof.
    open_handle; intros [= <- <-] Hst; rsimp_all; try discriminate Hst; auto.
  Qed.

  (* a failed management call (status <> 200) never changes the store *)
  Theorem failure_unchanged s ep bd o rp s' :
    handle s ep bd o = (rp, s') -> r_status rp <> 200 -> w_dir s' = w_dir s /\ w_cfg s' = w_cfg s /\ w_log s' = w_log s.
  Proof.
    open_handle; intros [= <- <-] Hst; failed_ops; rsimp_all; try (now elim Hst); auto.
  Qed.

  (* a session token is issued only in response to a successful password
     authentication, and names that user and the admin status of the record
     that authenticated *)
  Theorem token_only_after_password s ep bd o rp s' :
    handle s ep bd o = (rp, s') -> (w_log s' <> w_log s \/ r_session rp <> None) ->
    ep = EAuth /\
    exists b adm, bd = Some b /\ store_auth kdf s (b_username b) (b_password b) = Some adm /\
      w_log s' = w_log s ++ [{| s_nonce := wo_nonce o; s_ct := wo_ct o;
                                s_pt := format_token (b_username b) adm (wo_now_s o) |}] /\
      r_session rp = Some (token_text (wo_nonce o) (wo_ct o)) /\ w_dir s' = w_dir s.
  Proof.
    open_handle; intros [= <- <-] [Hl|Hr]; rsimp_all; try (now elim Hl); try (now elim Hr);
      (split; [reflexivity|]);
      match goal with Hg : generate _ _ _ _ _ _ = _ |- _ => unfold generate in Hg; injection Hg as <- <- end;
      eauto 10.
  Qed.

  (* the configuration is never changed through the API *)
  Theorem config_constant s ep bd o rp s' :
    handle s ep bd o = (rp, s') -> w_cfg s' = w_cfg s.
  Proof.
    open_handle; intros [= <- <-]; reflexivity.
  Qed.

  Lemma log_step s ep bd o rp s' :
    handle s ep bd o = (rp, s') ->
    w_log s' = w_log s \/
    exists b adm, ep = EAuth /\ bd = Some b /\
      w_log s' = w_log s ++ [{| s_nonce := wo_nonce o; s_ct := wo_ct o;
                                s_pt := format_token (b_username b) adm (wo_now_s o) |}].
  Proof.
    open_handle; intros [= <- <-]; rsimp; auto;
      match goal with Hg : generate _ _ _ _ _ _ = _ |- _ => unfold generate in Hg; injection Hg as <- <- end;
      right; eauto.
  Qed.

  (* ---- closed under sequences ---- *)
  (* a session accepted at any time was issued by an earlier successful
     authenticate request of this run (or was in the initial log) *)
  Theorem log_grows_only_by_authentication rs : forall s rps s',
    run_web kdf life_ms s rs = (rps, s') ->
    forall e, In e (w_log s') -> In e (w_log s) \/
      exists b o adm t, In (EAuth, Some b, o) rs /\
        e = {| s_nonce := wo_nonce o; s_ct := wo_ct o; s_pt := format_token (b_username b) adm t |}.
  Proof.
    induction rs as [|[[ep bd] o] rs IH]; intros s rps s' H e He.
    - cbn [run_web] in H. injection H as _ <-. now left.
    - cbn [run_web] in H.
      destruct (handle s ep bd o) as [rp s1] eqn:Hh.
      destruct (run_web kdf life_ms s1 rs) as [rps1 s2] eqn:Hr.
      injection H as _ <-.
      destruct (IH _ _ _ Hr e He) as [Hin|(b & o' & adm & t & Hin & Heq)].
      + destruct (log_step _ _ _ _ _ _ Hh) as [Hsame|(b & adm & -> & -> & Hlog)].
        * left. now rewrite <- Hsame.
        * rewrite Hlog in Hin. apply in_app_or in Hin as [Hin|[Hin|[]]]; [now left|].
          right. exists b, o, adm, (wo_now_s o). split; [now left|]. now symmetry.
      + right. exists b, o', adm, t. split; [now right|assumption].
  Qed.

  (* a run in which no request is authorised changes nothing and succeeds never *)
  Theorem unauthorised_run_changes_nothing rs : forall s rps s',
    (forall ep b o, In (ep, Some b, o) rs -> authorised s ep b o = false) ->
    run_web kdf life_ms s rs = (rps, s') ->
    s' = s /\ Forall (fun rp => r_status rp <> 200 /\ r_list rp = false /\ r_session rp = None) rps.
  Proof.
    induction rs as [|[[ep bd] o] rs IH]; intros s rps s' Hall H.
    - cbn [run_web] in H. injection H as <- <-. split; [reflexivity|constructor].
    - cbn [run_web] in H.
      assert (Hh : exists st, handle s ep bd o = (resp st, s) /\ st <> 200).
      { destruct bd as [b|].
        - apply unauthorised_refused. apply Hall. now left.
        - exists 400. split; [apply malformed_refused|discriminate]. }
      destruct Hh as (st & Hh & Hst). rewrite Hh in H.
      destruct (run_web kdf life_ms s rs) as [rps1 s2] eqn:Hr.
      injection H as <- <-.
      apply IH in Hr; [|intros ep' b' o' Hin; apply Hall; now right].
      destruct Hr as [-> HF]. split; [reflexivity|].
      constructor; [|exact HF]. rsimp. auto.
  Qed.
End W.
