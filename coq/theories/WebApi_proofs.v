(* WebApi_proofs.v — C06: management actions over the HTTP API require the
   right session or password. *)
From Whawty Require Import Bytes Bytes_proofs Base64 Names Record Store StoreOps_proofs Session Session_proofs WebApi.
From Coq Require Import ZifyN ZifyNat ZifyBool.
Open Scope N_scope.

Section W.
  Variable kdf : hasher -> bytes -> bytes -> option bytes.
  Variable life_ms : N.

  Notation handle := (handle kdf life_ms).
  Notation authorised := (authorised kdf life_ms).

  (* a body that does not decode: 400, nothing changes, nothing disclosed *)
  Theorem malformed_refused s ep o :
    handle s ep None o = (resp 400, s).
  Admitted.

  (* every request that is not authorised gets a non-success status, no list,
     no session token, and leaves the whole state (store, configuration,
     sessions) exactly as it was *)
  Theorem unauthorised_refused s ep b o :
    authorised s ep b o = false ->
    exists st, handle s ep (Some b) o = (resp st, s) /\ st <> 200.
  Admitted.

  (* empty-field requests are refused whatever credential they carry *)
  Definition has_empty_field (ep : endpoint) (b : body) : bool :=
    match ep with
    | EAuth => is_empty (b_username b) || is_empty (b_password b)
    | EAdd => is_empty (b_session b) || is_empty (b_username b) || is_empty (b_password b)
    | ERemove | ESetAdmin => is_empty (b_session b) || is_empty (b_username b)
    | EList | EListFull => is_empty (b_session b)
    | EUpdate => is_empty (b_username b) ||
                 (is_empty (b_session b) && is_empty (b_old b)) ||       (* neither credential *)
                 (negb (is_empty (b_session b)) && negb (is_empty (b_old b))) ||   (* both *)
                 (negb (is_empty (b_session b)) && is_empty (b_new b))
    end.

  Theorem empty_field_refused s ep b o :
    has_empty_field ep b = true -> handle s ep (Some b) o = (resp 400, s).
  Admitted.

  (* hence: an effect on the store implies an authorised request *)
  Theorem effect_only_if_authorised s ep bd o rp s' :
    handle s ep bd o = (rp, s') -> w_dir s' <> w_dir s ->
    exists b, bd = Some b /\ authorised s ep b o = true /\ has_empty_field ep b = false.
  Admitted.

  (* a user list is disclosed only to an admin session *)
  Theorem list_only_to_admin s ep bd o rp s' :
    handle s ep bd o = (rp, s') -> r_list rp = true ->
    exists b u, bd = Some b /\ (ep = EList \/ ep = EListFull) /\
                check (w_log s) (session_life_ns life_ms) (wo_now_ns o) (b_session b) = Accept u true.
  Admitted.

  (* the effect of an authorised request is exactly the store operation *)
  Theorem add_effect s b o rp s' :
    handle s EAdd (Some b) o = (rp, s') -> r_status rp = 200 ->
    (w_dir s', ROk) = add_user kdf (w_cfg s) (w_dir s) (b_username b) (b_password b) (b_admin b) (wo_store o) /\
    w_cfg s' = w_cfg s /\ w_log s' = w_log s.
  Admitted.

  Theorem update_effect s b o rp s' :
    handle s EUpdate (Some b) o = (rp, s') -> w_dir s' <> w_dir s ->
    (w_dir s', ROk) = update_user kdf (w_cfg s) (w_dir s) (b_username b) (b_new b) (wo_store o) /\
    w_cfg s' = w_cfg s /\ w_log s' = w_log s.
  Admitted.

  Theorem remove_effect s b o rp s' :
    handle s ERemove (Some b) o = (rp, s') -> r_status rp = 200 ->
    w_dir s' = remove_user (w_dir s) (b_username b) /\ w_cfg s' = w_cfg s /\ w_log s' = w_log s.
  Admitted.

  Theorem set_admin_effect s b o rp s' :
    handle s ESetAdmin (Some b) o = (rp, s') -> r_status rp = 200 ->
    (w_dir s', ROk) = set_admin (w_dir s) (b_username b) (b_admin b) /\ w_cfg s' = w_cfg s /\ w_log s' = w_log s.
  Admitted.

  (* a failed management call (status <> 200) never changes the store *)
  Theorem failure_unchanged s ep bd o rp s' :
    handle s ep bd o = (rp, s') -> r_status rp <> 200 -> w_dir s' = w_dir s /\ w_cfg s' = w_cfg s /\ w_log s' = w_log s.
  Admitted.

  (* a session token is issued only in response to a successful password
     authentication, and names that user and the admin status of the record
     that authenticated *)
  Theorem token_only_after_password s ep bd o rp s' :
    handle s ep bd o = (rp, s') -> (w_log s' <> w_log s \/ r_session rp <> None) ->
    ep = EAuth /\
    exists b adm, bd = Some b /\ store_auth kdf s (b_username b) (b_password b) = Some adm /\
      w_log s' = w_log s ++ [{| s_nonce := wo_nonce o; s_ct := wo_ct o;
                                s_pt := format_token (b_username b) adm (wo_now_s o) |}] /\
      r_session rp = Some (token_text (wo_nonce o) (wo_ct o)) /\ w_dir s' = w_dir s.
  Admitted.

  (* the configuration is never changed through the API *)
  Theorem config_constant s ep bd o rp s' :
    handle s ep bd o = (rp, s') -> w_cfg s' = w_cfg s.
  Admitted.

  (* ---- closed under sequences ---- *)
  (* a session accepted at any time was issued by an earlier successful
     authenticate request of this run (or was in the initial log) *)
  Theorem log_grows_only_by_authentication rs : forall s rps s',
    run_web kdf life_ms s rs = (rps, s') ->
    forall e, In e (w_log s') -> In e (w_log s) \/
      exists b o adm t, In (EAuth, Some b, o) rs /\
        e = {| s_nonce := wo_nonce o; s_ct := wo_ct o; s_pt := format_token (b_username b) adm t |}.
  Admitted.

  (* a run in which no request is authorised changes nothing and succeeds never *)
  Theorem unauthorised_run_changes_nothing rs : forall s rps s',
    (forall ep b o, In (ep, Some b, o) rs -> authorised s ep b o = false) ->
    run_web kdf life_ms s rs = (rps, s') ->
    s' = s /\ Forall (fun rp => r_status rp <> 200 /\ r_list rp = false /\ r_session rp = None) rps.
  Admitted.
End W.
