(* Session_proofs.v — C07: session tokens under the ideal-AEAD reading. *)
From Whawty Require Import Bytes Bytes_proofs Base64 Base64_proofs Session.
From Coq Require Import ZifyN ZifyNat ZifyBool.
Open Scope N_scope.

Lemma aead_open_in l n c pt :
  aead_open l n c = Some pt -> exists e, In e l /\ s_nonce e = n /\ s_ct e = c /\ s_pt e = pt.
Proof.
  induction l as [|x r IH]; cbn [aead_open]; [discriminate|].
  destruct (beq (s_nonce x) n && beq (s_ct x) c) eqn:E.
  - intros Hpt. apply andb_true_iff in E. destruct E as [E1 E2].
    apply beq_eq in E1. apply beq_eq in E2.
    exists x. cbn [In]. repeat split; auto. congruence.
  - intros H. destruct (IH H) as (e & Hin & Hrest). exists e. cbn [In]. auto.
Qed.

Lemma aead_open_none l n c :
  aead_open l n c = None <-> forall e, In e l -> ~ (s_nonce e = n /\ s_ct e = c).
Proof.
  induction l as [|x r IH]; cbn [aead_open].
  - split; [intros _ e []|auto].
  - destruct (beq (s_nonce x) n && beq (s_ct x) c) eqn:E.
    + split; [discriminate|]. intros H. exfalso.
      apply andb_true_iff in E. destruct E as [E1 E2].
      apply beq_eq in E1. apply beq_eq in E2.
      apply (H x); cbn [In]; auto.
    + rewrite IH. split.
      * intros H e [Hx|Hin]; [|auto]. subst e. intros [H1 H2]. subst n c.
        rewrite !beq_refl in E. discriminate.
      * intros H e Hin. apply H. cbn [In]. auto.
Qed.

(* ---- auxiliary lemmas ---- *)

Lemma aead_open_nodup l e :
  NoDup (map (fun x => (s_nonce x, s_ct x)) l) -> In e l ->
  aead_open l (s_nonce e) (s_ct e) = Some (s_pt e).
Proof.
  induction l as [|x r IH]; intros Hnd Hin; [destruct Hin|].
  cbn [map] in Hnd. apply NoDup_cons_iff in Hnd. destruct Hnd as [Hnotin Hnd].
  cbn [aead_open]. destruct Hin as [Hx|Hin].
  - subst x. rewrite !beq_refl. reflexivity.
  - destruct (beq (s_nonce x) (s_nonce e) && beq (s_ct x) (s_ct e)) eqn:E.
    + exfalso. apply Hnotin.
      apply andb_true_iff in E. destruct E as [E1 E2].
      apply beq_eq in E1. apply beq_eq in E2.
      apply in_map_iff. exists e. split; [|exact Hin]. rewrite E1, E2. reflexivity.
    + auto.
Qed.

Lemma aead_open_app l l' n c :
  aead_open (l ++ l') n c =
  match aead_open l n c with Some p => Some p | None => aead_open l' n c end.
Proof.
  induction l as [|x r IH]; cbn [app aead_open]; [reflexivity|].
  destruct (beq (s_nonce x) n && beq (s_ct x) c); auto.
Qed.

Lemma window_in now life ts :
  (0 <= now - go_unix_sec ts * 1000000000 <= life)%Z -> window now life ts = Some true.
Proof.
  intros H. unfold window. cbv zeta.
  destruct (now - go_unix_sec ts * 1000000000 <? 0)%Z eqn:E; [lia|].
  f_equal. lia.
Qed.

Lemma window_expired now life ts :
  (life < now - go_unix_sec ts * 1000000000)%Z -> (0 <= now - go_unix_sec ts * 1000000000)%Z ->
  window now life ts = Some false.
Proof.
  intros H H0. unfold window. cbv zeta.
  destruct (now - go_unix_sec ts * 1000000000 <? 0)%Z eqn:E; [lia|].
  f_equal. lia.
Qed.

Lemma window_future now life ts :
  (now - go_unix_sec ts * 1000000000 < 0)%Z -> window now life ts = None.
Proof.
  intros H. unfold window. cbv zeta.
  destruct (now - go_unix_sec ts * 1000000000 <? 0)%Z eqn:E; [reflexivity|lia].
Qed.

Lemma window_true_inv now life ts :
  window now life ts = Some true -> (0 <= now - go_unix_sec ts * 1000000000 <= life)%Z.
Proof.
  unfold window. cbv zeta.
  destruct (now - go_unix_sec ts * 1000000000 <? 0)%Z eqn:E; [discriminate|].
  destruct (now - go_unix_sec ts * 1000000000 <=? life)%Z eqn:E2; [|discriminate].
  intros _. lia.
Qed.

Lemma check_step l life now s n c pt u a ts :
  decode_text s = Some (n, c) -> length n = nonce_size ->
  aead_open l n c = Some pt -> parse_token pt = Some (u, a, ts) ->
  check l life now s =
  match window now life ts with
  | None => Reject400
  | Some true => Accept u a
  | Some false => Reject401
  end.
Proof.
  intros Hd Hn Ho Hp. unfold check. rewrite Hd, Hn, Nat.eqb_refl. cbn [negb].
  rewrite Ho, Hp. reflexivity.
Qed.

Lemma digits_val_digits s : forall acc v,
  digits_val acc s = Some v -> forallb is_digit s = true.
Proof.
  induction s as [|d r IH]; intros acc v H; cbn [forallb]; auto.
  cbn [digits_val] in H. destruct (is_digit d) eqn:E; [|discriminate].
  cbn [andb]. eapply IH; eauto.
Qed.

Lemma digits_no_colon s : forallb is_digit s = true -> contains colon s = false.
Proof.
  intros H. apply contains_forallb. eapply forallb_weaken; [|exact H].
  intros x Hx. cbv beta. unfold is_digit in Hx. unfold colon. lia.
Qed.

Lemma parse_int64_no_colon s z : parse_int64 s = Some z -> contains colon s = false.
Proof.
  destruct s as [|c r]; [discriminate|].
  unfold parse_int64. cbv zeta.
  destruct ((c =? 43) || (c =? 45)) eqn:E.
  - destruct r as [|d r']; [discriminate|].
    destruct (digits_val 0 (d :: r')) as [v|] eqn:D; [|discriminate].
    intros _. rewrite contains_cons.
    apply digits_val_digits in D. apply digits_no_colon in D. rewrite D.
    unfold colon. lia.
  - destruct (digits_val 0 (c :: r)) as [v|] eqn:D; [|discriminate].
    intros _. eapply digits_no_colon, digits_val_digits; eauto.
Qed.

Lemma parse_int64_colon s : contains colon s = true -> parse_int64 s = None.
Proof.
  intros H. destruct (parse_int64 s) as [z|] eqn:E; [|reflexivity].
  apply parse_int64_no_colon in E. congruence.
Qed.

Lemma parse_token_bad_ts pt u f t :
  splitN colon 3 pt = [u; f; t] -> parse_int64 t = None -> parse_token pt = None.
Proof.
  intros H1 H2. unfold parse_token. rewrite H1, H2.
  destruct (beq f (str "true")); [reflexivity|].
  destruct (beq f (str "false")); reflexivity.
Qed.

Lemma contains_split sep s :
  contains sep s = true ->
  exists a b, s = a ++ sep :: b /\ contains sep a = false.
Proof.
  unfold contains at 1. destruct (index_of sep s) as [i|] eqn:E; [|discriminate].
  intros _. apply index_of_some_split in E. destruct E as [E1 E2]. eauto.
Qed.

Lemma flag_text_no_colon a : contains colon (flag_text a) = false.
Proof. destruct a; vm_compute; reflexivity. Qed.

(* accepted only if the text decodes to exactly the nonce and ciphertext of a
   token this instance sealed, whose plaintext parses and is in the window;
   acceptance returns exactly the parsed name and flag *)
Theorem accept_only_if_issued l life now s u a :
  check l life now s = Accept u a ->
  exists e ts, In e l /\ decode_text s = Some (s_nonce e, s_ct e) /\
    parse_token (s_pt e) = Some (u, a, ts) /\
    (0 <= now - go_unix_sec ts * 1000000000 <= life)%Z.
Proof.
  unfold check.
  destruct (decode_text s) as [[n c]|] eqn:Hd; [|discriminate].
  destruct (negb (Nat.eqb (length n) nonce_size)) eqn:Hn; [discriminate|].
  destruct (aead_open l n c) as [pt|] eqn:Ho; [|discriminate].
  destruct (parse_token pt) as [[[u' a'] ts]|] eqn:Hp; [|discriminate].
  destruct (window now life ts) as [[|]|] eqn:Hw; try discriminate.
  intros Hacc.
  assert (Hu : u' = u) by congruence. assert (Ha : a' = a) by congruence. subst u' a'.
  apply aead_open_in in Ho. destruct Ho as (e & Hin & H1 & H2 & H3).
  exists e, ts. subst n c pt. repeat split; auto; apply window_true_inv in Hw; lia.
Qed.

(* conversely, with distinct (nonce, ciphertext) pairs in the log *)
Theorem issued_is_accepted l life now s e u a ts :
  NoDup (map (fun x => (s_nonce x, s_ct x)) l) ->
  In e l -> decode_text s = Some (s_nonce e, s_ct e) -> length (s_nonce e) = nonce_size ->
  parse_token (s_pt e) = Some (u, a, ts) ->
  (0 <= now - go_unix_sec ts * 1000000000 <= life)%Z ->
  check l life now s = Accept u a.
Proof.
  intros Hnd Hin Hd Hlen Hp Hw.
  rewrite (check_step l life now s _ _ _ u a ts Hd Hlen (aead_open_nodup l e Hnd Hin) Hp).
  rewrite window_in by exact Hw. reflexivity.
Qed.

(* identity-bound: the plaintext written by Generate parses back to exactly
   the name, flag and time it was issued for - or, for a name containing
   ':', to nothing at all (never to another identity) *)
Theorem parse_format u a t :
  contains colon u = false -> (- (max_i64 + 1) <= t <= max_i64)%Z ->
  parse_token (format_token u a t) = Some (u, a, t).
Proof.
  intros Hu Ht. unfold parse_token.
  change (format_token u a t) with (u ++ colon :: (flag_text a ++ colon :: dec_Z t)).
  rewrite splitN_cons by exact Hu.
  rewrite splitN_cons by apply flag_text_no_colon.
  rewrite splitN_one. cbv beta iota.
  rewrite parse_int64_dec by exact Ht.
  destruct a; reflexivity.
Qed.

Theorem parse_format_colon_name u a t :
  contains colon u = true -> parse_token (format_token u a t) = None.
Proof.
  intros Hu.
  destruct (contains_split _ _ Hu) as (u1 & u2 & -> & Hu1).
  set (rest := flag_text a ++ colon :: dec_Z t).
  assert (Hrest : contains colon rest = true).
  { unfold rest. rewrite contains_app, contains_cons.
    change (colon =? colon) with true. rewrite orb_true_r. reflexivity. }
  assert (Hfmt : format_token (u1 ++ colon :: u2) a t =
                 u1 ++ colon :: (u2 ++ colon :: rest)).
  { unfold format_token, rest. rewrite <- app_assoc. reflexivity. }
  rewrite Hfmt.
  destruct (contains colon u2) eqn:Hu2.
  - destruct (contains_split _ _ Hu2) as (v1 & v2 & -> & Hv1).
    apply (parse_token_bad_ts _ u1 v1 (v2 ++ colon :: rest)).
    + rewrite splitN_cons by exact Hu1.
      rewrite <- app_assoc. cbn [app].
      rewrite splitN_cons by exact Hv1.
      rewrite splitN_one. reflexivity.
    + apply parse_int64_colon. rewrite contains_app, contains_cons.
      change (colon =? colon) with true. rewrite orb_true_r. reflexivity.
  - apply (parse_token_bad_ts _ u1 u2 rest).
    + rewrite splitN_cons by exact Hu1.
      rewrite splitN_cons by exact Hu2.
      rewrite splitN_one. reflexivity.
    + apply parse_int64_colon. exact Hrest.
Qed.

(* strict flag: anything but "true"/"false" in the flag position is rejected *)
Theorem strict_flag u f t :
  contains colon u = false -> contains colon f = false ->
  f <> str "true" -> f <> str "false" ->
  parse_token (u ++ [colon] ++ f ++ [colon] ++ t) = None.
Proof.
  intros Hu Hf Hft Hff. unfold parse_token.
  change (u ++ [colon] ++ f ++ [colon] ++ t) with (u ++ colon :: (f ++ colon :: t)).
  rewrite splitN_cons by exact Hu.
  rewrite splitN_cons by exact Hf.
  rewrite splitN_one. cbv beta iota.
  apply beq_neq in Hft. apply beq_neq in Hff. rewrite Hft, Hff. reflexivity.
Qed.

(* any (nonce, ciphertext) that differs - in even one bit - from every sealed
   pair is rejected; in particular tokens of another instance (another log) *)
Theorem not_sealed_rejected l life now s n c :
  decode_text s = Some (n, c) ->
  (forall e, In e l -> ~ (s_nonce e = n /\ s_ct e = c)) ->
  check l life now s = Reject401 \/ check l life now s = Reject400.
Proof.
  intros Hd Hnone. unfold check. rewrite Hd.
  destruct (negb (Nat.eqb (length n) nonce_size)); [right; reflexivity|].
  apply aead_open_none in Hnone. rewrite Hnone. left; reflexivity.
Qed.

Theorem undecodable_rejected l life now s :
  decode_text s = None -> check l life now s = Reject400.
Proof.
  intros Hd. unfold check. rewrite Hd. reflexivity.
Qed.

(* expiry and future-dating; the boundary is inclusive at exactly [life].

   STATEMENT CHANGED.  As first written (no hypothesis on [life]) the theorem
   is false for a negative lifetime: with life < age < 0 the token is "from
   the future" and [check] answers Reject400, not Reject401 - see
   [expired_rejected_counterexample].  The hypothesis [0 <= life] (a lifetime
   is not negative) is added; [expired_rejected_gen] is the general form. *)
Example expired_rejected_counterexample :
  let e := {| s_nonce := repeat_byte 0 12; s_ct := [1]; s_pt := format_token (str "u") true 1 |} in
  let l := [e] in
  let s := token_text (s_nonce e) (s_ct e) in
  let life := (-10)%Z in
  let now := 999999995%Z in
  NoDup (map (fun x => (s_nonce x, s_ct x)) l) /\ In e l /\
  decode_text s = Some (s_nonce e, s_ct e) /\ length (s_nonce e) = nonce_size /\
  parse_token (s_pt e) = Some (str "u", true, 1%Z) /\
  (life < now - 1 * 1000000000)%Z /\
  check l life now s = Reject400.
Proof.
  cbv zeta. repeat split; try (vm_compute; reflexivity).
  - constructor; [intros []|constructor].
  - left; reflexivity.
Qed.

Theorem expired_rejected_gen l life now s e u a ts :
  NoDup (map (fun x => (s_nonce x, s_ct x)) l) ->
  In e l -> decode_text s = Some (s_nonce e, s_ct e) -> length (s_nonce e) = nonce_size ->
  parse_token (s_pt e) = Some (u, a, ts) ->
  (0 <= now - go_unix_sec ts * 1000000000)%Z ->
  (life < now - go_unix_sec ts * 1000000000)%Z ->
  check l life now s = Reject401.
Proof.
  intros Hnd Hin Hd Hlen Hp H0 Hw.
  rewrite (check_step l life now s _ _ _ u a ts Hd Hlen (aead_open_nodup l e Hnd Hin) Hp).
  rewrite window_expired by assumption. reflexivity.
Qed.

Theorem expired_rejected l life now s e u a ts :
  (0 <= life)%Z ->
  NoDup (map (fun x => (s_nonce x, s_ct x)) l) ->
  In e l -> decode_text s = Some (s_nonce e, s_ct e) -> length (s_nonce e) = nonce_size ->
  parse_token (s_pt e) = Some (u, a, ts) ->
  (life < now - go_unix_sec ts * 1000000000)%Z ->
  check l life now s = Reject401.
Proof.
  intros Hlife Hnd Hin Hd Hlen Hp Hw.
  eapply expired_rejected_gen; eauto. lia.
Qed.

Theorem future_rejected l life now s e u a ts :
  NoDup (map (fun x => (s_nonce x, s_ct x)) l) ->
  In e l -> decode_text s = Some (s_nonce e, s_ct e) -> length (s_nonce e) = nonce_size ->
  parse_token (s_pt e) = Some (u, a, ts) ->
  (now - go_unix_sec ts * 1000000000 < 0)%Z ->
  check l life now s = Reject400.
Proof.
  intros Hnd Hin Hd Hlen Hp Hw.
  rewrite (check_step l life now s _ _ _ u a ts Hd Hlen (aead_open_nodup l e Hnd Hin) Hp).
  rewrite window_future by exact Hw. reflexivity.
Qed.

(* the text layer round-trips what Generate hands out *)
Theorem decode_token_text n c :
  bytes_wf n = true -> bytes_wf c = true -> decode_text (token_text n c) = Some (n, c).
Proof.
  intros Hn Hc. unfold decode_text, token_text.
  change (url_enc n ++ [colon] ++ url_enc c) with (url_enc n ++ colon :: url_enc c).
  rewrite splitN_cons by (apply b64enc_no_colon; exact Hn).
  rewrite splitN_one.
  unfold url_dec, url_enc.
  rewrite <- (app_nil_r (b64enc UrlAlpha n)), <- (app_nil_r (b64enc UrlAlpha c)).
  rewrite !b64dec_enc by auto. reflexivity.
Qed.

(* a token Generate just issued is accepted with its own identity *)
Theorem generated_is_accepted l u a now_s nonce ct life now :
  contains colon u = false -> (- (max_i64 + 1) <= now_s <= max_i64)%Z ->
  bytes_wf nonce = true -> bytes_wf ct = true -> length nonce = nonce_size ->
  (forall e, In e l -> ~ (s_nonce e = nonce /\ s_ct e = ct)) ->
  (0 <= now - go_unix_sec now_s * 1000000000 <= life)%Z ->
  let '(l', text) := generate l u a now_s nonce ct in
  check l' life now text = Accept u a.
Proof.
  intros Hu Ht Hwn Hwc Hlen Hfresh Hw.
  unfold generate.
  rewrite (check_step _ life now (token_text nonce ct) nonce ct (format_token u a now_s) u a now_s).
  - rewrite window_in by exact Hw. reflexivity.
  - apply decode_token_text; assumption.
  - exact Hlen.
  - rewrite aead_open_app. apply aead_open_none in Hfresh. rewrite Hfresh.
    cbn [aead_open s_nonce s_ct s_pt]. rewrite !beq_refl. reflexivity.
  - apply parse_format; assumption.
Qed.

(* distinct nonces from the oracle: no two issued tokens share a nonce *)
Fixpoint issue_all (l : slog) (reqs : list (bytes * bool * Z * bytes * bytes)) : slog :=
  match reqs with
  | [] => l
  | (u, a, t, n, c) :: r => issue_all (fst (generate l u a t n c)) r
  end.

Lemma issue_all_nonces reqs : forall l,
  map s_nonce (issue_all l reqs) =
  map s_nonce l ++ map (fun x => match x with (_, _, _, n, _) => n end) reqs.
Proof.
  induction reqs as [|[[[[u a] t] n] c] r IH]; intros l; cbn [issue_all map].
  - rewrite app_nil_r. reflexivity.
  - rewrite IH. unfold generate. cbn [fst]. rewrite map_app. cbn [map s_nonce].
    rewrite <- app_assoc. reflexivity.
Qed.

Theorem nonces_unique reqs :
  NoDup (map (fun x => match x with (_, _, _, n, _) => n end) reqs) ->
  NoDup (map s_nonce (issue_all [] reqs)).
Proof.
  intros H. rewrite issue_all_nonces. cbn [map app]. exact H.
Qed.

(* time.Unix is the identity on every second count an honest clock produces *)
Lemma go_unix_sec_id ts :
  (- 9223372036854775808 - 62135596800 <= ts < 9223372036854775808 - 62135596800)%Z ->
  go_unix_sec ts = ts.
Proof.
  intros H. unfold go_unix_sec, wrap_i64, unix_to_internal.
  rewrite Z.mod_small by lia. lia.
Qed.
