(* AgentInst.v — the agent model instantiated with the structure extracted
   from the source tree (tools/facts -> Extracted.v). *)
From Whawty Require Import Bytes Record Store Agent Agent_proofs Extracted.
Open Scope N_scope.

Definition extracted_cap (q : qid) : nat :=
  N.to_nat match q with
           | QInit => Extracted.cap_initChan | QCheck => Extracted.cap_checkChan
           | QAdd => Extracted.cap_addChan | QRemove => Extracted.cap_removeChan
           | QUpdate => Extracted.cap_updateChan | QSetAdmin => Extracted.cap_setAdminChan
           | QList => Extracted.cap_listChan | QListFull => Extracted.cap_listFullChan
           | QAuth => Extracted.cap_authenticateChan
           end.

Definition extracted_ac (m : umode) : agent_cfg :=
  {| cap := extracted_cap;
     cap_notify := N.to_nat Extracted.cap_hooks_notify;
     cap_remote := N.to_nat Extracted.cap_remote_upgrade;
     mode := m;
     upgrade_send_blocking := negb Extracted.upgrade_enqueue_nonblocking;
     local_upgrade_reauth := Extracted.local_upgrade_reauthenticates |}.

(* the obligations on the extracted facts: they fail to check when an edit
   of the source changes the fact *)
Lemma extracted_caps_ok m : caps_ok (extracted_ac m).
Proof.
  unfold caps_ok. split; [|split].
  - intros q. destruct q; vm_compute; repeat constructor.
  - vm_compute. repeat constructor.
  - vm_compute. repeat constructor.
Qed.

Lemma extracted_nonblocking m : upgrade_send_blocking (extracted_ac m) = false.
Proof. reflexivity. Qed.

Lemma extracted_reauth m : local_upgrade_reauth (extracted_ac m) = true.
Proof. reflexivity. Qed.

(* in local mode the upgrade request goes to the dispatcher's own update
   queue (as modelled), the other goroutines never touch the dispatcher's
   channels, and the dispatcher arms and (store).authenticate send to no
   channel the model does not know about *)
Lemma extracted_structure :
  Extracted.local_upgrade_uses_update_queue = true /\
  Extracted.consumers_touch_dispatcher_chans = 0 /\
  Extracted.dispatcher_foreign_sends = 0 /\
  Extracted.authenticate_other_sends = 0 /\
  Extracted.dispatcher_arms = 10 /\
  (* the client side: every request method waits, unconditionally, on a fresh channel of its own *)
  Extracted.clients_rendezvous_plain = true /\
  Extracted.api_request_methods = 9 /\
  (* the consumer of the dispatcher's blocking sends to the hooks goroutine waits on both channels everywhere *)
  Extracted.hooks_consumer_always_drains = true.
Proof. repeat split; reflexivity. Qed.
