(* Policy.v — cmd/whawty-auth/policy.go: the condition-string parser and the
   three comparators.  zxcvbn itself is an oracle: its result (score,
   entropy, crack time) is an input.  Floats are given exactly as
   mantissa * 2^exponent (or +Inf), so the comparison with the integer
   threshold is exact for thresholds below 2^53 (float64(threshold) exact). *)
From Whawty Require Import Bytes.
Open Scope N_scope.

Inductive pkind := KScore | KEntropy | KTime.
Record policy := { p_kind : pkind; p_thr : N }.

(* strings.Fields on ASCII white space: space, \t, \n, \v, \f, \r *)
Definition is_space (b : byte) : bool :=
  (b =? 32) || ((9 <=? b) && (b <=? 13)).

Fixpoint fields_aux (s : bytes) (cur : bytes) : list bytes :=
  match s with
  | [] => match cur with [] => [] | _ => [rev cur] end
  | c :: r => if is_space c
              then (match cur with [] => fields_aux r [] | _ => rev cur :: fields_aux r [] end)
              else fields_aux r (c :: cur)
  end.
Definition fields (s : bytes) : list bytes := fields_aux s [].

(* newZXCVBNPolicy *)
Definition parse_condition (s : bytes) : option policy :=
  match fields s with
  | [k; op; t] =>
      if beq op (str ">=") then
        match parse_uint64 t with
        | Some thr =>
            if beq k (str "score") then (if thr <=? 4 then Some {| p_kind := KScore; p_thr := thr |} else None)
            else if beq k (str "entropy") then Some {| p_kind := KEntropy; p_thr := thr |}
            else if beq k (str "time") then Some {| p_kind := KTime; p_thr := thr |}
            else None
        | None => None
        end
      else None
  | _ => None
  end.

(* NewPasswordPolicy(type, condition): None = the agent refuses to start *)
Inductive ptype := PNone | PZxcvbn (p : policy).
Definition new_policy (ptype_s cond : bytes) : option ptype :=
  match ptype_s with
  | [] => Some PNone
  | _ => if beq ptype_s (str "zxcvbn")
         then (match parse_condition cond with Some p => Some (PZxcvbn p) | None => None end)
         else None
  end.

(* a float64 as the estimator returned it *)
Inductive fl := FInf | FNum (mant : Z) (exp : Z).     (* mant * 2^exp, mant >= 0 *)

Definition fl_ge (f : fl) (t : N) : bool :=
  match f with
  | FInf => true
  | FNum m e =>
      if (0 <=? e)%Z then (Z.of_N t <=? m * 2 ^ e)%Z
      else (Z.of_N t * 2 ^ (- e) <=? m)%Z
  end.

Record strength := { z_score : Z; z_entropy : fl; z_time : fl }.

Definition policy_check (p : ptype) (z : strength) : bool :=
  match p with
  | PNone => true
  | PZxcvbn {| p_kind := KScore; p_thr := t |} => (Z.of_N t <=? z_score z)%Z
  | PZxcvbn {| p_kind := KEntropy; p_thr := t |} => fl_ge (z_entropy z) t
  | PZxcvbn {| p_kind := KTime; p_thr := t |} => fl_ge (z_time z) t
  end.

(* the documented grammar of a condition, independently of [fields] *)
Inductive ws : bytes -> Prop :=
| WsNil : ws []
| WsCons c r : is_space c = true -> ws r -> ws (c :: r).
Definition nonspace (w : bytes) : Prop := w <> [] /\ forallb (fun c => negb (is_space c)) w = true.

Inductive condition_grammar : bytes -> policy -> Prop :=
| CG s0 k s1 s2 t s3 kind thr :
    ws s0 -> ws s1 -> s1 <> [] -> ws s2 -> s2 <> [] -> ws s3 ->
    nonspace t -> parse_uint64 t = Some thr ->
    (k = str "score" /\ kind = KScore /\ thr <= 4 \/ k = str "entropy" /\ kind = KEntropy \/ k = str "time" /\ kind = KTime) ->
    condition_grammar (s0 ++ k ++ s1 ++ str ">=" ++ s2 ++ t ++ s3) {| p_kind := kind; p_thr := thr |}.
