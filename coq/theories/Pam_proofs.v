(* Pam_proofs.v — C20: the PAM module succeeds only on an explicit OK. *)
From Whawty Require Import Bytes Bytes_proofs SaslCodec SaslCodec_proofs Pam.
From Coq Require Import ZifyN ZifyNat ZifyBool.
From Coq Require Import Arith PeanoNat.
Open Scope N_scope.
Local Ltac Zify.zify_post_hook ::= Z.div_mod_to_equations.

Definition sent (cs : list (N * bytes)) : bytes := concat (map snd cs).

Lemma sent_cons d b r : sent ((d, b) :: r) = b ++ sent r.
Proof. reflexivity. Qed.

Lemma read_n_0 tmo cs : read_n tmo 0 cs = Some ([], cs).
Proof. destruct cs; reflexivity. Qed.

Lemma read_n_S_nil tmo n : read_n tmo (S n) [] = None.
Proof. reflexivity. Qed.

Lemma read_n_S_cons tmo n d b r :
  read_n tmo (S n) ((d, b) :: r) =
  if tmo <=? d then None
  else if Nat.leb (length b) (S n) then
         match read_n tmo (S n - length b) r with
         | Some (x, rest) => Some (b ++ x, rest)
         | None => None
         end
       else Some (firstn (S n) b, (0, skipn (S n) b) :: r).
Proof. reflexivity. Qed.

(* what read_n returns is a prefix of what the server sent, and every chunk
   it waited for arrived within the timeout *)
Lemma read_n_prefix tmo need cs got rest :
  read_n tmo need cs = Some (got, rest) ->
  length got = need /\ sent cs = got ++ sent rest.
Proof.
  revert need got rest.
  induction cs as [|[d b] r IH]; intros need got rest H.
  - destruct need as [|n].
    + rewrite read_n_0 in H. inversion H; subst. split; reflexivity.
    + rewrite read_n_S_nil in H. discriminate.
  - destruct need as [|n].
    + rewrite read_n_0 in H. inversion H; subst. split; reflexivity.
    + rewrite read_n_S_cons in H.
      destruct (tmo <=? d) eqn:Ht; [discriminate|].
      destruct (Nat.leb (length b) (S n)) eqn:Hl.
      * destruct (read_n tmo (S n - length b) r) as [[x rest']|] eqn:Hr; [|discriminate].
        inversion H; subst. apply IH in Hr. destruct Hr as [Hlen Hs].
        apply Nat.leb_le in Hl. split.
        -- rewrite app_length. lia.
        -- rewrite sent_cons, Hs, app_assoc. reflexivity.
      * assert (Hg : got = firstn (S n) b) by congruence.
        assert (Hr : rest = (0, skipn (S n) b) :: r) by congruence.
        subst got rest. apply Nat.leb_gt in Hl. split.
        -- rewrite firstn_length. lia.
        -- rewrite !sent_cons. rewrite app_assoc, firstn_skipn. reflexivity.
Qed.

Lemma read_n_short tmo need cs :
  (length (sent cs) < need)%nat -> read_n tmo need cs = None.
Proof.
  revert need.
  induction cs as [|[d b] r IH]; intros need H.
  - destruct need as [|n]; [inversion H|]. reflexivity.
  - destruct need as [|n]; [inversion H|].
    rewrite read_n_S_cons. rewrite sent_cons, app_length in H.
    destruct (tmo <=? d); [reflexivity|].
    destruct (Nat.leb (length b) (S n)) eqn:Hl.
    + apply Nat.leb_le in Hl. rewrite IH; [reflexivity|]. lia.
    + apply Nat.leb_gt in Hl. lia.
Qed.

(* a silence of at least the timeout before the needed bytes are complete *)
Lemma read_n_timeout tmo need d b r :
  (0 < need)%nat -> tmo <= d -> read_n tmo need ((d, b) :: r) = None.
Proof.
  intros Hn Ht. destruct need as [|n]; [inversion Hn|].
  rewrite read_n_S_cons.
  destruct (tmo <=? d) eqn:E; [reflexivity|]. apply N.leb_gt in E. lia.
Qed.

Lemma sub_self_le (k m : nat) : (k - k <= m)%nat.
Proof. lia. Qed.

(* every wait hands over at least one byte: at most [need] non-empty chunks are consumed *)
Lemma read_n_bounded tmo need cs got rest :
  Forall (fun c => snd c <> []) cs ->
  read_n tmo need cs = Some (got, rest) ->
  (length cs - length rest <= need)%nat.
Proof.
  revert need got rest.
  induction cs as [|[d b] r IH]; intros need got rest HF H.
  - cbn [length]. lia.
  - destruct need as [|n].
    + rewrite read_n_0 in H. inversion H; subst.
      apply sub_self_le.
    + rewrite read_n_S_cons in H.
      inversion HF as [|c l Hb HF']; subst. cbn [snd] in Hb.
      destruct (tmo <=? d); [discriminate|].
      destruct (Nat.leb (length b) (S n)) eqn:Hl.
      * destruct (read_n tmo (S n - length b) r) as [[x rest']|] eqn:Hr; [|discriminate].
        inversion H; subst. apply (IH _ _ _ HF') in Hr.
        apply Nat.leb_le in Hl.
        assert (Hlb : (1 <= length b)%nat) by (destruct b; [congruence|cbn [length]; lia]).
        cbn [length]. lia.
      * assert (Hr : rest = (0, skipn (S n) b) :: r) by congruence.
        subst rest. apply sub_self_le.
Qed.

(* the two-byte length header *)
Lemma read_2 tmo cs l rest :
  read_n tmo 2 cs = Some (l, rest) ->
  exists a b, l = [a; b] /\ sent cs = a :: b :: sent rest.
Proof.
  intros H. apply read_n_prefix in H. destruct H as [Hl Hs].
  destruct l as [|a [|b [|c l]]]; try discriminate.
  exists a, b. split; [reflexivity|]. rewrite Hs. reflexivity.
Qed.

(* one chunk that is already there: the read hands over exactly the prefix *)
Lemma read_n_single tmo x y :
  0 < tmo ->
  exists rest, read_n tmo (length x) [(0, x ++ y)] = Some (x, rest) /\
               (rest = [(0, y)] \/ (rest = [] /\ y = [])).
Proof.
  intros Ht. destruct x as [|h t].
  - exists [(0, y)]. rewrite read_n_0. split; [reflexivity|left; reflexivity].
  - cbn [length]. rewrite read_n_S_cons.
    destruct (tmo <=? 0) eqn:E; [apply N.leb_le in E; lia|].
    destruct (Nat.leb (length ((h :: t) ++ y)) (S (length t))) eqn:Hl.
    + apply Nat.leb_le in Hl. rewrite app_length in Hl. cbn [length] in Hl.
      assert (Hy : y = []) by (destruct y; [reflexivity|cbn [length] in Hl; lia]).
      subst y. rewrite app_nil_r. cbn [length]. rewrite Nat.sub_diag, read_n_0.
      exists []. rewrite app_nil_r. split; [reflexivity|right; split; reflexivity].
    + exists [(0, y)].
      change (S (length t)) with (length (h :: t)).
      rewrite firstn_app, Nat.sub_diag, firstn_all, firstn_O, app_nil_r.
      rewrite skipn_app, Nat.sub_diag, skipn_all, skipn_O.
      split; [reflexivity|left; reflexivity].
Qed.

Lemma starts_with_ok_len resp : starts_with_ok resp = true -> (2 <= length resp)%nat.
Proof.
  destruct resp as [|x [|y t]]; intros H.
  - discriminate.
  - exfalso. unfold starts_with_ok in H.
    destruct x as [|p]; [discriminate|].
    do 7 (try (destruct p as [p|p|]; try discriminate)).
  - cbn [length]. lia.
Qed.

Section C20.
  Variable pmax : N.
  Hypothesis pmax_ok : 2 <= pmax.

  (* SUCCESS only if the reply's first part begins with "OK" *)
  Theorem success_only_on_ok o user pw sv req :
    pam_check pmax o user pw sv = (PAM_SUCCESS, req) ->
    sv_connect sv = true /\
    exists a b resp tail,
      sent (sv_chunks sv) = a :: b :: resp ++ tail /\
      length resp = N.to_nat (N.min (a * 256 + b) pmax) /\
      starts_with_ok resp = true /\ 2 <= a * 256 + b.
  Proof.
    unfold pam_check. intros H.
    destruct (sv_connect sv) eqn:Hc; cbn [negb] in H; [|discriminate].
    split; [reflexivity|].
    destruct (read_n (po_timeout o * 1000) 2 (sv_chunks sv)) as [[l rest]|] eqn:H1;
      [|discriminate].
    destruct (read_2 _ _ _ _ H1) as (a & b & -> & Hs).
    destruct (read_n (po_timeout o * 1000) (N.to_nat (N.min (a * 256 + b) pmax)) rest)
      as [[resp rest2]|] eqn:H2; [|discriminate].
    destruct (starts_with_ok resp) eqn:Hok; [|discriminate].
    apply read_n_prefix in H2. destruct H2 as [Hlen Hs2].
    exists a, b, resp, (sent rest2).
    split; [rewrite Hs, Hs2; reflexivity|].
    split; [exact Hlen|]. split; [exact Hok|].
    assert (Hl2 : (2 <= length resp)%nat).
    { apply starts_with_ok_len. exact Hok. }
    lia.
  Qed.

  (* the request on the wire is the saslauthd encoding of the clipped fields *)
  Theorem request_on_wire o user pw sv code req :
    pam_check pmax o user pw sv = (code, req) -> sv_connect sv = true ->
    req = enc_part (pam_clip pmax user) ++ enc_part (pam_clip pmax pw) ++ enc_part [] ++ enc_part [].
  Proof.
    unfold pam_check. intros H Hc. rewrite Hc in H. cbn [negb] in H.
    assert (Hreq : pam_request pmax user pw =
                   enc_part (pam_clip pmax user) ++ enc_part (pam_clip pmax pw) ++ enc_part [] ++ enc_part []).
    { unfold pam_request, pam_part, pam_clip. rewrite firstn_nil. reflexivity. }
    rewrite <- Hreq.
    destruct (read_n (po_timeout o * 1000) 2 (sv_chunks sv)) as [[l rest]|] eqn:H1;
      [|inversion H; reflexivity].
    destruct (read_2 _ _ _ _ H1) as (a & b & -> & Hs).
    destruct (read_n (po_timeout o * 1000) (N.to_nat (N.min (a * 256 + b) pmax)) rest)
      as [[resp rest2]|]; [|inversion H; reflexivity].
    destruct (starts_with_ok resp); inversion H; reflexivity.
  Qed.

  (* every other server behaviour: never SUCCESS *)
  Theorem unreachable_fails o user pw sv :
    sv_connect sv = false -> fst (pam_check pmax o user pw sv) = PAM_AUTHINFO_UNAVAIL.
  Proof.
    intros Hc. unfold pam_check. rewrite Hc. reflexivity.
  Qed.

  Theorem short_reply_fails o user pw sv :
    sv_connect sv = true ->
    (forall a b rest, sent (sv_chunks sv) = a :: b :: rest ->
                      (length rest < N.to_nat (N.min (a * 256 + b) pmax))%nat) ->
    fst (pam_check pmax o user pw sv) = PAM_AUTHINFO_UNAVAIL.
  Proof.
    intros Hc Hshort. unfold pam_check. rewrite Hc. cbn [negb].
    destruct (read_n (po_timeout o * 1000) 2 (sv_chunks sv)) as [[l rest]|] eqn:H1;
      [|reflexivity].
    destruct (read_2 _ _ _ _ H1) as (a & b & -> & Hs).
    rewrite (read_n_short _ _ _ (Hshort _ _ _ Hs)). reflexivity.
  Qed.

  Theorem silent_server_fails o user pw d b r :
    po_timeout o * 1000 <= d ->
    fst (pam_check pmax o user pw {| sv_connect := true; sv_chunks := (d, b) :: r |}) = PAM_AUTHINFO_UNAVAIL.
  Proof.
    intros Ht. unfold pam_check. cbn [sv_connect sv_chunks negb].
    rewrite read_n_timeout; [reflexivity|lia|exact Ht].
  Qed.

  Theorem negative_reply_fails o user pw sv a b resp tail :
    sv_connect sv = true ->
    sent (sv_chunks sv) = a :: b :: resp ++ tail ->
    length resp = N.to_nat (N.min (a * 256 + b) pmax) ->
    starts_with_ok resp = false ->
    fst (pam_check pmax o user pw sv) <> PAM_SUCCESS.
  Proof.
    intros Hc Hs Hlen Hno Hfst.
    destruct (pam_check pmax o user pw sv) as [code req] eqn:Hp. cbn [fst] in Hfst. subst code.
    apply success_only_on_ok in Hp.
    destruct Hp as (_ & a' & b' & resp' & tail' & Hs' & Hlen' & Hok & _).
    rewrite Hs in Hs'. inversion Hs' as [[Ha Hb Happ]]. subst a' b'.
    assert (Hr : resp = resp').
    { apply (f_equal (firstn (length resp))) in Happ.
      rewrite firstn_app, Nat.sub_diag, firstn_all, firstn_O, app_nil_r in Happ.
      rewrite Hlen, <- Hlen' in Happ.
      rewrite firstn_app, Nat.sub_diag, firstn_all, firstn_O, app_nil_r in Happ.
      exact Happ. }
    subst resp'. congruence.
  Qed.

  (* no password: never reaches the socket, never SUCCESS *)
  Theorem no_password_fails tmo0 args user sv :
    fst (pam_authenticate pmax tmo0 args user None None sv) = PAM_AUTHTOK_RECOVERY_ERR.
  Proof.
    unfold pam_authenticate, get_password.
    destruct (po_use_first (parse_args tmo0 args)), (po_try_first (parse_args tmo0 args));
      reflexivity.
  Qed.

  Lemma single_chunk_result o user pw a b resp tail :
    0 < po_timeout o * 1000 ->
    length resp = N.to_nat (N.min (a * 256 + b) pmax) ->
    fst (pam_check pmax o user pw {| sv_connect := true; sv_chunks := [(0, a :: b :: resp ++ tail)] |}) =
    if starts_with_ok resp then PAM_SUCCESS else PAM_AUTH_ERR.
  Proof.
    intros Ht Hlen. unfold pam_check. cbn [sv_connect sv_chunks negb].
    destruct (read_n_single (po_timeout o * 1000) [a; b] (resp ++ tail) Ht)
      as (rest & Hr1 & Hrest).
    change (length [a; b]) with 2%nat in Hr1.
    change ([a; b] ++ resp ++ tail) with (a :: b :: resp ++ tail) in Hr1.
    rewrite Hr1. rewrite <- Hlen.
    destruct Hrest as [-> | [-> Hnil]].
    - destruct (read_n_single (po_timeout o * 1000) resp tail Ht) as (rest2 & Hr2 & _).
      rewrite Hr2. destruct (starts_with_ok resp); reflexivity.
    - apply app_eq_nil in Hnil. destruct Hnil as [-> _].
      cbn [length]. rewrite read_n_0. reflexivity.
  Qed.

  (* the result never depends on bytes after the first part *)
  Theorem only_first_part_matters o user pw a b resp tail1 tail2 :
    length resp = N.to_nat (N.min (a * 256 + b) pmax) ->
    fst (pam_check pmax o user pw {| sv_connect := true; sv_chunks := [(0, a :: b :: resp ++ tail1)] |}) =
    fst (pam_check pmax o user pw {| sv_connect := true; sv_chunks := [(0, a :: b :: resp ++ tail2)] |}).
  Proof.
    intros Hlen.
    destruct (N.eq_dec (po_timeout o * 1000) 0) as [Hz | Hnz].
    - rewrite !silent_server_fails by lia. reflexivity.
    - rewrite !single_chunk_result by (try exact Hlen; lia). reflexivity.
  Qed.
End C20.
