(* Base64.v — Go's encoding/base64 for the two padded encodings the code
   uses (StdEncoding for the HMAC key in the YAML file, URLEncoding for
   salts, digests and session tokens).

   Encoding is the textbook one.  Decoding transcribes Encoding.Decode /
   decodeQuantum of Go 1.23 for a padded, non-strict encoding:
     - '\r' and '\n' are skipped wherever they occur,
     - padding is mandatory and must complete the quantum ("xx==", "xxx="),
       newlines may follow '=' signs, anything else after padding is an error,
     - trailing bits of a padded quantum are NOT checked (non-strict).
   The word-at-a-time fast paths of the Go code are semantically the
   quantum path and are not modelled separately. *)
From Whawty Require Import Bytes.
Open Scope N_scope.

Inductive alphabet := StdAlpha | UrlAlpha.

(* value 0..63 -> character *)
Definition b64char (al : alphabet) (v : N) : byte :=
  if v <? 26 then 65 + v
  else if v <? 52 then 97 + (v - 26)
  else if v <? 62 then 48 + (v - 52)
  else if v =? 62 then (match al with StdAlpha => 43 | UrlAlpha => 45 end)
  else (match al with StdAlpha => 47 | UrlAlpha => 95 end).

(* character -> value *)
Definition b64val (al : alphabet) (c : byte) : option N :=
  if (65 <=? c) && (c <=? 90) then Some (c - 65)
  else if (97 <=? c) && (c <=? 122) then Some (c - 97 + 26)
  else if (48 <=? c) && (c <=? 57) then Some (c - 48 + 52)
  else match al with
       | StdAlpha => if c =? 43 then Some 62 else if c =? 47 then Some 63 else None
       | UrlAlpha => if c =? 45 then Some 62 else if c =? 95 then Some 63 else None
       end.

Definition pad : byte := 61.  (* '=' *)
Definition is_nl (c : byte) : bool := (c =? 10) || (c =? 13).

Fixpoint b64enc (al : alphabet) (s : bytes) : bytes :=
  match s with
  | a :: b :: c :: r =>
      b64char al (a / 4) :: b64char al ((a mod 4) * 16 + b / 16) ::
      b64char al ((b mod 16) * 4 + c / 64) :: b64char al (c mod 64) :: b64enc al r
  | [a; b] =>
      [b64char al (a / 4); b64char al ((a mod 4) * 16 + b / 16); b64char al ((b mod 16) * 4); pad]
  | [a] => [b64char al (a / 4); b64char al ((a mod 4) * 16); pad; pad]
  | [] => []
  end.

Fixpoint skip_nl (s : bytes) : bytes :=
  match s with
  | c :: r => if is_nl c then skip_nl r else s
  | [] => []
  end.

(* [q]: sextets collected so far in the current quantum (fewer than 4) *)
Fixpoint b64dec_q (al : alphabet) (s : bytes) (q : list N) : option bytes :=
  match s with
  | [] => match q with [] => Some [] | _ => None end
  | c :: r =>
      match b64val al c with
      | Some v =>
          match q with
          | [x; y; z] =>
              match b64dec_q al r [] with
              | Some t => Some ((x * 4 + y / 16) :: ((y mod 16) * 16 + z / 4) :: ((z mod 4) * 64 + v) :: t)
              | None => None
              end
          | _ => b64dec_q al r (q ++ [v])
          end
      | None =>
          if is_nl c then b64dec_q al r q
          else if c =? pad then
            match q with
            | [x; y] =>
                match skip_nl r with
                | c2 :: r2 => if c2 =? pad
                              then (match skip_nl r2 with [] => Some [x * 4 + y / 16] | _ => None end)
                              else None
                | [] => None
                end
            | [x; y; z] =>
                match skip_nl r with
                | [] => Some [x * 4 + y / 16; (y mod 16) * 16 + z / 4]
                | _ => None
                end
            | _ => None
            end
          else None
      end
  end.

Definition b64dec (al : alphabet) (s : bytes) : option bytes := b64dec_q al s [].

Definition url_enc := b64enc UrlAlpha.
Definition url_dec := b64dec UrlAlpha.
Definition std_enc := b64enc StdAlpha.
Definition std_dec := b64dec StdAlpha.
