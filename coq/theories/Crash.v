(* Crash.v — persistence model for the store directory, crash states, and
   the executable protocol / durability checkers for event traces.

   Persistence model (the property's "standard" one, read adversarially):
   - every file is an inode; data written to an inode is durable only after
     an fsync of that inode; until then a crash may leave ANY content in it
     (lost in whole, in part, or garbage) - except that an inode that was
     never written holds no data to lose (it stays empty);
   - a directory-entry change (create, rename-in, rename-out, unlink, mkdir)
     is durable only after an fsync of ITS directory; until then a crash may
     keep or drop it.  A rename across directories is two entry changes (link
     in the destination - atomically replacing an existing entry - and unlink
     in the source), each durable with its own directory;
   - a crash keeps an arbitrary order-preserving subsequence of the pending
     changes of each directory.
   A process kill without power loss is the special case "nothing is lost". *)
From Whawty Require Import Bytes Store StoreTrace.
Open Scope N_scope.

Definition ino := nat.

Record inode := {
  i_vol : bytes;            (* content as seen by running processes *)
  i_dur : option bytes;     (* Some c: content c is on stable storage and nothing was written since *)
  i_written : bool          (* has any data ever been written to it *)
}.

(* pending entry changes of one directory *)
Inductive dirop :=
| DLink (name : bytes) (i : ino)     (* create / rename-in: name now refers to i (replaces an old entry) *)
| DUnlink (name : bytes).            (* unlink / rename-out *)

Definition entries := list (bytes * ino).

Record disk := {
  inodes : list (ino * inode);
  next_ino : ino;
  base_vol : entries;   base_dur : entries;   base_pend : list dirop;
  tmp_exists_vol : bool; tmp_exists_dur : bool;      (* the .tmp directory itself (an entry of base) *)
  tmp_vol : entries;    tmp_dur : entries;    tmp_pend : list dirop
}.

Fixpoint elookup (k : bytes) (e : entries) : option ino :=
  match e with
  | [] => None
  | (k', v) :: r => if beq k k' then Some v else elookup k r
  end.
Fixpoint eremove (k : bytes) (e : entries) : entries :=
  match e with
  | [] => []
  | (k', v) :: r => if beq k k' then eremove k r else (k', v) :: eremove k r
  end.
Definition eset (k : bytes) (v : ino) (e : entries) : entries := (k, v) :: eremove k e.

Fixpoint ilookup (i : ino) (t : list (ino * inode)) : option inode :=
  match t with
  | [] => None
  | (j, n) :: r => if Nat.eqb i j then Some n else ilookup i r
  end.
Definition iset (i : ino) (n : inode) (t : list (ino * inode)) : list (ino * inode) :=
  (i, n) :: filter (fun e => negb (Nat.eqb i (fst e))) t.

Definition apply_dirop (o : dirop) (e : entries) : entries :=
  match o with
  | DLink n i => eset n i e
  | DUnlink n => eremove n e
  end.

(* ---- executing an event on the disk ---- *)
Definition new_file (d : disk) : ino * disk :=
  let i := next_ino d in
  (i, {| inodes := iset i {| i_vol := []; i_dur := Some []; i_written := false |} (inodes d);
         next_ino := S i;
         base_vol := base_vol d; base_dur := base_dur d; base_pend := base_pend d;
         tmp_exists_vol := tmp_exists_vol d; tmp_exists_dur := tmp_exists_dur d;
         tmp_vol := tmp_vol d; tmp_dur := tmp_dur d; tmp_pend := tmp_pend d |}).

Definition with_base (d : disk) (v : entries) (p : list dirop) : disk :=
  {| inodes := inodes d; next_ino := next_ino d;
     base_vol := v; base_dur := base_dur d; base_pend := p;
     tmp_exists_vol := tmp_exists_vol d; tmp_exists_dur := tmp_exists_dur d;
     tmp_vol := tmp_vol d; tmp_dur := tmp_dur d; tmp_pend := tmp_pend d |}.
Definition with_tmp (d : disk) (v : entries) (p : list dirop) : disk :=
  {| inodes := inodes d; next_ino := next_ino d;
     base_vol := base_vol d; base_dur := base_dur d; base_pend := base_pend d;
     tmp_exists_vol := tmp_exists_vol d; tmp_exists_dur := tmp_exists_dur d;
     tmp_vol := v; tmp_dur := tmp_dur d; tmp_pend := p |}.
Definition with_inodes (d : disk) (t : list (ino * inode)) : disk :=
  {| inodes := t; next_ino := next_ino d;
     base_vol := base_vol d; base_dur := base_dur d; base_pend := base_pend d;
     tmp_exists_vol := tmp_exists_vol d; tmp_exists_dur := tmp_exists_dur d;
     tmp_vol := tmp_vol d; tmp_dur := tmp_dur d; tmp_pend := tmp_pend d |}.

Definition lookup_loc (d : disk) (l : loc) : option ino :=
  match l with
  | LFile f => elookup f (base_vol d)
  | LTmpFile t => elookup t (tmp_vol d)
  | _ => None
  end.

Definition exec_event (d : disk) (e : event) : disk :=
  match e with
  | ECreate (LFile f) =>
      let (i, d1) := new_file d in with_base d1 (eset f i (base_vol d1)) (base_pend d1 ++ [DLink f i])
  | ECreate (LTmpFile t) =>
      let (i, d1) := new_file d in with_tmp d1 (eset t i (tmp_vol d1)) (tmp_pend d1 ++ [DLink t i])
  | EMkdir LTmpDir =>
      {| inodes := inodes d; next_ino := next_ino d;
         base_vol := base_vol d; base_dur := base_dur d; base_pend := base_pend d;
         tmp_exists_vol := true; tmp_exists_dur := tmp_exists_dur d;
         tmp_vol := tmp_vol d; tmp_dur := tmp_dur d; tmp_pend := tmp_pend d |}
  | EWrite l data =>
      match lookup_loc d l with
      | Some i =>
          match ilookup i (inodes d) with
          | Some n => with_inodes d (iset i {| i_vol := i_vol n ++ data; i_dur := None; i_written := true |} (inodes d))
          | None => d
          end
      | None => d
      end
  | EFsync LBaseDir =>
      {| inodes := inodes d; next_ino := next_ino d;
         base_vol := base_vol d; base_dur := base_vol d; base_pend := [];
         tmp_exists_vol := tmp_exists_vol d; tmp_exists_dur := tmp_exists_vol d;
         tmp_vol := tmp_vol d; tmp_dur := tmp_dur d; tmp_pend := tmp_pend d |}
  | EFsync LTmpDir =>
      {| inodes := inodes d; next_ino := next_ino d;
         base_vol := base_vol d; base_dur := base_dur d; base_pend := base_pend d;
         tmp_exists_vol := tmp_exists_vol d; tmp_exists_dur := tmp_exists_dur d;
         tmp_vol := tmp_vol d; tmp_dur := tmp_vol d; tmp_pend := [] |}
  | EFsync l =>
      match lookup_loc d l with
      | Some i =>
          match ilookup i (inodes d) with
          | Some n => with_inodes d (iset i {| i_vol := i_vol n; i_dur := Some (i_vol n); i_written := i_written n |} (inodes d))
          | None => d
          end
      | None => d
      end
  | ERename (LTmpFile t) (LFile f) =>
      match elookup t (tmp_vol d) with
      | Some i =>
          let d1 := with_tmp d (eremove t (tmp_vol d)) (tmp_pend d ++ [DUnlink t]) in
          with_base d1 (eset f i (base_vol d1)) (base_pend d1 ++ [DLink f i])
      | None => d
      end
  | ERename (LFile a) (LFile b) =>
      match elookup a (base_vol d) with
      | Some i => with_base d (eset b i (eremove a (base_vol d))) (base_pend d ++ [DUnlink a; DLink b i])
      | None => d
      end
  | EUnlink (LFile f) => with_base d (eremove f (base_vol d)) (base_pend d ++ [DUnlink f])
  | EUnlink (LTmpFile t) => with_tmp d (eremove t (tmp_vol d)) (tmp_pend d ++ [DUnlink t])
  | _ => d
  end.

Definition exec_events (d : disk) (evs : list event) : disk := fold_left exec_event evs d.

(* ---- crash states ---- *)
Inductive subseq {A} : list A -> list A -> Prop :=
| SubNil : subseq [] []
| SubSkip x l1 l2 : subseq l1 l2 -> subseq l1 (x :: l2)
| SubTake x l1 l2 : subseq l1 l2 -> subseq (x :: l1) (x :: l2).

(* the state found after a crash: directory maps and a content for every inode *)
Record crashed := { c_base : entries; c_tmp : entries; c_content : ino -> bytes }.

Definition crash_of (d : disk) (c : crashed) : Prop :=
  (exists kept, subseq kept (base_pend d) /\ c_base c = fold_left (fun e o => apply_dirop o e) kept (base_dur d)) /\
  (exists kept, subseq kept (tmp_pend d) /\ c_tmp c = fold_left (fun e o => apply_dirop o e) kept (tmp_dur d)) /\
  (forall i n, ilookup i (inodes d) = Some n ->
     match i_dur n with
     | Some durable => c_content c i = durable        (* synced and untouched since *)
     | None => True                                   (* anything *)
     end).

(* the content a post-crash reader finds under a base-directory name *)
Definition crashed_file (c : crashed) (f : bytes) : option bytes :=
  match elookup f (c_base c) with
  | Some i => Some (c_content c i)
  | None => None
  end.

(* a disk whose base directory is entirely durable: no pending entry
   change, and every file linked from it is clean.  (The work area .tmp is
   never fsynced by the store, so nothing is required of it.) *)
Definition base_quiescent (d : disk) : Prop :=
  base_pend d = [] /\ base_dur d = base_vol d /\
  (forall f i, elookup f (base_vol d) = Some i ->
     exists n, ilookup i (inodes d) = Some n /\ i_dur n = Some (i_vol n)) /\
  (forall i n, ilookup i (inodes d) = Some n -> (i < next_ino d)%nat) /\
  (forall f i, elookup f (base_vol d) = Some i -> (i < next_ino d)%nat) /\
  (forall t i, elookup t (tmp_vol d) = Some i -> (i < next_ino d)%nat) /\
  (* no inode is linked both from the work area and from the base directory *)
  (forall f t i, elookup f (base_vol d) = Some i -> elookup t (tmp_vol d) <> Some i).

Definition vol_file (d : disk) (f : bytes) : option bytes :=
  match elookup f (base_vol d) with
  | Some i => match ilookup i (inodes d) with Some n => Some (i_vol n) | None => None end
  | None => None
  end.

(* ---- the write discipline as an executable checker over event traces ----
   target [f] (final name), [reserve] = the operation may create it (add).
   Accepted traces (and all their prefixes):
     [ECreate f]?  [EMkdir .tmp]?  ECreate tmp/t  (EWrite tmp/t)*  EFsync tmp/t
     ERename tmp/t f  EFsync base  [EUnlink tmp/t]*                              *)
Inductive pstate :=
| PStart (reserved : bool)
| PTmp (t : bytes)            (* temp file open, being written *)
| PSynced (t : bytes)         (* temp file fsynced, nothing written since *)
| PRenamed (t : bytes)        (* renamed over the final name *)
| PDone (t : bytes).          (* base directory fsynced *)

Definition loc_eqb (a b : loc) : bool :=
  match a, b with
  | LFile x, LFile y => beq x y
  | LTmpFile x, LTmpFile y => beq x y
  | LTmpDir, LTmpDir => true
  | LBaseDir, LBaseDir => true
  | _, _ => false
  end.

Definition proto_step (f : bytes) (reserve : bool) (st : pstate) (e : event) : option pstate :=
  match st, e with
  | PStart false, ECreate (LFile g) => if reserve && beq g f then Some (PStart true) else None
  | PStart r, EMkdir LTmpDir => Some (PStart r)
  | PStart r, ECreate (LTmpFile t) => if Bool.eqb r reserve then Some (PTmp t) else None
  | PTmp t, EWrite (LTmpFile t') _ => if beq t t' then Some (PTmp t) else None
  | PTmp t, EFsync (LTmpFile t') => if beq t t' then Some (PSynced t) else None
  | PSynced t, EFsync (LTmpFile t') => if beq t t' then Some (PSynced t) else None
  | PSynced t, ERename (LTmpFile t') (LFile g) => if beq t t' && beq g f then Some (PRenamed t) else None
  | PRenamed t, EFsync LBaseDir => Some (PDone t)
  | PDone t, EFsync LBaseDir => Some (PDone t)
  | PDone t, EUnlink (LTmpFile t') => if beq t t' then Some (PDone t) else None
  | _, _ => None
  end.

Fixpoint proto_run (f : bytes) (reserve : bool) (st : pstate) (evs : list event) : option pstate :=
  match evs with
  | [] => Some st
  | e :: r => match proto_step f reserve st e with
              | Some st' => proto_run f reserve st' r
              | None => None
              end
  end.

(* every prefix of an accepted trace is accepted by construction; a COMPLETE
   successful operation must end in PDone *)
Definition protocol_prefix_ok (f : bytes) (reserve : bool) (evs : list event) : bool :=
  match proto_run f reserve (PStart false) evs with Some _ => true | None => false end.
Definition protocol_complete_ok (f : bytes) (reserve : bool) (evs : list event) : bool :=
  match proto_run f reserve (PStart false) evs with Some (PDone _) => true | _ => false end.

(* ---- durability of directory-only operations (set-admin, remove) ----
   every entry change of the base directory is followed by an fsync of the
   base directory before the operation returns *)
Fixpoint base_changes_synced (evs : list event) (pending : bool) : bool :=
  match evs with
  | [] => negb pending
  | EFsync LBaseDir :: r => base_changes_synced r false
  | ERename _ (LFile _) :: r | ERename (LFile _) _ :: r | EUnlink (LFile _) :: r | ECreate (LFile _) :: r =>
      base_changes_synced r true
  | _ :: r => base_changes_synced r pending
  end.
Definition durability_ok (evs : list event) : bool := base_changes_synced evs false.

(* the data a trace writes into work-area files (in order) *)
Fixpoint tmp_data (evs : list event) : bytes :=
  match evs with
  | [] => []
  | EWrite (LTmpFile _) data :: r => data ++ tmp_data r
  | _ :: r => tmp_data r
  end.

Definition target_pre (f : bytes) (reserve : bool) (d : disk) : Prop :=
  if reserve then elookup f (base_vol d) = None
  else exists i, elookup f (base_vol d) = Some i.

(* os.CreateTemp opens with O_EXCL: the temp name is new in the work area *)
Definition tmp_fresh (evs : list event) (d : disk) : Prop :=
  forall t, In (ECreate (LTmpFile t)) evs -> elookup t (tmp_vol d) = None.

(* ---- failing operations: the discipline together with its clean-up ----
   An operation that fails (I/O error, refusal by the kernel) stops somewhere
   before the rename and removes what it created: first the temp file, then -
   add only - the reservation of the final name.  After the rename an update
   removes nothing any more (a failing fsync of the base directory just ends
   the trace); a failing add withdraws the record it has just installed.  [XAbort rsv]: clean-up in progress, [rsv] = the reservation is
   still there. *)
Inductive xstate := XRun (st : pstate) | XAbort (rsv : bool).

Definition abort_step (f : bytes) (reserve : bool) (st : pstate) (e : event) : option xstate :=
  match st, e with
  | PStart true, EUnlink (LFile g) => if beq g f then Some (XAbort false) else None
  | PTmp t, EUnlink (LTmpFile t') | PSynced t, EUnlink (LTmpFile t') =>
      if beq t t' then Some (XAbort reserve) else None
  (* add only: an error after the rename (base directory cannot be opened or
     fsynced) withdraws the new, complete record again *)
  | PRenamed _, EUnlink (LFile g) => if reserve && beq g f then Some (XAbort false) else None
  | _, _ => None
  end.

Definition proto_step_x (f : bytes) (reserve : bool) (x : xstate) (e : event) : option xstate :=
  match x with
  | XRun st =>
      match proto_step f reserve st e with
      | Some st' => Some (XRun st')
      | None => abort_step f reserve st e
      end
  | XAbort true =>
      match e with
      | EUnlink (LFile g) => if beq g f then Some (XAbort false) else None
      | _ => None
      end
  | XAbort false => None
  end.

Fixpoint proto_run_x (f : bytes) (reserve : bool) (x : xstate) (evs : list event) : option xstate :=
  match evs with
  | [] => Some x
  | e :: r => match proto_step_x f reserve x e with
              | Some x' => proto_run_x f reserve x' r
              | None => None
              end
  end.

Definition protocol_prefix_x_ok (f : bytes) (reserve : bool) (evs : list event) : bool :=
  match proto_run_x f reserve (XRun (PStart false)) evs with Some _ => true | None => false end.
