(* Frontends.v — how each authentication frontend of the agent turns what its
   transport delivers into the (user, password) pair it hands to the store,
   and its verdict.  The transports themselves (HTTP, JSON, BER/LDAP, TLS,
   the command line) are identity on the decoded values within their limits. *)
From Whawty Require Import Bytes.
Open Scope N_scope.

Inductive frontend := FSasl | FBasic | FApi | FLdap | FCli.

Definition nonempty (x : bytes) : bool := match x with [] => false | _ => true end.

(* the name looked up in the store *)
Definition name_of (fe : frontend) (u : bytes) : bytes :=
  match fe with
  | FLdap => fst (fst (cut 64 u))           (* strings.Cut(bindDN, "@") *)
  | _ => u
  end.

(* the transport's documented limits *)
Definition in_limits (max : N) (fe : frontend) (u p : bytes) : bool :=
  match fe with
  | FSasl => nonempty u && nonempty p && (len u <=? max) && (len p <=? max)
  | FBasic => negb (contains 58 u)            (* the header is user ":" password *)
  | FApi => nonempty u && nonempty p
  | FLdap => nonempty p                       (* an empty password is an anonymous bind *)
  | FCli => nonempty u && nonempty p          (* an empty argument means "prompt" *)
  end.

Section FE.
  Variable max : N.
  (* the store's verdict, and whether the store call reported an error *)
  Variable store_ok : bytes -> bytes -> bool.
  Variable store_err : bytes -> bytes -> bool.
  Hypothesis err_is_not_ok : forall u p, store_err u p = true -> store_ok u p = false.

  (* sasl_socket.go callback / handleWebBasicAuth / handleWebAuthenticate /
     ldapHandler.Bind / cmdAuthenticate, after the transport has delivered u, p *)
  Definition accepts (fe : frontend) (u p : bytes) : bool :=
    if negb (in_limits max fe u p) then
      match fe with
      | FBasic =>
          (* a ':' in the user name moves the split point: another pair reaches the store *)
          match cut 58 (u ++ [58] ++ p) with (u', p', _) => store_ok u' p' end
      | FLdap => store_ok (name_of fe u) p
      | _ => false                             (* refused before the store is asked *)
      end
    else
      if store_err (name_of fe u) p then false
      else store_ok (name_of fe u) p.

  Theorem accepts_iff_store fe u p :
    in_limits max fe u p = true ->
    accepts fe u p = store_ok (name_of fe u) p.
  Proof.
    intros H. unfold accepts. rewrite H. cbn [negb].
    destruct (store_err (name_of fe u) p) eqn:E; [|reflexivity].
    symmetry. apply err_is_not_ok. exact E.
  Qed.

  Theorem error_is_denial fe u p :
    in_limits max fe u p = true -> store_err (name_of fe u) p = true -> accepts fe u p = false.
  Proof. intros H E. unfold accepts. rewrite H, E. reflexivity. Qed.

  (* no alteration: within the limits the pair handed to the store is the
     delivered pair (for LDAP: the name up to the first '@') - syntactically *)
  Theorem no_alteration fe u p :
    in_limits max fe u p = true -> fe <> FLdap ->
    accepts fe u p = (if store_err u p then false else store_ok u p).
  Proof. intros H Hn. unfold accepts. rewrite H. destruct fe; try contradiction; reflexivity. Qed.

  Theorem ldap_name_is_prefix u :
    contains 64 u = false -> name_of FLdap u = u.
  Proof.
    intros H. unfold name_of, cut, contains in *. destruct (index_of 64 u); [discriminate|reflexivity].
  Qed.
End FE.
