(* DurHist.v — durability over HISTORIES of operations (C09: "for every successful
   mutating operation in any history ... fault sequences").

   The single-operation theorems of Crash_proofs.v start from a base directory whose
   entries are all durable.  A FAILED operation need not leave it so: a set-admin or
   remove whose directory fsync failed has renamed / unlinked, reported the error, and
   left an entry change pending that a power loss may still undo.  What is then required
   of the NEXT acknowledged operation on the same user is part of C09 - the caller retries,
   is told "ok", and the machine loses power.

   [dirty_names_after evs dn]: the names of the base directory whose entry may differ
   between stable storage and what running processes see, after the events [evs], given
   that [dn] were in that state before.  An fsync of the base directory cleans all of
   them; every create / rename / unlink of a base entry makes its name(s) dirty.

   [hist_ok h dn]: every step of the observed history has one of the two shapes the
   store's operations have (the write discipline with its clean-up; directory-only
   operations) and every acknowledged mutating operation on user u leaves u's two file
   names clean.  Soundness (DurHist_proofs.history_acked_durable): then every crash state
   after the acknowledged operation shows, under u's names, exactly what running
   processes saw when it returned. *)
From Whawty Require Import Bytes Store StoreTrace Crash.
Open Scope N_scope.

Fixpoint dirty_names_after (evs : list event) (dn : list bytes) : list bytes :=
  match evs with
  | [] => dn
  | EFsync LBaseDir :: r => dirty_names_after r []
  | ERename (LFile a) (LFile b) :: r => dirty_names_after r (a :: b :: dn)
  | ERename _ (LFile b) :: r => dirty_names_after r (b :: dn)
  | ERename (LFile a) _ :: r => dirty_names_after r (a :: dn)
  | EUnlink (LFile a) :: r => dirty_names_after r (a :: dn)
  | ECreate (LFile a) :: r => dirty_names_after r (a :: dn)
  | _ :: r => dirty_names_after r dn
  end.

Fixpoint bmem (x : bytes) (l : list bytes) : bool :=
  match l with
  | [] => false
  | y :: r => beq x y || bmem x r
  end.

(* the shape of one step's trace *)
Inductive hshape :=
| HWrite (f : bytes) (reserve : bool)   (* add (reserve = true) / update of the file f: discipline + clean-up *)
| HDir.                                 (* set-admin, remove, read-only and refused calls: directory operations only *)

Record hstep := {
  h_shape : hshape;
  h_ack : option bytes;      (* Some u: a MUTATING operation on user u reported success *)
  h_evs : list event
}.

Definition dir_only_b (evs : list event) : bool :=
  forallb (fun e => match e with
                    | ERename (LFile _) (LFile _) | EUnlink (LFile _) | EFsync LBaseDir => true
                    | _ => false
                    end) evs.

Definition step_shape_ok (s : hstep) : bool :=
  match h_shape s with
  | HWrite f rv => protocol_prefix_x_ok f rv (h_evs s)
  | HDir => dir_only_b (h_evs s)
  end.

Definition ack_clean (s : hstep) (dn : list bytes) : bool :=
  match h_ack s with
  | Some u => negb (bmem (u ++ ext_user) dn) && negb (bmem (u ++ ext_admin) dn)
  | None => true
  end.

Fixpoint hist_ok (h : list hstep) (dn : list bytes) : bool :=
  match h with
  | [] => true
  | s :: r =>
      let dn' := dirty_names_after (h_evs s) dn in
      step_shape_ok s && ack_clean s dn' && hist_ok r dn'
  end.

(* the first step (if any) at which an acknowledgement leaves its user's names dirty *)
Fixpoint first_dirty_ack (h : list hstep) (dn : list bytes) (k : nat) : option nat :=
  match h with
  | [] => None
  | s :: r =>
      let dn' := dirty_names_after (h_evs s) dn in
      if ack_clean s dn' then first_dirty_ack r dn' (S k) else Some k
  end.

Definition hist_events (h : list hstep) : list event := concat (map h_evs h).
